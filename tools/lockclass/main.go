// lockclass: static lock facts of the socket.io-go working tree (translator of property C16).
//
// Usage: lockclass -repo /repo -json facts.json
//
// Loads the non-example packages of the repository (go/packages, offline), builds SSA
// (generics instantiated), and emits:
//
//   - classes   one lock class per mutex / RWMutex / Once *field*, package-level variable or local
//     variable ("sio.clientSocket.stateMu", "eio.serverSocket.closeOnce",
//     "sio.(*clientSocket).onPacket.mu");
//   - sites     every Lock / RLock / Once.Do call site file:line -> class, mode;
//   - edges     static may-hold-while-acquiring pairs (held class -> acquired class) with a witness
//     (the function and line where the second lock is requested while the first may be held);
//   - usercalls every call site that runs user code (reflect.Value.Call, calls of values of exported
//     named func types, calls of func-typed fields of exported config structs) together
//     with the classes that may be held there (incl. held by callers, one call level
//     per summary, transitive through summaries);
//   - leaks     functions that may return with a lock they acquired still held (and are not
//     obviously lock-handoff helpers).
//
// Precision (be honest): flow-sensitive inside a function (may-hold = union over paths, `defer
// mu.Unlock()` keeps the lock to the end of the function), summaries across calls (acquired*,
// usercalls*, net lock effect), call targets from VTA over CHA restricted to repository
// functions; calls made through `go` start with an empty held set; function values handed to
// functions outside the repository are assumed to be called synchronously by them, except the
// known asynchronous ones (time.AfterFunc).  Classes are per field, not per object: two sockets'
// mutexes of the same field are one class (a same-class nesting is therefore reported as a
// self-edge).  Path-insensitivity can only add edges, never lose one; what can be lost: locks
// passed through interfaces of other modules, reflection-invoked repository functions, and
// classes of mutexes reached through untracked pointers (reported as class "?...").
package main

import (
	"encoding/json"
	"flag"
	"fmt"
	"go/constant"
	"go/token"
	"go/types"
	"os"
	"path/filepath"
	"sort"
	"strings"

	"golang.org/x/tools/go/callgraph"
	"golang.org/x/tools/go/callgraph/cha"
	"golang.org/x/tools/go/callgraph/vta"
	"golang.org/x/tools/go/packages"
	"golang.org/x/tools/go/ssa"
	"golang.org/x/tools/go/ssa/ssautil"
)

const modPath = "github.com/karagenc/socket.io-go"

type Site struct {
	File  string `json:"file"`
	Line  int    `json:"line"`
	Class string `json:"class"`
	Mode  string `json:"mode"` // L, R, O(nce)
	Func  string `json:"func"`
}

type Edge struct {
	From    string `json:"from"`
	To      string `json:"to"`
	Func    string `json:"func"` // function in which `to` is requested (directly or through the call at Line)
	File    string `json:"file"` // position of the request / the call
	Line    int    `json:"line"`
	Via     string `json:"via"`     // "" = direct Lock at file:line, else callee through which `to` is acquired
	ToSite  string `json:"to_site"` // a site where `to` is locked
	FromPos string `json:"from_pos"`
}

type UserCall struct {
	File string   `json:"file"`
	Line int      `json:"line"`
	Func string   `json:"func"`
	Kind string   `json:"kind"`
	Held []string `json:"held"`
	How  []string `json:"how"` // for each held class: where it is held (function:line of the call chain head)
}

type Leak struct {
	Func     string   `json:"func"`
	Classes  []string `json:"classes"`
	Exported bool     `json:"exported"`
}

type Facts struct {
	Classes   []string       `json:"classes"`
	Sites     []Site         `json:"sites"`
	Edges     []Edge         `json:"edges"`
	UserCalls []UserCall     `json:"usercalls"`
	Leaks     []Leak         `json:"leaks"`
	Unknown   []string       `json:"unknown"` // lock operations whose class could not be determined
	Stats     map[string]int `json:"stats"`
}

var (
	fset              *token.FileSet
	repoDir           string
	prog              *ssa.Program
	cg                *callgraph.Graph
	unknown           = map[string]bool{}
	closureParentSite = map[*ssa.Function]*ssa.MakeClosure{}
)

func shortPkg(p *types.Package) string {
	if p == nil {
		return "?"
	}
	path := p.Path()
	switch {
	case path == modPath:
		return "sio"
	case path == modPath+"/engine.io":
		return "eio"
	case strings.HasPrefix(path, modPath+"/engine.io/transport/"):
		return "eio." + strings.TrimPrefix(path, modPath+"/engine.io/transport/")
	case strings.HasPrefix(path, modPath+"/"):
		return strings.ReplaceAll(strings.TrimPrefix(path, modPath+"/"), "/", ".")
	}
	return path
}

func inRepo(f *ssa.Function) bool {
	if f == nil {
		return false
	}
	// synthetic wrappers (bound method values `c.onClose`, thunks) have no package: they belong
	// to the package of the method they wrap
	if f.Pkg == nil && f.Synthetic != "" && f.Object() != nil && f.Object().Pkg() != nil {
		return strings.HasPrefix(f.Object().Pkg().Path(), modPath)
	}
	p := f.Pkg
	if p == nil && f.Origin() != nil {
		p = f.Origin().Pkg
	}
	for p == nil && f.Parent() != nil {
		f = f.Parent()
		p = f.Pkg
		if p == nil && f.Origin() != nil {
			p = f.Origin().Pkg
		}
	}
	return p != nil && p.Pkg != nil && strings.HasPrefix(p.Pkg.Path(), modPath)
}

func relPos(p token.Pos) (string, int) {
	if !p.IsValid() {
		return "?", 0
	}
	pos := fset.Position(p)
	r, err := filepath.Rel(repoDir, pos.Filename)
	if err != nil {
		r = pos.Filename
	}
	return r, pos.Line
}

func funcName(f *ssa.Function) string {
	// strip type arguments so that names are stable
	s := f.RelString(nil)
	s = strings.ReplaceAll(s, modPath+"/engine.io/transport/", "eio.")
	s = strings.ReplaceAll(s, modPath+"/engine.io", "eio")
	s = strings.ReplaceAll(s, modPath+"/", "")
	s = strings.ReplaceAll(s, modPath, "sio")
	if i := strings.Index(s, "["); i >= 0 {
		// drop [T] instantiation
		depth := 0
		out := []byte{}
		for j := 0; j < len(s); j++ {
			if s[j] == '[' {
				depth++
				continue
			}
			if s[j] == ']' {
				depth--
				continue
			}
			if depth == 0 {
				out = append(out, s[j])
			}
		}
		s = string(out)
	}
	return s
}

// ---------------------------------------------------------------- lock operations

type lockKind int

const (
	opNone lockKind = iota
	opLock
	opRLock
	opUnlock
	opRUnlock
	opOnceDo
)

func lockOp(c *ssa.CallCommon) lockKind {
	if c.IsInvoke() {
		// sync.Locker interface
		return opNone
	}
	f := c.StaticCallee()
	if f == nil {
		return opNone
	}
	switch f.String() {
	case "(*sync.Mutex).Lock", "(*sync.RWMutex).Lock", "(*github.com/sasha-s/go-deadlock.Mutex).Lock", "(*github.com/sasha-s/go-deadlock.RWMutex).Lock":
		return opLock
	case "(*sync.RWMutex).RLock", "(*github.com/sasha-s/go-deadlock.RWMutex).RLock":
		return opRLock
	case "(*sync.Mutex).Unlock", "(*sync.RWMutex).Unlock", "(*github.com/sasha-s/go-deadlock.Mutex).Unlock", "(*github.com/sasha-s/go-deadlock.RWMutex).Unlock":
		return opUnlock
	case "(*sync.RWMutex).RUnlock", "(*github.com/sasha-s/go-deadlock.RWMutex).RUnlock":
		return opRUnlock
	case "(*sync.Once).Do", "(*github.com/sasha-s/go-deadlock.Once).Do":
		return opOnceDo
	}
	return opNone
}

func namedOf(t types.Type) *types.Named {
	for {
		switch u := t.(type) {
		case *types.Pointer:
			t = u.Elem()
			continue
		case *types.Named:
			return u
		case *types.Alias:
			t = types.Unalias(u)
			continue
		}
		return nil
	}
}

func structOf(t types.Type) *types.Struct {
	for {
		switch u := t.(type) {
		case *types.Pointer:
			t = u.Elem()
			continue
		case *types.Named:
			t = u.Underlying()
			continue
		case *types.Alias:
			t = types.Unalias(u)
			continue
		case *types.Struct:
			return u
		}
		return nil
	}
}

// classOf names the lock class of the receiver value of a lock operation.
func classOf(v ssa.Value, depth int) string {
	if depth > 8 {
		return "?deep"
	}
	switch x := v.(type) {
	case *ssa.FieldAddr:
		st := structOf(x.X.Type())
		fname := "?"
		if st != nil {
			fname = st.Field(x.Field).Name()
		}
		if n := namedOf(x.X.Type()); n != nil {
			o := n.Origin().Obj()
			return shortPkg(o.Pkg()) + "." + o.Name() + "." + fname
		}
		// field of an anonymous struct: qualify by what holds it
		return classOf(x.X, depth+1) + "." + fname
	case *ssa.Field:
		st := structOf(x.X.Type())
		fname := "?"
		if st != nil {
			fname = st.Field(x.Field).Name()
		}
		if n := namedOf(x.X.Type()); n != nil {
			o := n.Origin().Obj()
			return shortPkg(o.Pkg()) + "." + o.Name() + "." + fname
		}
		return classOf(x.X, depth+1) + "." + fname
	case *ssa.Alloc:
		name := x.Comment
		if name == "" || name == "new" || name == "complit" {
			_, line := relPos(x.Pos())
			name = fmt.Sprintf("%s@%d", name, line)
		}
		return funcName(outermost(x.Parent())) + "." + name
	case *ssa.Global:
		return shortPkg(x.Pkg.Pkg) + "." + x.Name()
	case *ssa.UnOp:
		if x.Op == token.MUL {
			// pointer-typed field / variable holding *Mutex: class of the cell it is loaded from
			return classOf(x.X, depth+1) + "*"
		}
	case *ssa.FreeVar:
		fn := x.Parent()
		if mc := closureParentSite[fn]; mc != nil {
			for i, fv := range fn.FreeVars {
				if fv == x && i < len(mc.Bindings) {
					return classOf(mc.Bindings[i], depth+1)
				}
			}
		}
		return "?freevar:" + funcName(fn) + "." + x.Name()
	case *ssa.Parameter:
		return "?param:" + funcName(x.Parent()) + "." + x.Name()
	case *ssa.Call:
		// new(sync.Mutex) is an Alloc; a call returning *Mutex is unknown
		return "?call:" + x.String()
	case *ssa.Phi:
		if len(x.Edges) > 0 {
			return classOf(x.Edges[0], depth+1)
		}
	case *ssa.ChangeType:
		return classOf(x.X, depth+1)
	case *ssa.MakeInterface:
		return classOf(x.X, depth+1)
	}
	return fmt.Sprintf("?%T", v)
}

func outermost(f *ssa.Function) *ssa.Function {
	for f.Parent() != nil {
		f = f.Parent()
	}
	return f
}

// ---------------------------------------------------------------- call targets

func callees(site ssa.CallInstruction) []*ssa.Function {
	c := site.Common()
	if f := c.StaticCallee(); f != nil {
		return []*ssa.Function{f}
	}
	if mc, ok := c.Value.(*ssa.MakeClosure); ok && !c.IsInvoke() {
		return []*ssa.Function{mc.Fn.(*ssa.Function)}
	}
	var out []*ssa.Function
	n := cg.Nodes[site.Parent()]
	if n == nil {
		return nil
	}
	for _, e := range n.Out {
		if e.Site == site && e.Callee != nil && e.Callee.Func != nil {
			out = append(out, e.Callee.Func)
		}
	}
	return out
}

// function-typed arguments handed to a function outside the repository: assumed to be invoked
// synchronously by it (mapset.Each, sort.Slice, sync.OnceFunc, ...), except known async APIs.
func escapingFuncArgs(c *ssa.CallCommon) []*ssa.Function {
	f := c.StaticCallee()
	if f != nil && inRepo(f) {
		return nil
	}
	if f != nil {
		switch f.String() {
		case "time.AfterFunc", "(*sync.Once).Do":
			return nil
		}
	}
	var out []*ssa.Function
	for _, a := range c.Args {
		switch x := a.(type) {
		case *ssa.MakeClosure:
			out = append(out, x.Fn.(*ssa.Function))
		case *ssa.Function:
			if inRepo(x) {
				out = append(out, x)
			}
		case *ssa.MakeInterface:
			if mc, ok := x.X.(*ssa.MakeClosure); ok {
				out = append(out, mc.Fn.(*ssa.Function))
			}
		}
	}
	return out
}

// userCallKind: non-empty when the call runs code supplied by the user of the library.
func userCallKind(site ssa.CallInstruction) string {
	c := site.Common()
	if c.IsInvoke() {
		return ""
	}
	if f := c.StaticCallee(); f != nil {
		if f.String() == "(reflect.Value).Call" || f.String() == "(reflect.Value).CallSlice" {
			return "reflect.Value.Call"
		}
		return ""
	}
	if _, ok := c.Value.(*ssa.MakeClosure); ok {
		return ""
	}
	if _, ok := c.Value.(*ssa.Builtin); ok {
		return ""
	}
	// dynamic call of a function value
	t := c.Value.Type()
	if n, ok := types.Unalias(t).(*types.Named); ok {
		if n.Obj().Exported() && n.Obj().Pkg() != nil && strings.HasPrefix(n.Obj().Pkg().Path(), modPath) {
			return "func-type " + shortPkg(n.Obj().Pkg()) + "." + n.Obj().Name()
		}
	}
	// value loaded from an exported field of an exported struct (config callbacks) or from such a
	// value stored earlier
	if k := loadedFromExportedField(c.Value, 0); k != "" {
		return "config-field " + k
	}
	return ""
}

func loadedFromExportedField(v ssa.Value, depth int) string {
	if depth > 4 {
		return ""
	}
	switch x := v.(type) {
	case *ssa.UnOp:
		if x.Op == token.MUL {
			return loadedFromExportedField(x.X, depth+1)
		}
	case *ssa.FieldAddr:
		st := structOf(x.X.Type())
		n := namedOf(x.X.Type())
		if st != nil && n != nil && st.Field(x.Field).Exported() && n.Obj().Exported() &&
			n.Obj().Pkg() != nil && strings.HasPrefix(n.Obj().Pkg().Path(), modPath) {
			return shortPkg(n.Obj().Pkg()) + "." + n.Obj().Name() + "." + st.Field(x.Field).Name()
		}
	case *ssa.Field:
		st := structOf(x.X.Type())
		n := namedOf(x.X.Type())
		if st != nil && n != nil && st.Field(x.Field).Exported() && n.Obj().Exported() &&
			n.Obj().Pkg() != nil && strings.HasPrefix(n.Obj().Pkg().Path(), modPath) {
			return shortPkg(n.Obj().Pkg()) + "." + n.Obj().Name() + "." + st.Field(x.Field).Name()
		}
	}
	return ""
}

// ---------------------------------------------------------------- summaries

type heldSet map[string]token.Pos // class -> where acquired (first seen)

func (h heldSet) clone() heldSet {
	n := make(heldSet, len(h))
	for k, v := range h {
		n[k] = v
	}
	return n
}

func (h heldSet) union(o heldSet) bool {
	ch := false
	for k, v := range o {
		if _, ok := h[k]; !ok {
			h[k] = v
			ch = true
		}
	}
	return ch
}

type userSite struct {
	pos  token.Pos
	fn   *ssa.Function
	kind string
}

type summary struct {
	acq      map[string]token.Pos       // classes acquired (transitively, synchronous calls only) -> a site
	acqExcl  map[string]map[string]bool // class -> classes held by the caller that are certainly released when it is requested
	users    map[token.Pos]userSite
	userExcl map[token.Pos]map[string]bool
	leaks    heldSet         // acquired here (or in callees) and possibly still held at return
	releases map[string]bool // released without having been acquired in this function (some path)
	mustRel  map[string]bool // caller-held classes certainly released (and not re-acquired) at every return; nil = not yet known
}

// A summary is computed per (function, assignment of constant bool arguments to the parameters the
// function branches on): `forEach(f, true)` (handlers on a fresh goroutine) and `forEach(f, false)`
// are different contexts, so are `connect(false)` and `connect(true)`.
type ctxKey struct {
	f *ssa.Function
	k string
}

var (
	sums      = map[ctxKey]*summary{}
	known     []ctxKey
	condParam = map[*ssa.Function]map[int]bool{}
)

func condParams(f *ssa.Function) map[int]bool {
	if m, ok := condParam[f]; ok {
		return m
	}
	m := map[int]bool{}
	for _, b := range f.Blocks {
		if len(b.Instrs) == 0 {
			continue
		}
		if x, ok := b.Instrs[len(b.Instrs)-1].(*ssa.If); ok {
			if p, _ := condOf(x.Cond); p != nil && p.Parent() == f {
				for i, q := range f.Params {
					if q == p {
						m[i] = true
					}
				}
			}
		}
	}
	condParam[f] = m
	return m
}

// condOf: cond is parameter p (neg=false) or !p (neg=true)
func condOf(v ssa.Value) (*ssa.Parameter, bool) {
	switch x := v.(type) {
	case *ssa.Parameter:
		return x, false
	case *ssa.UnOp:
		if x.Op == token.NOT {
			if p, neg := condOf(x.X); p != nil {
				return p, !neg
			}
		}
	}
	return nil, false
}

func parseKey(k string) map[int]bool {
	m := map[int]bool{}
	for _, part := range strings.Split(k, ",") {
		var i int
		var c byte
		if n, _ := fmt.Sscanf(part, "%d=%c", &i, &c); n == 2 {
			m[i] = c == 'T'
		}
	}
	return m
}

// callKey: the context under which g is entered from `site` executed in context (f, fk)
func callKey(site ssa.CallInstruction, g *ssa.Function, fk map[int]bool) string {
	cp := condParams(g)
	if len(cp) == 0 {
		return ""
	}
	c := site.Common()
	off := 0
	if c.IsInvoke() {
		off = 1
	}
	if c.StaticCallee() == nil && !c.IsInvoke() {
		// closure / function value: Args align with Params
	}
	var parts []string
	for i, a := range c.Args {
		idx := i + off
		if !cp[idx] || idx >= len(g.Params) {
			continue
		}
		switch x := a.(type) {
		case *ssa.Const:
			if b, ok := x.Type().Underlying().(*types.Basic); ok && b.Kind() == types.Bool || x.Value != nil && x.Value.Kind() == constant.Bool {
				v := 'F'
				if constant.BoolVal(x.Value) {
					v = 'T'
				}
				parts = append(parts, fmt.Sprintf("%d=%c", idx, v))
			}
		case *ssa.Parameter:
			f := site.Parent()
			for j, q := range f.Params {
				if q == x {
					if v, ok := fk[j]; ok {
						c := 'F'
						if v {
							c = 'T'
						}
						parts = append(parts, fmt.Sprintf("%d=%c", idx, c))
					}
				}
			}
		}
	}
	return strings.Join(parts, ",")
}

func getSum(f *ssa.Function, k string) *summary {
	key := ctxKey{f, k}
	s := sums[key]
	if s == nil {
		s = &summary{acq: map[string]token.Pos{}, acqExcl: map[string]map[string]bool{}, users: map[token.Pos]userSite{},
			userExcl: map[token.Pos]map[string]bool{}, leaks: heldSet{}, releases: map[string]bool{}}
		sums[key] = s
		known = append(known, key)
	}
	return s
}

type emitter struct {
	sites     map[string]Site
	edges     map[string]Edge
	usercalls map[token.Pos]*UserCall
	ucHeld    map[token.Pos]map[string]string
}

type mustSet map[string]bool

func (m mustSet) clone() mustSet {
	n := make(mustSet, len(m))
	for k := range m {
		n[k] = true
	}
	return n
}

// intersect narrows m to m ∩ o; reports change.
func (m mustSet) intersect(o mustSet) bool {
	ch := false
	for k := range m {
		if !o[k] {
			delete(m, k)
			ch = true
		}
	}
	return ch
}

// analyse runs the intra-procedural analysis of f using the current summaries of its callees:
// `held` = classes that may be held (acquired in f or leaked by callees), `rel` = classes held by
// the caller that are certainly released at this point (apply()'s unlock-around-callback).
// Updates f's summary (returns true if it changed) and, when em != nil, emits facts.
func analyse(f *ssa.Function, fk string, em *emitter) bool {
	if len(f.Blocks) == 0 {
		return false
	}
	fkm := parseKey(fk)
	old := getSum(f, fk)
	// summaries are recomputed from scratch from the callees' current summaries
	sum := &summary{acq: map[string]token.Pos{}, acqExcl: map[string]map[string]bool{}, users: map[token.Pos]userSite{},
		userExcl: map[token.Pos]map[string]bool{}, leaks: heldSet{}, releases: map[string]bool{}}
	changed := false
	_ = changed
	defer func() { sums[ctxKey{f, fk}] = sum }()
	addAcq := func(c string, p token.Pos, excl mustSet) {
		if _, ok := sum.acq[c]; !ok {
			sum.acq[c] = p
			sum.acqExcl[c] = excl.clone()
			changed = true
			return
		}
		if mustSet(sum.acqExcl[c]).intersect(excl) {
			changed = true
		}
	}
	addUser := func(u userSite, excl mustSet) {
		if _, ok := sum.users[u.pos]; !ok {
			sum.users[u.pos] = u
			sum.userExcl[u.pos] = excl.clone()
			changed = true
			return
		}
		if mustSet(sum.userExcl[u.pos]).intersect(excl) {
			changed = true
		}
	}

	var deferred []*ssa.Defer
	for _, b := range f.Blocks {
		for _, ins := range b.Instrs {
			if d, ok := ins.(*ssa.Defer); ok {
				deferred = append(deferred, d)
			}
		}
	}

	emitEdge := func(held heldSet, to string, pos token.Pos, via string, toSite token.Pos, excl map[string]bool) {
		if em == nil {
			return
		}
		for h, hp := range held {
			if excl[h] {
				continue
			}
			file, line := relPos(pos)
			key := h + "->" + to
			if old, ok := em.edges[key]; ok && (old.Via == "" || via != "") {
				continue
			}
			tf, tl := relPos(toSite)
			ff, fl := relPos(hp)
			em.edges[key] = Edge{From: h, To: to, Func: funcName(f), File: file, Line: line, Via: via,
				ToSite: fmt.Sprintf("%s:%d", tf, tl), FromPos: fmt.Sprintf("%s:%d", ff, fl)}
		}
	}
	emitUser := func(held heldSet, u userSite, excl map[string]bool) {
		if em == nil {
			return
		}
		uc := em.usercalls[u.pos]
		if uc == nil {
			file, line := relPos(u.pos)
			uc = &UserCall{File: file, Line: line, Func: funcName(u.fn), Kind: u.kind}
			em.usercalls[u.pos] = uc
			em.ucHeld[u.pos] = map[string]string{}
		}
		for h, hp := range held {
			if excl[h] {
				continue
			}
			if _, ok := em.ucHeld[u.pos][h]; !ok {
				ff, fl := relPos(hp)
				em.ucHeld[u.pos][h] = fmt.Sprintf("%s (locked at %s:%d)", funcName(f), ff, fl)
			}
		}
	}

	type state struct {
		held heldSet
		rel  mustSet
	}
	union2 := func(a, b map[string]bool) mustSet {
		n := mustSet{}
		for k := range a {
			n[k] = true
		}
		for k := range b {
			n[k] = true
		}
		return n
	}

	release := func(st *state, cls string) {
		if _, ok := st.held[cls]; ok {
			delete(st.held, cls)
			return
		}
		st.rel[cls] = true
		if !sum.releases[cls] {
			sum.releases[cls] = true
			changed = true
		}
	}

	// applyCall: effect of synchronously calling g in state st
	applyCall := func(st *state, g *ssa.Function, pos token.Pos, site ssa.CallInstruction) {
		if !inRepo(g) {
			return
		}
		gk := ""
		if site != nil {
			gk = callKey(site, g, fkm)
		}
		gs := getSum(g, gk)
		for c, p := range gs.acq {
			addAcq(c, p, union2(st.rel, gs.acqExcl[c]))
			emitEdge(st.held, c, pos, funcName(g), p, gs.acqExcl[c])
		}
		for _, u := range gs.users {
			addUser(u, union2(st.rel, gs.userExcl[u.pos]))
			emitUser(st.held, u, gs.userExcl[u.pos])
		}
		for c := range gs.mustRel {
			release(st, c)
		}
		for c := range gs.releases {
			// may-release of a caller-held class propagates upwards (informational: such a
			// class handed back later is not a leak)
			if _, ok := st.held[c]; !ok {
				sum.releases[c] = true
			}
		}
		for c, p := range gs.leaks {
			if _, ok := st.held[c]; !ok {
				st.held[c] = p
			}
			delete(st.rel, c)
		}
	}

	handleCall := func(st *state, site ssa.CallInstruction) {
		c := site.Common()
		pos := site.Pos()
		if !pos.IsValid() {
			pos = c.Pos()
		}
		op := lockOp(c)
		switch op {
		case opLock, opRLock, opOnceDo:
			cls := classOf(c.Args[0], 0)
			file, line := relPos(pos)
			if strings.HasPrefix(cls, "?") {
				unknown[fmt.Sprintf("%s:%d %s", file, line, cls)] = true
			}
			addAcq(cls, pos, st.rel)
			emitEdge(st.held, cls, pos, "", pos, nil)
			if em != nil {
				mode := map[lockKind]string{opLock: "L", opRLock: "R", opOnceDo: "O"}[op]
				em.sites[fmt.Sprintf("%s:%d", file, line)] = Site{File: file, Line: line, Class: cls, Mode: mode, Func: funcName(f)}
			}
			if op == opOnceDo {
				inner := &state{held: st.held.clone(), rel: st.rel.clone()}
				inner.held[cls] = pos
				var bodies []*ssa.Function
				switch b := c.Args[1].(type) {
				case *ssa.MakeClosure:
					bodies = append(bodies, b.Fn.(*ssa.Function))
				case *ssa.Function:
					bodies = append(bodies, b)
				default:
					bodies = callees(site)
				}
				for _, g := range bodies {
					applyCall(inner, g, pos, nil)
				}
				return
			}
			if _, ok := st.held[cls]; !ok {
				st.held[cls] = pos
			}
			delete(st.rel, cls)
			return
		case opUnlock, opRUnlock:
			release(st, classOf(c.Args[0], 0))
			return
		}
		if k := userCallKind(site); k != "" {
			u := userSite{pos: pos, fn: f, kind: k}
			addUser(u, st.rel)
			emitUser(st.held, u, nil)
		}
		for _, g := range callees(site) {
			applyCall(st, g, pos, site)
		}
		for _, g := range escapingFuncArgs(c) {
			applyCall(st, g, pos, nil)
		}
	}

	in := make([]*state, len(f.Blocks))
	in[0] = &state{held: heldSet{}, rel: mustSet{}}
	work := []int{0}
	inWork := map[int]bool{0: true}
	exitHeld := heldSet{}
	var exitRel mustSet
	steps := 0
	for len(work) > 0 && steps < 20000 {
		steps++
		bi := work[0]
		work = work[1:]
		inWork[bi] = false
		b := f.Blocks[bi]
		st := &state{held: in[bi].held.clone(), rel: in[bi].rel.clone()}
		for _, ins := range b.Instrs {
			switch x := ins.(type) {
			case *ssa.Call:
				handleCall(st, x)
			case *ssa.RunDefers:
				for i := len(deferred) - 1; i >= 0; i-- {
					handleCall(st, deferred[i])
				}
			case *ssa.Return:
				exitHeld.union(st.held)
				if exitRel == nil {
					exitRel = st.rel.clone()
				} else {
					exitRel.intersect(st.rel)
				}
			}
		}
		succs := b.Succs
		if len(b.Instrs) > 0 {
			if x, ok := b.Instrs[len(b.Instrs)-1].(*ssa.If); ok && len(succs) == 2 {
				if p, neg := condOf(x.Cond); p != nil && p.Parent() == f {
					for i, q := range f.Params {
						if q == p {
							if v, ok := fkm[i]; ok {
								if v != neg {
									succs = succs[:1]
								} else {
									succs = succs[1:]
								}
							}
						}
					}
				}
			}
		}
		for _, s := range succs {
			if in[s.Index] == nil {
				in[s.Index] = &state{held: st.held.clone(), rel: st.rel.clone()}
			} else {
				c1 := in[s.Index].held.union(st.held)
				c2 := in[s.Index].rel.intersect(st.rel)
				if !c1 && !c2 {
					continue
				}
			}
			if !inWork[s.Index] {
				work = append(work, s.Index)
				inWork[s.Index] = true
			}
		}
	}
	for c, p := range exitHeld {
		if _, ok := sum.leaks[c]; !ok {
			sum.leaks[c] = p
			changed = true
		}
	}
	if exitRel != nil {
		for c := range exitHeld {
			delete(exitRel, c)
		}
		sum.mustRel = exitRel
	}
	return !sameSummary(old, sum)
}

func sameKeys[K comparable, V any, W any](a map[K]V, b map[K]W) bool {
	if len(a) != len(b) {
		return false
	}
	for k := range a {
		if _, ok := b[k]; !ok {
			return false
		}
	}
	return true
}

func sameSummary(a, b *summary) bool {
	if !sameKeys(a.acq, b.acq) || !sameKeys(a.users, b.users) || !sameKeys(a.leaks, b.leaks) ||
		!sameKeys(a.releases, b.releases) || !sameKeys(a.mustRel, b.mustRel) {
		return false
	}
	for c := range a.acq {
		if !sameKeys(a.acqExcl[c], b.acqExcl[c]) {
			return false
		}
	}
	for p := range a.users {
		if !sameKeys(a.userExcl[p], b.userExcl[p]) {
			return false
		}
	}
	return true
}

func main() {
	repo := flag.String("repo", "/repo", "repository root")
	out := flag.String("json", "-", "output file")
	flag.Parse()
	var err error
	repoDir, err = filepath.Abs(*repo)
	if err != nil {
		panic(err)
	}
	if r, err := filepath.EvalSymlinks(repoDir); err == nil {
		repoDir = r
	}
	cfg := &packages.Config{
		Mode: packages.LoadSyntax,
		Dir:  repoDir,
		Env:  append(os.Environ(), "GOFLAGS=-mod=mod", "GOPROXY=off", "GOSUMDB=off", "GOTOOLCHAIN=local", "CGO_ENABLED=0"),
	}
	pats := []string{".", "./adapter/...", "./engine.io", "./engine.io/transport/...", "./engine.io/parser/...",
		"./internal/...", "./parser", "./parser/json", "./parser/json/serializer", "./parser/json/serializer/stdjson"}
	pkgs, err := packages.Load(cfg, pats...)
	if err != nil {
		fmt.Fprintln(os.Stderr, "lockclass: load:", err)
		os.Exit(3)
	}
	nerr := 0
	packages.Visit(pkgs, nil, func(p *packages.Package) {
		if strings.HasPrefix(p.PkgPath, modPath) {
			for _, e := range p.Errors {
				fmt.Fprintln(os.Stderr, "lockclass:", e)
				nerr++
			}
		}
	})
	if nerr > 0 {
		os.Exit(3)
	}
	fset = pkgs[0].Fset
	var initial []*ssa.Package
	prog, initial = ssautil.Packages(pkgs, ssa.InstantiateGenerics)
	_ = initial
	prog.Build()

	all := ssautil.AllFunctions(prog)
	var fns []*ssa.Function
	for f := range all {
		if inRepo(f) && len(f.Blocks) > 0 {
			fns = append(fns, f)
		}
	}
	sort.Slice(fns, func(i, j int) bool {
		if fns[i].String() != fns[j].String() {
			return fns[i].String() < fns[j].String()
		}
		return fns[i].Pos() < fns[j].Pos()
	})
	for _, f := range fns {
		for _, b := range f.Blocks {
			for _, ins := range b.Instrs {
				if mc, ok := ins.(*ssa.MakeClosure); ok {
					closureParentSite[mc.Fn.(*ssa.Function)] = mc
				}
			}
		}
	}
	cg = vta.CallGraph(all, cha.CallGraph(prog))

	// phase 1: summaries to fixpoint
	rounds := 0
	for {
		rounds++
		ch := false
		for _, f := range fns {
			getSum(f, "")
		}
		for i := 0; i < len(known); i++ {
			if analyse(known[i].f, known[i].k, nil) {
				ch = true
			}
		}
		if !ch || rounds > 50 {
			break
		}
	}
	// phase 2: emit
	em := &emitter{sites: map[string]Site{}, edges: map[string]Edge{}, usercalls: map[token.Pos]*UserCall{}, ucHeld: map[token.Pos]map[string]string{}}
	nk := len(known)
	for i := 0; i < nk; i++ {
		analyse(known[i].f, known[i].k, em)
	}

	facts := Facts{Stats: map[string]int{"functions": len(fns), "rounds": rounds}}
	cls := map[string]bool{}
	for _, s := range em.sites {
		facts.Sites = append(facts.Sites, s)
		cls[s.Class] = true
	}
	sort.Slice(facts.Sites, func(i, j int) bool {
		a, b := facts.Sites[i], facts.Sites[j]
		if a.File != b.File {
			return a.File < b.File
		}
		return a.Line < b.Line
	})
	for _, e := range em.edges {
		facts.Edges = append(facts.Edges, e)
		cls[e.From] = true
		cls[e.To] = true
	}
	sort.Slice(facts.Edges, func(i, j int) bool {
		a, b := facts.Edges[i], facts.Edges[j]
		if a.From != b.From {
			return a.From < b.From
		}
		return a.To < b.To
	})
	for c := range cls {
		facts.Classes = append(facts.Classes, c)
	}
	sort.Strings(facts.Classes)
	for p, uc := range em.usercalls {
		for h, how := range em.ucHeld[p] {
			uc.Held = append(uc.Held, h)
			_ = how
		}
		sort.Strings(uc.Held)
		for _, h := range uc.Held {
			uc.How = append(uc.How, em.ucHeld[p][h])
		}
		facts.UserCalls = append(facts.UserCalls, *uc)
	}
	sort.Slice(facts.UserCalls, func(i, j int) bool {
		a, b := facts.UserCalls[i], facts.UserCalls[j]
		if a.File != b.File {
			return a.File < b.File
		}
		return a.Line < b.Line
	})
	for _, f := range fns {
		s := sums[ctxKey{f, ""}]
		if s == nil || len(s.leaks) == 0 {
			continue
		}
		l := Leak{Func: funcName(f)}
		for c := range s.leaks {
			// a class the function also releases without having taken it (unlock-around-callback
			// helpers such as apply's closures) is handed back, not leaked
			if !s.releases[c] {
				l.Classes = append(l.Classes, c)
			}
		}
		if len(l.Classes) == 0 {
			continue
		}
		sort.Strings(l.Classes)
		if f.Object() != nil {
			l.Exported = f.Object().Exported()
		}
		facts.Leaks = append(facts.Leaks, l)
	}
	sort.Slice(facts.Leaks, func(i, j int) bool { return facts.Leaks[i].Func < facts.Leaks[j].Func })
	for u := range unknown {
		facts.Unknown = append(facts.Unknown, u)
	}
	sort.Strings(facts.Unknown)
	facts.Stats["classes"] = len(facts.Classes)
	facts.Stats["sites"] = len(facts.Sites)
	facts.Stats["edges"] = len(facts.Edges)
	facts.Stats["usercalls"] = len(facts.UserCalls)

	b, _ := json.MarshalIndent(facts, "", " ")
	if *out == "-" {
		os.Stdout.Write(b)
	} else if err := os.WriteFile(*out, b, 0o644); err != nil {
		panic(err)
	}
}
