"""Shared machinery of every check: Coq build + axiom audit, harness build, kernel evaluation of
the model on implementation observations, verdict protocol, evidence.

A check module (checks/Cxx.py) defines `run(ctx)`; it calls ctx.proofs(...) once, then any number
of correspondence / oracle suites, reporting through ctx.violation / ctx.known / ctx.note, and
returns.  bin/check turns the collected results into the exit code, the VIOLATION / KNOWN-FINDING
lines, the replay files and evidence/<id>.json.
"""
import concurrent.futures as cf
import fcntl
import hashlib
import json
import os
import re
import shutil
import subprocess
import sys
import time

VERIF = os.path.dirname(os.path.dirname(os.path.abspath(__file__)))
COQ = os.path.join(VERIF, "coq")
WORK = os.path.join(VERIF, ".work")
GOENV = {
    "GOFLAGS": "-mod=mod", "GOPROXY": "off", "GOSUMDB": "off", "GOTOOLCHAIN": "local",
    "CGO_ENABLED": os.environ.get("CGO_ENABLED", "0"),
}

FORBIDDEN = re.compile(
    r"\b(Admitted|admit|Axiom|Axioms|Parameter|Parameters|Conjecture|Conjectures|Hypothesis|Hypotheses|Variable|Variables)\b"
    r"|Unset\s+Guard|bypass_check|type-in-type|impredicative-set|Admit\s+Obligations|native_compute"
    r"|Unset\s+Universe\s+Checking|Unset\s+Positivity")

# standard-library axioms that may appear under Print Assumptions (each is reported in evidence)
ALLOWED_AXIOMS = {
    "functional_extensionality_dep", "FunctionalExtensionality.functional_extensionality_dep",
    "proof_irrelevance", "ProofIrrelevance.proof_irrelevance", "Classical_Prop.classic", "classic",
    "JMeq_eq", "JMeq.JMeq_eq", "Eqdep.Eq_rect_eq.eq_rect_eq", "eq_rect_eq",
    "propositional_extensionality", "PropExtensionality.propositional_extensionality",
    # the standard library's real numbers (Reals; used through Flocq by Adapter/YeastFloat.v only)
    "ClassicalDedekindReals.sig_not_dec", "sig_not_dec",
    "ClassicalDedekindReals.sig_forall_dec", "sig_forall_dec",
}


def repo_root():
    return os.environ.get("VERIF_REPO", "/repo")


# ------------------------------------------------------------------ Gallina literal helpers
def gZ(n):
    return "(%d)%%Z" % n


def gN(n):
    assert n >= 0
    return "%d%%N" % n


def gnat(n):
    assert 0 <= n < 5000, "nat literal too large: use N/Z"
    return "%d%%nat" % n


def gbool(b):
    return "true" if b else "false"


def glist(items):
    return "[" + "; ".join(items) + "]"


def gbytes(bs):
    """bytes / list of ints -> list N literal"""
    return "[" + "; ".join("%d" % b for b in bs) + "]%N"


def gopt(x):
    return "None" if x is None else "(Some %s)" % x


def gpair(*xs):
    return "(" + ", ".join(xs) + ")"


def gstring_bytes(s):
    """python str -> utf-8 bytes -> list N literal"""
    return gbytes(s.encode("utf-8"))


# ------------------------------------------------------------------ locks
class _Flock:
    def __init__(self, path):
        self.path = path

    def __enter__(self):
        os.makedirs(os.path.dirname(self.path), exist_ok=True)
        self.f = open(self.path, "w")
        fcntl.flock(self.f, fcntl.LOCK_EX)
        return self

    def __exit__(self, *a):
        fcntl.flock(self.f, fcntl.LOCK_UN)
        self.f.close()


def sh(cmd, cwd=None, env=None, timeout=None, input=None):
    e = dict(os.environ)
    if env:
        e.update(env)
    p = subprocess.run(cmd, cwd=cwd, env=e, timeout=timeout, input=input,
                       stdout=subprocess.PIPE, stderr=subprocess.STDOUT, text=True,
                       shell=isinstance(cmd, str))
    return p.returncode, p.stdout


# ------------------------------------------------------------------ context
class Ctx:
    def __init__(self, prop, tier, seed):
        self.prop = prop
        self.tier = tier
        self.seed = seed
        self.t0 = time.time()
        # one scratch directory per run (two runs of the same check must not clobber each other);
        # removed at the end of a run without violations, stale ones are pruned here
        os.makedirs(WORK, exist_ok=True)
        for d in os.listdir(WORK):
            full = os.path.join(WORK, d)
            try:
                age = time.time() - os.path.getmtime(full)
            except OSError:
                continue
            if re.match(r"^C\d+(\.\d+)?$", d) and os.path.isdir(full) and age > 2 * 3600:
                shutil.rmtree(full, ignore_errors=True)
            # harness binaries / module files built for scratch repos (VERIF_REPO) that are gone
            if re.match(r"^(bin|gomod)-[0-9a-f]{8}$", d) and age > 3 * 3600 \
                    and d.split("-")[1] != hashlib.sha1(b"/repo").hexdigest()[:8]:
                shutil.rmtree(full, ignore_errors=True)
        self.work = os.path.join(WORK, "%s.%d" % (prop, os.getpid()))
        shutil.rmtree(self.work, ignore_errors=True)
        os.makedirs(self.work, exist_ok=True)
        self.repo = repo_root()
        self.violations = []      # dicts {what, replay(dict), no_input(bool)}
        self.knowns = []          # strings
        self.obligations = []     # (name, kind, ok, detail)
        self.axioms = {}          # theorem -> list of axioms
        self.evaluations = 0
        self.nontrivial = set()
        self.samples = []
        self.dist = {}
        self.notes = []
        self.indeterminate = 0
        self.rule = ""
        self.assumptions = []
        self.trusted = []
        self.extra = {}
        self.known_file = load_known_findings()

    @property
    def quick(self):
        return self.tier == "quick"

    # -------------------------------------------------------------- reporting
    def violation(self, what, replay, no_input=False):
        self.violations.append({"what": what, "replay": replay, "no_input": no_input})

    def known(self, key, what):
        """Report a failing input as a known finding if `key` is listed for this property in
        known_findings.txt; otherwise it is a violation.  Returns True when known."""
        for k in self.known_file:
            if k["property"] == self.prop and k["key"] == key:
                line = "%s: %s" % (key, k["desc"])
                if line not in self.knowns:
                    self.knowns.append(line)
                return True
        return False

    def fail_or_known(self, key, what, replay):
        """Returns True when the failure is a listed known finding, False when it was reported as a violation."""
        if key and self.known(key, what):
            return True
        self.violation(what, replay)
        return False

    def note(self, s):
        self.notes.append(s)

    def count(self, n=1, nontrivial_key=None, dist=None):
        self.evaluations += n
        if nontrivial_key is not None:
            self.nontrivial.add(nontrivial_key if isinstance(nontrivial_key, str)
                                else hashlib.sha1(repr(nontrivial_key).encode()).hexdigest())
        if dist:
            self.dist[dist] = self.dist.get(dist, 0) + n

    def sample(self, s, limit=6):
        if len(self.samples) < limit:
            self.samples.append(s)

    def obligation(self, name, kind, ok, detail=""):
        self.obligations.append((name, kind, bool(ok), detail))

    # -------------------------------------------------------------- Coq
    def coq_build(self, targets=()):
        """.vo build (full build when no targets are given; setup_cmd does the full build, a check
        builds the property file, the check modules it evaluates and everything they depend on, so
        that an unrelated broken file cannot fail this property's check).  Returns (ok, log)."""
        rc, out = sh([os.path.join(VERIF, "bin", "coqbuild")] + list(targets), timeout=3000)
        return rc == 0, out

    def forbidden_scan(self):
        bad = []
        for root, _, files in os.walk(os.path.join(COQ, "theories")):
            for f in files:
                if not f.endswith(".v"):
                    continue
                p = os.path.join(root, f)
                txt = strip_coq_comments(open(p).read())
                for i, line in enumerate(txt.split("\n"), 1):
                    m = FORBIDDEN.search(line)
                    if m and not allowed_in_section(txt, i, m.group(0)):
                        bad.append("%s:%d: %s" % (os.path.relpath(p, VERIF), i, line.strip()[:120]))
        return bad

    def proofs(self, props_module=None, extra_theorems=(), modules=()):
        """Step 1 of the verdict protocol: build, scan, Print Assumptions of every theorem in
        Props/<prop>.v.  Records one obligation per theorem.  A failure here is a broken proof
        obligation: reported as a violation with no failing input unless a later suite finds one."""
        props_module = props_module or self.prop
        targets = ["theories/Props/%s.vo" % props_module] + ["theories/%s.vo" % m for m in modules]
        if os.environ.get("VERIF_FULL_BUILD"):
            targets = []
        ok, log = self.coq_build(targets)
        if not ok:
            tail = "\n".join(log.strip().split("\n")[-25:])
            failing = re.findall(r'File "\./theories/([^"]+)", line (\d+)', log)
            self.obligation("coq-build", "build", False, tail)
            self.violation("Coq development does not build (broken proof obligation): %s" % (failing[:3],),
                           {"kind": "proof-broken", "theorem_or_file": failing[:3], "log_tail": tail},
                           no_input=True)
            return False
        self.obligation("coq-build", "build", True)
        bad = self.forbidden_scan()
        self.obligation("no-admitted-no-axiom-scan", "scan", not bad, "; ".join(bad[:5]))
        if bad:
            self.violation("forbidden construct in the Coq development: %s" % bad[:3],
                           {"kind": "proof-broken", "forbidden": bad}, no_input=True)
        pfile = os.path.join(COQ, "theories", "Props", props_module + ".v")
        src = strip_coq_comments(open(pfile).read())
        thms = re.findall(r"^\s*(?:Theorem|Corollary)\s+([A-Za-z0-9_']+)", src, re.M)
        thms += list(extra_theorems)
        if not thms:
            self.obligation("props-nonempty", "scan", False, "no theorem in " + pfile)
            self.violation("no theorem found in Props/%s.v" % props_module,
                           {"kind": "proof-broken", "file": pfile}, no_input=True)
            return False
        # property files hold nothing but statements closed by `exact lemma`
        text = "From SioV Require Import Props.%s.\n" % props_module
        for t in thms:
            text += 'Print Assumptions %s.\n' % t
        rc, out = self.coq_run("assumptions", text, timeout=600)
        if rc != 0:
            self.obligation("print-assumptions", "audit", False, out[-800:])
            self.violation("Print Assumptions failed", {"kind": "proof-broken", "log": out[-2000:]}, no_input=True)
            return False
        blocks = split_assumption_blocks(out, len(thms))
        allok = True
        for t, blk in zip(thms, blocks):
            axs = parse_axioms(blk)
            self.axioms[t] = axs
            badax = [a for a in axs if a.split(" ")[0] not in ALLOWED_AXIOMS]
            self.obligation(t, "theorem", not badax, "axioms: %s" % (axs or "none (closed under the global context)"))
            if badax:
                allok = False
                self.violation("theorem %s depends on non-stdlib axioms %s" % (t, badax),
                               {"kind": "proof-broken", "theorem": t, "axioms": badax}, no_input=True)
        return allok

    def coq_run(self, name, text, timeout=900):
        """Compile a generated .v file (in the work dir) against the built development."""
        path = os.path.join(self.work, name + ".v")
        with open(path, "w") as f:
            f.write(text)
        cmd = "ulimit -s unlimited 2>/dev/null; exec timeout %d coqc -q -Q %s SioV -Q %s Work %s" % (
            timeout, os.path.join(COQ, "theories"), self.work, path)
        rc, out = sh(["bash", "-c", cmd], cwd=self.work, timeout=timeout + 30)
        return rc, out

    def coq_eval_cases(self, name, header, cases, check_fn, shard=400, timeout=900):
        """Kernel evaluation of the model on implementation observations.

        `cases`   : list of Gallina terms (strings), one per case, all of one type
        `check_fn`: name of a Gallina function `case -> bool` (true = model and implementation agree /
                    oracle holds)
        Evaluates `check_fn` on every case with vm_compute inside coqc (sharded, parallel) and
        returns the list of indexes whose result is false.  Raises RuntimeError if coqc fails.
        """
        if not cases:
            return []
        shards = [list(range(i, min(i + shard, len(cases)))) for i in range(0, len(cases), shard)]

        def run_shard(k):
            idxs = shards[k]
            body = header + "\nDefinition cases_ := [\n  " + ";\n  ".join(cases[i] for i in idxs) + "\n].\n"
            body += ("Definition bad_ := Eval vm_compute in "
                     "(fix go (i : nat) l := match l with [] => [] | c :: l' => "
                     "if %s c then go (S i) l' else i :: go (S i) l' end) O cases_.\n" % check_fn)
            body += "Print bad_.\n"
            rc, out = self.coq_run("%s_%03d" % (name, k), body, timeout=timeout)
            if rc != 0:
                raise RuntimeError("coqc failed on %s shard %d:\n%s" % (name, k, out[-3000:]))
            m = re.search(r"bad_\s*=\s*(\[.*?\])\s*:\s*list nat", out, re.S)
            if not m:
                raise RuntimeError("cannot parse coqc output for %s shard %d:\n%s" % (name, k, out[-2000:]))
            nums = [int(x) for x in re.findall(r"\d+", m.group(1))]
            return [idxs[j] for j in nums]

        bad = []
        with cf.ThreadPoolExecutor(max_workers=int(os.environ.get("VERIF_JOBS", "8"))) as ex:
            for r in ex.map(run_shard, range(len(shards))):
                bad.extend(r)
        return sorted(bad)

    def coq_eval_values(self, name, header, terms, timeout=900, shard=300):
        """Evaluate each Gallina term with vm_compute and return the printed results as strings
        (one per term, whitespace-normalised)."""
        if not terms:
            return []
        shards = [list(range(i, min(i + shard, len(terms)))) for i in range(0, len(terms), shard)]

        def run_shard(k):
            body = header + "\n"
            for j, i in enumerate(shards[k]):
                body += "Definition v_%d := Eval vm_compute in (%s).\n" % (j, terms[i])
                body += 'Print v_%d.\n' % j
            rc, out = self.coq_run("%s_v%03d" % (name, k), body, timeout=timeout)
            if rc != 0:
                raise RuntimeError("coqc failed on %s shard %d:\n%s" % (name, k, out[-3000:]))
            res = []
            parts = re.split(r"(?m)^v_\d+ = ", out)[1:]
            for p in parts:
                # drop the trailing type annotation
                body_ = p.rsplit("\n     : ", 1)[0] if "\n     : " in p else p
                res.append(" ".join(body_.split()))
            if len(res) != len(shards[k]):
                raise RuntimeError("cannot parse values for %s shard %d:\n%s" % (name, k, out[-2000:]))
            return res

        vals = []
        with cf.ThreadPoolExecutor(max_workers=int(os.environ.get("VERIF_JOBS", "8"))) as ex:
            for r in ex.map(run_shard, range(len(shards))):
                vals.extend(r)
        return vals

    # -------------------------------------------------------------- Go harness
    def go_build(self, tags="verif", race=False):
        """Build harness/cmd/vh against the current working tree of the repo. Returns path or None
        (build failure is reported as a violation: the tie to the code cannot be established)."""
        hdir = os.path.join(VERIF, "harness")
        name = "vh-" + self.prop + "-" + tags.replace(",", "-") + ("-race" if race else "")
        key = hashlib.sha1(self.repo.encode()).hexdigest()[:8]
        bindir = os.path.join(WORK, "bin-" + key)
        os.makedirs(bindir, exist_ok=True)
        out = os.path.join(bindir, name)
        moddir = os.path.join(WORK, "gomod-" + key)
        with _Flock(os.path.join(WORK, "go.lock")):
            os.makedirs(moddir, exist_ok=True)
            gm = open(os.path.join(hdir, "go.mod")).read().replace("=> /repo", "=> " + self.repo)
            # relative replace targets (harness/third_party/...) are relative to the harness dir
            gm = gm.replace("=> ./", "=> " + hdir + "/")
            with open(os.path.join(moddir, "go.mod"), "w") as f:
                f.write(gm)
            shutil.copy(os.path.join(self.repo, "go.sum"), os.path.join(moddir, "go.sum"))
        # the build itself runs outside the lock (go build is safe to run concurrently)
        tmp_out = "%s.tmp.%d" % (out, os.getpid())
        env = dict(GOENV)
        if race:
            env["CGO_ENABLED"] = "1"
        base = ["go", "build", "-modfile=" + os.path.join(moddir, "go.mod"), "-tags", tags, "-o", tmp_out]
        if race:
            base.append("-race")
        # Engines of all properties live in one package; a file of ANOTHER property that does not
        # compile must not fail this check: files named in compile errors are left out and the
        # build retried (an engine that is missing as a result makes its own check fail loudly).
        allfiles = sorted(f for f in os.listdir(os.path.join(hdir, "cmd", "vh"))
                          if f.endswith(".go") and not f.endswith("_test.go"))
        excluded = set()
        for _attempt in range(6):
            files = [os.path.join("cmd", "vh", f) for f in allfiles if f not in excluded]
            rc, log = sh(base + files, cwd=hdir, env=env, timeout=1200)
            if rc == 0:
                break
            culprits = set(re.findall(r"cmd/vh/([A-Za-z0-9_]+\.go):\d+", log)) - {"main.go"} - excluded
            if not culprits:
                break
            excluded |= culprits
        if excluded and rc == 0:
            self.note("harness built without non-compiling engine files: %s" % sorted(excluded))
        if rc == 0:
            os.replace(tmp_out, out)
        if rc != 0:
            self.obligation("harness-build", "build", False, log[-1500:])
            self.violation("harness does not build against the working tree (hooks or exported API changed)",
                           {"kind": "correspondence-broken", "suite": "harness-build", "log": log[-3000:]},
                           no_input=True)
            return None
        return out

    def vh(self, binpath, args, timeout=1200, env=None):
        """Run a harness engine; returns (rc, output-text)."""
        e = dict(GOENV)
        if env:
            e.update(env)
        return sh([binpath] + [str(a) for a in args], cwd=self.work, env=e, timeout=timeout)

    def vh_jsonl(self, binpath, engine, args, timeout=1200, env=None):
        """Run an engine that writes JSON lines to -out; returns list of dicts or None on failure."""
        outp = os.path.join(self.work, engine + "-" + hashlib.sha1(repr(args).encode()).hexdigest()[:6] + ".jsonl")
        rc, log = self.vh(binpath, [engine, "-out", outp] + list(args), timeout=timeout, env=env)
        if rc != 0:
            self.violation("harness engine %s failed (rc=%d)" % (engine, rc),
                           {"kind": "correspondence-broken", "suite": engine, "log": log[-3000:]}, no_input=True)
            return None
        rows = []
        with open(outp) as f:
            for line in f:
                line = line.strip()
                if line:
                    rows.append(json.loads(line))
        return rows


# ------------------------------------------------------------------ helpers
def strip_coq_comments(s):
    out = []
    depth = 0
    i = 0
    in_str = False
    while i < len(s):
        if depth == 0 and s[i] == '"':
            in_str = not in_str
            out.append(s[i]); i += 1; continue
        if not in_str and s.startswith("(*", i):
            depth += 1; i += 2; continue
        if not in_str and depth > 0 and s.startswith("*)", i):
            depth -= 1; i += 2; continue
        if depth == 0:
            out.append(s[i])
        elif s[i] == "\n":
            out.append("\n")
        i += 1
    return "".join(out)


def allowed_in_section(txt, lineno, word):
    """`Variable(s)` / `Hypothesis` / `Context` are allowed inside a Section only."""
    if word.split()[0] not in ("Variable", "Variables", "Hypothesis", "Hypotheses"):
        return False
    depth = 0
    for i, line in enumerate(txt.split("\n"), 1):
        if i >= lineno:
            break
        if re.match(r"\s*Section\s+\w+", line):
            depth += 1
        elif re.match(r"\s*End\s+\w+", line) and depth > 0:
            depth -= 1
    return depth > 0


def split_assumption_blocks(out, n):
    """coqc prints, per Print Assumptions, either 'Closed under the global context' or
    'Axioms:' followed by indented lines."""
    blocks = []
    cur = None
    for line in out.split("\n"):
        if line.startswith("Closed under the global context"):
            if cur is not None:
                blocks.append(cur)
            blocks.append("")
            cur = None
        elif line.startswith("Axioms:"):
            if cur is not None:
                blocks.append(cur)
            cur = ""
        elif cur is not None:
            cur += line + "\n"
    if cur is not None:
        blocks.append(cur)
    while len(blocks) < n:
        blocks.append("?? unparsed")
    return blocks


def parse_axioms(block):
    if block.startswith("??"):
        return [block]
    axs = []
    block = re.sub(r"\n\s+:", " :", block)   # a long name is printed with its type on the next line
    for line in block.split("\n"):
        m = re.match(r"^([A-Za-z_][\w.']*)\s*:", line)
        if m:
            axs.append(m.group(1))
    return axs


def load_known_findings():
    path = os.path.join(VERIF, "known_findings.txt")
    res = []
    if not os.path.exists(path):
        return res
    for line in open(path):
        line = line.strip()
        m = re.match(r"^known:\s+property=(C\d+)\s+key=(\S+)\s+(.*)$", line)
        if m:
            res.append({"property": m.group(1), "key": m.group(2), "desc": m.group(3)})
    return res


def finish(ctx):
    """Steps 4-5 of the verdict protocol."""
    evdir = os.path.join(VERIF, "evidence")
    if os.path.realpath(ctx.repo) != "/repo":
        # runs against a scratch copy (seeded changes) never overwrite the committed evidence
        evdir = os.path.join(WORK, "evidence-alt")
    os.makedirs(evdir, exist_ok=True)
    replay_dir = os.path.join(evdir, "replays")
    os.makedirs(replay_dir, exist_ok=True)
    n_ob = len(ctx.obligations)
    n_ok = sum(1 for o in ctx.obligations if o[2])
    ev = {
        "property_id": ctx.prop,
        "tier": ctx.tier,
        "seed": ctx.seed,
        "level": "proof",
        "coverage": {
            "obligations": n_ob,
            "discharged": n_ok,
            "checker_cmd": "bin/coqbuild  (coq_makefile + make, full .vo build, Coq 8.16.1) ; "
                           "coqc Print Assumptions on every theorem of coq/theories/Props/%s.v ; "
                           "bin/check %s %s" % (ctx.prop, ctx.prop, ctx.tier),
            "trusted_base": ctx.trusted or [],
            "obligation_list": [{"name": o[0], "kind": o[1], "ok": o[2], "detail": o[3][:400]} for o in ctx.obligations],
            "axioms": ctx.axioms,
            "evaluations": ctx.evaluations,
            "distinct_nontrivial": len(ctx.nontrivial),
            "rule": ctx.rule,
            "samples": ctx.samples,
            "distribution": ctx.dist,
            "indeterminate": ctx.indeterminate,
            "notes": ctx.notes,
            "known_findings_reported": ctx.knowns,
            "repo": ctx.repo,
        },
        "assumptions": ctx.assumptions,
        "wall_s": round(time.time() - ctx.t0, 2),
        "violations": len(ctx.violations),
    }
    ev["coverage"].update(ctx.extra)
    with open(os.path.join(evdir, ctx.prop + ".json"), "w") as f:
        json.dump(ev, f, indent=1, default=str)
    for k in ctx.knowns:
        print("KNOWN-FINDING: property=%s %s" % (ctx.prop, k))
    if not ctx.violations and not os.environ.get("VERIF_KEEP_WORK"):
        shutil.rmtree(ctx.work, ignore_errors=True)
    if not ctx.violations:
        print("OK property=%s tier=%s obligations=%d/%d evaluations=%d nontrivial=%d wall=%.1fs" % (
            ctx.prop, ctx.tier, n_ok, n_ob, ctx.evaluations, len(ctx.nontrivial), time.time() - ctx.t0))
        return 0
    # prefer concrete failing inputs over no-input reports
    concrete = [v for v in ctx.violations if not v["no_input"]]
    chosen = concrete if concrete else ctx.violations
    for i, v in enumerate(chosen[:5]):
        path = os.path.join(replay_dir, "%s-%s-%d.json" % (ctx.prop, ctx.tier, i))
        with open(path, "w") as f:
            json.dump({"property": ctx.prop, "what": v["what"], "replay": v["replay"],
                       "no_failing_input_found": v["no_input"], "seed": ctx.seed, "tier": ctx.tier,
                       "all_reports": [x["what"] for x in ctx.violations][:50]}, f, indent=1, default=str)
        line = "VIOLATION property=%s replay=%s" % (ctx.prop, path)
        if v["no_input"]:
            line += " no-failing-input-found"
        print("  # " + v["what"][:300])
        print(line)
    return 1
