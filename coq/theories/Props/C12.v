(** C12 - Middlewares gate admission and events: nothing passes that a middleware rejected.
    Statements only; every proof is `exact <lemma>`. *)
From SioV Require Import Base.GoSem Sio.Middleware Sio.MiddlewareProofs.

(** ** Per-socket event middlewares (for every chain, event, argument list, handler signature -
       with or without acknowledgement parameter -, decoder, connected flag) *)

(** Every call of an event middleware shows the incoming event's name and exactly the arguments
    the handler is (or would be) called with. *)
Theorem C12_event_mw_sees_name_and_args : forall ms connected name has_id decode h i n a,
  In (EMw i n a) (on_event ms connected name has_id decode h) ->
  n = name /\ decode h = Some a.
Proof. exact on_event_mw_sees. Qed.

(** A handler call implies that every middleware accepted this event, all of them ran before it,
    once each and in registration order. *)
Theorem C12_event_handler_only_after_all_accept :
  forall ms connected name has_id decode h hid a ackable,
  In (EHandler hid a ackable) (on_event ms connected name has_id decode h) ->
  decode h = Some a /\ all_accept ms name a /\ connected = true /\ hid = h_id h /\
  on_event ms connected name has_id decode h =
    map (fun j => EMw j name a) (seq 0 (length ms)) ++ [EHandler hid a ackable].
Proof. exact on_event_handler_needs_accept. Qed.

(** An event some middleware rejects never reaches the handler ... *)
Theorem C12_rejected_event_not_delivered : forall ms connected name has_id decode h a,
  decode h = Some a -> ~ all_accept ms name a ->
  forall hid a' ackable, ~ In (EHandler hid a' ackable) (on_event ms connected name has_id decode h).
Proof. exact on_event_rejected. Qed.

(** ... and the first rejection stops the chain (the error handlers run instead). *)
Theorem C12_event_first_rejection_stops : forall ms connected name has_id decode h a,
  decode h = Some a -> ~ all_accept ms name a ->
  exists j m, nth_error ms j = Some m /\ m name a = false /\
    Forall (fun m => m name a = true) (firstn j ms) /\
    on_event ms connected name has_id decode h =
      map (fun i => EMw i name a) (seq 0 (S j)) ++ [EError].
Proof. exact on_event_first_rejection_stops. Qed.

(** An event every middleware accepts is delivered, whatever the handler's signature. *)
Theorem C12_accepted_event_delivered : forall ms name has_id decode h a,
  decode h = Some a -> all_accept ms name a ->
  on_event ms true name has_id decode h =
    map (fun j => EMw j name a) (seq 0 (length ms)) ++ [EHandler (h_id h) a (has_id && h_ack h)].
Proof. exact on_event_accepted. Qed.
