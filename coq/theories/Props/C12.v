(** C12 - Middlewares gate admission and events: nothing passes that a middleware rejected.
    Statements only; every proof is `exact <lemma>`. *)
From SioV Require Import Base.GoSem Sio.Middleware Sio.MiddlewareProofs Sio.MiddlewareAdapterProofs
  Sio.MiddlewareAdmProofs Sio.MiddlewareCheck Sio.MiddlewareCheckProofs.

(** ** Admission through the namespace middlewares

    Quantifiers: any number of admission threads [ts0] (each: a socket id, a connection, and what
    each registered middleware would do for this socket/handshake - Join calls on named rooms,
    Join calls started on goroutines of its own (which race with the rest of the admission and with
    the clean-up after a rejection, under the socket's joinMu), then accept or reject with an error,
    a string or structured data; chains of ANY length), with
    pairwise distinct socket ids, all about to start ([fresh]); ANY schedule [sched] interleaving
    their steps (one step = one critical section of the code), their handler goroutines and the
    Join goroutines started by their middlewares;
    [s], [ts] = namespace state and threads at that point. *)

(** Threads also carry the recovery branch of Namespace.add: [t_rec t = Some rooms] iff connection
    state recovery is enabled and the adapter really restored the session named by the CONNECT's
    pid/offset (anything else - recovery off, no pid, unknown / expired / made-up pid - is [None]),
    and [t_usemw] = ServerConnectionStateRecovery.UseMiddlewares. *)

(** If a socket that is NOT a restored session is visible in any way - listed in the namespace,
    member of its own room, flagged connected, reached by some broadcast (any rooms / except), its
    connection handlers ran, CONNECT was sent to the client, entered in the connection's tables -
    then every middleware of its chain ran exactly once, in registration order, and every one
    accepted.  (Asking for a recovery that the adapter does not grant changes nothing.) *)
Theorem C12_connected_only_after_all_accept : forall ts0 sched s ts t,
  fresh ts0 -> run sched (init ts0) = (s, ts) -> In t ts ->
  restored t = false ->
  visible s (t_sid t) ->
  mw_calls (t_sid t) (trace s) = seq 0 (length (t_chain t)) /\
  Forall (fun b => accepts b = true) (t_chain t).
Proof. exact connected_only_after_all_accept. Qed.

(** For ANY socket: connected (listed, flagged, reached by a broadcast, handlers ran, CONNECT sent,
    in the connection's tables) implies that all middlewares accepted - or that it is a session the
    adapter really restored while UseMiddlewares is off, the one case in which no middleware runs.
    (A restored session is in the rooms of its previous life, its own room included, from its
    creation on: that is what recovery is; hence [visible_core] here.) *)
Theorem C12_connected_only_after_all_accept_or_restored : forall ts0 sched s ts t,
  fresh ts0 -> run sched (init ts0) = (s, ts) -> In t ts ->
  visible_core s (t_sid t) ->
  (restored t = true /\ t_usemw t = false /\ mw_calls (t_sid t) (trace s) = []) \/
  (mw_calls (t_sid t) (trace s) = seq 0 (length (t_chain t)) /\
   Forall (fun b => accepts b = true) (t_chain t)).
Proof. exact connected_only_after_all_accept_or_restored. Qed.

(** In particular, while the chain is still running nothing of the socket is visible. *)
Theorem C12_invisible_during_chain : forall ts0 sched s ts t i,
  fresh ts0 -> run sched (init ts0) = (s, ts) -> In t ts ->
  t_pc t = PMw i ->
  ~ visible_core s (t_sid t) /\ (restored t = false -> ~ visible s (t_sid t)).
Proof. exact invisible_during_chain. Qed.

(** The first rejection stops the chain: if middleware j is the first that rejects, the calls made
    for this socket are, at every moment, a prefix of 0..j (no later middleware ever runs, none
    runs twice, order is registration order). *)
Theorem C12_first_rejection_stops : forall ts0 sched s ts t j b,
  fresh ts0 -> run sched (init ts0) = (s, ts) -> In t ts ->
  nth_error (t_chain t) j = Some b -> accepts b = false -> acc_prefix (t_chain t) j ->
  exists n, (n <= S j)%nat /\ mw_calls (t_sid t) (trace s) = seq 0 n.
Proof. exact first_rejection_stops. Qed.

(** A CONNECT_ERROR is only ever sent for a socket whose chain rejected; its message is the first
    rejection (an error: its text; a string: itself; structured data: itself); it is the only
    packet sent in answer to that CONNECT; and from the moment it is queued nothing of the socket
    is on the server ([gone]: socket store, both adapter maps - whatever rooms the middlewares
    joined -, connected flag, connection tables, broadcast reach, handlers never ran). *)
Theorem C12_connect_error_carries_rejection : forall ts0 sched s ts t m,
  fresh ts0 -> run sched (init ts0) = (s, ts) -> In t ts ->
  In (PktConnectError m) (packets (t_sid t) (trace s)) ->
  (exists j b r, nth_error (t_chain t) j = Some b /\ mb_verdict b = Reject r /\
                 acc_prefix (t_chain t) j /\ m = rej_message r /\
                 mw_calls (t_sid t) (trace s) = seq 0 (S j)) /\
  packets (t_sid t) (trace s) = [PktConnectError m] /\
  gone s (t_sid t).
Proof. exact connect_error_carries_rejection. Qed.

(** A rejected socket leaves nothing - already before CONNECT_ERROR is sent, and for ever after
    (the statement holds at every later point of every schedule): in particular a Join that a
    middleware started asynchronously and that is still in progress, or starts later, cannot put
    the socket back into the adapter - the clean-up waits for joinMu, disables joins, THEN leaves. *)
Theorem C12_rejected_leaves_nothing : forall ts0 sched s ts t r,
  fresh ts0 -> run sched (init ts0) = (s, ts) -> In t ts ->
  t_pc t = PRejected r \/ t_pc t = PSendError r ->
  gone s (t_sid t).
Proof. exact rejected_leaves_nothing. Qed.

(** Progress: from ANY state in which no Join goroutine holds the socket's joinMu, an admission
    scheduled alone for (chain length + 9) steps has terminated, admitted or rejected; and a Join
    goroutine that holds joinMu releases it with its next step ... *)
Theorem C12_admission_completes : forall n s ts t, nth_error ts n = Some t -> held t = false ->
  exists t', nth_error (snd (run (repeat (n, WMain) (length (t_chain t) + 9)) (s, ts))) n = Some t' /\
             (t_pc t' = PAdmitted \/ exists r, t_pc t' = PRejected r).
Proof. exact admission_completes. Qed.

Theorem C12_join_releases : forall j t s rs, nth_error (t_js t) j = Some (rs, JHold) ->
  nth_error (t_js (fst (step_join j t s))) j = Some (rs, JDone).
Proof. exact join_releases. Qed.

(** ... and what the two outcomes mean, under every schedule. *)
Theorem C12_admitted_state : forall ts0 sched s ts t,
  fresh ts0 -> run sched (init ts0) = (s, ts) -> In t ts -> t_pc t = PAdmitted ->
  ((restored t = true /\ t_usemw t = false /\ mw_calls (t_sid t) (trace s) = []) \/
   (Forall (fun b => accepts b = true) (t_chain t) /\
    mw_calls (t_sid t) (trace s) = seq 0 (length (t_chain t)))) /\
  packets (t_sid t) (trace s) = [PktConnect (t_sid t)] /\
  In (t_sid t) (store s) /\ In (t_sid t) (conn_flag s) /\
  In (t_sid t) (members (adp s) (ROwn (t_sid t))) /\
  In (t_sid t, t_sid t) (map (fun p => (snd p, snd p)) (c_socks s)).
Proof. exact admitted_state. Qed.

Theorem C12_rejected_state : forall ts0 sched s ts t r,
  fresh ts0 -> run sched (init ts0) = (s, ts) -> In t ts -> t_pc t = PRejected r ->
  (exists j b, nth_error (t_chain t) j = Some b /\ mb_verdict b = Reject r /\ acc_prefix (t_chain t) j /\
               mw_calls (t_sid t) (trace s) = seq 0 (S j)) /\
  packets (t_sid t) (trace s) = [PktConnectError (rej_message r)] /\
  gone s (t_sid t).
Proof. exact rejected_state. Qed.

(** The chain as a function ([run_chain], the port of Namespace.runMiddlewares) predicts the
    calls and the outcome of every terminated admission, whatever the schedule and whoever else
    is connecting (this is what lets the live rig compare each connection with a solo model run). *)
Theorem C12_chain_function_agrees : forall ts0 sched s ts t,
  fresh ts0 -> run sched (init ts0) = (s, ts) -> In t ts ->
  skipped t = false ->
  t_pc t = PAdmitted \/ (exists r, t_pc t = PRejected r) ->
  mw_calls (t_sid t) (trace s) = fst (run_chain (t_chain t)) /\
  match snd (run_chain (t_chain t)) with
  | None => t_pc t = PAdmitted
  | Some r => t_pc t = PRejected r
  end.
Proof. exact chain_function_agrees. Qed.

(** Threads never change their socket id, connection or chain. *)
Theorem C12_threads_static : forall sched st, map t_static (snd (run sched st)) = map t_static (snd st).
Proof. exact run_static. Qed.

(** The invariant behind all of the above: in every reachable state the adapter's two maps agree
    and what the namespace shows about a socket is a function of its own admission's progress. *)
Theorem C12_reachable_inv : forall ts0 sched s ts t,
  fresh ts0 -> run sched (init ts0) = (s, ts) -> In t ts -> consistent (adp s) /\ tinv s t.
Proof. exact reachable_inv. Qed.

(** ** The checkers used on the live histories, related to the theorems *)

(** What the rig reads through the public API (Sockets, Connected, SocketRooms, Adapter.Sockets) and
    the oracle tests are instances of [visible], the notion the admission theorems are about. *)
Theorem C12_observables_are_visible : forall s x,
  listed s x = true \/ is_connected s x = true \/ in_own_room s x = true \/ reach_all s x = true \/
  (exists r, reach_room s r x = true) ->
  visible s x.
Proof. exact observables_visible. Qed.

(** For every chain of length <= 3 over all 4 join patterns x 4 verdict kinds per middleware (4369
    chains, exhaustive kernel evaluation): the observation the model predicts satisfies the property
    oracle evaluated on the live histories (and, trivially, agrees with itself). *)
Theorem C12_model_satisfies_oracle_small : forall chain,
  In chain (chains_upto 3) -> oracle (obs_of chain) = true /\ agree (obs_of chain) = true.
Proof. exact model_satisfies_oracle_small. Qed.

(** ... and for every chain of length <= 2 over the alphabet that also has asynchronous Joins (in
    progress during the rest of the chain / started after the answer): 601 chains. *)
Theorem C12_model_async_satisfies_oracle_small : forall chain,
  In chain (chains_async_upto 2) -> oracle (obs_of chain) = true /\ agree (obs_of chain) = true.
Proof. exact model_async_satisfies_oracle_small. Qed.

(** ... and for restored sessions, with and without UseMiddlewares (chains of length <= 2). *)
Theorem C12_model_rec_satisfies_oracle_small : forall chain usemw,
  In chain (chains_upto 2) ->
  oracle (obs_of_rec chain true usemw) = true /\ agree (obs_of_rec chain true usemw) = true.
Proof. exact model_rec_satisfies_oracle_small. Qed.

Theorem C12_observables_are_visible_core : forall s x,
  listed s x = true \/ is_connected s x = true \/ reach_all s x = true \/
  (exists r, reach_room s r x = true) ->
  visible_core s x.
Proof. exact observables_visible_core. Qed.

(** The same for the event path: 3100 cases (0-2 handlers with/without ack parameter x every chain
    of <= 4 accepting/rejecting middlewares x client ack or not x 5 argument lists x decodable or
    not): the model's prediction satisfies the event oracle. *)
Theorem C12_model_events_satisfy_oracle_small : forall c,
  In c ev_space -> eoracle c = true /\ eagree c = true.
Proof. exact model_events_satisfy_oracle_small. Qed.

(** Non-vacuity: three clients; the second is rejected by its second middleware after both
    middlewares joined it to rooms and the first one also started a Join on a goroutine, which gets
    hold of joinMu before the rejection and finishes while the clean-up waits; an interleaved
    schedule. *)
Example C12_example :
  let a := mkMwb [[1]]%N Accept [[5]]%N in
  let r := mkMwb [[2; 3]]%N (Reject (RStr [7]%N)) [] in
  let ts0 := [new_adm 10 1 [a; a]; new_adm 11 2 [a; r; a]; new_adm 12 3 [];
              new_adm_rec 13 4 [r] (Some [9]) false; new_adm_rec 14 5 [r] (Some [9]) true]%N in
  let sched := flat_map (fun _ => [(0, WMain); (1, WMain); (1, WJoin 0); (2, WMain); (0, WHandler);
                                   (2, WHandler); (0, WJoin 1); (3, WMain); (4, WMain)]%nat)
                        (seq 0 14) in
  let '(s, ts) := run sched (init ts0) in
  fresh ts0 /\
  map t_pc ts = [PAdmitted; PRejected (RStr [7]%N); PAdmitted; PAdmitted; PRejected (RStr [7]%N)] /\
  store s = [13; 12; 10]%N /\
  mw_calls 13%N (trace s) = [] /\ mw_calls 14%N (trace s) = [0]%nat /\
  mw_calls 11%N (trace s) = [0; 1]%nat /\
  packets 11%N (trace s) = [PktConnectError (MText [7]%N)] /\
  map snd (flat_map t_js ts) = [JNew; JDone; JDone] /\
  handler_runs 10%N (trace s) = 1%nat /\ handler_runs 11%N (trace s) = 0%nat.
Proof.
  vm_compute. repeat split; auto; repeat constructor; simpl; intuition discriminate.
Qed.

(** ** Per-socket event middlewares (for every chain, event, argument list, handler signature -
       with or without acknowledgement parameter -, decoder, connected flag) *)

(** Every call of an event middleware shows the incoming event's name and exactly the arguments
    the handler is (or would be) called with. *)
Theorem C12_event_mw_sees_name_and_args : forall ms connected name has_id decode h i n a,
  In (EMw i n a) (on_event ms connected name has_id decode h) ->
  n = name /\ decode h = Some a.
Proof. exact on_event_mw_sees. Qed.

(** A handler call implies that every middleware accepted this event, all of them ran before it,
    once each and in registration order. *)
Theorem C12_event_handler_only_after_all_accept :
  forall ms connected name has_id decode h hid a ackable,
  In (EHandler hid a ackable) (on_event ms connected name has_id decode h) ->
  decode h = Some a /\ all_accept ms name a /\ connected = true /\ hid = h_id h /\
  on_event ms connected name has_id decode h =
    map (fun j => EMw j name a) (seq 0 (length ms)) ++ [EHandler hid a ackable].
Proof. exact on_event_handler_needs_accept. Qed.

(** An event some middleware rejects never reaches the handler ... *)
Theorem C12_rejected_event_not_delivered : forall ms connected name has_id decode h a,
  decode h = Some a -> ~ all_accept ms name a ->
  forall hid a' ackable, ~ In (EHandler hid a' ackable) (on_event ms connected name has_id decode h).
Proof. exact on_event_rejected. Qed.

(** ... and the first rejection stops the chain (the error handlers run instead). *)
Theorem C12_event_first_rejection_stops : forall ms connected name has_id decode h a,
  decode h = Some a -> ~ all_accept ms name a ->
  exists j m, nth_error ms j = Some m /\ m name a = false /\
    Forall (fun m => m name a = true) (firstn j ms) /\
    on_event ms connected name has_id decode h =
      map (fun i => EMw i name a) (seq 0 (S j)) ++ [EError].
Proof. exact on_event_first_rejection_stops. Qed.

(** An event every middleware accepts is delivered, whatever the handler's signature. *)
Theorem C12_accepted_event_delivered : forall ms name has_id decode h a,
  decode h = Some a -> all_accept ms name a ->
  on_event ms true name has_id decode h =
    map (fun j => EMw j name a) (seq 0 (length ms)) ++ [EHandler (h_id h) a (has_id && h_ack h)].
Proof. exact on_event_accepted. Qed.
