(** C06 - Every connection end is reported exactly once and leaves nothing on the server.
    Statements only; every proof is `exact <lemma>` (Sio/LifecycleProofs.v).

    The system (Sio/Lifecycle.v): one Engine.IO session with one namespace socket; its three
    nested [sync.Once]s, the admission goroutine (CONNECT -> middlewares -> namespace list ->
    onConnect -> connection tables -> re-check), the connection handler, and the ten termination
    causes.  [exec (step code_cfg) sched init] runs an ARBITRARY list of actions: every subset of
    causes, occurring in any order and at any moment (before CONNECT, during the middleware, while
    connected, during another cause's close path), under every interleaving.  [code_cfg] is the
    code as it is now (with the C06 fix: re-check after admission + `connected` tested before the
    socket's once); [prefix_cfg] the code before the fix; [recheck_only_cfg] the re-check alone. *)
From SioV Require Import Base.GoSem Base.Conc Sio.Lifecycle Sio.LifecycleInv Sio.LifecycleProofs
  Sio.Lifecycle2 Sio.Lifecycle2Inv Sio.Lifecycle2Proofs Sio.LifecycleHs.
Local Open Scope N_scope.

Definition run (sched : list act) : st := exec (step code_cfg) sched init.

(** At every moment of every run: the disconnect and the disconnecting handlers have been called at
    most once; never for a socket that did not connect; when the disconnect handlers have been
    called, the disconnecting handlers were called before them (once), the socket is no longer
    connected, and its once is done. *)
Theorem C06_disconnect_at_most_once : forall sched,
  let c := ctl_of (run sched) in
  n_disc c <= 1 /\ n_discing c <= 1 /\ nh_disc c <= n_disc c
  /\ (ever_conn c = false -> n_disc c = 0 /\ n_discing c = 0)
  /\ (n_disc c = 1 -> discing_first c = true /\ n_discing c = 1 /\ s_once c = Done /\ connected c = false)
  /\ (s_once c = Fresh -> n_disc c = 0 /\ n_discing c = 0).
Proof. exact at_most_once. Qed.

(** When everything that has started has finished (quiescence), a socket that had connected and
    whose end has begun - by whatever causes, in whatever order, at whatever moment - has had its
    disconnect and disconnecting handlers called exactly once. *)
Theorem C06_disconnect_exactly_once : forall sched,
  let c := ctl_of (run sched) in
  quiescentb code_cfg c = true -> ever_conn c = true -> end_begun c = true ->
  n_disc c = 1 /\ n_discing c = 1.
Proof. exact exactly_once_quiescent. Qed.

(** After the connection has ended and everything has finished, nothing is left: the socket is in
    no namespace list, in no room, not connected, and the Engine.IO sid is unknown.  This includes
    the socket that was still in its namespace middleware when the connection ended. *)
Theorem C06_no_trace : forall sched,
  let c := ctl_of (run sched) in
  quiescentb code_cfg c = true -> e_once c = Done -> no_trace c = true.
Proof. exact no_trace_quiescent. Qed.

(** A namespace-level end (DISCONNECT packet, Disconnect(false), Server.Close's first half) leaves
    nothing in the namespace either, while the connection may live on. *)
Theorem C06_no_trace_namespace_end : forall sched,
  let c := ctl_of (run sched) in
  quiescentb code_cfg c = true -> s_once c = Done -> no_trace_nsp c = true.
Proof. exact no_trace_nsp_quiescent. Qed.

(** The socket's once is never consumed by a close that finds the socket not yet connected. *)
Theorem C06_once_never_burnt : forall sched, g_burnt (ctl_of (run sched)) = false.
Proof. exact never_burnt. Qed.

(** The reported reason is the reason given to the call that won the socket's once, and it is one
    of the reasons (mapping table [cause_reasons]) of a cause that occurred in the run. *)
Theorem C06_reason_names_cause : forall sched,
  let s := run sched in
  n_disc (ctl_of s) <> 0 ->
  rep_reason s = s_reason s /\
  exists c, In (ACause c) sched /\ In (rep_reason s) (cause_reasons c).
Proof. exact reason_names_cause. Qed.

(** c.close() hands "forced server close" to the connection only after eio.Close() has returned, when
    the connection's once is already done: that reason is never reported ("forced close" is). *)
Theorem C06_forced_server_close_never_reported : forall sched,
  rep_reason (run sched) <> RForcedServerClose /\ rep_reason (run sched) <> RParseError.
Proof. exact never_forced_server_close. Qed.

(** TWO sockets on one connection (Sio/Lifecycle2.v): each with its own admission goroutine and its
    own once; the connection's close loop calls socket.onClose for the sockets of its snapshot in any
    order and WAITS for each (a socket's close lasts as long as the user's disconnecting handlers);
    either socket may be anywhere in its admission meanwhile.  The sockets belong to two namespaces
    ([same = false]) or to one ([same = true], see below).  For every schedule and for either
    socket [w]: at most once, never without connecting, disconnecting before disconnect; exactly
    once at quiescence once its end began; nothing left after the connection's or namespace's end. *)
Theorem C06_two_sockets_exactly_once_no_trace : forall (same : bool) sched (w : bool),
  let s := run2 same sched in let k := gsk w s in
  (nd k <= 1) /\ (ndg k <= 1)
  /\ (ever k = false -> nd k = 0 /\ ndg k = 0)
  /\ (nd k = 1 -> ndg k = 1 /\ o k = Done /\ conn k = false)
  /\ (quiescent2 (code2 same) s = true -> ever k = true -> end_begun2 s k = true -> nd k = 1 /\ ndg k = 1)
  /\ (quiescent2 (code2 same) s = true -> e_once2 s = Done -> sk_clean k = true /\ store2 s = false)
  /\ (quiescent2 (code2 same) s = true -> o k = Done -> sk_clean k = true).
Proof. exact two_spec. Qed.

(** [same = true] above: two CONNECT packets for ONE namespace whose goroutines overlap are both
    admitted (two sockets; conn.sockets holds both by id, the later one by namespace) - each of the
    two is still reported exactly once and leaves nothing.  Not so if the table's `set` dropped the
    by-id entry of the socket it displaces: the displaced socket is connected but unknown to its
    connection, and the connection's end never reaches it. *)
Theorem C06_duplicate_connect_displaced_socket_refuted :
  exists sched, let s := exec (cstep2 (mkCfg2 true true true)) sched cinit2 in
    quiescent2 (mkCfg2 true true true) s = true /\ e_once2 s = Done /\ store2 s = false
    /\ nd (skB s) = 1 /\ sk_clean (skB s) = true
    /\ ever (skA s) = true /\ nd (skA s) = 0 /\ conn (skA s) = true /\ innsp (skA s) = true /\ room (skA s) = true.
Proof. exists sched_displace. exact displace_witness. Qed.

(** Why the closed flag must be set BEFORE getAndRemoveAll and the loop: set after the loop, a socket
    that leaves its middleware while the loop is busy closing the other socket is neither in the
    snapshot nor sees the flag - it stays connected, listed and in its room for ever. *)
Theorem C06_closed_flag_after_loop_refuted :
  exists sched, let s := exec (cstep2 (mkCfg2 false false false)) sched cinit2 in
    quiescent2 (mkCfg2 false false false) s = true /\ e_once2 s = Done /\ store2 s = false
    /\ nd (skA s) = 1 /\ sk_clean (skA s) = true
    /\ ever (skB s) = true /\ nd (skB s) = 0 /\ conn (skB s) = true /\ innsp (skB s) = true /\ room (skB s) = true.
Proof. exists sched_flag_late. exact flag_late_witness. Qed.

(** Server shutdown DURING THE HANDSHAKE (Sio/LifecycleHs.v): Server.Close (closed flag, one snapshot
    of the store) racing newSocket (newServerSocket, the new-socket callback with the user's
    callbacks inside, store.set, re-check of the closed flag).  For every schedule: when both have
    finished, the session is closed, not in the store, and no namespace socket is connected on it
    (a CONNECT is served only while the Engine.IO socket is open). *)
Theorem C06_no_session_survives_server_close : forall sched,
  let s := exec (hstep true) sched hinit in
  hquiet s = true -> h_eclosed s = true /\ h_store s = false /\ h_conn s = false.
Proof. exact hs_no_session_survives. Qed.

(** ... and why the re-check has to come AFTER store.set: placed before the new-socket callback, a
    Server.Close in between misses the session and is missed by it; a socket connects on a closed server. *)
Theorem C06_closed_recheck_before_onsocket_refuted :
  exists sched, let s := exec (hstep false) sched hinit in
    hquiet s = true /\ h_closed s = true /\ h_eclosed s = false /\ h_store s = true /\ h_conn s = true.
Proof. eexists. exact hs_early_check_witness. Qed.

(** The admission race, on the code BEFORE the fix: the connection ends while the namespace
    middleware runs; the socket is admitted afterwards and stays for ever (in the namespace list,
    in its room, connected, never reported) although the sid is gone. *)
Theorem C06_no_trace_during_admission_prefix_refuted :
  exists sched, let c := ctl_of (exec (step prefix_cfg) sched init) in
    quiescentb prefix_cfg c = true /\ e_once c = Done /\ g_burnt c = false /\ ever_conn c = true
    /\ n_disc c = 0 /\ in_nsp c = true /\ own_room c = true /\ connected c = true /\ in_store c = false.
Proof. exists sched_admission_race. exact admission_race_prefix. Qed.

(** The re-check alone would not have been enough: with `connected` tested inside the socket's
    once, a connection that ends between c.sockets.set and onConnect consumes the once. *)
Theorem C06_recheck_alone_insufficient_refuted :
  exists sched, let c := ctl_of (exec (step recheck_only_cfg) sched init) in
    quiescentb recheck_only_cfg c = true /\ e_once c = Done /\ g_burnt c = true /\ ever_conn c = true
    /\ n_disc c = 0 /\ in_nsp c = true /\ own_room c = true /\ connected c = true.
Proof. exists sched_burnt. exact burnt_once_witness. Qed.

(** A disconnect handler registered inside the connection handler (which runs on its own
    goroutine after onConnect) can be registered after the socket was closed and then never runs. *)
Theorem C06_handler_registered_in_connection_handler_refuted :
  exists sched, let c := ctl_of (run sched) in
    quiescentb code_cfg c = true /\ n_disc c = 1 /\ h_pc c = 2 /\ nh_disc c = 0 /\ g_burnt c = false.
Proof. exists sched_late_handler. exact late_handler_witness. Qed.

(** The hypotheses are satisfiable: a plain session ended by a ping timeout; and the admission-race
    schedule on the fixed code ends with exactly one report and no trace. *)
Example C06_example_plain :
  let s := exec (step code_cfg) sched_plain init in
  quiescentb code_cfg (ctl_of s) = true /\ e_once (ctl_of s) = Done /\ ever_conn (ctl_of s) = true
  /\ g_burnt (ctl_of s) = false /\ n_disc (ctl_of s) = 1 /\ nh_disc (ctl_of s) = 1
  /\ no_trace (ctl_of s) = true /\ rep_reason s = RPingTimeout.
Proof. exact plain_session. Qed.

Example C06_example_admission_race_fixed :
  let s := exec (step code_cfg) (sched_admission_race ++ [ASbody; ASbody; ASbody; ASbody; ASbody; ASbody; ASbody; AAdmit]) init in
  quiescentb code_cfg (ctl_of s) = true /\ n_disc (ctl_of s) = 1 /\ no_trace (ctl_of s) = true
  /\ rep_reason s = RTransportError.
Proof. exact admission_race_fixed. Qed.
