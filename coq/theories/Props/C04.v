(** C04 - A broadcast reaches exactly the sockets its rooms and exclusions select, once.
    This file holds statements only; every proof is `exact <lemma>`.
    Models: Adapter/Rooms.v (the two indexes, AddAll/Delete/DeleteAll), Adapter/Broadcast.v (apply,
    BroadcastOperator, namespace-level operations); specification: Adapter/BroadcastSpec.v. *)
From SioV Require Import Adapter.Rooms Adapter.RoomsProofs Adapter.Broadcast Adapter.BroadcastSpec
  Adapter.BroadcastProofs Adapter.BroadcastNspProofs Adapter.BroadcastCheck Adapter.Broadcast3x3
  Adapter.BroadcastConc Adapter.BroadcastConcProofs Adapter.BroadcastOrder Adapter.BroadcastInterleaved.

(** After ANY history of AddAll / Delete / DeleteAll (any sockets, any rooms, any length) the two
    indexes of the adapter are mutually inverse and no room is left with an empty socket set. *)
Theorem C04_indexes_inverse : forall h : list aop,
  (forall s r, s ∈ room_sids (arun h) r <-> r ∈ sid_rooms (arun h) s) /\
  (forall r x, a_rooms (arun h) !! r = Some x -> x <> ∅).
Proof. exact arun_inverse. Qed.

(** Room membership is exactly the net effect of the joins and leaves so far: socket s is in room
    r (in either index) iff some operation of the history joined s to r and no later operation
    made it leave (Delete of that pair, or DeleteAll of s). *)
Theorem C04_membership_is_net_effect : forall (h : list aop) s r,
  (s ∈ room_sids (arun h) r <-> member_after h s r) /\
  (r ∈ sid_rooms (arun h) s <-> member_after h s r).
Proof.
  exact (fun h s r =>
    let '(conj a (conj b _)) := arun_net_effect h s r in
    conj (iff_trans a (mrun_member_after h s r)) (iff_trans b (mrun_member_after h s r))).
Qed.

(** Same at namespace level, for every history of connect / Join / Leave / Disconnect /
    SocketsJoin / SocketsLeave / DisconnectSockets (the last three going through apply with any
    (T,E), issued by the namespace or through a socket): both indexes, the registered, connected and
    closed sockets are those of the abstract membership relation folded over the history. *)
Theorem C04_membership_is_net_effect_nsp : forall (h : list nop) s r,
  (s ∈ room_sids (n_ad (nrun h)) r <-> (s, r) ∈ an_pairs (anrun h)) /\
  (r ∈ sid_rooms (n_ad (nrun h)) s <-> (s, r) ∈ an_pairs (anrun h)) /\
  (s ∈ dom (a_sids (n_ad (nrun h))) <-> s ∈ an_present (anrun h)) /\
  (s ∈ n_store (nrun h) <-> s ∈ an_store (anrun h)) /\
  (s ∈ n_closed (nrun h) <-> s ∈ an_closed (anrun h)).
Proof. exact nrun_net_effect. Qed.

(** In every adapter state with inverse indexes, for every socket store, every T and E: apply
    invokes its callback on exactly the selected sockets - known to the store, registered, in some
    room of T (any registered socket when T is empty), in no room of E - and on each of them once,
    also when it is in several rooms of T. *)
Theorem C04_broadcast_exact : forall (known : positive -> bool) (T E : gset positive) (st : adapter),
  indexes_inverse st ->
  NoDup (apply_targets known T E st) /\
  forall s, s ∈ apply_targets known T E st <->
    known s = true /\ s ∈ dom (a_sids st) /\
    (T = ∅ \/ exists r, r ∈ T /\ s ∈ room_sids st r) /\
    (forall r, r ∈ E -> s ∉ room_sids st r).
Proof. exact apply_targets_exact. Qed.

(** The same for ANY iteration order Go's maps may use: [Tl] enumerates the target rooms, [ord r]
    the sockets of room r (repetitions allowed), [all] the registered sockets (duplicate-free). *)
Theorem C04_broadcast_exact_any_order :
  forall (known : positive -> bool) (T E : gset positive) (st : adapter)
         (Tl : list positive) (ord : positive -> list positive) (all : list positive),
  indexes_inverse st ->
  (forall r, r ∈ Tl <-> r ∈ T) ->
  (forall r x, a_rooms st !! r = Some x -> forall s, s ∈ ord r <-> s ∈ x) ->
  NoDup all -> (forall s, s ∈ all <-> s ∈ dom (a_sids st)) ->
  NoDup (apply_targets_ord known T E st Tl ord all) /\
  forall s, s ∈ apply_targets_ord known T E st Tl ord all <-> selected known T E st s.
Proof. exact apply_targets_ord_exact. Qed.

(** ... hence after every namespace history a broadcast (issued by the namespace, or through
    socket `from` whose own-id room is then added to the exclusions) reaches exactly the sockets
    the abstract relation selects, once each. *)
Theorem C04_broadcast_exact_after_history : forall (h : list nop) from T E,
  NoDup (op_targets (nrun h) from T E) /\
  forall s, s ∈ op_targets (nrun h) from T E <-> s ∈ an_op_selected (anrun h) from T E.
Proof. exact nrun_broadcast_exact. Qed.

(** SocketsJoin / SocketsLeave / DisconnectSockets run their callback inside apply's loops, on the
    indexes being iterated.  After every history, the interleaved execution ([apply_i]: rooms
    looked up when reached, keys removed before being reached not produced, except set computed
    once; any iteration orders) satisfies the invariant and denotes exactly the abstract state after
    the operation ([J n a] = invariant of n + n denotes a) - the same as the model used in the
    histories above, which selects the sockets in the state before the call. *)
Theorem C04_sockets_ops_interleaved :
  forall (h : list nop) (ord : gset positive -> list positive) (Tl all : list positive) from T E,
  (forall x s, s ∈ ord x <-> s ∈ x) ->
  (forall r, r ∈ Tl <-> r ∈ (list_to_set T : gset positive)) ->
  (forall s, s ∈ all <-> s ∈ dom (a_sids (n_ad (nrun h)))) ->
  let TT := list_to_set T in let EE := sender_except from (list_to_set E) in
  (forall rs, J (apply_i (n_join rs) ord (nrun h) TT EE Tl all) (anrun (h ++ [NSocketsJoin from T E rs]))) /\
  (forall rs, J (apply_i (fun n' s => foldl (fun n'' r => n_leave r n'' s) n' rs) ord (nrun h) TT EE Tl all)
             (anrun (h ++ [NSocketsLeave from T E rs]))) /\
  J (apply_i n_disconnect ord (nrun h) TT EE Tl all) (anrun (h ++ [NDisconnectSockets from T E])).
Proof. exact interleaved_after_history. Qed.

(** A broadcast issued through a socket never reaches that socket - as long as the socket is
    still in the room named by its own id (the side condition excludes exactly the finding class
    `sender-left-own-room`). *)
Theorem C04_sender_excluded_partial : forall (h : list nop) s T E,
  s ∈ room_sids (n_ad (nrun h)) s -> s ∉ op_targets (nrun h) (Some s) T E.
Proof. exact nrun_sender_excluded_partial. Qed.

(** The unconditional statement is false for the code as it is: the sender is excluded by room,
    not by id.  Witness (replayed on the real server by the check): two sockets connect, socket 1
    leaves the room named by its own id, then broadcasts. *)
Theorem C04_sender_excluded_refuted : exists (h : list nop) s T E,
  s ∈ n_store (nrun h) /\ s ∈ op_targets (nrun h) (Some s) T E.
Proof. exact sender_excluded_refuted. Qed.

(** The side condition is satisfiable: a connected socket that never left is in its own room. *)
Example C04_sender_side_condition_example :
  let h := [NConnect 1; NConnect 2; NJoin 1 [5]]%positive in
  1%positive ∈ room_sids (n_ad (nrun h)) 1%positive /\ op_targets (nrun h) (Some 1%positive) [] [] = [2%positive].
Proof. vm_compute. split; [set_solver|reflexivity]. Qed.

(** A disconnected socket belongs to no room, is not registered, not known to the store, and no
    broadcast reaches it - whatever the history does afterwards (joins included). *)
Theorem C04_disconnected_in_no_room : forall (h : list nop) s,
  s ∈ n_closed (nrun h) ->
  s ∉ dom (a_sids (n_ad (nrun h))) /\ sid_rooms (n_ad (nrun h)) s = ∅ /\
  (forall r, s ∉ room_sids (n_ad (nrun h)) r) /\ s ∉ n_store (nrun h) /\
  (forall from T E, s ∉ op_targets (nrun h) from T E).
Proof. exact nrun_disconnected_in_no_room. Qed.

(** BroadcastOperator values are immutable: for every program of New / To / In / Except
    derivations over shared parents, run on the heap model of the Go struct (two pointers to
    mutable sets, Clone on derivation), every operator ever created still hands the adapter the
    (Rooms, Except) of its own derivation after all later derivations. *)
Theorem C04_operator_immutable : forall prog : list binstr,
  let '(h, ops) := foldl bexec ([], []) prog in
  map (bop_opts h) ops = foldl bdenote [] prog.
Proof. exact operator_immutable. Qed.

(** Finite cross-check by kernel evaluation: all 512 membership matrices of 3 sockets x 3 rooms,
    all 8 store subsets, all 64 (T,E): the model delivers to socket i exactly
    [table_expect] (0 or 1) times, read directly off the matrix. *)
Theorem C04_all_3x3 : forall m kb te : N,
  (m < 512)%N -> (kb < 8)%N -> (te < 64)%N -> table_ok m kb te = true.
Proof. exact all_3x3. Qed.

(** * Interval semantics: membership changes concurrent with a broadcast.
    apply() releases the adapter mutex around every callback; the transition system of
    Adapter/BroadcastConc.v interleaves its loop with arbitrary AddAll/Delete/DeleteAll calls and
    socket-store changes of other goroutines, under the stated assumption on Go map iteration.
    The theorems quantify over ALL event sequences [evs] (all interleavings, all concurrent
    operations); [always P c evs] says P holds in every state the run goes through. *)

(** A socket that is in one room of T during the whole broadcast, known to the store during the
    whole broadcast and in no room of E when the broadcast starts, receives it exactly once. *)
Theorem C04_interval_member_receives_once : forall ad store (T E : gset positive) evs c' r s,
  r ∈ T -> s ∉ except_sids E ad ->
  always (fun c => s ∈ c_store c /\ s ∈ room_sids (c_ad c) r) (cinit ad store T E) evs ->
  crun (cinit ad store T E) evs = Some c' -> c_fin c' = true ->
  once s (c_out c').
Proof. exact conc_must_rooms. Qed.

(** The same for a broadcast to everybody (T empty): registered and known throughout. *)
Theorem C04_interval_member_receives_once_all : forall ad store (E : gset positive) evs c' s,
  s ∉ except_sids E ad ->
  always (fun c => s ∈ c_store c /\ s ∈ dom (a_sids (c_ad c))) (cinit ad store ∅ E) evs ->
  crun (cinit ad store ∅ E) evs = Some c' -> c_fin c' = true ->
  once s (c_out c').
Proof. exact conc_must_all. Qed.

(** A socket that is in no room of T at any moment of the broadcast never receives it ... *)
Theorem C04_interval_nonmember_never : forall ad store (T E : gset positive) evs c' s,
  T <> ∅ ->
  always (fun c => forall r, r ∈ T -> s ∉ room_sids (c_ad c) r) (cinit ad store T E) evs ->
  crun (cinit ad store T E) evs = Some c' -> s ∉ c_out c'.
Proof. exact conc_never_nonmember_rooms. Qed.

Theorem C04_interval_unregistered_never_all : forall ad store (E : gset positive) evs c' s,
  always (fun c => s ∉ dom (a_sids (c_ad c))) (cinit ad store ∅ E) evs ->
  crun (cinit ad store ∅ E) evs = Some c' -> s ∉ c_out c'.
Proof. exact conc_never_nonmember_all. Qed.

(** ... nor does one that is in a room of E when the broadcast starts, nor one the store does
    not know at any moment. *)
Theorem C04_interval_excluded_never : forall ad store (T E : gset positive) evs c' s,
  s ∈ except_sids E ad -> crun (cinit ad store T E) evs = Some c' -> s ∉ c_out c'.
Proof. exact conc_never_excluded. Qed.

Theorem C04_interval_unknown_never : forall ad store (T E : gset positive) evs c' s,
  always (fun c => s ∉ c_store c) (cinit ad store T E) evs ->
  crun (cinit ad store T E) evs = Some c' -> s ∉ c_out c'.
Proof. exact conc_never_unknown. Qed.

(** With target rooms, nobody receives a broadcast twice, whatever happens concurrently. *)
Theorem C04_interval_at_most_once : forall ad store (T E : gset positive) evs c',
  T <> ∅ -> crun (cinit ad store T E) evs = Some c' -> NoDup (c_out c').
Proof. exact conc_rooms_at_most_once. Qed.
