(** C04 - A broadcast reaches exactly the sockets its rooms and exclusions select, once.
    This file holds statements only; every proof is `exact <lemma>`. *)
From SioV Require Import Adapter.Rooms Adapter.RoomsProofs.

(** After ANY history of AddAll / Delete / DeleteAll (any sockets, any rooms, any length) the two
    indexes of the adapter are mutually inverse and no room is left with an empty socket set. *)
Theorem C04_indexes_inverse : forall h : list aop,
  (forall s r, s ∈ room_sids (arun h) r <-> r ∈ sid_rooms (arun h) s) /\
  (forall r x, a_rooms (arun h) !! r = Some x -> x <> ∅).
Proof. exact arun_inverse. Qed.

(** Room membership is exactly the net effect of the joins and leaves so far: socket s is in room
    r (in either index) iff some operation of the history joined s to r and no later operation
    made it leave (Delete of that pair, or DeleteAll of s). *)
Theorem C04_membership_is_net_effect : forall (h : list aop) s r,
  (s ∈ room_sids (arun h) r <-> member_after h s r) /\
  (r ∈ sid_rooms (arun h) s <-> member_after h s r).
Proof.
  exact (fun h s r =>
    let '(conj a (conj b _)) := arun_net_effect h s r in
    conj (iff_trans a (mrun_member_after h s r)) (iff_trans b (mrun_member_after h s r))).
Qed.
