(** C17 - Invalid Engine.IO requests get the protocol's error and create no session.
    This file holds statements only; every proof is `exact <lemma>`. *)
From SioV Require Import Base.GoSem Eio.Handshake Eio.HandshakeProofs.

(** Once the server is closed, every request is answered 503 and changes nothing. *)
Theorem C17_closed_admits_none : forall rnd st rq,
  s_closed st = true -> serve rnd st rq = (RClosed, st).
Proof. exact serve_closed. Qed.
