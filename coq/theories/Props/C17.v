(** C17 - Invalid Engine.IO requests get the protocol's error and create no session; every accepted
    handshake yields a session id unique among live sessions; once the server is closed it admits
    no new session and all existing ones are closed.
    This file holds statements only; every proof is `exact <lemma>`.

    [serve rnd st rq] is the server's answer to request [rq] in state [st] (closed flag, socket
    store, id sequence number) and the state afterwards; [rnd q] is what the random source returns
    for the id proposal carrying sequence number [q] (arbitrary: no theorem constrains it beyond
    "bytes").  [defects st rq] are the invalid-request classes [rq] falls in, given the live
    sessions: unsupported version (code 5), unknown/closed sid (1), wrong method (2), unknown
    transport on a handshake (0), transport that is neither the session's nor an upgrade (3). *)
From SioV Require Import Base.GoSem Base.Conc Eio.Handshake Eio.HandshakeIdProofs Eio.HandshakeProofs
  Eio.HandshakeRace Eio.HandshakeRaceProofs.

(** (HTTP/1.x and HTTP/2; for HTTP/3 the full statement is refuted by the code as it is, see
    C17_invalid_is_error_and_pure_refuted below: known finding http3-skips-version-and-method-checks.)
    An invalid request is answered with the error code of (one of) its defects - HTTP 400 and the
    protocol's JSON error - and neither creates nor alters a session.  [gen_ok]: the id generator
    does not give up (it does only when 11 consecutive proposals are ids of live sessions; the
    handshake is then answered 500 before the transport name is looked at). *)
Theorem C17_invalid_is_error_and_pure_partial : forall rnd st rq,
  is_p3 (r_proto rq) = false ->
  s_closed st = false -> r_auth rq = true -> gen_ok rnd st ->
  defects st rq <> [] ->
  exists d, In d (defects st rq)
    /\ fst (serve rnd st rq) = RErr (code_of d)
    /\ s_store (snd (serve rnd st rq)) = s_store st
    /\ s_closed (snd (serve rnd st rq)) = false.
Proof. exact invalid_is_error_and_pure. Qed.

(** ... so a request with exactly one defect gets exactly that defect's code. *)
Theorem C17_single_defect_exact_code : forall rnd st rq d,
  is_p3 (r_proto rq) = false ->
  s_closed st = false -> r_auth rq = true -> gen_ok rnd st ->
  defects st rq = [d] -> fst (serve rnd st rq) = RErr (code_of d).
Proof. exact single_defect_code. Qed.

(** The full statement (every HTTP version) does not hold for the code as it is: over HTTP/3 the
    version check and the method checks are skipped for every request, not only for the WebTransport
    session request.  Witnesses: [GET ?EIO=3&transport=polling] and [POST ?EIO=4&transport=polling]
    over HTTP/3 on an empty running server: one defect each, yet a session is created. *)
Theorem C17_invalid_is_error_and_pure_refuted :
  let st := mkState false [] 0 in
  let rnd := fun _ : N => repeat 7%N 12 in
  defects st h3_bad_version = [BadVersion] /\ creates (fst (serve rnd st h3_bad_version)) <> None
  /\ defects st h3_bad_method = [BadMethod] /\ creates (fst (serve rnd st h3_bad_method)) <> None.
Proof. exact http3_refuted. Qed.

(** The side condition of the partial theorem is satisfiable and is what HTTP/1.x and HTTP/2 requests satisfy. *)
Example C17_partial_side_condition : is_p3 P1 = false /\ is_p3 P2 = false /\ is_p3 P3 = true.
Proof. repeat split. Qed.

(** Whatever the request (any HTTP version, valid or not, any method, any parameters, any
    Authenticator answer, any random bytes): the closed flag is untouched, and either the store is
    untouched, or the request was a handshake (no sid) accepted by the Authenticator and exactly one
    session was added under an id that no live session had; over HTTP/1.x and HTTP/2 that request was
    a GET with protocol version 4 and the answer carries the OPEN packet. *)
Theorem C17_only_a_handshake_changes_the_store : forall rnd st rq r st',
  serve rnd st rq = (r, st') ->
  s_closed st' = s_closed st /\
  ((creates r = None /\ s_store st' = s_store st)
   \/ exists sid k, creates r = Some (sid, k) /\ r_sid rq = [] /\ r_auth rq = true
        /\ (is_p3 (r_proto rq) = false -> r = ROpen sid k /\ r_meth rq = GET /\ eio_is4 (r_eio rq) = true)
        /\ ~ In sid (sids (s_store st)) /\ s_store st' = s_store st ++ [(sid, k)]).
Proof. exact serve_effect. Qed.

(** No session is created by a request with an unsupported version or a wrong method arriving over
    HTTP/1.x or HTTP/2 (whatever else the request says, whatever the server state). *)
Theorem C17_creation_needs_valid_request : forall rnd st rq r st' sid k,
  is_p3 (r_proto rq) = false ->
  serve rnd st rq = (r, st') -> creates r = Some (sid, k) ->
  eio_is4 (r_eio rq) = true /\ r_meth rq = GET /\ r_sid rq = [] /\ r_auth rq = true.
Proof. exact creation_needs_valid_request. Qed.

(** Every accepted handshake yields a session id unique among the live sessions (by the store's
    own check, independently of the random source), and session ids stay pairwise distinct. *)
Theorem C17_valid_handshake_fresh : forall rnd st rq r sid k st',
  serve rnd st rq = (r, st') -> creates r = Some (sid, k) ->
  ~ In sid (sids (s_store st)) /\ s_store st' = s_store st ++ [(sid, k)] /\ (wf st -> wf st').
Proof. exact valid_handshake_fresh. Qed.

(** Two generated ids whose sequence numbers differ in their low 24 bits are different, whatever
    the random source returned for either of them. *)
Theorem C17_ids_distinct_by_seq : forall q1 q2 r1 r2,
  bytes_ok r1 = true -> bytes_ok r2 = true ->
  (q1 mod 16777216 <> q2 mod 16777216)%N ->
  generate_id q1 r1 <> generate_id q2 r2.
Proof. exact ids_distinct_by_seq. Qed.

(** Hence any 2^24 consecutive ids (the uint32 counter wrapping around included) are pairwise
    distinct, for every random source. *)
Theorem C17_consecutive_ids_distinct : forall (rnd : N -> bytes) start i j,
  (forall k, bytes_ok (rnd k) = true) ->
  (i < j)%N -> (j - i < 16777216)%N ->
  generate_id (wrap32 (start + i)) (rnd i) <> generate_id (wrap32 (start + j)) (rnd j).
Proof. exact consecutive_ids_distinct. Qed.

(** What the ids suite checks per row ([tail_ok]: the id ends with the base64url group of its
    sequence number) implies that the ids of a run of at most 2^24 are pairwise distinct. *)
Theorem C17_ids_rows_distinct : forall (start : N) (ids : list bytes),
  (N.of_nat (length ids) <= 16777216)%N ->
  (forall i id, nth_error ids i = Some id -> tail_ok (wrap32 (start + N.of_nat i)) id) ->
  NoDup ids.
Proof. exact ids_rows_distinct. Qed.

(** Once the server is closed, every request is answered 503 and changes nothing. *)
Theorem C17_closed_admits_none : forall rnd st rq,
  s_closed st = true -> serve rnd st rq = (RClosed, st).
Proof. exact serve_closed. Qed.

(** Close closes every live session (the store is empty afterwards) ... *)
Theorem C17_close_closes_all : forall st,
  s_closed (close st) = true /\ s_store (close st) = [] /\ s_seq (close st) = s_seq st.
Proof. exact close_closes_all. Qed.

(** ... and whatever arrives afterwards is answered 503 and the store stays empty. *)
Theorem C17_close_then_nothing : forall st rqs,
  let '(answers, st') := serve_all (close st) rqs in
  Forall (fun r => r = RClosed) answers /\ s_store st' = [] /\ s_closed st' = true.
Proof. exact close_then_nothing. Qed.

(** Handshakes racing Close, for EVERY schedule of any number of handshake threads and the Close
    thread (steps: closed check / store insertion / re-check; flag / snapshot / one socket.Close
    each): when Close has returned and no handshake is in flight, the store is empty, the server
    is closed, every session that was live and every session admitted meanwhile has had its close
    run, and no socket was closed twice.  Session ids of distinct sockets are distinct
    (C17_ids_distinct_by_seq and the store's check). *)
Theorem C17_close_race_closes_all : forall (sidf : nat -> N) (live : list N),
  (forall i j, sidf i = sidf j -> i = j) -> (forall i, ~ In (sidf i) live) ->
  forall sched,
    let s := run true sidf sched live in
    q_cp s = CDone -> settled s ->
    q_store s = []
    /\ q_closed s = true
    /\ (forall x, In x live -> In x (q_closedsocks s))
    /\ (forall i, q_hs s i = HAdmitted -> In (sidf i) (q_closedsocks s))
    /\ NoDup (q_closedsocks s).
Proof. exact close_race_closes_all. Qed.

(** A handshake whose closed check comes after the flag was set is refused and adds nothing. *)
Theorem C17_close_race_refuses_late : forall (sidf : nat -> N) s i s',
  q_closed s = true -> q_hs s i = H0 -> step true sidf (Some i) s = Some s' ->
  q_hs s' i = HRefused /\ q_store s' = q_store s.
Proof. exact refused_when_closed. Qed.

(** The defect that was repaired (fix 1046f23): without the re-check after the store insertion, the
    schedule forced by an Authenticator that calls srv.Close() leaves the late session in the
    store of the closed server, never closed. *)
Example C17_unfixed_close_race_leaks :
  let s := run false (fun i => N.of_nat i) (forced_schedule 0) [] in
  q_cp s = CDone /\ settled s /\ q_closed s = true /\ q_store s = [0%N] /\ q_closedsocks s = [].
Proof. exact unfixed_leaks. Qed.

(** Non-vacuity: a running server with one live polling session; a PUT carrying that sid has the
    single defect "wrong method" and is answered with code 2; a handshake is accepted. *)
Example C17_example :
  let sid := generate_id 7 (repeat 1%N 12) in
  let st := mkState false [(sid, Polling)] 8 in
  let rnd := fun _ : N => repeat 2%N 12 in
  defects st (mkReq P2 PUT [52]%N s_polling sid false true) = [BadMethod]
  /\ fst (serve rnd st (mkReq P2 PUT [52]%N s_polling sid false true)) = RErr 2
  /\ gen_ok rnd st
  /\ is_open (fst (serve rnd st (mkReq P1 GET [52]%N s_polling [] false true))) = true.
Proof. vm_compute. repeat split; discriminate. Qed.
