(** C03 - Acks fire at most once, exactly once with a timeout, and carry the right reply.
    Statements only; every proof is `exact <lemma>`.  Model: Sio/Ack.v (one emitting socket, the
    answering part of its peer, the network; every goroutine, the user, the peer and the network are
    schedulable actions).  [reach s]: s is reached from an initial state by ANY sequence of actions
    (any cfg, also the pre-fix purge); [reach_fixed s]: the same for the repaired code. *)
From SioV Require Import Base.GoSem Base.Conc Sio.Ack Sio.AckProofs Sio.AckQueue Sio.AckQueueProofs.

(** Whatever the schedule, however many ACK packets arrive for an id (duplicates, unsolicited ones,
    from a compliant peer or not), timer or no timer: the callback registered for an ack id has run
    at most once. *)
Theorem C03_at_most_once : forall s id, reach s -> length (outcomes s id) <= 1.
Proof. exact at_most_once. Qed.

(** Callbacks take time (a goroutine at [RRunning]/[TRunning] is inside the user callback, for as long
    as the schedule likes).  The log records invocation STARTS, so [C03_at_most_once] already counts
    overlapping invocations; explicitly: while the callback of [id] is executing with a reply - whatever
    happened meanwhile (timer woke up, duplicates arrived, ...) - it is the only invocation so far, and
    by [C03_at_most_once] no later state has a second one.  Same for a running timeout callback. *)
Theorem C03_no_invocation_while_reply_callback_runs : forall s id a,
  reach s -> In (RRunning id a) (st_replies s) -> outcomes s id = [OReply a].
Proof. exact running_reply_only. Qed.

Theorem C03_no_invocation_while_timeout_callback_runs : forall s id e,
  reach s -> get_emit s id = Some e -> e_timer e = TRunning -> outcomes s id = [OTimeout].
Proof. exact running_timeout_only. Qed.

(** With a timeout: in every state in which no goroutine can move any more, the callback has run
    exactly once - with the reply iff the onAck goroutine won the handler mutex (called), otherwise
    with the timeout (timedOut). *)
Theorem C03_exactly_once_with_timeout : forall s id e,
  reach_fixed s -> terminalb s = true -> get_emit s id = Some e -> e_timer e <> TNone ->
  (e_called e = true /\ e_timedOut e = false /\ exists a, outcomes s id = [OReply a])
  \/ (e_called e = false /\ e_timedOut e = true /\ outcomes s id = [OTimeout]).
Proof. exact exactly_once. Qed.

(** When the timer goroutine of [id] runs the purge, sendBuffer loses exactly the frames tagged
    with [id]; all other frames stay, in their order - whatever the buffer holds. *)
Theorem C03_purge_exact : forall s id e s',
  c_oldpurge (st_cfg s) = false ->
  get_emit s id = Some e -> e_timer e = TPurge -> step (LTimer id) s = Some s' ->
  st_buf s' = filter (fun f => negb (tag_is id f)) (st_buf s)
  /\ sublist (st_buf s') (st_buf s)
  /\ (forall f, In f (st_buf s') <-> In f (st_buf s) /\ tag_is id f = false).
Proof. exact purge_step_exact. Qed.

(** sendBufferMu is free in every terminal state ... *)
Theorem C03_no_mutex_left_held : forall s,
  reach_fixed s -> terminalb s = true -> st_bufmu s = None.
Proof. exact no_mutex_left_held. Qed.

(** ... and in every reachable state its holder is a timer goroutine that can take its next step
    (so nobody waits for it forever). *)
Theorem C03_mutex_holder_can_run : forall s j,
  reach_fixed s -> st_bufmu s = Some j -> exists s', step (LTimer j) s = Some s'.
Proof. exact mutex_holder_runs. Qed.

(** Compliant peer and reliable network ([reach_c]: no ACK packet is injected from outside): if the
    callback of [id] got a reply, its arguments are those of the FIRST call of the ack function of
    the event that carried [id], and the peer really sent them.  (Ack ids are positions in the
    emitter's allocation order: an id is never given to a second event.) *)
Theorem C03_reply_matches_event : forall s id a,
  reach_c s -> In (OReply a) (outcomes s id) ->
  first_call (st_plog s) id = Some a /\ In (id, a) (st_psent s).
Proof. exact reply_matches_event. Qed.

(** However often and from however many goroutines the peer's handlers call the ack function of an
    event, at most one ACK packet is put on the wire for it, carrying the first call's arguments. *)
Theorem C03_one_reply_per_event : forall s id,
  reach s ->
  cnt (fstis id) (st_psent s) <= 1
  /\ (forall a, In (id, a) (st_psent s) -> first_call (st_plog s) id = Some a).
Proof. exact one_reply_per_event. Qed.

(** Non-vacuity: a schedule in which reply and timer race for the same id, a duplicate arrives,
    and the state reached is terminal with exactly the reply delivered. *)
(** (the timer wakes up while the reply callback is still executing: LTimer between the start
    and the end of the callback of onAck goroutine 0) *)
Example C03_example_race :
  let s := run [LEmit true 1; LEmitStep 0; LEmitStep 0; LPeerAck 0 [7%N]; LPeerAck 0 [8%N]; LDeliver 0;
                LPacketIn 0 [9%N]; LReply 0 true; LReply 0 true; LReply 0 true; LTimer 0; LReply 1 true;
                LReply 0 true]
               (init_state (mkConfig true false) true) in
  terminalb s = true /\ outcomes s 0 = [OReply [7%N]] /\ st_psent s = [(0, [7%N])].
Proof. vm_compute. auto. Qed.

(** What the fix repaired, on the model of the old loop: an event with one attachment buffered
    offline makes the purge panic (mutex left locked, callback never called); behind another
    packet's frames the loop leaves an attachment frame of the timed-out packet in the buffer. *)
Example C03_prefix_purge_panics : purge_old 0 (frames_of (Some 0) 0 1) = Panic.
Proof. exact purge_old_panics. Qed.

(** ** the retry queue (ClientSocketConfig.Retries > 0; model Sio/AckQueue.v).
    The user's callback is called by replacementAck, not through the handler guard; every attempt is
    an Emit whose own handler fires at most once ([C03_at_most_once]) = one [QOutcome].
    [qreach]: all schedules of concurrent emitters, outcomes, replacementAck goroutines, connects and
    reconnect drains; [qreach_nf]: the same without a reconnect drain (drainQueue(true)) hitting a
    head that is still waiting for its acknowledgement (finding class retry-queue-forced-drain). *)

(** The full statement is false for the code as it is: the schedule [known_sched] (replayed on the real
    client by the `queue` suite) runs the callback of packet 0 twice ... *)
Theorem C03_queue_at_most_once_refuted : exists s, qreach s /\ length (q_outcomes s 0) = 2.
Proof. exact queue_at_most_once_refuted. Qed.

(** ... and, in the same run, the callback of the packet queued behind it never runs and its
    replacementAck goroutine panics on the empty queue. *)
Example C03_queue_known_finding :
  let s := qrun known_sched (q_init 1 true) in
  q_outcomes s 0 = [OTimeout; OReply [42%N]] /\ q_outcomes s 1 = [] /\ In RAPanicked (qs_threads s).
Proof. exact known_finding_in_model. Qed.

(** Outside that class: at most once per user callback, for every schedule. *)
Theorem C03_queue_at_most_once_partial : forall s p, qreach_nf s -> length (q_outcomes s p) <= 1.
Proof. exact queue_at_most_once. Qed.

(** The head stays pending until it has been shifted: as long as an attempt of [p] can still deliver
    or a replacementAck goroutine of [p] has not shifted the queue yet (or is on its retry path), [p]
    is the head of the queue, is marked pending (so no drainQueue(false) of any emitter re-sends
    it), has not been called, and has exactly one holder. *)
Theorem C03_queue_head_pending_until_shifted : forall s p,
  qreach_nf s ->
  (exists a t, nth_error (qs_attempts s) a = Some (p, t, true))
  \/ (exists k r, nth_error (qs_threads s) k = Some r /\ isPreT p r = true) ->
  hd_error (qs_queue s) = Some p /\ q_pending_of s p = true /\ q_outcomes s p = [] /\ pre s p = 1.
Proof. exact head_pending_until_shifted. Qed.

(** The blind `queuedPackets[1:]` never runs on an empty queue (no goroutine is lost, so no callback
    is silently skipped). *)
Theorem C03_queue_shift_never_panics : forall s,
  qreach_nf s -> forall r, In r (qs_threads s) -> r <> RAPanicked.
Proof. exact shift_never_panics. Qed.

(** The side condition is satisfiable with reconnect drains in the run (a drain that finds the head
    not pending is inside the class that is proved). *)
Example C03_queue_partial_nonvacuous :
  exists s', qstep_nf QForceDrain (qrun [QAdd] (q_init 1 true)) = Some s' /\ qs_attempts s' = [(0, 1, true)].
Proof. eexists. split; vm_compute; reflexivity. Qed.
