(** C03 - Acks fire at most once, exactly once with a timeout, and carry the right reply.
    Statements only; every proof is `exact <lemma>`.  Model: Sio/Ack.v. *)
From SioV Require Import Base.GoSem Base.Conc Sio.Ack Sio.AckProofs.

(** When the timer goroutine of [id] runs the purge, sendBuffer loses exactly the frames tagged
    with [id]; all other frames stay, in their order - whatever the buffer holds. *)
Theorem C03_purge_exact : forall s id e s',
  c_oldpurge (st_cfg s) = false ->
  get_emit s id = Some e -> e_timer e = TPurge -> step (LTimer id) s = Some s' ->
  st_buf s' = filter (fun f => negb (tag_is id f)) (st_buf s)
  /\ sublist (st_buf s') (st_buf s)
  /\ (forall f, In f (st_buf s') <-> In f (st_buf s) /\ tag_is id f = false).
Proof. exact purge_step_exact. Qed.
