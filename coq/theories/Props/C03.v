(** C03 - Acks fire at most once, exactly once with a timeout, and carry the right reply.
    Statements only; every proof is `exact <lemma>`.  Model: Sio/Ack.v (one emitting socket, the
    answering part of its peer, the network; every goroutine, the user, the peer and the network are
    schedulable actions).  [reach s]: s is reached from an initial state by ANY sequence of actions
    (any cfg, also the pre-fix purge); [reach_fixed s]: the same for the repaired code. *)
From SioV Require Import Base.GoSem Base.Conc Sio.Ack Sio.AckProofs.

(** Whatever the schedule, however many ACK packets arrive for an id (duplicates, unsolicited ones,
    from a compliant peer or not), timer or no timer: the callback registered for an ack id has run
    at most once. *)
Theorem C03_at_most_once : forall s id, reach s -> length (outcomes s id) <= 1.
Proof. exact at_most_once. Qed.

(** With a timeout: in every state in which no goroutine can move any more, the callback has run
    exactly once - with the reply iff the onAck goroutine won the handler mutex (called), otherwise
    with the timeout (timedOut). *)
Theorem C03_exactly_once_with_timeout : forall s id e,
  reach_fixed s -> terminalb s = true -> get_emit s id = Some e -> e_timer e <> TNone ->
  (e_called e = true /\ e_timedOut e = false /\ exists a, outcomes s id = [OReply a])
  \/ (e_called e = false /\ e_timedOut e = true /\ outcomes s id = [OTimeout]).
Proof. exact exactly_once. Qed.

(** When the timer goroutine of [id] runs the purge, sendBuffer loses exactly the frames tagged
    with [id]; all other frames stay, in their order - whatever the buffer holds. *)
Theorem C03_purge_exact : forall s id e s',
  c_oldpurge (st_cfg s) = false ->
  get_emit s id = Some e -> e_timer e = TPurge -> step (LTimer id) s = Some s' ->
  st_buf s' = filter (fun f => negb (tag_is id f)) (st_buf s)
  /\ sublist (st_buf s') (st_buf s)
  /\ (forall f, In f (st_buf s') <-> In f (st_buf s) /\ tag_is id f = false).
Proof. exact purge_step_exact. Qed.

(** sendBufferMu is free in every terminal state ... *)
Theorem C03_no_mutex_left_held : forall s,
  reach_fixed s -> terminalb s = true -> st_bufmu s = None.
Proof. exact no_mutex_left_held. Qed.

(** ... and in every reachable state its holder is a timer goroutine that can take its next step
    (so nobody waits for it forever). *)
Theorem C03_mutex_holder_can_run : forall s j,
  reach_fixed s -> st_bufmu s = Some j -> exists s', step (LTimer j) s = Some s'.
Proof. exact mutex_holder_runs. Qed.

(** What the fix repaired, on the model of the old loop: an event with one attachment buffered
    offline makes the purge panic (mutex left locked, callback never called); behind another
    packet's frames the loop leaves an attachment frame of the timed-out packet in the buffer. *)
Example C03_prefix_purge_panics : purge_old 0 (frames_of (Some 0) 0 1) = Panic.
Proof. exact purge_old_panics. Qed.
