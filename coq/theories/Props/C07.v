(** C07 - A transport upgrade loses, duplicates and breaks nothing.
    Statements only; every proof is `exact <lemma>` (or a kernel computation for witnesses). *)
From SioV Require Import Base.GoSem Base.Conc Eio.Upgrade Eio.UpgradeProofs.

(** A close reported by the superseded (old) transport after the swap changes nothing: the socket
    stays open on the new transport, on both sides, in every state. *)
Theorem C07_superseded_close_ignored : forall st st',
  (step SOldClose st = Some st' \/ step COldClose st = Some st') -> st' = st.
Proof. exact superseded_close_ignored. Qed.

(** Refuted at full strength: if the websocket is cut after the client accepted the probe pong
    (it has swapped and sent UPGRADE) but before the server processed the UPGRADE packet, the
    client is closed on a dead websocket, the server stays on long-polling and later messages
    are lost.  (Replayed on the real code by the rig: fault cut\@upgrade / stall\@upgrade.) *)
Theorem C07_failed_upgrade_keeps_transport_refuted : exists sched,
  let st := drain 8 (run sched init) in
  quiescentb st = true /\ c_ws st = true /\ s_ws st = false /\ c_closed st = true
  /\ s_sent st = 1%N /\ c_sent st = 1%N /\ s_recv st = [].
Proof. exists sched_commit_cut. vm_compute. repeat split. Qed.

(** The timer-vs-UPGRADE boundary race (model only): the server's upgrade timer takes its
    time-out branch, the UPGRADE packet is processed (the swap succeeds), then the timer closes
    the transport that has just become current: the server socket closes. *)
Theorem C07_timer_boundary_race_refuted : exists sched,
  let st := drain 8 (run sched init) in
  quiescentb st = true /\ s_ws st = true /\ c_ws st = true /\ s_closed st = true /\ broke st = true.
Proof. exists sched_timer_race. vm_compute. repeat split. Qed.
