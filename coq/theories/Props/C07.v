(** C07 - A transport upgrade loses, duplicates and breaks nothing.
    Statements only; every proof is `exact <lemma>` (or a kernel computation for witnesses).

    The model is Eio/Upgrade.v: [run sched init] is the state after ANY schedule (list of labels of
    both parties, the links, the application sends and the faults; a label that is not enabled is
    skipped).  [quiescentb st] = no internal label is enabled (C07_quiescent_is_terminal).
    [broke st] is the ghost flag of the finding class: a cut / stall / upgrade time-out that fell
    inside the commit window (after the client accepted the probe pong, before the server processed
    UPGRADE), or a timer that closes a transport which has meanwhile become current.  Only fault and
    timer labels raise it. *)
From SioV Require Import Base.GoSem Base.Conc Eio.Upgrade Eio.UpgradeInv Eio.UpgradeProofs Eio.UpgradeProgress.

(** Exactly once, for ALL schedules outside the finding class: whenever the system has come to
    rest, every message either application sent (before, during, after the upgrade; whatever was
    queued, in a poll response or in a POST when the transports were swapped) has been delivered to
    the other application exactly once, nothing else has been delivered, both sockets are open and
    both sides are on the same transport. *)
Theorem C07_exactly_once_partial : forall sched,
  let st := run sched init in
  broke st = false -> quiescentb st = true ->
  (forall n, cntN n (c_recv st) = sent_ind n (s_sent st) /\ cntN n (s_recv st) = sent_ind n (c_sent st))
  /\ c_closed st = false /\ s_closed st = false /\ c_ws st = s_ws st.
Proof. exact exactly_once_at_quiescence. Qed.

(** A refused / stalled / cut / timed-out attempt (outside the commit window) leaves both sides on
    long-polling with the socket open, in every state of every schedule; by the theorem above the
    messages sent later are then delivered exactly once on that transport. *)
Theorem C07_failed_upgrade_keeps_transport_partial : forall sched,
  let st := run sched init in
  broke st = false ->
  (k_ws st = WRefused \/ k_ws st = WStalled \/ k_ws st = WCut) ->
  c_ws st = false /\ s_ws st = false /\ c_closed st = false /\ s_closed st = false.
Proof. exact failed_upgrade_keeps_transport. Qed.

(** Repaired client (Pause before the probe, UPGRADE only once polling has stopped): after the swap
    no long-polling request is in flight and no response is on its way, for every schedule - a late
    poll response can no longer land between two websocket messages (the Socket.IO header and its
    attachments). *)
Theorem C07_no_poll_delivery_after_swap : forall sched,
  let st := run sched init in
  c_ws st = true -> c_loop st <> LFlight /\ k_req st = false /\ k_resp st = RNone.
Proof. exact no_poll_in_flight_after_swap. Qed.

(** The client never lets anything overtake its UPGRADE packet (write lock held across swap, Discard and
    UPGRADE; any number of concurrent senders, every schedule): while the server has not upgraded, the
    candidate websocket carries probe PINGs, then UPGRADE, and application messages only behind it - the
    server's "invalid packet received" branch (which closes the new transport) is unreachable. *)
Theorem C07_candidate_gets_only_probe_packets : forall sched,
  let st := run sched init in
  s_ws st = false ->
  pre_ok (k_cs st) = true /\ match k_cs st with [] => True | p :: _ => p = Ping \/ p = Upg end.
Proof. exact candidate_gets_only_probe_packets. Qed.

(** A close reported by the superseded (old) transport after the swap changes nothing: the socket
    stays open on the new transport, on both sides, in every state. *)
Theorem C07_superseded_close_ignored : forall st st',
  (step SOldClose st = Some st' \/ step COldClose st = Some st') -> st' = st.
Proof. exact superseded_close_ignored. Qed.

(** [quiescentb] really means that neither program nor the fault-free network can move. *)
Theorem C07_quiescent_is_terminal : forall st,
  quiescentb st = true ->
  (forall l, In l internal_fixed -> step l st = None) /\ (forall i, step (PostDeliver i) st = None).
Proof. exact quiescent_no_internal. Qed.

(** Progress: after ANY schedule (faults included) a finite sequence of internal labels brings the
    system to rest - quiescence, the hypothesis of C07_exactly_once_partial, is always reachable;
    every internal step decreases the measure [mu], so every maximal internal run is that short. *)
Theorem C07_progress : forall sched0,
  exists sched, Forall (fun l => In l internal_fixed) sched
                /\ quiescentb (run sched (run sched0 init)) = true.
Proof. exact progress_after_any_schedule. Qed.

Theorem C07_internal_steps_bounded : forall l st st',
  (c_cand st = KUp -> c_ws st = true) -> internal l -> step l st = Some st' -> mu st' < mu st.
Proof. exact mu_decreases. Qed.

(** Refuted at full strength: if the websocket is cut after the client accepted the probe pong
    (it has swapped and sent UPGRADE) but before the server processed the UPGRADE packet, the
    client is closed on a dead websocket, the server stays on long-polling and later messages
    are lost.  (Replayed on the real code by the rig: fault cut\@upgrade / stall\@upgrade.) *)
Theorem C07_failed_upgrade_keeps_transport_refuted : exists sched,
  let st := drain 8 (run sched init) in
  quiescentb st = true /\ c_ws st = true /\ s_ws st = false /\ c_closed st = true
  /\ s_sent st = 1%N /\ c_sent st = 1%N /\ s_recv st = [].
Proof. exists sched_commit_cut. vm_compute. repeat split. Qed.

(** The timer-vs-UPGRADE boundary race (model only): the server's upgrade timer takes its
    time-out branch, the UPGRADE packet is processed (the swap succeeds), then the timer closes
    the transport that has just become current: the server socket closes. *)
Theorem C07_timer_boundary_race_refuted : exists sched,
  let st := drain 8 (run sched init) in
  quiescentb st = true /\ s_ws st = true /\ c_ws st = true /\ s_closed st = true /\ broke st = true.
Proof. exists sched_timer_race. vm_compute. repeat split. Qed.

(** Non-vacuity of the side condition: an upgrade with traffic queued on both sides at the swap,
    and a refused attempt followed by traffic, both come to rest with [broke = false]. *)
Example C07_upgrade_example :
  let st := run ([SSend; CSend; CPollStart; GetArrive; GetRoute; GetFirst; CDial; SAccept; CDialOk; SRecvWs;
                  SSend; CSend; CRecvWs; SSend; SSend] ++ concat (repeat internal_core 6)) init in
  broke st = false /\ quiescentb st = true /\ c_ws st = true /\ s_ws st = true
  /\ c_recv st = [0; 1; 2; 3]%N /\ s_recv st = [0; 1]%N.
Proof. vm_compute. repeat split. Qed.

Example C07_refused_example :
  let st := run ([CPollStart; CDial; Refuse; SSend; CSend] ++ concat (repeat internal_core 6) ++ [SSend]
                 ++ concat (repeat internal_core 6)) init in
  broke st = false /\ quiescentb st = true /\ k_ws st = WRefused /\ c_ws st = false
  /\ c_recv st = [0; 1]%N /\ s_recv st = [0]%N.
Proof. vm_compute. repeat split. Qed.
