(** C02 - Per-emitter order is preserved and binary frames are never interleaved.
    Statements only; every proof is `exact <lemma>` (witnesses by computation).

    Model: Sio/Pipeline.v - n emitters (any n, any burst lengths, any attachment counts), the
    packet queue, the single drainer, the transport (websocket / polling server side / polling
    client side with ANY batch splitter that keeps the sequence), Engine.IO control packets sent
    concurrently, the peer's parser, one dispatch goroutine per finished packet.
    "For all schedules" = for every state reachable by any sequence of actions. *)
From SioV Require Import Base.Conc Sio.Pipeline Sio.PipelineProofs Sio.PipelineCheck Sio.PipelineInst.

(** (a) ON THE WIRE.  Whatever the schedule, the MESSAGE frames the peer has been handed are a
    prefix of [flat_map frames_of ps] where [ps] is an interleaving AT PACKET GRANULARITY of
    prefixes of the per-emitter sequences ([pops progs order = Some (ps, what is left to emit)]):
    per-emitter order holds, and the frames of a packet (header + its attachments) are contiguous. *)
Theorem C02_wire_order :
  forall (data : Type) (declared : data -> option nat) (max_atts : nat)
         (split : list (frame data) -> list (list (frame data))),
    (forall b, concat (split b) = b) ->
  forall (tr : transport) (progs : list (list (spacket data))) (s : state data),
    reachable_from declared max_atts split tr progs s ->
    exists order ps rest,
      pops progs order = Some (ps, st_em s) /\
      msgs (st_wire s) ++ rest = flat_map frames_of ps.
Proof. exact (@wire_order). Qed.

(** Once everything is drained: exactly the frames of an interleaving of the COMPLETE sequences. *)
Theorem C02_wire_complete :
  forall (data : Type) (declared : data -> option nat) (max_atts : nat)
         (split : list (frame data) -> list (list (frame data))),
    (forall b, concat (split b) = b) ->
  forall (tr : transport) (progs : list (list (spacket data))) (s : state data),
    reachable_from declared max_atts split tr progs s -> quiescent_state s ->
    exists order ps,
      pops progs order = Some (ps, st_em s) /\ all_nil (st_em s) = true /\
      msgs (st_wire s) = flat_map frames_of ps.
Proof. exact (@wire_complete). Qed.

(** What "interleaving" gives per emitter: sequence [i] is exactly its packets in the order they
    appear in [ps], followed by what it has not sent yet (nothing lost, duplicated or reordered). *)
Theorem C02_per_emitter_order :
  forall (A : Type) (ls : list (list A)) order ps rem i l,
    pops ls order = Some (ps, rem) -> nth_error ls i = Some l ->
    exists r, nth_error rem i = Some r /\ l = proj_of i order ps ++ r.
Proof. exact (@pops_proj). Qed.

(** Reassembly: the peer's parser never fails and finishes packets in wire order, each equal to an
    emitted packet - its header with exactly its own attachments. *)
Theorem C02_reassembly :
  forall (data : Type) (declared : data -> option nat) (max_atts : nat)
         (split : list (frame data) -> list (list (frame data))),
    (forall b, concat (split b) = b) ->
  forall (tr : transport) (progs : list (list (spacket data))),
    Forall (Forall (wf_packet declared max_atts)) progs ->
  forall s, reachable_from declared max_atts split tr progs s ->
    st_rerr s = false /\ exists k, st_finished s = firstn k (map snd (st_log s)).
Proof. exact (@reassembly). Qed.

Theorem C02_reassembly_complete :
  forall (data : Type) (declared : data -> option nat) (max_atts : nat)
         (split : list (frame data) -> list (list (frame data))),
    (forall b, concat (split b) = b) ->
  forall (tr : transport) (progs : list (list (spacket data))),
    Forall (Forall (wf_packet declared max_atts)) progs ->
  forall s, reachable_from declared max_atts split tr progs s -> quiescent_state s ->
    st_finished s = map snd (st_log s) /\ st_parser s = None /\
    Permutation.Permutation (st_entered s) (map snd (st_log s)).
Proof. exact (@reassembly_complete). Qed.

(** (b) AT HANDLER ENTRY.  Every finished packet is dispatched exactly once ... *)
Theorem C02_dispatch_exactly_once :
  forall (data : Type) (declared : data -> option nat) (max_atts : nat)
         (split : list (frame data) -> list (list (frame data))),
    (forall b, concat (split b) = b) ->
  forall (tr : transport) (progs : list (list (spacket data))) (s : state data),
    reachable_from declared max_atts split tr progs s ->
    Permutation.Permutation (st_entered s ++ st_pending s) (st_finished s).
Proof. exact (@dispatch_exactly_once). Qed.

(** ... but the order is NOT preserved by the code as it is.  The full statement would be
      forall tr progs sched, exists rem, interleaving progs (st_entered (run .. sched progs)) rem.
    Refuted: one emitter, two events without attachments, websocket; the second packet's dispatch
    goroutine reaches the handler first ([witness_progs], [witness_sched] in Sio/PipelineInst.v;
    finding handler-entry-order:dispatch-goroutines; the live
    handler rig exhibits it on the real code). *)
Theorem C02_handler_entry_order_refuted :
  exists (tr : transport) (progs : list (list (spacket nat))) (sched : list action),
    Forall (Forall (wf_packet (fun _ => Some 0) 0)) progs /\
    ~ exists rem, interleaving progs
                    (st_entered (run (fun _ => Some 0) 0 (fun b => [b]) tr sched progs)) rem.
Proof. exact C02_handler_entry_refuted_witness. Qed.

(** Partial: if the dispatch goroutines reach their handlers in the order they were spawned
    (decidable side condition on the schedule, excluding exactly the finding class), handler entry
    order is an interleaving of prefixes of the per-emitter sequences. *)
Theorem C02_handler_entry_order_partial :
  forall (data : Type) (declared : data -> option nat) (max_atts : nat)
         (split : list (frame data) -> list (list (frame data))),
    (forall b, concat (split b) = b) ->
  forall (tr : transport) (progs : list (list (spacket data))),
    Forall (Forall (wf_packet declared max_atts)) progs ->
  forall sched, fifo_dispatch sched = true ->
    exists rem, interleaving progs (st_entered (run declared max_atts split tr sched progs)) rem.
Proof. exact (@entry_order_fifo). Qed.

(** The side condition is satisfiable and the conclusion non-trivial. *)
Example C02_fifo_example :
  fifo_dispatch [Emit 0; Emit 0; DrGet; DrSend; DrSend; Recv; Recv; Dispatch 0; Dispatch 0] = true /\
  st_entered (run (fun _ : nat => Some 0) 0 (fun b => [b]) WS
                  [Emit 0; Emit 0; DrGet; DrSend; DrSend; Recv; Recv; Dispatch 0; Dispatch 0]
                  witness_progs) = [mkSP 1 []; mkSP 2 []].
Proof. vm_compute. split; reflexivity. Qed.

(** The instance for the real long-polling batcher (Eio/Batcher.v, C13): it keeps the sequence. *)
Theorem C02_real_batcher_keeps_sequence :
  forall max b, concat (batcher_split max b) = b.
Proof. exact batcher_split_concat. Qed.

(** The checker evaluated on recorded wire histories is sound: an accepted frame sequence is the
    frames of an interleaving at packet granularity of prefixes of the per-emitter sequences. *)
Theorem C02_checker_sound :
  forall (data : Type) (deqb : data -> data -> bool),
    (forall a b, deqb a b = true -> a = b) ->
  forall fuel (progs : list (list (spacket data))) (w : list (frame data)) order rem,
    check_wire deqb fuel progs w = Some (order, rem) ->
    exists ps, pops progs order = Some (ps, rem) /\ w = flat_map frames_of ps.
Proof. exact (@check_wire_sound). Qed.

(** Non-vacuity of the wire theorems: two emitters, a 2-attachment packet and a plain one, polling
    server side, with a control packet sent in between; the wire carries whole packets. *)
Example C02_wire_example :
  let p := mkSP 10 [11; 12] in let q := mkSP 20 [] in
  let s := run (fun h => if Nat.eqb h 10 then Some 2 else Some 0) 0 (fun b => [b]) PollServer
               [Emit 1; Emit 0; DrGet; Control 2; DrSend; Poll; Recv; Recv; Recv; Recv; Recv]
               [[p]; [q]] in
  msgs (st_wire s) = frames_of q ++ frames_of p /\ st_finished s = [q; p].
Proof. vm_compute. split; reflexivity. Qed.
