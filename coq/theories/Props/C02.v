(** C02 - Per-emitter order is preserved and binary frames are never interleaved.
    Statements only; every proof is `exact <lemma>` (witnesses by computation).

    Model: Sio/Pipeline.v - n emitters (any n, any burst lengths, any attachment counts), the
    packet queue, the single drainer, the transport (websocket / polling server side / polling
    client side with ANY batch splitter that keeps the sequence), Engine.IO control packets sent
    concurrently, the peer's parser, one dispatch goroutine per finished packet.
    "For all schedules" = for every state reachable by any sequence of actions. *)
From SioV Require Import Base.Conc Sio.Pipeline Sio.PipelineProofs Sio.PipelineCheck Sio.PipelineInst Sio.PipelineConn Sio.PipelineConnProofs Sio.PipelineRecv Sio.PipelineRecvProofs Sio.PipelineUpgrade Sio.PipelineUpgradeProofs.

(** (a) ON THE WIRE.  Whatever the schedule, the MESSAGE frames the peer has been handed are a
    prefix of [flat_map frames_of ps] where [ps] is an interleaving AT PACKET GRANULARITY of
    prefixes of the per-emitter sequences ([pops progs order = Some (ps, what is left to emit)]):
    per-emitter order holds, and the frames of a packet (header + its attachments) are contiguous. *)
Theorem C02_wire_order :
  forall (data : Type) (declared : data -> option nat) (max_atts : nat)
         (split : list (frame data) -> list (list (frame data))),
    (forall b, concat (split b) = b) ->
  forall (tr : transport) (progs : list (list (spacket data))) (s : state data),
    reachable_from declared max_atts split tr progs s ->
    exists order ps rest,
      pops progs order = Some (ps, st_em s) /\
      msgs (st_wire s) ++ rest = flat_map frames_of ps.
Proof. exact (@wire_order). Qed.

(** Once everything is drained: exactly the frames of an interleaving of the COMPLETE sequences. *)
Theorem C02_wire_complete :
  forall (data : Type) (declared : data -> option nat) (max_atts : nat)
         (split : list (frame data) -> list (list (frame data))),
    (forall b, concat (split b) = b) ->
  forall (tr : transport) (progs : list (list (spacket data))) (s : state data),
    reachable_from declared max_atts split tr progs s -> quiescent_state s ->
    exists order ps,
      pops progs order = Some (ps, st_em s) /\ all_nil (st_em s) = true /\
      msgs (st_wire s) = flat_map frames_of ps.
Proof. exact (@wire_complete). Qed.

(** What "interleaving" gives per emitter: sequence [i] is exactly its packets in the order they
    appear in [ps], followed by what it has not sent yet (nothing lost, duplicated or reordered). *)
Theorem C02_per_emitter_order :
  forall (A : Type) (ls : list (list A)) order ps rem i l,
    pops ls order = Some (ps, rem) -> nth_error ls i = Some l ->
    exists r, nth_error rem i = Some r /\ l = proj_of i order ps ++ r.
Proof. exact (@pops_proj). Qed.

(** Reassembly: the peer's parser never fails and finishes packets in wire order, each equal to an
    emitted packet - its header with exactly its own attachments. *)
Theorem C02_reassembly :
  forall (data : Type) (declared : data -> option nat) (max_atts : nat)
         (split : list (frame data) -> list (list (frame data))),
    (forall b, concat (split b) = b) ->
  forall (tr : transport) (progs : list (list (spacket data))),
    Forall (Forall (wf_packet declared max_atts)) progs ->
  forall s, reachable_from declared max_atts split tr progs s ->
    st_rerr s = false /\ exists k, st_finished s = firstn k (map snd (st_log s)).
Proof. exact (@reassembly). Qed.

Theorem C02_reassembly_complete :
  forall (data : Type) (declared : data -> option nat) (max_atts : nat)
         (split : list (frame data) -> list (list (frame data))),
    (forall b, concat (split b) = b) ->
  forall (tr : transport) (progs : list (list (spacket data))),
    Forall (Forall (wf_packet declared max_atts)) progs ->
  forall s, reachable_from declared max_atts split tr progs s -> quiescent_state s ->
    st_finished s = map snd (st_log s) /\ st_parser s = None /\
    Permutation.Permutation (st_entered s) (map snd (st_log s)).
Proof. exact (@reassembly_complete). Qed.

(** (b) AT HANDLER ENTRY.  Every finished packet is dispatched exactly once ... *)
Theorem C02_dispatch_exactly_once :
  forall (data : Type) (declared : data -> option nat) (max_atts : nat)
         (split : list (frame data) -> list (list (frame data))),
    (forall b, concat (split b) = b) ->
  forall (tr : transport) (progs : list (list (spacket data))) (s : state data),
    reachable_from declared max_atts split tr progs s ->
    Permutation.Permutation (st_entered s ++ st_pending s) (st_finished s).
Proof. exact (@dispatch_exactly_once). Qed.

(** ... but the order is NOT preserved by the code as it is.  The full statement would be
      forall tr progs sched, exists rem, interleaving progs (st_entered (run .. sched progs)) rem.
    Refuted: one emitter, two events without attachments, websocket; the second packet's dispatch
    goroutine reaches the handler first ([witness_progs], [witness_sched] in Sio/PipelineInst.v;
    finding handler-entry-order:dispatch-goroutines; the live
    handler rig exhibits it on the real code). *)
Theorem C02_handler_entry_order_refuted :
  exists (tr : transport) (progs : list (list (spacket nat))) (sched : list action),
    Forall (Forall (wf_packet (fun _ => Some 0) 0)) progs /\
    ~ exists rem, interleaving progs
                    (st_entered (run (fun _ => Some 0) 0 (fun b => [b]) tr sched progs)) rem.
Proof. exact C02_handler_entry_refuted_witness. Qed.

(** Partial: if the dispatch goroutines reach their handlers in the order they were spawned
    (decidable side condition on the schedule, excluding exactly the finding class), handler entry
    order is an interleaving of prefixes of the per-emitter sequences. *)
Theorem C02_handler_entry_order_partial :
  forall (data : Type) (declared : data -> option nat) (max_atts : nat)
         (split : list (frame data) -> list (list (frame data))),
    (forall b, concat (split b) = b) ->
  forall (tr : transport) (progs : list (list (spacket data))),
    Forall (Forall (wf_packet declared max_atts)) progs ->
  forall sched, fifo_dispatch sched = true ->
    exists rem, interleaving progs (st_entered (run declared max_atts split tr sched progs)) rem.
Proof. exact (@entry_order_fifo). Qed.

(** The side condition is satisfiable and the conclusion non-trivial. *)
Example C02_fifo_example :
  fifo_dispatch [Emit 0; Emit 0; DrGet; DrSend; DrSend; Recv; Recv; Dispatch 0; Dispatch 0] = true /\
  st_entered (run (fun _ : nat => Some 0) 0 (fun b => [b]) WS
                  [Emit 0; Emit 0; DrGet; DrSend; DrSend; Recv; Recv; Dispatch 0; Dispatch 0]
                  witness_progs) = [mkSP 1 []; mkSP 2 []].
Proof. vm_compute. split; reflexivity. Qed.

(** (c) THE SECOND PRODUCER PATH (Sio/PipelineConn.v): packets emitted before the CONNECT reply are
    parked in the socket's sendBuffer and flushed by ONE queue add when the reply arrives, while
    other goroutines - the socket is `Connected` from that instant - emit directly.  Whatever the
    schedule (emits before, across and after the reply, the stale-read path included): the MESSAGE
    frames handed to the peer are a prefix of the frames of WHOLE packets, in the order the packets
    entered the queue; the parked frames are whole packets too. *)
Theorem C02_conn_contiguity :
  forall (data : Type) (declared : data -> option nat) (max_atts : nat)
         (split : list (frame data) -> list (list (frame data))),
    (forall b, concat (split b) = b) ->
  forall (tr : transport) (progs : list (list (spacket data))) (c : cstate data),
    creachable declared max_atts split tr progs c ->
    (exists rest, msgs (st_wire (c_base c)) ++ rest
                  = flat_map frames_of (map snd (st_log (c_base c)))) /\
    c_sendbuf c = flat_map frames_of (map snd (c_parked c)).
Proof. exact (@conn_contiguity). Qed.

(** Queue + sendBuffer hold exactly the emitted packets (a permutation of the emit calls, which are
    an interleaving of prefixes of the per-emitter sequences): nothing lost, nothing twice. *)
Theorem C02_conn_exactly_once :
  forall (data : Type) (declared : data -> option nat) (max_atts : nat)
         (split : list (frame data) -> list (list (frame data))),
    (forall b, concat (split b) = b) ->
  forall (tr : transport) (progs : list (list (spacket data))) (c : cstate data),
    creachable declared max_atts split tr progs c ->
    Permutation.Permutation (c_all c) (c_hist c) /\
    pops progs (map fst (c_hist c)) = Some (map snd (c_hist c), st_em (c_base c)).
Proof. exact (@conn_exactly_once). Qed.

(** The peer's parser never fails and finishes the packets in queue order, each with exactly its
    own attachments - over both producer paths. *)
Theorem C02_conn_reassembly :
  forall (data : Type) (declared : data -> option nat) (max_atts : nat)
         (split : list (frame data) -> list (list (frame data))),
    (forall b, concat (split b) = b) ->
  forall (tr : transport) (progs : list (list (spacket data))),
    Forall (Forall (wf_packet declared max_atts)) progs ->
  forall c, creachable declared max_atts split tr progs c ->
    st_rerr (c_base c) = false /\
    exists k, st_finished (c_base c) = firstn k (map snd (st_log (c_base c))).
Proof. exact (@conn_reassembly). Qed.

(** Per-emitter ORDER across the connect instant.  THE CODE BEFORE THE REPAIR ([cstep]: state read
    outside sendBufferMu, direct send whenever Connected) did not keep it: one goroutine, two events;
    the second is emitted after `state = Connected` and before the flush and overtakes the parked
    first one ([window_sched]; the live window rig reproduced it deterministically: one goroutine
    emits e0..e9, wire e3..e9,e0,e1,e2; fixed in /repo, see known_findings.txt). *)
Theorem C02_connect_window_order_refuted :
  exists (tr : transport) (progs : list (list (spacket nat))) (sched : list caction),
    Forall (Forall (wf_packet (fun _ => Some 0) 0)) progs /\
    ~ exists rem, interleaving progs
                    (map snd (c_all (crun (fun _ => Some 0) 0 (fun b => [b]) tr sched progs))) rem.
Proof. exact C02_connect_window_refuted_witness. Qed.

(** Partial: if nobody emits between `state = Connected` and the flush and no emit straddles the
    reply ([window_free], decidable on the schedule), queue + sendBuffer are an interleaving of
    prefixes of the per-emitter sequences (and by C02_conn_contiguity so is the wire). *)
Theorem C02_connect_window_order_partial :
  forall (data : Type) (declared : data -> option nat) (max_atts : nat)
         (split : list (frame data) -> list (list (frame data)))
         (tr : transport) (progs : list (list (spacket data))) (sched : list caction),
    window_free 0 sched = true ->
    let c := crun declared max_atts split tr sched progs in
    pops progs (map fst (c_all c)) = Some (map snd (c_all c), st_em (c_base c)).
Proof. exact (@conn_order_window_free). Qed.

Example C02_window_free_example :
  window_free 0 [CEmit 0; CConnected; CFlush; CEmit 0; CBase DrGet] = true /\
  map snd (c_all (crun (fun _ : nat => Some 0) 0 (fun b => [b]) WS
                       [CEmit 0; CConnected; CFlush; CEmit 0; CBase DrGet] witness_progs))
  = [mkSP 1 []; mkSP 2 []].
Proof. vm_compute. split; reflexivity. Qed.

(** THE REPAIRED CODE ([cstep_fix]: send-or-park decided under sendBufferMu, direct only when
    Connected and nothing is parked): every step of it is a step of the system above, so
    C02_conn_contiguity / C02_conn_exactly_once / C02_conn_reassembly hold for it ... *)
Theorem C02_conn_fixed_refines :
  forall (data : Type) (declared : data -> option nat) (max_atts : nat)
         (split : list (frame data) -> list (list (frame data)))
         (tr : transport) (progs : list (list (spacket data))) (c : cstate data),
    creachable_fix declared max_atts split tr progs c -> creachable declared max_atts split tr progs c.
Proof. exact (@creachable_fix_old). Qed.

(** ... and per-emitter order holds across the connect instant for ALL schedules, no side condition:
    queue ++ sendBuffer is an interleaving of prefixes of the per-emitter sequences (by
    C02_conn_contiguity the wire is a prefix of its frames). *)
Theorem C02_connect_order :
  forall (data : Type) (declared : data -> option nat) (max_atts : nat)
         (split : list (frame data) -> list (list (frame data))),
    (forall b, concat (split b) = b) ->
  forall (tr : transport) (progs : list (list (spacket data))) (c : cstate data),
    creachable_fix declared max_atts split tr progs c ->
    pops progs (map fst (c_all c)) = Some (map snd (c_all c), st_em (c_base c)).
Proof. exact (@conn_order_fixed). Qed.

(** the schedule that broke the order before the repair, on the repaired system *)
Example C02_connect_order_example :
  map snd (c_all (crun_fix (fun _ : nat => Some 0) 0 (fun b => [b]) WS window_sched witness_progs))
  = [mkSP 1 []; mkSP 2 []].
Proof. vm_compute. reflexivity. Qed.

(** (d) THE RECEIVER WITH SEVERAL CONCURRENT DELIVERERS (Sio/PipelineRecv.v; two transports of one
    socket call OnPacket at the same time in the upgrade window; one OnPacket call is one parserMu
    critical section).  If every call hands over the frames of whole packets, then for every
    interleaving of the deliverers the parser never fails, is idle between calls, the calls are an
    interleaving of the deliverers' call sequences and the parser finishes exactly their packets,
    call after call, each intact. *)
Theorem C02_recv_whole_calls :
  forall (data : Type) (declared : data -> option nat) (max_atts : nat)
         (streams : list (list (list (frame data)))),
    Forall (Forall (whole declared max_atts)) streams ->
  forall s, rreachable declared max_atts streams s ->
    r_err s = false /\ r_parser s = None /\
    pops streams (r_order s) = Some (r_fed s, r_streams s) /\
    exists pss, Forall2 (fun b ps => b = flat_map frames_of ps) (r_fed s) pss /\
                r_finished s = concat pss.
Proof. exact (@recv_whole_calls). Qed.

(** The hypothesis is needed: with a deliverer that hands over one frame per call (websocket) a
    payload of another transport can land between a header and its attachment - neither packet is
    finished intact (outside C02's settled-transport quantifier; the upgrade window is C07's). *)
Theorem C02_recv_single_frame_calls_refuted :
  let decl := fun h : nat => if Nat.eqb h 10 then Some 1 else if Nat.eqb h 20 then Some 1 else Some 0 in
  let s := exec (rstep decl 0) [0; 1; 0] (rinit recv_witness_streams) in
  r_finished s <> [] /\ ~ In (mkSP 10 [11]) (r_finished s) /\ ~ In (mkSP 20 [21]) (r_finished s).
Proof. exact recv_single_frame_calls_refuted. Qed.

(** (e) ACROSS THE UPGRADE (Sio/PipelineUpgrade.v, server side): the transport changes from polling
    to websocket while emitters, drainer and control packets keep running; the packets parked in the
    polling transport are handed over to the websocket in ONE step (upgradeTo holds transportMu for
    swap and hand-over; every Send holds it shared for its whole transport.Send).  For all schedules -
    events emitted before, during and after the upgrade - wire order / frame contiguity and
    reassembly hold exactly as on a settled transport. *)
Theorem C02_upgrade_wire_order :
  forall (data : Type) (declared : data -> option nat) (max_atts : nat)
         (split : list (frame data) -> list (list (frame data))),
    (forall b, concat (split b) = b) ->
  forall (progs : list (list (spacket data))) (u : ustate data),
    ureachable declared max_atts split progs u ->
    exists order ps rest,
      pops progs order = Some (ps, st_em (u_base u)) /\
      msgs (st_wire (u_base u)) ++ rest = flat_map frames_of ps.
Proof. exact (@upgrade_wire_order). Qed.

Theorem C02_upgrade_reassembly :
  forall (data : Type) (declared : data -> option nat) (max_atts : nat)
         (split : list (frame data) -> list (list (frame data))),
    (forall b, concat (split b) = b) ->
  forall (progs : list (list (spacket data))),
    Forall (Forall (wf_packet declared max_atts)) progs ->
  forall u, ureachable declared max_atts split progs u ->
    st_rerr (u_base u) = false /\
    exists k, st_finished (u_base u) = firstn k (map snd (st_log (u_base u))).
Proof. exact (@upgrade_reassembly). Qed.

(** The instance for the real long-polling batcher (Eio/Batcher.v, C13): it keeps the sequence. *)
Theorem C02_real_batcher_keeps_sequence :
  forall max b, concat (batcher_split max b) = b.
Proof. exact batcher_split_concat. Qed.

(** The checker evaluated on recorded wire histories is sound: an accepted frame sequence is the
    frames of an interleaving at packet granularity of prefixes of the per-emitter sequences. *)
Theorem C02_checker_sound :
  forall (data : Type) (deqb : data -> data -> bool),
    (forall a b, deqb a b = true -> a = b) ->
  forall fuel (progs : list (list (spacket data))) (w : list (frame data)) order rem,
    check_wire deqb fuel progs w = Some (order, rem) ->
    exists ps, pops progs order = Some (ps, rem) /\ w = flat_map frames_of ps.
Proof. exact (@check_wire_sound). Qed.

(** Non-vacuity of the wire theorems: two emitters, a 2-attachment packet and a plain one, polling
    server side, with a control packet sent in between; the wire carries whole packets. *)
Example C02_wire_example :
  let p := mkSP 10 [11; 12] in let q := mkSP 20 [] in
  let s := run (fun h => if Nat.eqb h 10 then Some 2 else Some 0) 0 (fun b => [b]) PollServer
               [Emit 1; Emit 0; DrGet; Control 2; DrSend; Poll; Recv; Recv; Recv; Recv; Recv]
               [[p]; [q]] in
  msgs (st_wire s) = frames_of q ++ frames_of p /\ st_finished s = [q; p].
Proof. vm_compute. split; reflexivity. Qed.
