(** C18 - Handlers: On fires every time, Once at most once, Off removes just what it names.
    Statements only; every proof is `exact <lemma>` (or vm_compute for concrete witnesses).

    [A] is the type of registry slots and [same h a] the identity test the code applies between a
    handler [h] named in an Off call and a stored handler [a]; nothing is assumed about it.
    [outs ops] is what the model of /repo/store.go returns at each occurrence ([Fire]) of the call
    sequence [ops]; [spec_outs] is the specification by history (HandlerStore.v: a registration
    runs at an occurrence iff no later call before that occurrence removed it, where an Off naming
    the handler or naming nothing and OffAll remove On/Once handlers, an occurrence uses up Once
    handlers, and only offSubEvent(s) remove sub-event handlers). *)
From SioV Require Import Base.GoSem Sio.HandlerStore Sio.HandlerStoreProofs Sio.HandlerStoreOrig
  Sio.HandlerStoreHeap Sio.HandlerStoreHeapProofs Sio.HandlerStoreHeapSim.

(** For every call sequence (duplicates, several handlers removed in one call, absent handlers,
    any identity test) every occurrence runs exactly the handlers the specification names, in
    registration order.  (The model is total: the repaired code has no slicing left to panic.) *)
Theorem C18_refines_spec : forall A (same : A -> A -> bool) (ops : list (op A)),
  outs A same ops = spec_outs A same ops.
Proof. exact refines_spec. Qed.

(** The same for the event registry, all events at once: an occurrence of [e] runs what the
    specification says for the calls that concern [e]; calls about other events change nothing. *)
Theorem C18_event_refines_spec : forall A (same : A -> A -> bool) (ops : list (eop A)),
  eouts A same ops = espec_outs A same ops.
Proof. exact event_refines_spec_all. Qed.

Theorem C18_event_is_store_per_event : forall A (same : A -> A -> bool) (ops : list (eop A)) e,
  eouts_e A same e ops = outs A same (omap (tr A e) ops).
Proof. exact event_as_store. Qed.

(** On fires every time: after [On a], every occurrence runs [a] as long as none of the calls in
    between is an Off that names [a] (or names nothing) or an OffAll - other occurrences, other
    registrations, Offs of other handlers do not matter. *)
Theorem C18_on_fires_every_time : forall A (same : A -> A -> bool) pre a between,
  forallb (fun o => negb (kills A same KOn a o)) between = true ->
  In a (spec_fire A same (pre ++ On a :: between)).
Proof. exact on_fires_every_time. Qed.

(** A Once handler is run by the first occurrence after its registration (unless removed). *)
Theorem C18_once_fires_first_time : forall A (same : A -> A -> bool) pre a between,
  forallb (fun o => negb (kills A same KOnce a o)) between = true ->
  In a (spec_fire A same (pre ++ Once a :: between)).
Proof. exact once_fires_first_time. Qed.

(** ATOMICITY HYPOTHESIS of every statement about concurrency below (and of the machine of
    HandlerStoreHeap.v): each registry method - on, once, off, offAll, offSubEvent(s), getAll -
    is ONE atomic step of the model, i.e. an execution of several goroutines is an [interleaving]
    of their call lists.  In the code this is the mutex held over the whole method body.  It is not
    provable here; it is what the `linearizable` suite of the check ties to the working tree:
    concurrent histories (a long Off with other goroutines' On/Once/Off/OffAll/occurrences falling
    inside it, invocation and response stamped) must admit an order that respects real time and
    under which this atomic model returns what every occurrence observed; the order found is
    verified in the kernel ([lin_order_ok] + [*_agree]). *)

(** Once at most once, for any number of goroutines and every interleaving of their (atomic)
    registry calls: handlers of a class [P] that are only ever registered with Once are run, over
    all occurrences together, at most as many times as they were registered.  With [P] = "is this
    one handler" registered once: at most one occurrence runs it, however the occurrences race. *)
Theorem C18_once_at_most_once :
  forall A (same : A -> A -> bool) (P : A -> bool) (progs : list (list (op A))) merged,
  interleaving progs merged ->
  Forall (fun p => forallb (fun o => negb (is_on_or_sub_of P o)) p = true) progs ->
  length (filter P (concat (outs A same merged)))
  <= length (filter (is_once_of P) (concat progs)).
Proof. exact once_at_most_once_concurrent. Qed.

(** The same for OnceEvent: handlers registered for event [e] only through OnceEvent are run by
    the occurrences of [e] at most as often as they were registered, for every interleaving. *)
Theorem C18_event_once_at_most_once :
  forall A (same : A -> A -> bool) e (P : A -> bool) (progs : list (list (eop A))) merged,
  interleaving progs merged ->
  Forall (fun p => forallb (fun o => negb (is_eon_of A e P o)) p = true) progs ->
  length (filter P (concat (eouts_e A same e merged)))
  <= length (filter (is_eonce_of A e P) (concat progs)).
Proof. exact event_once_at_most_once. Qed.

(** ... and right after an occurrence no Once handler is left, On and sub-event handlers are. *)
Theorem C18_occurrence_clears_once : forall A (same : A -> A -> bool) past,
  live A same KSub (past ++ [Fire]) = live A same KSub past
  /\ live A same KOn (past ++ [Fire]) = live A same KOn past
  /\ live A same KOnce (past ++ [Fire]) = [].
Proof. exact fire_clears_once. Qed.

(** Off removes all and only the named handlers, keeps the order of the rest, and does not touch
    sub-event handlers. *)
Theorem C18_off_exact : forall A (same : A -> A -> bool) past h hs,
  live A same KSub (past ++ [Off (h :: hs)]) = live A same KSub past
  /\ live A same KOn (past ++ [Off (h :: hs)])
     = filter (fun a => negb (named A same (h :: hs) a)) (live A same KOn past)
  /\ live A same KOnce (past ++ [Off (h :: hs)])
     = filter (fun a => negb (named A same (h :: hs) a)) (live A same KOnce past).
Proof. exact off_exact. Qed.

(** Off given no handler, and OffAll, remove every On and Once handler. *)
Theorem C18_offall : forall A (same : A -> A -> bool) past o, o = Off [] \/ o = OffAll ->
  live A same KSub (past ++ [o]) = live A same KSub past
  /\ live A same KOn (past ++ [o]) = [] /\ live A same KOnce (past ++ [o]) = [].
Proof. exact off_none_removes_all. Qed.

Theorem C18_offsub_exact : forall A (same : A -> A -> bool) past h,
  live A same KSub (past ++ [OffSub h]) = filter (fun a => negb (same h a)) (live A same KSub past)
  /\ live A same KOn (past ++ [OffSub h]) = live A same KOn past
  /\ live A same KOnce (past ++ [OffSub h]) = live A same KOnce past.
Proof. exact offsub_exact. Qed.

(** *** Occurrences in progress (HandlerStoreHeap.v: Go slices with array identities).
    An occurrence is a loop over the slice getAll returned; handlers of that loop may themselves
    call On/Once/Off/OffAll or emit, other goroutines may do so between two handlers, several
    occurrences may be in progress at once.  For EVERY interleaving [xs] of registry calls, starts
    of occurrences and single loop iterations of any occurrence in progress: what occurrence [k]
    has been handed so far is exactly the first [didx] handlers of the snapshot its getAll took -
    never a nil cell, nothing skipped, repeated or shifted - and its loop is as long as the
    snapshot; the snapshot is what the registry held for the event when getAll ran, and no later
    step changes it. *)
Theorem C18_dispatch_runs_snapshot : forall A (same : A -> A -> bool) (xs : list (hstepk A)) k d,
  nth_error (hdisp A (fst (hrun A same (hempty A) xs))) k = Some d ->
  ran_by A k (snd (hrun A same (hempty A) xs)) = map Some (firstn (didx A d) (dsnap A d))
  /\ didx A d <= length (dsnap A d)
  /\ slen (dview A d) = length (dsnap A d).
Proof. exact dispatch_runs_snapshot. Qed.

Theorem C18_snapshot_taken_at_getAll : forall A (same : A -> A -> bool) st e,
  exists d, hdisp A (fst (hstep A same st (SBegin e))) = hdisp A st ++ [d] /\ didx A d = 0
            /\ dsnap A d = hget_vals A (hmem A st) (hev A st) e ++ hget_vals A (hmem A st) (hon A st) e.
Proof. exact begin_snapshot. Qed.

Theorem C18_snapshot_never_changes : forall A (same : A -> A -> bool) st x k d,
  nth_error (hdisp A st) k = Some d ->
  exists d', nth_error (hdisp A (fst (hstep A same st x))) k = Some d' /\ dsnap A d' = dsnap A d
             /\ dview A d' = dview A d.
Proof. exact step_keeps_snapshot. Qed.

(** ... and these snapshots, in the order the getAll calls ran, are exactly what the specification
    by history prescribes for the call history in which each occurrence counts at its getAll
    ([ehist]): so, with the theorem above, every occurrence in progress runs precisely the
    handlers the property requires, whatever is called while it is being dispatched. *)
Theorem C18_snapshots_are_spec : forall A (same : A -> A -> bool) (xs : list (hstepk A)),
  snaps A (fst (hrun A same (hempty A) xs)) = map snd (espec_outs A same (ehist A xs)).
Proof. exact snapshots_are_spec. Qed.

(** The heap-level registry (arrays with identities, in-place append) refines the value-level
    model step by step: read through [abs] it is the same registry. *)
Theorem C18_heap_refines_model : forall A (same : A -> A -> bool) (xs : list (hstepk A)) st,
  WF A st ->
  WF A (fst (hrun A same st xs))
  /\ abs A (fst (hrun A same st xs)) = fst (erun A same (abs A st) (ehist A xs))
  /\ snaps A (fst (hrun A same st xs))
     = snaps A st ++ map snd (snd (erun A same (abs A st) (ehist A xs))).
Proof. exact sim_run. Qed.

(** the scenario of the missed mutant: [a;b;c;d] registered, a removes itself while it runs *)
Example C18_self_removal_during_dispatch :
  let xs := [SOp (EOn 0 1); SOp (EOn 0 2); SOp (EOn 0 3); SOp (EOn 0 4); SBegin 0; SNext 0;
             SOp (EOff 0 [1]); SNext 0; SNext 0; SNext 0; SNext 0; SBegin 0; SNext 1; SNext 1; SNext 1]%N in
  map snd (snd (hrun N N.eqb (hempty N) xs)) = map Some [1; 2; 3; 4; 2; 3; 4]%N.
Proof. vm_compute. reflexivity. Qed.

(** *** The public lifecycle layer (OnConnect/OffConnect, OnDisconnect/..., all 17 families).
    Handlers are function values; the layer registers and compares fresh pointers. *)

(** Full statement (what the property asks): refuted - OnX(f); OffX(f); occurrence still runs f. *)
Theorem C18_lifecycle_off_by_func_refuted :
  exists ops, aouts ops <> spec_outs N N.eqb (map aop_spec ops).
Proof. exists [AOn 1%N; AOff [1%N]; AFire]. vm_compute. discriminate. Qed.

(** What holds for every call sequence: the layer is the specification with the handler-naming
    Off calls deleted (they never remove anything, and never disturb anything either). *)
Theorem C18_lifecycle_characterised : forall ops,
  aouts ops = spec_outs N N.eqb (omap weaken ops).
Proof. exact api_characterised. Qed.

(** Hence the property, outside the finding class off-by-func-identity:lifecycle. *)
Theorem C18_lifecycle_refines_spec_partial : forall ops,
  forallb (fun o => negb (names_handler o)) ops = true ->
  aouts ops = spec_outs N N.eqb (map aop_spec ops).
Proof. exact api_refines_spec_partial. Qed.

Example C18_lifecycle_partial_satisfiable :
  forallb (fun o => negb (names_handler o)) [AOn 1%N; AOnce 2%N; AFire; AOff []; AFire] = true
  /\ aouts [AOn 1%N; AOnce 2%N; AFire; AOff []; AFire] = [[1%N; 2%N]; []].
Proof. vm_compute. split; reflexivity. Qed.

(** *** Event handlers given as function values (OnEvent/OffEvent): the registry compares code
    pointers, the property speaks of function values (code pointer, closure instance). *)

(** Full statement: refuted by two closures of one function literal - removing one removes both. *)
Theorem C18_event_off_exact_refuted :
  exists ops e, eouts_e fval same_code e ops <> spec_outs fval same_fval (omap (tr fval e) ops).
Proof.
  exists [EOn 0%N (7%N, 1%N); EOn 0%N (7%N, 2%N); EOff 0%N [(7%N, 1%N)]; EFire 0%N], 0%N.
  vm_compute. discriminate.
Qed.

(** Outside the finding class closures-share-code-pointer (within the handlers of the history
    the code pointer determines the function value) the property holds in full. *)
Theorem C18_event_fval_refines_spec_partial : forall ops e,
  code_identifies (ehandlers_of ops) = true ->
  eouts_e fval same_code e ops = spec_outs fval same_fval (omap (tr fval e) ops).
Proof. exact event_fval_refines_spec_partial. Qed.

Example C18_event_partial_satisfiable :
  let ops := [EOn 0%N (1%N, 0%N); EOn 0%N (2%N, 0%N); EOn 1%N (1%N, 0%N);
              EOff 0%N [(1%N, 0%N)]; EFire 0%N; EFire 1%N] in
  code_identifies (ehandlers_of ops) = true
  /\ eouts fval same_code ops = [(0%N, [(2%N, 0%N)]); (1%N, [(1%N, 0%N)])].
Proof. vm_compute. split; reflexivity. Qed.

(** The removal loop as it was before the fix (Go slice aliasing modelled, HandlerStoreOrig.v):
    it could panic, and it could leave a named handler registered. *)
Theorem C18_original_off_refuted :
  (exists l hs, off_orig N N.eqb l hs = Panic)
  /\ (exists l hs l', off_orig N N.eqb l hs = Ok l' /\ l' <> remove N N.eqb hs l).
Proof. exact orig_off_not_exact. Qed.

(** Non-vacuity of the main statements: the inputs on which the code before the fix panicked or
    left a named handler registered. *)
Example C18_example_dup : outs N N.eqb [On 1; On 1; Off [1]; Fire]%N = [[]].
Proof. vm_compute. reflexivity. Qed.
Example C18_example_multi : outs N N.eqb [On 1; On 2; On 3; Off [1; 2]; Fire; Off [3; 9]; Fire]%N = [[3%N]; []].
Proof. vm_compute. reflexivity. Qed.
Example C18_example_once :
  outs N N.eqb [Once 5; On 1; Fire; Fire]%N = [[1; 5]; [1]]%N.
Proof. vm_compute. reflexivity. Qed.
