(** C09 - Socket.IO encoding round-trips, matches the v5 format, leaves its input intact.
    This file holds statements only; every proof is `exact <lemma>`. *)
From SioV Require Import Base.GoSem Sio.Json Sio.JsonProofs Sio.Header Sio.HeaderProofs Sio.Binary Sio.BinaryProofs Sio.Codec Sio.CodecProofs.

(** Encode hands back the value it was given exactly as it was (every cell deconstruct overwrote
    with a placeholder is restored), for every JSON library, value tree of any depth, header and
    attachment limit. *)
Theorem C09_encode_leaves_value :
  forall (marshal : jv -> bytes) (unmarshal : bytes -> option jv) (max_att : Z) h v e,
  clean_opt v = true -> encode marshal unmarshal max_att h v = Ok e -> e_value e = v.
Proof. exact encode_leaves_value. Qed.

(** Encoding the same value again - with a fresh header or with the header object the first Encode
    rewrote - yields exactly the same frames. *)
Theorem C09_reencode_same_frames :
  forall (marshal : jv -> bytes) (unmarshal : bytes -> option jv) (max_att : Z) h v e,
  clean_opt v = true -> encode marshal unmarshal max_att h v = Ok e ->
  encode marshal unmarshal max_att h (e_value e) = Ok e /\
  encode marshal unmarshal max_att (e_header e) (e_value e) = Ok e.
Proof. exact reencode_same. Qed.

(** The caller's header, however, is rewritten when a plain EVENT / ACK header meets a value with
    binary (known finding header-rewritten; pinned by the package's own TestEncode). *)
Theorem C09_encode_leaves_header_refuted :
  exists h v e, encode jprint jparse 0 h v = Ok e /\ e_header e <> h.
Proof.
  exists (mkHeader 2 [47%N] None 0), (ev [101%N] [VBin [1%N]]).
  eexists. split; [vm_compute; reflexivity|]. discriminate.
Qed.

(** ... and only then: without binary in the value (or with a header type that is never
    deconstructed) the header comes back as it was. *)
Theorem C09_encode_leaves_header_partial :
  forall (marshal : jv -> bytes) (unmarshal : bytes -> option jv) (max_att : Z) h v e,
  header_kept h v = true -> encode marshal unmarshal max_att h v = Ok e -> e_header e = h.
Proof. exact encode_leaves_header. Qed.

Example C09_header_kept_satisfiable :
  header_kept (mkHeader 2 [47%N] (Some 3%N) 0) (ev [101%N] [VInt 1; VStr [120%N]]) = true.
Proof. reflexivity. Qed.

(** Header round trip (C10's lemma): every header Encode can write, followed by a payload that
    is empty or starts with one of [ { and the double quote, parses back to itself; for an event what remains is the
    pre-scan of the payload. *)
Theorem C09_header_roundtrip :
  forall unm h p, header_ok h -> payload_ok h p ->
  parse_header unm (encode_header h ++ p) =
  if is_event (h_type h) then
    rbind (prescan p) (fun tmp => match unm tmp with Some [name] => Ok (h, p, name) | _ => Err end)
  else Ok (h, p, []).
Proof. exact parse_encode_header_full. Qed.

(** The examples of the protocol document: the frames, the specification printer, decoding back
    (event name ending in a backslash included). *)
Theorem C09_protocol_examples : protocol_examples_stmt.
Proof. exact protocol_examples. Qed.

(** JSON integers (any size, either sign) printed by [jprint] and followed by a separator parse
    back to themselves: the number part of [jparse (jprint v) = Some v] (ack ids / attachment
    counts use C10's [parse_uint_fmt]). *)
Theorem C09_json_int_roundtrip :
  forall z rest, okf rest -> pnum (pZ z ++ rest) = Some (z, rest).
Proof. exact pnum_pZ. Qed.
