(** C09 - Socket.IO encoding round-trips, matches the v5 format, leaves its input intact.
    This file holds statements only; every proof is `exact <lemma>`. *)
From SioV Require Import Base.GoSem Sio.Json Sio.JsonProofs Sio.Header Sio.HeaderProofs Sio.Binary Sio.BinaryProofs Sio.Codec Sio.CodecProofs Sio.RoundtripProofs Sio.ReconProofs Sio.DecodeProofs Sio.PrescanProofs Sio.PlainProofs Sio.EncodeConc.

(** Encode hands back the value it was given exactly as it was (every cell deconstruct overwrote
    with a placeholder is restored), for every JSON library, value tree of any depth, header and
    attachment limit. *)
Theorem C09_encode_leaves_value :
  forall (marshal : jv -> bytes) (unmarshal : bytes -> option jv) (max_att : Z) h v e,
  clean_opt v = true -> encode marshal unmarshal max_att h v = Ok e -> e_value e = v.
Proof. exact encode_leaves_value. Qed.

(** Encoding the same value again - with a fresh header or with the header object the first Encode
    rewrote - yields exactly the same frames. *)
Theorem C09_reencode_same_frames :
  forall (marshal : jv -> bytes) (unmarshal : bytes -> option jv) (max_att : Z) h v e,
  clean_opt v = true -> encode marshal unmarshal max_att h v = Ok e ->
  encode marshal unmarshal max_att h (e_value e) = Ok e /\
  encode marshal unmarshal max_att (e_header e) (e_value e) = Ok e.
Proof. exact reencode_same. Qed.

(** The caller's header, however, is rewritten when a plain EVENT / ACK header meets a value with
    binary (known finding header-rewritten; pinned by the package's own TestEncode). *)
Theorem C09_encode_leaves_header_refuted :
  exists h v e, encode jprint jparse 0 h v = Ok e /\ e_header e <> h.
Proof.
  exists (mkHeader 2 [47%N] None 0), (ev [101%N] [VBin [1%N]]).
  eexists. split; [vm_compute; reflexivity|]. discriminate.
Qed.

(** ... and only then: without binary in the value (or with a header type that is never
    deconstructed) the header comes back as it was. *)
Theorem C09_encode_leaves_header_partial :
  forall (marshal : jv -> bytes) (unmarshal : bytes -> option jv) (max_att : Z) h v e,
  header_kept h v = true -> encode marshal unmarshal max_att h v = Ok e -> e_header e = h.
Proof. exact encode_leaves_header. Qed.

Example C09_header_kept_satisfiable :
  header_kept (mkHeader 2 [47%N] (Some 3%N) 0) (ev [101%N] [VInt 1; VStr [120%N]]) = true.
Proof. reflexivity. Qed.

(** Header round trip (C10's lemma): every header Encode can write, followed by a payload that
    is empty or starts with one of [ { and the double quote, parses back to itself; for an event what remains is the
    pre-scan of the payload. *)
Theorem C09_header_roundtrip :
  forall unm h p, header_ok h -> payload_ok h p ->
  parse_header unm (encode_header h ++ p) =
  if is_event (h_type h) then
    rbind (prescan p) (fun tmp => match unm tmp with Some [name] => Ok (h, p, name) | _ => Err end)
  else Ok (h, p, []).
Proof. exact parse_encode_header_full. Qed.

(** The examples of the protocol document: the frames, the specification printer, decoding back
    (event name ending in a backslash included). *)
Theorem C09_protocol_examples : protocol_examples_stmt.
Proof. exact protocol_examples. Qed.

(** JSON integers (any size, either sign) printed by [jprint] and followed by a separator parse
    back to themselves: the number part of [jparse (jprint v) = Some v] (ack ids / attachment
    counts use C10's [parse_uint_fmt]). *)
Theorem C09_json_int_roundtrip :
  forall z rest, okf rest -> pnum (pZ z ++ rest) = Some (z, rest).
Proof. exact pnum_pZ. Qed.

(** deconstruct, for value trees of any depth and any JSON library that reads back what it writes:
    what the JSON encoder is shown afterwards is exactly the shape of the value with its binary
    leaves replaced by placeholders numbered from [n] left to right ([extract], the protocol's
    own description), the buffers are the leaves' bytes in that order, and the counter advanced by
    their number.  Side conditions: the value is a tree without stale substitutions, maps are
    written in key order, every Binary is within deconstructValue's two unwrapping steps. *)
Theorem C09_deconstruct_numbering :
  forall (marshal : jv -> bytes) (unmarshal : bytes -> option jv),
  (forall j, unmarshal (marshal j) = Some j) ->
  forall st v n m bs n',
  cleanb v = true -> msorted v = true -> wokp false 2 v = true ->
  dv marshal st v n = Ok (m, bs, n') ->
  exists j, to_jv unmarshal (cur m) = Ok j /\ extract (shape v) n = (j, bs, n') /\
            bs = leaves (shape v) /\ n' = (n + N.of_nat (length bs))%N.
Proof. exact dv_spec. Qed.

(** The frames Encode returns are exactly the ones the v5 protocol text prescribes for the packet
    ([spec_frames]: type digit (binary variant iff there are attachments), count and dash,
    namespace and comma unless "/", ack id, JSON with placeholders left to right, then the
    attachments), for every header, value tree, attachment limit and JSON library with H1. *)
Theorem C09_wire_is_v5 :
  forall (marshal : jv -> bytes) (unmarshal : bytes -> option jv),
  (forall j, unmarshal (marshal j) = Some j) ->
  forall (max_att : Z) h x e,
  wfv x = true -> pkt_ok h x = true -> h_nsp h <> [] ->
  encode marshal unmarshal max_att h (Some x) = Ok e ->
  e_frames e = spec_frames marshal (base_type (h_type h)) (h_nsp h) (h_id h) (Some (shape x)).
Proof. exact wire_is_v5. Qed.

Example C09_wire_side_conditions_satisfiable :
  let x := VPtr (VSlice [VAny (VStr [101%N]);
                         VAny (VPtr (VStruct [([110%N], VStr [120%N]); ([98%N], VBin [7%N])]));
                         VAny (VMap [([97%N], VAny (VBin [9%N])); ([98%N], VAny (VSlice [VAny (VBin [1%N])]))])]) in
  wfv x = true /\ pkt_ok (mkHeader 2 [47%N] None 0) x = true.
Proof. vm_compute. auto. Qed.

(** reconstruct after deconstruct, for value trees of any depth, any handler type that fits the
    value's shape, any position of the packet's attachments among the buffers ([pre] / [post]),
    any JSON library with H1: unmarshalling what the JSON encoder was shown into the handler's
    type and reconstructing with the attachments gives the value's shape back (as that type shows
    it: [any] cells hold Go maps, so their objects come back with sorted keys); the buffers are the
    binary leaves left to right and there are as many placeholders as leaves.  [ty_ok] is the
    side condition of the finding any-handler-binary, [nofake] excludes user objects that read
    {"_placeholder":true,"num":n} (inherent to the protocol). *)
Theorem C09_reconstruct_deconstruct :
  forall (marshal : jv -> bytes) (unmarshal : bytes -> option jv),
  (forall j, unmarshal (marshal j) = Some j) ->
  forall st v n m bs n' t pre post,
  cleanb v = true -> msorted v = true -> wokp false 2 v = true ->
  dv marshal st v n = Ok (m, bs, n') ->
  wtb t (shape v) = true -> ty_ok t (shape v) = true -> nofake (shape v) = true ->
  length pre = N.to_nat n ->
  exists j, to_jv unmarshal (cur m) = Ok j /\
            recon marshal (Some (pre ++ bs ++ post)) t j = Ok (view_ty t (shape v)) /\
            bs = leaves (shape v) /\ n' = (n + N.of_nat (length bs))%N.
Proof. exact reconstruct_deconstruct. Qed.

(** Without [ty_ok]: a Binary received into an [any] parameter stays a placeholder map. *)
Theorem C09_reconstruct_any_refuted :
  exists v m bs n', dv jprint true v 0 = Ok (m, bs, n') /\
    exists j, to_jv jparse (cur m) = Ok j /\
              recon jprint (Some bs) TAny j <> Ok (view_ty TAny (shape v)).
Proof. exact reconstruct_any_refuted. Qed.

(** decode after encode, EVENT packets with binary attachments, parametric in the JSON library:
    H1 it reads back what it wrote, H2 the pre-scan cuts the event name's literal out of the text
    of an array that starts with that string, H3 the text of an array starts with an opening bracket.  For every
    header (type EVENT, any namespace / ack id accepted by [header_ok]), value tree of any depth,
    handler types fitting the arguments: the frames are header+JSON followed by the binary leaves;
    fed one by one to a fresh decoder, [finish] is called exactly once, at the last frame, with the
    header (type BINARY_EVENT, same namespace and id, attachment count = number of leaves), the
    event name, and buffers from which [decode] returns the arguments (each as its handler type
    shows it), every attachment in its place. *)
Theorem C09_decode_encode :
  forall (marshal : jv -> bytes) (unmarshal : bytes -> option jv) (max_att : Z),
  (forall j, unmarshal (marshal j) = Some j) ->
  (forall name rest, exists tmp, prescan (marshal (JArr (JStr name :: rest))) = Ok tmp /\
                                 unmarshal tmp = Some (JArr [JStr name])) ->
  (forall l, exists r, marshal (JArr l) = 91%N :: r) ->
  forall h x e tys name sargs,
  wfv x = true -> h_type h = 2%N -> hb 2 x = true ->
  shape x = BArr (BStr name :: sargs) -> args_ok tys sargs = true ->
  header_ok (e_header e) ->
  encode marshal unmarshal max_att h (Some x) = Ok e ->
  exists p atts,
    e_frames e = (encode_header (e_header e) ++ p) :: atts /\
    atts = leaves (shape x) /\
    e_header e = mkHeader 5 (h_nsp h) (h_id h) (Z.of_nat (length atts)) /\
    feed unmarshal None 0 (e_frames e) = Ok ([(length atts, (e_header e, name, p :: atts))], None) /\
    decode marshal unmarshal (e_header e) (p :: atts) tys = Ok (views tys sargs).
Proof. exact decode_encode_event. Qed.

(** The same for ACK packets with binary (no event name, no pre-scan: H2 is not needed). *)
Theorem C09_decode_encode_ack :
  forall (marshal : jv -> bytes) (unmarshal : bytes -> option jv) (max_att : Z),
  (forall j, unmarshal (marshal j) = Some j) ->
  (forall name rest, exists tmp, prescan (marshal (JArr (JStr name :: rest))) = Ok tmp /\
                                 unmarshal tmp = Some (JArr [JStr name])) ->
  (forall l, exists r, marshal (JArr l) = 91%N :: r) ->
  forall h x e tys sargs,
  wfv x = true -> h_type h = 3%N -> hb 2 x = true ->
  shape x = BArr sargs -> args_ok tys sargs = true ->
  header_ok (e_header e) ->
  encode marshal unmarshal max_att h (Some x) = Ok e ->
  exists p atts,
    e_frames e = (encode_header (e_header e) ++ p) :: atts /\
    atts = leaves (shape x) /\
    e_header e = mkHeader 6 (h_nsp h) (h_id h) (Z.of_nat (length atts)) /\
    feed unmarshal None 0 (e_frames e) = Ok ([(length atts, (e_header e, [], p :: atts))], None) /\
    decode marshal unmarshal (e_header e) (p :: atts) tys = Ok (views tys sargs).
Proof. exact decode_encode_ack. Qed.

(** H3 holds for the instance [jprint] (H1 is proved for integers only, C09_json_int_roundtrip;
    H1 for strings / arrays / objects and H2 are validated against encoding/json by the json and
    codec suites of the check, not proved). *)
Theorem C09_H3_jprint : forall l, exists r, jprint (JArr l) = 91%N :: r.
Proof. exact jprint_arr_head. Qed.

(** H1 for the instance: every JSON value of the fragment (null, booleans, integers of any size
    and sign, strings over arbitrary bytes with every escape class jprint emits - quote, backslash,
    \b \f \n \r \t, \u00XX for the other control bytes and for the HTML characters, U+2028 / U+2029 -
    arrays and objects of any depth and width) printed by [jprint] is read back by [jparse]. *)
Theorem C09_H1_jprint : forall v, jparse (jprint v) = Some v.
Proof. exact jparse_jprint. Qed.

(** H2 for the instance = the pre-scan finds every name: for every event name (any bytes,
    double quotes and backslashes included, e.g. a name ending in a backslash) and any further arguments, the
    pre-scan (C10's port of the loop in parseHeader) of the payload [jprint] writes cuts out
    exactly the name's string literal, and [jparse] of the bracketed literal is the name. *)
Theorem C09_prescan_name :
  forall name rest,
  exists tmp, prescan (jprint (JArr (JStr name :: rest))) = Ok tmp /\
              jparse tmp = Some (JArr [JStr name]).
Proof. exact prescan_name. Qed.

(** decode after encode with NO hypothesis about the JSON library: the instance jprint / jparse
    (compared with encoding/json byte for byte on every run) satisfies H1, H2, H3. *)
Theorem C09_decode_encode_concrete :
  forall (max_att : Z) h x e tys name sargs,
  wfv x = true -> h_type h = 2%N -> hb 2 x = true ->
  shape x = BArr (BStr name :: sargs) -> args_ok tys sargs = true ->
  header_ok (e_header e) ->
  encode jprint jparse max_att h (Some x) = Ok e ->
  exists p atts,
    e_frames e = (encode_header (e_header e) ++ p) :: atts /\
    atts = leaves (shape x) /\
    e_header e = mkHeader 5 (h_nsp h) (h_id h) (Z.of_nat (length atts)) /\
    feed jparse None 0 (e_frames e) = Ok ([(length atts, (e_header e, name, p :: atts))], None) /\
    decode jprint jparse (e_header e) (p :: atts) tys = Ok (views tys sargs).
Proof. exact (fun m => decode_encode_event jprint jparse m jparse_jprint prescan_name jprint_arr_head). Qed.

Theorem C09_decode_encode_ack_concrete :
  forall (max_att : Z) h x e tys sargs,
  wfv x = true -> h_type h = 3%N -> hb 2 x = true ->
  shape x = BArr sargs -> args_ok tys sargs = true ->
  header_ok (e_header e) ->
  encode jprint jparse max_att h (Some x) = Ok e ->
  exists p atts,
    e_frames e = (encode_header (e_header e) ++ p) :: atts /\
    atts = leaves (shape x) /\
    e_header e = mkHeader 6 (h_nsp h) (h_id h) (Z.of_nat (length atts)) /\
    feed jparse None 0 (e_frames e) = Ok ([(length atts, (e_header e, [], p :: atts))], None) /\
    decode jprint jparse (e_header e) (p :: atts) tys = Ok (views tys sargs).
Proof. exact (fun m => decode_encode_ack jprint jparse m jparse_jprint prescan_name jprint_arr_head). Qed.

(** The wire format and the deconstruct / reconstruct round trip for the instance. *)
Theorem C09_wire_is_v5_concrete :
  forall (max_att : Z) h x e,
  wfv x = true -> pkt_ok h x = true -> h_nsp h <> [] ->
  encode jprint jparse max_att h (Some x) = Ok e ->
  e_frames e = spec_frames jprint (base_type (h_type h)) (h_nsp h) (h_id h) (Some (shape x)).
Proof. exact (wire_is_v5 jprint jparse jparse_jprint). Qed.

(** decode after encode for packets WITHOUT attachments (the plain path of [decode]), instance
    jprint / jparse, no hypothesis about the library (the parametric versions, under H1 H2 H3, are
    [decode_encode_event_plain], [decode_encode_ack_plain], [decode_encode_payload] in
    Sio/PlainProofs.v).  No [nofake] / [ty_ok] side condition here: nothing is substituted.
    EVENT: one frame; fed to a fresh decoder it finishes at once with the same header and the
    event name, and [decode] returns the arguments. *)
Theorem C09_decode_encode_plain_concrete :
  forall (max_att : Z) h x e tys name sargs,
  cleanb x = true -> msorted x = true -> nobin x = true -> h_type h = 2%N ->
  shape x = BArr (BStr name :: sargs) -> args_plain tys sargs = true ->
  header_ok h ->
  encode jprint jparse max_att h (Some x) = Ok e ->
  exists p,
    e_frames e = [encode_header h ++ p] /\ e_header e = h /\
    feed jparse None 0 (e_frames e) = Ok ([(0%nat, (h, name, [p]))], None) /\
    decode jprint jparse h [p] tys = Ok (views tys sargs).
Proof.
  exact (fun m => decode_encode_event_plain jprint jparse m jparse_jprint prescan_name jprint_arr_head).
Qed.

(** ACK without attachments. *)
Theorem C09_decode_encode_ack_plain_concrete :
  forall (max_att : Z) h x e tys sargs,
  cleanb x = true -> msorted x = true -> nobin x = true -> h_type h = 3%N ->
  shape x = BArr sargs -> args_plain tys sargs = true ->
  header_ok h ->
  encode jprint jparse max_att h (Some x) = Ok e ->
  exists p,
    e_frames e = [encode_header h ++ p] /\ e_header e = h /\
    feed jparse None 0 (e_frames e) = Ok ([(0%nat, (h, [], [p]))], None) /\
    decode jprint jparse h [p] tys = Ok (views tys sargs).
Proof.
  exact (fun m => decode_encode_ack_plain jprint jparse m jparse_jprint jprint_arr_head).
Qed.

(** CONNECT / CONNECT_ERROR (any type that carries no binary) with an object payload (a struct
    or a map) decoded into one parameter. *)
Theorem C09_decode_encode_payload_concrete :
  forall (max_att : Z) h x e t kvs,
  cleanb x = true -> msorted x = true -> nobin x = true ->
  carries_binary (h_type h) = false ->
  shape x = BObj kvs -> wtb t (BObj kvs) = true ->
  header_ok h ->
  encode jprint jparse max_att h (Some x) = Ok e ->
  exists p,
    e_frames e = [encode_header h ++ p] /\ e_header e = h /\
    feed jparse None 0 (e_frames e) = Ok ([(0%nat, (h, [], [p]))], None) /\
    decode jprint jparse h [p] [t] = Ok [view_ty t (BObj kvs)].
Proof.
  exact (fun m => decode_encode_payload jprint jparse m jparse_jprint jprint_obj_head).
Qed.

(** Encode is stateless (frame property): a phase of an Encode call - checks / header type /
    deconstruct, payload, restore - leaves the shared Parser object exactly as it was, and what it
    does to the call's own state (the caller's header and value, the frames) depends on nothing of
    the Parser but its immutable configuration.  One Parser is shared, without a lock around
    Encode, by every goroutine emitting on a socket and by every Broadcast of an adapter. *)
Theorem C09_encode_is_stateless :
  forall (marshal : jv -> bytes) (unmarshal : bytes -> option jv) ps ps' c,
  fst (call_step marshal unmarshal ps c) = ps /\
  (p_max ps = p_max ps' ->
   snd (call_step marshal unmarshal ps c) = snd (call_step marshal unmarshal ps' c)).
Proof. exact (fun m u ps ps' c => conj (call_frame m u ps c) (call_indep m u ps ps' c)). Qed.

(** Hence for ANY interleaving of any number of Encode calls (each on its caller's own header
    and value) and of any other operations on the same Parser (Add, Reset): every call that has
    run to its end has returned exactly what [encode] says for its own arguments - frames, and
    header and value as its caller sees them afterwards - so all the theorems above about [encode]
    hold for each call of a concurrent execution. *)
Theorem C09_concurrent_encode :
  forall (marshal : jv -> bytes) (unmarshal : bytes -> option jv)
         sched ps (calls : list (header * option gv)) i h v,
  nth_error calls i = Some (h, v) ->
  (3 <= runs i sched)%nat ->
  let final := exec (call_step marshal unmarshal) other_op sched
                    (ps, map (fun hv => start (fst hv) (snd hv)) calls) in
  p_max (fst final) = p_max ps /\
  exists c, nth_error (snd final) i = Some c /\
    match encode marshal unmarshal (p_max ps) h v with
    | Ok e => c = mkCall (e_header e) (e_value e) (EDone (Ok (e_frames e)))
    | Err => k_ph c = EDone Err
    | Panic => k_ph c = EDone Panic
    end.
Proof. exact concurrent_encode. Qed.

(** Finding binary-behind-deep-wrappers: outside the side condition [wfv] (here: a Binary behind
    a pointer to an interface, any -> *any -> Binary, which neither hasBinary nor deconstructValue
    reaches) Encode succeeds but the frames are NOT the ones the protocol prescribes: the bytes
    of the Binary (here the four bytes n u l l) are written into the payload as JSON instead of becoming an attachment. *)
Theorem C09_wire_deep_wrappers_refuted :
  exists h x e,
    wfv x = false /\ encode jprint jparse 0 h (Some x) = Ok e /\
    e_frames e <> spec_frames jprint (base_type (h_type h)) (h_nsp h) (h_id h) (Some (shape x)).
Proof.
  exists (mkHeader 2 [47%N] None 0),
         (VPtr (VSlice [VAny (VStr [101%N]); VAny (VPtr (VAny (VBin [110; 117; 108; 108]%N)))])).
  eexists. split; [reflexivity|]. split; [vm_compute; reflexivity|]. vm_compute. discriminate.
Qed.
