(** C09 - Socket.IO encoding round-trips, matches the v5 format, leaves its input intact.
    This file holds statements only; every proof is `exact <lemma>`. *)
From SioV Require Import Base.GoSem Sio.Json Sio.Header Sio.Binary Sio.BinaryProofs Sio.Codec Sio.CodecProofs.

(** Encode hands back the value it was given exactly as it was (every cell deconstruct overwrote
    with a placeholder is restored), for every JSON library, value tree of any depth, header and
    attachment limit. *)
Theorem C09_encode_leaves_value :
  forall (marshal : jv -> bytes) (unmarshal : bytes -> option jv) (max_att : Z) h v e,
  clean_opt v = true -> encode marshal unmarshal max_att h v = Ok e -> e_value e = v.
Proof. exact encode_leaves_value. Qed.
