(** C15 - Clients reconnect with bounded back-off and deliver what was emitted offline.
    This file holds statements only; every proof is `exact <lemma>`. *)
From SioV Require Import Base.GoSem Sio.Backoff Sio.BackoffProofs Sio.Reconnect Sio.ReconnectProofs
  Sio.OfflineBuffer Sio.OfflineBufferProofs.
Local Open Scope Z_scope.

(** * Back-off *)

(** Every delay is in (0, ReconnectionDelayMax]: for every configured delay and maximum, every
    attempt number (also those for which 2^attempts or the product overflows int64), whatever the
    platform answers for the out-of-range float->int conversion ([conv]) and whatever sign and
    deviation the jitter computation produces ([jit]). *)
Theorem C15_delay_in_range : forall bmin bmax attempts conv jit,
  0 < bmax -> 0 < duration bmin bmax attempts conv jit <= bmax.
Proof. exact delay_in_range. Qed.

(** The first delay (attempt counter 0, no jitter) is ReconnectionDelay, capped by the maximum. *)
Theorem C15_first_delay : forall bmin bmax conv,
  0 < bmin < two63 -> duration bmin bmax 0 conv None = Z.min bmin bmax.
Proof. exact first_delay. Qed.

(** With jitter the first delay stays within the deviation around ReconnectionDelay (then capped):
    a deviation of at most B (B = jitter * delay, B < delay) gives a delay in
    [min(delay-B,max), min(delay+B,max)] or the maximum itself. *)
Theorem C15_first_delay_jitter : forall bmin bmax conv plus dev B,
  0 < bmin -> 0 <= dev <= B -> B < bmin -> bmin + B < two63 ->
  Z.min (bmin - B) bmax <= duration bmin bmax 0 conv (Some (plus, dev)) <= Z.min (bmin + B) bmax
  \/ duration bmin bmax 0 conv (Some (plus, dev)) = bmax.
Proof. exact first_delay_jitter. Qed.

(** Without jitter the n-th delay is delay * 2^n capped by the maximum, as long as the product
    fits int64; hence delays never decrease there. *)
Theorem C15_delay_exponential : forall bmin bmax n conv,
  0 < bmin -> 0 <= n -> bmin * 2 ^ n < two63 ->
  duration bmin bmax n conv None = Z.min (bmin * 2 ^ n) bmax.
Proof. exact delay_exponential. Qed.

(** * Reconnection *)

(** In every run of the manager (any sequence of opens, closes, dial outcomes and connection
    losses, any oracles) the delay slept before each reconnect_attempt is in (0, max]. *)
Theorem C15_retry_delays_in_range : forall c l s,
  0 < bmax c -> Forall (delay_ok c) (fst (mrun c s l)).
Proof. exact mrun_delays. Qed.

(** Limit N > 0, connection lost, server unreachable for at least N dials: the events are close,
    then exactly N rounds (reconnect_attempt k with the delay of counter k-1, error,
    reconnect_error; k = 1..N), then reconnect_failed, and nothing else: the remaining dial
    outcomes of the outage are not consumed, the manager is idle with its counter reset. *)
Theorem C15_gives_up_exactly : forall c os1 os2,
  0 < limit c < two32 -> no_reconnection c = false ->
  Z.of_nat (length os1) = limit c ->
  mrun c (mkM Conn 0 false) (IDrop :: fails (os1 ++ os2)) =
  (EClose :: rounds c 0 os1 ++ [EReconnectFailed], mkM Idle 0 false).
Proof. exact drop_gives_up. Qed.

(** The same when Open() itself finds the server down (the first dial is not an attempt). *)
Theorem C15_gives_up_exactly_on_open : forall c os1 os2 conv jit,
  0 < limit c < two32 -> no_reconnection c = false ->
  Z.of_nat (length os1) = limit c ->
  mrun c minit (IOpen :: IDial false conv jit :: fails (os1 ++ os2)) =
  (EError :: rounds c 0 os1 ++ [EReconnectFailed], mkM Idle 0 false).
Proof. exact open_gives_up. Qed.

(** Counts in N failed rounds: N attempts, N reconnect_error, no reconnect_failed, no reconnect. *)
Theorem C15_round_counts : forall c os a,
  count is_attempt (rounds c a os) = length os /\
  count is_rerror (rounds c a os) = length os /\
  count is_failed (rounds c a os) = 0%nat /\
  count is_reconnect (rounds c a os) = 0%nat.
Proof. exact rounds_counts. Qed.

(** Once idle (after giving up, or closed) nothing happens and no dial is made until the
    application opens the manager again. *)
Theorem C15_idle_is_quiet : forall c a sk l,
  Forall (fun i => match i with IDial _ _ _ | IDrop => True | _ => False end) l ->
  mrun c (mkM Idle a sk) l = ([], mkM Idle a sk).
Proof. exact idle_quiet. Qed.

(** The server comes back after k failed dials, k below the limit (without a limit: below 2^32-1):
    k failed rounds, then attempt k+1, open and reconnect(k+1); the counter is reset, so the next
    outage starts from the first delay again. *)
Theorem C15_reconnects_when_up : forall c os conv jit,
  0 <= limit c < two32 -> no_reconnection c = false ->
  (if limit c =? 0 then Z.of_nat (length os) < max_u32 else Z.of_nat (length os) < limit c) ->
  mrun c (mkM Conn 0 false) (IDrop :: fails os ++ [IDial true conv jit]) =
  (EClose :: rounds c 0 os ++
     [EAttempt (Z.of_nat (length os) + 1) (duration (bmin c) (bmax c) (Z.of_nat (length os)) conv jit);
      EOpen; EReconnect (Z.of_nat (length os) + 1)],
   mkM Conn 0 false).
Proof. exact drop_reconnects. Qed.

(** With reconnection disabled a lost connection is reported and nothing else happens. *)
Theorem C15_no_reconnection : forall c l,
  no_reconnection c = true ->
  Forall (fun i => match i with IDial _ _ _ | IDrop => True | _ => False end) l ->
  mrun c (mkM Conn 0 false) (IDrop :: l) = ([EClose], mkM Idle 0 false).
Proof. exact drop_without_reconnection. Qed.

(** Histories with aborted retry cycles.  The machine accepts Close() / socket.Disconnect() at any point
    of a cycle, also while the manager sleeps in a back-off delay.  After ANY history of opens, closes,
    dial outcomes and losses (any number of aborted cycles included) the counter is 0 outside a retry
    cycle and skipReconnect is off while not idle ... *)
Theorem C15_counter_zero_outside_retry : forall c hist, inv2 (snd (mrun c minit hist)).
Proof. intros c hist. exact (mrun_inv2 c hist minit minit_inv2). Qed.

(** ... so a loss in a connected state reached by ANY history is followed by exactly N rounds numbered
    from 1 with the delays of counter 0.. (the first one is the first delay), one reconnect_failed and
    nothing more ... *)
Theorem C15_gives_up_exactly_after_any_history : forall c hist os1 os2,
  0 < limit c < two32 -> no_reconnection c = false ->
  Z.of_nat (length os1) = limit c ->
  ph (snd (mrun c minit hist)) = Conn ->
  mrun c (snd (mrun c minit hist)) (IDrop :: fails (os1 ++ os2)) =
  (EClose :: rounds c 0 os1 ++ [EReconnectFailed], mkM Idle 0 false).
Proof. exact gives_up_after_any_history. Qed.

(** ... or by a reconnect when the server comes back in time. *)
Theorem C15_reconnects_when_up_after_any_history : forall c hist os conv jit,
  0 <= limit c < two32 -> no_reconnection c = false ->
  (if limit c =? 0 then Z.of_nat (length os) < max_u32 else Z.of_nat (length os) < limit c) ->
  ph (snd (mrun c minit hist)) = Conn ->
  mrun c (snd (mrun c minit hist)) (IDrop :: fails os ++ [IDial true conv jit]) =
  (EClose :: rounds c 0 os ++
     [EAttempt (Z.of_nat (length os) + 1) (duration (bmin c) (bmax c) (Z.of_nat (length os)) conv jit);
      EOpen; EReconnect (Z.of_nat (length os) + 1)],
   mkM Conn 0 false).
Proof. exact reconnects_after_any_history. Qed.

(** A cycle aborted after k failed rounds (Close during the (k+1)-th sleep) and a later Open():
    k rounds, close, open; connected with the counter at 0. *)
Theorem C15_aborted_cycle : forall c os,
  0 <= limit c < two32 -> no_reconnection c = false ->
  (if limit c =? 0 then Z.of_nat (length os) < max_u32 else Z.of_nat (length os) < limit c) ->
  forall conv jit,
  mrun c (mkM Conn 0 false) (IDrop :: fails os ++ [IClose; IOpen; IDial true conv jit]) =
  (EClose :: rounds c 0 os ++ [EClose; EOpen], mkM Conn 0 false).
Proof. exact aborted_then_open. Qed.

(** * Offline buffer *)

(** For every history of emits (volatile or not, with or without ack, any number of attachments),
    manager opens, CONNECT replies, closes, received events and expiring ack time-outs (which drop the
    parked packet they belong to - all of its frames): the frames handed to the manager so
    far, followed by the frames still parked, are exactly the frames of the emits made while
    connected and of the non-volatile emits made while not connected whose time-out did not expire
    while they were parked - each once, in emission order, whole packets (all frames of a packet or
    none, contiguous).  (So nothing is lost, duplicated, reordered or torn.) *)
Theorem C15_offline_exactly_once_in_order : forall h,
  efr (fst (run init h)) ++ efr (sendBuf (snd (run init h))) = entitled Disconnected 0 h.
Proof. exact offline_exactly_once_in_order. Qed.

(** After a CONNECT reply nothing is parked: everything entitled has been handed over. *)
Theorem C15_delivered_after_connect : forall h,
  efr (fst (run init (h ++ [ConnectReply]))) = entitled Disconnected 0 (h ++ [ConnectReply]).
Proof. exact delivered_after_reply. Qed.

(** While not connected an emit hands nothing over; the CONNECT reply hands over exactly the
    non-volatile emits made since the previous reply while not connected, in order. *)
Theorem C15_offline_emit_waits : forall s l vol ack att,
  is_conn (cs s) = false -> efr (fst (step s (Emit l vol ack att))) = [].
Proof. exact offline_emit_silent. Qed.

Theorem C15_reply_hands_over_offline_emits : forall h,
  efr (fst (step (snd (run init h)) ConnectReply)) = efr (offline_pending Disconnected 0 [] h).
Proof. exact reply_hands_over_pending. Qed.

(** A volatile emit made while not connected is never handed over, whatever happens later. *)
Theorem C15_volatile_offline_dropped : forall h1 h2 l ack att i,
  is_conn (state_after Disconnected h1) = false ->
  ~ In l (emit_labels h1) -> ~ In l (emit_labels h2) ->
  ~ In (l, i) (efr (fst (run init (h1 ++ Emit l true ack att :: h2)))).
Proof. exact volatile_offline_never_sent. Qed.

(** Events received before the CONNECT reply: every handler runs exactly once, in arrival order
    (run now, or parked and run at the reply; nothing stays parked after the reply). *)
Theorem C15_buffered_events_called_once : forall h,
  calls (fst (run init h)) ++ parked_calls (recvBuf (snd (run init h))) = entitled_calls h.
Proof. exact events_called_once. Qed.

Theorem C15_connect_reply_flushes : forall h s,
  sendBuf (snd (run s (h ++ [ConnectReply]))) = [] /\ recvBuf (snd (run s (h ++ [ConnectReply]))) = [].
Proof. exact reply_flushes. Qed.

(** Non-vacuity. *)
Example C15_example_backoff :
  map (fun n => duration 1000000000 5000000000 n 0 None) [0; 1; 2; 3; 62; 63; 4294967295]
  = [1000000000; 2000000000; 4000000000; 5000000000; 5000000000; 5000000000; 5000000000].
Proof. vm_compute. reflexivity. Qed.

Example C15_example_gives_up :
  fst (mrun (mkCfg 2 false 10 40) (mkM Conn 0 false) (IDrop :: fails [(0, None); (0, None); (0, None)]))
  = [EClose; EAttempt 1 10; EError; EReconnectError; EAttempt 2 20; EError; EReconnectError; EReconnectFailed].
Proof. vm_compute. reflexivity. Qed.

Example C15_example_aborted :
  fst (mrun (mkCfg 3 false 10 80) minit
        [IOpen; IDial true 0 None; IDrop; IDial false 0 None; IDial false 0 None; IClose;
         IOpen; IDial true 0 None; IDrop; IDial false 0 None; IDial false 0 None; IDial false 0 None])
  = [EOpen; EClose; EAttempt 1 10; EError; EReconnectError; EAttempt 2 20; EError; EReconnectError; EClose;
     EOpen; EClose; EAttempt 1 10; EError; EReconnectError; EAttempt 2 20; EError; EReconnectError;
     EAttempt 3 40; EError; EReconnectError; EReconnectFailed].
Proof. vm_compute. reflexivity. Qed.

Example C15_example_timeout :
  let h := [Emit 1 false false 0; Emit 2 false true 2; Emit 3 false true 1; Timeout 0; Emit 4 false false 0;
            MgrOpen; ConnectReply]%N in
  efr (fst (run init h)) = [(1%N, 0%nat); (3%N, 0%nat); (3%N, 1%nat); (4%N, 0%nat)].
Proof. vm_compute. reflexivity. Qed.

Example C15_example_offline :
  let h := [Emit 1 false false 0; Emit 2 true false 0; MgrOpen; Emit 3 false true 1;
            Recv 9 (Some 5%N) [HAckSync]; ConnectReply; Emit 4 true false 0]%N in
  fst (run init h) =
  [OConnect; OCall 9 0; OFrame 1 0 None; OFrame 3 0 (Some 0%N); OFrame 3 1 (Some 0%N); OAck 5; OFrame 4 0 None]%N.
Proof. vm_compute. reflexivity. Qed.
