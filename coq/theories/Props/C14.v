(** C14 - Heartbeats detect a dead peer within the configured bound, never kill a live one.
    Statements only; every proof is `exact <lemma>`.

    Model: Eio/Heartbeat.v (timed transition systems of the server ping loop and of the client
    watchdog; time in ms as data, scheduling slack D >= 0 as a parameter; runs are lists of
    timestamped events, valid up to t_end iff every event and t_end itself meet the deadline of the
    state they find).  A guard in [svalid c g ...] / [cvalid c g ...] is a hypothesis on the run;
    [g] / [cg] below is an arbitrary further guard, so each theorem holds for every sub-class of
    runs (any application traffic [SApp]/[CApp] at any phase, any interleaving). *)
From SioV Require Import Eio.Heartbeat Eio.HeartbeatProofs.
Open Scope Z_scope.

(** Server: if no pong is processed after t0, the socket is closed by t0 + I + T + 2D. *)
Theorem C14_server_detects : forall c, cfg_ok c -> forall t0 g start evs t_end st,
  start <= t0 ->
  svalid c (gand (g_no_take_after t0) g) start evs t_end = Some st ->
  t0 + cI c + cT c + 2 * cD c < t_end ->
  s_closed_by st (t0 + cI c + cT c + 2 * cD c).
Proof. exact server_detects_take. Qed.

(** Server: if no pong ARRIVES after t0 (peer dead / link black-holed from t0 on), whatever the
    peer sent before (stale, duplicated, unsolicited pongs included), the socket is closed by
    t0 + I + T + 3D when the loop discards stale pongs before a ping (the code as it is now), and by
    t0 + 2I + T + 4D when it does not (a stale pong masks the dead peer for one more round). *)
Theorem C14_server_detects_silent_peer : forall c, cfg_ok c -> forall t0 g start evs t_end st,
  start <= t0 ->
  svalid c (gand (g_no_pong_after t0) g) start evs t_end = Some st ->
  any_bound c t0 < t_end ->
  s_closed_by st (any_bound c t0).
Proof. exact server_detects_any. Qed.

Example C14_any_bound_values : forall I T D t0,
  any_bound (mkCfg I T D true) t0 = t0 + I + T + 3 * D /\
  any_bound (mkCfg I T D false) t0 = t0 + 2 * I + T + 4 * D.
Proof. intros; split; reflexivity. Qed.

(** Server, protocol-conforming peer (one pong per ping, only while a ping is outstanding):
    t0 + I + T + 3D with or without the discard. *)
Theorem C14_server_detects_conforming_peer : forall c, cfg_ok c -> forall t0 g start evs t_end st,
  start <= t0 ->
  svalid c (gand (gand (g_no_pong_after t0) g_conforming) g) start evs t_end = Some st ->
  t0 + cI c + cT c + 3 * cD c < t_end ->
  s_closed_by st (t0 + cI c + cT c + 3 * cD c).
Proof. exact server_detects_conforming. Qed.

(** The close reason is "ping timeout" unless another path closed the socket first. *)
Theorem C14_server_reason : forall c g start evs t_end st,
  svalid c (gand g_no_ext g) start evs t_end = Some st ->
  forall r, s_reason st = Some r -> r = PingTimeout.
Proof. exact server_reason. Qed.

(** Client: if no ping arrives after t0, the socket is closed by t0 + I + T + 2D
    (t0 + I + T + D counted from the last time the watchdog was re-armed). *)
Theorem C14_client_detects : forall c, cfg_ok c -> forall t0 g start evs t_end st,
  start <= t0 ->
  cvalid c (cgand (cg_no_ping_after t0) g) start evs t_end = Some st ->
  t0 + cI c + cT c + 2 * cD c < t_end ->
  c_closed_by st (t0 + cI c + cT c + 2 * cD c).
Proof. exact client_detects_ping. Qed.

Theorem C14_client_detects_from_rearm : forall c, cfg_ok c -> forall t0 g start evs t_end st,
  start <= t0 ->
  cvalid c (cgand (cg_no_rearm_after t0) g) start evs t_end = Some st ->
  t0 + cI c + cT c + cD c < t_end ->
  c_closed_by st (t0 + cI c + cT c + cD c).
Proof. exact client_detects_rearm. Qed.

Theorem C14_client_reason : forall c g start evs t_end st,
  cvalid c (cgand cg_no_ext g) start evs t_end = Some st ->
  forall r, c_reason st = Some r -> r = PingTimeout.
Proof. exact client_reason. Qed.

(** Never kill a live one, server side: if every ping is answered strictly before its nominal
    expiry, the loop never takes the timeout branch - for every number of rounds, every schedule
    of the slack, every interleaved application traffic - and a close, if any, has another reason. *)
Theorem C14_server_never_kills_live : forall c, cfg_ok c -> forall g start evs t_end st,
  svalid c (gand (g_answered c) g) start evs t_end = Some st ->
  Forall (fun te => snd te <> STimeout) evs /\ s_reason st <> Some PingTimeout.
Proof. exact server_live. Qed.

(** Never kill a live one, client side: if a ping always arrives strictly before the nominal expiry
    of the watchdog (I + T after it was last re-armed), the watchdog never fires. *)
Theorem C14_client_never_kills_live : forall c, cfg_ok c -> forall g start evs t_end st,
  cvalid c (cgand (cg_fed c) g) start evs t_end = Some st ->
  Forall (fun te => snd te <> CTimeout) evs /\ c_reason st <> Some PingTimeout.
Proof. exact client_live. Qed.

(** The hypotheses are satisfiable: a dead peer (I = T = 1000, D = 20). *)
Example C14_example_dead_peer :
  svalid (mkCfg 1000 1000 20 true) (gand (g_no_pong_after 1010) gtrue) 0
         [(1005, SWake); (1010, SPong); (1012, STake); (2020, SWake); (3025, STimeout)] 4000
  = Some (mkS (SClosed 3025 PingTimeout) None).
Proof. vm_compute. reflexivity. Qed.

(** Without the discard, an unsolicited second pong masks a dead peer for a whole round: the peer
    is silent from t0 = 1001 on, yet the close comes at t0 + 2I + T (> t0 + I + T + 3D). This is the
    run the code before the stale-pong fix produced (replayed live by the extra-pong scenario). *)
Example C14_stale_pong_masks_a_round_without_discard :
  svalid (mkCfg 1000 1000 0 false) (gand (g_no_pong_after 1001) gtrue) 0
         [(1000, SWake); (1000, SPong); (1000, STake); (1001, SPong);
          (2000, SWake); (2000, STake); (3000, SWake); (4000, STimeout)] 5000
  = Some (mkS (SClosed 4000 PingTimeout) None).
Proof. vm_compute. reflexivity. Qed.

(** ... and the same events are not a run of the loop that discards (the stale token is gone). *)
Example C14_stale_pong_run_impossible_with_discard :
  svalid (mkCfg 1000 1000 0 true) gtrue 0
         [(1000, SWake); (1000, SPong); (1000, STake); (1001, SPong);
          (2000, SWake); (2000, STake)] 2000
  = None.
Proof. vm_compute. reflexivity. Qed.

(** * The whole connection: both automata composed through a link (Eio/HeartbeatLink.v). *)
From SioV Require Import Eio.HeartbeatLink Eio.HeartbeatLinkProofs.

(** Never kill a live one.  If every ping reaches the client within Ld of being written - on a
    poll, on the websocket, or carried over from the polling queue to the new transport by an
    upgrade - and is answered (pong delivered) within Lu of that, with Ld + Lu + 2D < T, then in
    EVERY run of the composed system - any number of heartbeat rounds (any length of idleness), any
    slack schedule, any variation of the delays below their bounds, application traffic at any phase
    (SApp/CApp/XSend steps anywhere), transport swaps (XSwap) at ANY moment relative to the ping
    schedule - neither the server loop nor the client watchdog ever takes its timeout branch, and
    neither side is closed.  The only thing required of the carry-over filter is that it keeps pings. *)
Theorem C14_live_never_killed : forall c l, cfg_ok c ->
  0 <= lDown l /\ 0 <= lUp l /\ lDown l + lUp l + 2 * cD c < cT c ->
  (forall s, lKeep l (DPing s) = true) ->
  forall start evs t_end st,
  xvalid c l start evs t_end = Some st ->
  Forall (fun te => is_timeout (snd te) = false) evs
  /\ s_reason (xs st) = None /\ c_reason (xc st) = None.
Proof. exact live_never_killed. Qed.

(** The filter of the code (serverSocket.upgradeTo forwards everything but NOOP) keeps pings. *)
Theorem C14_code_carry_over_keeps_pings : forall s, keep_code (DPing s) = true.
Proof. reflexivity. Qed.

(** A carry-over that forwards only messages loses a ping queued on long-polling when the swap
    happens (no poll pending between the ping at 1000 and the upgrade at 1500): the server then
    closes a live peer with "ping timeout" at 1000 + T.  (The independent mutant
    C14-ind1-queued-ping-dropped-at-upgrade; replayed live by the upgrade-sweep scenarios.) *)
Theorem C14_swap_dropping_pings_kills_live :
  exists l evs st,
    xvalid (mkCfg 1000 2000 0 true) l 0 evs 3000 = Some st /\
    lDown l + lUp l + 2 * 0 < 2000 /\
    s_reason (xs st) = Some PingTimeout.
Proof.
  exists (mkLink 600 100 (fun p => match p with DMsg => true | _ => false end)),
    [(1000, XS SWake); (1500, XSwap); (3000, XS STimeout)].
  eexists. split; [vm_compute; reflexivity|]. split; [simpl; lia|reflexivity].
Qed.

(** ... while with the code's filter the same schedule delivers the ping after the swap. *)
Example C14_example_swap_around_ping :
  match xvalid (mkCfg 1000 2000 0 true) (mkLink 600 100 keep_code) 0
         [(900, XSend DNoop); (1000, XS SWake); (1200, XSend DMsg); (1500, XSwap); (1501, XDeliver);
          (1501, XC CRearm); (1502, XDeliver); (1503, XDeliverPong); (1503, XS STake)] 2000
  with Some st => match s_reason (xs st) with None => true | _ => false end | None => false end = true.
Proof. vm_compute. reflexivity. Qed.

(** "Every ping answered within < T - D" (a bound on the round trip alone) is NOT enough for the
    client side: with I = T = 1000, D = 0, the first ping delivered at once and its pong after 800,
    the second ping (sent at 2800) still on its way at 3000, the client's watchdog fires at
    1000 + I + T = 3000 although every round trip the server saw took 800 < T - D.  (Replayed live
    by the `jitter` scenario: known finding client-watchdog-latency-jitter.) *)
Theorem C14_live_rtt_bound_alone_refuted :
  exists c l start evs t_end st,
    cfg_ok c /\ xvalid c l start evs t_end = Some st /\
    rtt_within (cT c - cD c - 1) evs t_end = true /\
    c_reason (xc st) = Some PingTimeout.
Proof.
  exists (mkCfg 1000 1000 0 true), (mkLink 800 800 keep_code), 0,
    [(1000, XS SWake); (1000, XDeliver); (1000, XC CRearm); (1800, XDeliverPong);
     (1800, XS STake); (2800, XS SWake); (3000, XC CTimeout)], 3000.
  eexists. split; [unfold cfg_ok; simpl; lia|]. split; [vm_compute; reflexivity|].
  split; vm_compute; reflexivity.
Qed.

(** The hypotheses of C14_live_never_killed are satisfiable: four rounds with varying delays. *)
Example C14_example_live :
  match xvalid (mkCfg 1000 1000 20 true) (mkLink 400 400 keep_code) 0
         [(1010, XS SWake); (1300, XDeliver); (1305, XC CRearm); (1500, XS SApp); (1650, XDeliverPong);
          (1660, XS STake); (2670, XS SWake); (2670, XDeliver); (2675, XC CRearm); (2680, XDeliverPong);
          (2690, XS STake); (3000, XC CApp); (3700, XS SWake); (4100, XDeliver); (4110, XC CRearm); (4500, XDeliverPong)] 4510
  with Some st => true | None => false end = true.
Proof. vm_compute. reflexivity. Qed.

(** * Upgrades that fail: the downlink comes back (import of C07's invariant, Eio/Upgrade.v).
    While the client probes a new transport its long-polling loop is paused, i.e. the downlink of
    the composed system is down; the hypothesis "every ping is delivered within lDown" of
    C14_live_never_killed therefore needs: polling is paused ONLY while a probe / swap is in
    progress, and a failed attempt leaves it resumed - in every state of every schedule of the
    upgrade model.  (A client that stays paused after a failed probe is a link that never delivers
    a ping again: both heartbeats then close a healthy connection - the independent mutant
    C14-ind2-failed-upgrade-leaves-polling-paused; replayed live by the upfail-* scenarios.) *)
From SioV Require Eio.Upgrade Eio.HeartbeatUpgrade.

Theorem C14_failed_upgrade_resumes_polling : forall sched,
  let st := Upgrade.run sched Upgrade.init in
  Upgrade.c_cand st = Upgrade.KFail -> Upgrade.c_paused st = false.
Proof. exact HeartbeatUpgrade.failed_upgrade_resumes_polling. Qed.

Theorem C14_polling_paused_only_while_probing : forall sched,
  let st := Upgrade.run sched Upgrade.init in
  Upgrade.c_paused st = true -> Upgrade.c_cand st = Upgrade.KProbe \/ Upgrade.c_cand st = Upgrade.KSwapWait.
Proof. exact HeartbeatUpgrade.paused_only_while_probing. Qed.

(** A link that stops delivering (bound lDown larger than T) lets the server kill a live peer. *)
Example C14_link_that_stops_delivering_kills_live :
  match xvalid (mkCfg 1000 1000 0 true) (mkLink 5000 100 keep_code) 0
               [(1000, XS SWake); (2000, XS STimeout)] 2000 with
  | Some st => match s_reason (xs st) with Some PingTimeout => true | _ => false end
  | None => false
  end = true.
Proof. vm_compute. reflexivity. Qed.
