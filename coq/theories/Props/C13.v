(** C13 - Size limits are enforced on every transport, and traffic within them is accepted.
    This file holds statements only; every proof is `exact <lemma>`. *)
From SioV Require Import Eio.Batcher Eio.BatcherProofs.

(** Batching neither drops, duplicates nor reorders packets (any transport, any limit). *)
Theorem C13_batches_concat : forall max polling ps,
  concat (write_writable max polling ps) = ps.
Proof. exact write_concat. Qed.

(** No request is sent with an empty packet list. *)
Theorem C13_batches_nonempty : forall max polling ps,
  Forall (fun b => b <> []) (write_writable max polling ps).
Proof. exact write_nonempty. Qed.

(** A long-polling request carrying several packets never exceeds the announced maxPayload:
    every batch either fits (its real payload length, separators included) or is one packet. *)
Theorem C13_multi_batch_within_limit : forall max ps,
  (max > 0)%Z ->
  Forall (fun b => (payload_len b <= max)%Z \/ length b = 1%nat) (write_writable max true ps).
Proof. exact write_within. Qed.

(** The batcher is greedy: a request is closed only when the next packet would not have fitted. *)
Theorem C13_batches_greedy : forall max ps,
  (max > 0)%Z -> greedy max (write_writable max true ps).
Proof. exact write_greedy. Qed.

(** With the limit disabled, or on a transport other than polling, everything goes in one call. *)
Theorem C13_unlimited_single_batch : forall max polling ps,
  ps <> [] -> (max <= 0)%Z \/ polling = false -> write_writable max polling ps = [ps].
Proof. exact write_unlimited. Qed.

(** Non-vacuity: three 9-byte text packets, maxPayload 15 (the vector on which the code before
    the fix sent a 21-byte batch). *)
Example C13_example :
  let p := mkPacket false 4 [1;2;3;4;5;6;7;8;9]%N in
  map (@length _) (write_writable 15 true [p; p; p]) = [1; 1; 1]%nat.
Proof. vm_compute. reflexivity. Qed.
