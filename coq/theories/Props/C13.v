(** C13 - Size limits are enforced on every transport, and traffic within them is accepted.
    This file holds statements only; every proof is `exact <lemma>`. *)
From SioV Require Import Eio.Batcher Eio.BatcherProofs Eio.Limits Eio.LimitsProofs Eio.LimitsCheck.

(** Batching neither drops, duplicates nor reorders packets (any transport, any limit). *)
Theorem C13_batches_concat : forall max polling ps,
  concat (write_writable max polling ps) = ps.
Proof. exact write_concat. Qed.

(** No request is sent with an empty packet list. *)
Theorem C13_batches_nonempty : forall max polling ps,
  Forall (fun b => b <> []) (write_writable max polling ps).
Proof. exact write_nonempty. Qed.

(** A long-polling request carrying several packets never exceeds the announced maxPayload:
    every batch either fits (its real payload length, separators included) or is one packet. *)
Theorem C13_multi_batch_within_limit : forall max ps,
  (max > 0)%Z ->
  Forall (fun b => (payload_len b <= max)%Z \/ length b = 1%nat) (write_writable max true ps).
Proof. exact write_within. Qed.

(** The batcher is greedy: a request is closed only when the next packet would not have fitted. *)
Theorem C13_batches_greedy : forall max ps,
  (max > 0)%Z -> greedy max (write_writable max true ps).
Proof. exact write_greedy. Qed.

(** With the limit disabled, or on a transport other than polling, everything goes in one call. *)
Theorem C13_unlimited_single_batch : forall max polling ps,
  ps <> [] -> (max <= 0)%Z \/ polling = false -> write_writable max polling ps = [ps].
Proof. exact write_unlimited. Qed.

(** Non-vacuity: three 9-byte text packets, maxPayload 15 (the vector on which the code before
    the fix sent a 21-byte batch). *)
Example C13_example :
  let p := mkPacket false 4 [1;2;3;4;5;6;7;8;9]%N in
  map (@length _) (write_writable 15 true [p; p; p]) = [1; 1; 1]%nat.
Proof. vm_compute. reflexivity. Qed.

(** * Limit decisions, every transport, both directions (Eio/Limits.v)

    [limit_on c]: DisableMaxBufferSize is false and MaxBufferSize >= 0; [the_limit c] is
    MaxBufferSize, 1e6 when left at 0.  Transports: POST with Content-Length, chunked POST (size not
    declared), WebSocket, polling GET response, WebTransport.  Sizes are wire bytes, any [Z]. *)

(** The OPEN packet announces exactly the limit the server enforces; 0 when it is disabled. *)
Theorem C13_announced_is_limit : forall c,
  (limit_on c -> announced_max_payload c = the_limit c /\ (0 < the_limit c)%Z) /\
  (c_disabled c = true -> announced_max_payload c = 0%Z).
Proof. exact announced_is_limit_full. Qed.

(** The server never takes more than limit+1 bytes of one inbound message from any transport,
    however its size is declared or not declared (the extra byte is the one that shows an
    undeclared size to be over the limit); what it accepts is within the limit and was read in
    full; what it does not accept closes the transport. *)
Theorem C13_server_never_buffers_beyond : forall c t size,
  limit_on c -> (0 <= size)%Z ->
  let o := decide c C2S t size in
  (o_pulled o <= the_limit c + 1)%Z /\
  (o_accept o = true -> o_pulled o = size /\ (size <= the_limit c)%Z) /\
  (o_accept o = false -> o_closed o = true /\ (the_limit c < size)%Z).
Proof. exact server_never_buffers_beyond. Qed.

(** An inbound message over the limit is never delivered and the transport is closed; a POST is
    answered 413, and with a declared size not one byte of the body is read. *)
Theorem C13_over_limit_rejected_and_closed : forall c t size,
  limit_on c -> (the_limit c < size)%Z ->
  let o := decide c C2S t size in
  o_accept o = false /\ o_closed o = true /\
  (t <> WS -> t <> WT -> o_status o = 413%Z) /\ (t = PostCL \/ t = WT -> o_pulled o = 0%Z).
Proof. exact over_limit_rejected_and_closed. Qed.

(** Every message within the limit announced in the handshake is accepted, in both directions, on
    every transport, and the connection stays open. *)
Theorem C13_within_limit_accepted : forall c d t size,
  (0 <= size)%Z -> within_announced c size ->
  let o := decide c d t size in
  o_accept o = true /\ o_pulled o = size /\ o_closed o = false.
Proof. exact within_limit_accepted. Qed.

(** With DisableMaxBufferSize every size is accepted in both directions on every transport. *)
Theorem C13_disabled_accepts_all : forall c d t size,
  c_disabled c = true -> (0 <= size)%Z ->
  let o := decide c d t size in
  o_accept o = true /\ o_pulled o = size /\ o_closed o = false.
Proof. exact disabled_accepts_all. Qed.

(** Exactly which messages are accepted: those for which the receiving side has no limit, or
    that fit it (the polling client has none; every other receiver has the server's limit). *)
Theorem C13_accept_iff : forall c d t size,
  (0 <= size)%Z ->
  (o_accept (decide c d t size) = true <->
   (effective_max c <= 0 \/ size <= effective_max c \/ (d = S2C /\ t <> WS))%Z).
Proof. exact accept_iff. Qed.

(** Sessions (any number of messages in a row on one transport): what is delivered is a prefix of
    what was sent, all of it unless the receiver closed the transport, and it closed it at a
    message it refuses. *)
Theorem C13_session_prefix : forall c d t sizes,
  let '(dl, cl) := session c d t sizes in
  exists rest, sizes = dl ++ rest /\
    Forall (fun s => o_accept (decide c d t s) = true) dl /\
    (cl = false -> rest = []) /\
    (cl = true -> exists s rest', rest = s :: rest' /\ o_accept (decide c d t s) = false).
Proof. exact session_prefix. Qed.

(** A session of messages that are all within the announced limit is delivered whole and stays
    open, in both directions on every transport. *)
Theorem C13_session_all_within : forall c d t sizes,
  Forall (fun s => (0 <= s)%Z /\ within_announced c s) sizes ->
  session c d t sizes = (sizes, false).
Proof. exact session_all_within. Qed.

(** In no session does the server deliver a message over the limit. *)
Theorem C13_session_server_delivers_within : forall c t sizes,
  limit_on c -> Forall (fun s => (0 <= s)%Z) sizes ->
  Forall (fun s => (s <= the_limit c)%Z) (fst (session c C2S t sizes)).
Proof. exact session_server_delivers_within. Qed.

(** The POST handler on top of the MaxBytesReader relation: whatever run the reader takes, the
    handler answers as [post_decision] says. *)
Theorem C13_post_handler_exact : forall declared body max r,
  (0 <= body)%Z -> (0 < max)%Z -> (content_length declared <= max)%Z ->
  mbr_run body max 0 0 r ->
  post_decision declared body max =
    match fst r with
    | RDone _ => accepted 200 (snd r)
    | RTooBig _ => rejected 413 (snd r)
    end.
Proof. exact post_decision_is_handler. Qed.

(** The WebSocket library's per-message limit reader (SetReadLimit(l) stores l+1), run under
    io.ReadAll over EVERY way of cutting the message into frames and reads, accepts exactly the
    messages of at most l bytes and hands on l+1 bytes of a longer one; some run always exists. *)
Theorem C13_ws_limit_reader_exact : forall l size,
  (0 <= size)%Z -> (0 <= l)%Z ->
  (exists r, lr_run size (l + 1) 0 r) /\
  forall r, lr_run size (l + 1) 0 r ->
    match r with
    | RDone got => got = size /\ ws_outcome (Some l) size = accepted (-1) size
    | RTooBig got => got = (l + 1)%Z /\ ws_outcome (Some l) size = rejected (-1) (l + 1)
    end.
Proof. exact ws_limit_reader_exact. Qed.

(** net/http's MaxBytesReader under io.ReadAll, over every way of cutting the body into reads:
    a body of at most max bytes is read in full, of a longer one max bytes are handed on and
    max+1 are taken from the connection. *)
Theorem C13_max_bytes_reader_exact : forall body max,
  (0 <= body)%Z -> (0 <= max)%Z ->
  (exists r, mbr_run body max 0 0 r) /\
  forall r, mbr_run body max 0 0 r ->
    r = (if fst (max_bytes_read body max) then RDone body else RTooBig max,
         snd (max_bytes_read body max)).
Proof. exact max_bytes_reader_exact. Qed.

(** The two halves together: every request of several packets that the client batcher produces
    under the announced maxPayload is accepted by the server that announced it. *)
Theorem C13_batches_accepted_by_server : forall c ps,
  (0 < announced_max_payload c)%Z ->
  Forall (fun b => length b = 1%nat \/
                   o_accept (decide c C2S PostCL (payload_len b)) = true)
         (write_writable (announced_max_payload c) true ps).
Proof. exact batches_accepted_by_server. Qed.

(** The executable property evaluated by the check on the implementation's observations holds of
    everything the model does (any configuration, direction, transport, size). *)
Theorem C13_model_satisfies_oracle : forall max dis d t size,
  (0 <= size)%Z -> oracle (case_of_model max dis d t size) = true.
Proof. exact model_satisfies_oracle. Qed.

(** Non-vacuity: limit 100; 100 bytes pass and 101 do not, on each inbound transport; the client
    accepts 40000 bytes over WebSocket under the default limit (the size that used to kill it). *)
Example C13_limits_example :
  let c := mkCfg 100 false in
  map (fun t => (o_accept (decide c C2S t 100), o_accept (decide c C2S t 101), o_pulled (decide c C2S t 101)))
      [PostCL; PostChunked; WS; WT]
  = [(true, false, 0%Z); (true, false, 101%Z); (true, false, 101%Z); (true, false, 0%Z)]
  /\ o_accept (decide (mkCfg 0 false) S2C WS 40000) = true
  /\ limit_on c /\ the_limit c = 100%Z.
Proof. vm_compute. repeat split; congruence. Qed.
