(** C10 - No input from a peer can crash or wedge the Socket.IO decoder or the process.
    Statements only; every proof is `exact <lemma>`.  Models: Sio/Header.v (parseHeader),
    Sio/Decoder.v (Add / addBuffer / decode / placeholder lookup).  The library calls
    (strconv.ParseUint, json.Unmarshal in its three uses) are universally quantified functions:
    nothing is assumed about their answers. *)
From SioV Require Import Base.GoSem Sio.Header Sio.HeaderProofs Sio.Decoder Sio.DecoderProofs
  Sio.DecoderDispatch Sio.DecoderDispatchProofs.
Local Open Scope Z_scope.

(** parseHeader never panics: for every byte string and whatever ParseUint and the JSON library
    answer.  ([index]/[slice_*] in the model return [Panic] exactly where Go's bounds checks do.) *)
Theorem C10_parse_header_no_panic : forall puint unm (data : bytes),
  parse_header_with puint unm data <> Panic.
Proof. exact parse_header_no_panic. Qed.

(** Add never panics: any parser state, any frame, any limit, any library answers ... *)
Theorem C10_add_no_panic : forall puint unm max_att st (data : bytes),
  add puint unm max_att st data <> Panic.
Proof. exact add_no_panic. Qed.

(** ... hence no sequence of frames makes a connection's decoder panic. *)
Theorem C10_run_no_panic : forall puint unm max_att (frames : list bytes) st,
  run puint unm max_att st frames <> Panic.
Proof. exact run_no_panic. Qed.

(** decode never panics: any reconstructor (any number of buffers, 0 included), any handler
    arity, any JSON answers, any placeholder numbers (every [Z]: negative, MaxInt64, what int(f)
    gives for NaN or 1e300) at any depth of the decoded value. *)
Theorem C10_decode_no_panic : forall unmarshal r ntypes,
  decode unmarshal r ntypes <> Panic.
Proof. exact decode_no_panic. Qed.

(** Whatever the JSON library answers and whatever the placeholders say, every byte slice that
    decode places into a decoded value is one of the packet's attachment frames - never the JSON
    payload (buffers[0], which placeholder -1 used to hand out) and never foreign data. *)
Theorem C10_placed_is_attachment : forall unmarshal r ntypes vs,
  decode unmarshal r ntypes = Ok vs ->
  forall b, In b (concat (map bins_of vs)) -> In b (tl (r_buffers r)).
Proof. exact decode_bins. Qed.

(** The walk over the decoded values (typed Binary cells, slices, structs, maps of ANY element
    type, placeholder-shaped maps at any depth) never panics: numbers are range-checked before the
    buffers are indexed, and reflect's SetMapIndex - which panics on an unassignable value - is only
    reached for a map whose element type is an interface type. *)
Theorem C10_walk_no_panic : forall buffers s, recon_value buffers s <> Panic.
Proof. exact recon_value_no_panic. Qed.

(** A placeholder-shaped object inside a map whose element type is not an interface type (e.g.
    the inner level of map[string]map[string]any) is walked into, never replaced. *)
Theorem C10_typed_map_entry_not_substituted : forall buffers n fb,
  recon_value buffers (SMap false [SPhMap n fb]) =
  rbind (recon_value buffers fb) (fun v => Ok (VSeq [v])).
Proof. exact recon_typed_entry. Qed.

(** The guard must read the element type of the CONTAINER: a walk whose guard reads the element
    type of the placeholder-shaped map itself panics on 51-["ev",{"k":{"_placeholder":true,"num":0}}]
    decoded into map[string]map[string]any, where the real walk returns the value. *)
Theorem C10_inner_guard_refuted :
  let bufs := [[91]; [1; 2; 3]]%N in
  let s := SMap false [SPhMap 0 (SMap true [SOther; SOther])] in
  recon_value_inner_guard bufs s = Panic /\ recon_value bufs s = Ok (VSeq [VSeq [VOther; VOther]]).
Proof. exact inner_guard_refuted. Qed.

(** Each call of Add ends in exactly one of three ways - error, need-more, finished packet - and
    leaves a well-formed state: a finished packet leaves the parser idle with remaining = 0 (a
    packet completed by its header alone carries exactly 1 + Attachments buffers); need-more
    leaves a pending packet that waits for at least one and fewer than 2^63 frames; an error
    only comes from a header. *)
Theorem C10_outcome_total : forall puint unm max_att st data,
  state_ok st ->
  exists st' o, add puint unm max_att st data = Ok (st', o) /\
    match o with
    | Finished r =>
        st' = None /\ r_remaining r = 0
        /\ Z.of_nat (length (r_buffers r)) = 1 + h_att (r_header r) \/
        st' = None /\ r_remaining r = 0 /\ exists r0, st = Some r0
    | NeedMore => exists r, st' = Some r /\ pending_ok r
    | Failed => st = None
    end.
Proof. exact add_outcome. Qed.

(** A pending packet that waits for n frames is finished by exactly the next n frames, whatever
    their content (no wedge: a peer cannot make the decoder wait for more than it announced), the
    parser is idle again afterwards, and the packet carries those frames in order. *)
Theorem C10_attachments_exact : forall puint unm max_att fs r,
  pending_ok r -> Z.of_nat (length fs) = r_remaining r ->
  run puint unm max_att (Some r) fs =
    Ok (None, repeat NeedMore (length fs - 1)
              ++ [Finished (mkRecon (r_header r) (r_name r) (r_buffers r ++ fs) 0)]).
Proof. exact run_pending. Qed.

(** ... and by no fewer. *)
Theorem C10_attachments_not_early : forall puint unm max_att fs r,
  pending_ok r -> Z.of_nat (length fs) < r_remaining r ->
  exists r', run puint unm max_att (Some r) fs = Ok (Some r', repeat NeedMore (length fs)) /\
             r_buffers r' = r_buffers r ++ fs /\
             r_remaining r' = r_remaining r - Z.of_nat (length fs) /\ pending_ok r'.
Proof. exact run_pending_prefix. Qed.

(** An accepted header never announces a negative number of attachments (a count >= 2^63, which
    wraps when converted to int, is rejected) and announces 0 for the non-binary types. *)
Theorem C10_accepted_count_nonnegative : forall puint unm data h buf name,
  parse_header_with puint unm data = Ok (h, buf, name) ->
  0 <= h_att h < two63z /\ (is_binary (h_type h) = false -> h_att h = 0).
Proof. exact parse_header_att. Qed.

(** Dispatch layer (server connection): no frame sequence makes the dispatch panic ... *)
Theorem C10_dispatch_no_panic : forall puint unm unmarshal max_att frames st socks,
  on_messages puint unm unmarshal max_att st socks frames <> Panic.
Proof. exact on_messages_no_panic. Qed.

(** ... and every frame is answered according to what the decoder said: Add failed => every
    socket of this connection has its error handlers run and the connection is closed; more
    frames needed => nothing; packet finished => the per-packet dispatch, which never fails. *)
Theorem C10_error_is_reported : forall puint unm unmarshal max_att st socks data,
  exists st' o reps,
    add puint unm max_att st data = Ok (st', o) /\
    on_message puint unm unmarshal max_att st socks data = Ok (st', reps) /\
    match o with
    | Failed => reps = fatal socks
    | NeedMore => reps = []
    | Finished r => on_finish unmarshal socks r = Ok reps
    end.
Proof. exact on_message_spec. Qed.

Theorem C10_fatal_reaches_every_socket_and_closes : forall socks,
  In RepClose (fatal socks) /\ forall s, In s socks -> In (RepError (s_nsp s)) (fatal socks).
Proof. exact fatal_spec. Qed.

(** An event packet for a joined namespace: each registered handler is either called with the
    decoded values or, when decoding for its parameter types fails, the error handlers of that
    socket (and of no other) run - one report per handler, none dropped. *)
Theorem C10_decode_error_goes_to_error_handlers : forall unmarshal socks r s,
  find_sock socks (packet_nsp (r_header r)) = Some s ->
  is_event (h_type (r_header r)) = true ->
  exists reps, on_finish unmarshal socks r = Ok reps /\
    Forall2 (handler_report unmarshal (s_nsp s) (r_name r) r) (s_handlers s (r_name r)) reps.
Proof. exact on_finish_event. Qed.

(** Witnesses (the inputs on which the code before the fixes panicked or wedged). *)
Example C10_ex_namespace_without_comma :            (* 0/abc *)
  parse_header (fun _ => None) [48; 47; 97; 98; 99]%N = Err.
Proof. vm_compute. reflexivity. Qed.

Example C10_ex_count_wraps_negative :               (* 518446744073709551615- *)
  parse_prefix [53;49;56;52;52;54;55;52;52;48;55;51;55;48;57;53;53;49;54;49;53;45]%N = Err.
Proof. vm_compute. reflexivity. Qed.

Example C10_ex_negative_placeholder :
  recon_value [[91]; [1; 2; 3]]%N (SSeq [SBin true (Some (-5)); SMap true [SPhMap 0 (SMap true [SOther; SOther])]]) = Err
  /\ recon_value [[91]; [1; 2; 3]]%N (SSeq [SBin true (Some 0); SMap true [SPhMap 0 (SMap true [SOther; SOther])]])
     = Ok (VSeq [VBin [1;2;3]%N; VSeq [VBin [1;2;3]%N]]).
Proof. vm_compute. split; reflexivity. Qed.
