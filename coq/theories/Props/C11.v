(** C11 - Engine.IO framing round-trips and matches protocol v4 in every transport's form.
    This file holds statements only; every proof is `exact <lemma>`. *)
From SioV Require Import Eio.Base64 Eio.Codec Eio.Payload Eio.WTFrame.
From SioV Require Import Eio.Base64Proofs Eio.CodecProofs.
Local Open Scope N_scope.

(** base64 (the Go StdEncoding encoder and decoder written in Gallina): every byte string
    survives. *)
Theorem C11_b64_roundtrip : forall s, bytes_ok s = true -> b64_dec (b64_enc s) = Some s.
Proof. exact b64_roundtrip. Qed.

(** Text packets of every type survive, whatever their data, with or without binary support. *)
Theorem C11_packet_roundtrip_text : forall sb p,
  p_binary p = false -> p_type p <= type_max ->
  decode_packet false (encode_packet sb p) = Ok p.
Proof. exact packet_roundtrip_text. Qed.

(** Binary packets in a binary frame. *)
Theorem C11_packet_roundtrip_binary : forall p,
  p_binary p = true -> p_type p = type_message ->
  decode_packet true (encode_packet true p) = Ok p.
Proof. exact packet_roundtrip_binary. Qed.

(** Binary packets as 'b' + base64 in a text frame. *)
Theorem C11_packet_roundtrip_b64 : forall p,
  p_binary p = true -> p_type p = type_message -> bytes_ok (p_data p) = true ->
  decode_packet false (encode_packet false p) = Ok p.
Proof. exact packet_roundtrip_b64. Qed.

(** The advertised length (Packet.EncodedLen, used for frame headers and batching) is the number
    of bytes Encode writes. *)
Theorem C11_encoded_len_exact : forall sb p, zlen (encode_packet sb p) = encoded_len sb p.
Proof. exact encoded_len_exact. Qed.

(** Decoding arbitrary bytes never panics. *)
Theorem C11_decode_no_panic : forall bf data, decode_packet bf data <> Panic.
Proof. exact decode_no_panic. Qed.
