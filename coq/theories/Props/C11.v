(** C11 - Engine.IO framing round-trips and matches protocol v4 in every transport's form.
    This file holds statements only; every proof is `exact <lemma>`.

    Vocabulary: [bytes_ok] = every element is a byte; [packet_ok] = NewPacket's invariant (type
    0..6, binary only with MESSAGE) + data are bytes; a [stream] is a list of chunks (one Read
    never crosses a chunk border), [rd] = [None] for the client's plain reader, [Some l] for the
    server's limited reader with MaxBufferSize l (l <= 0: disabled); [next_packet] returns the
    result and the trace of Read sizes and allocations. *)
From SioV Require Import Eio.Base64 Eio.Codec Eio.Payload Eio.WTFrame.
From SioV Require Import Eio.Base64Proofs Eio.CodecProofs Eio.PayloadProofs Eio.WTFrameProofs Eio.CodecSpec.
Local Open Scope N_scope.

(** base64 (Go's StdEncoding encoder and decoder written in Gallina): every byte string survives. *)
Theorem C11_b64_roundtrip : forall s, bytes_ok s = true -> b64_dec (b64_enc s) = Some s.
Proof. exact b64_roundtrip. Qed.

(** Text packets of every type survive, whatever their data, with or without binary support. *)
Theorem C11_packet_roundtrip_text : forall sb p,
  p_binary p = false -> p_type p <= type_max ->
  decode_packet false (encode_packet sb p) = Ok p.
Proof. exact packet_roundtrip_text. Qed.

(** Binary packets in a binary frame. *)
Theorem C11_packet_roundtrip_binary : forall p,
  p_binary p = true -> p_type p = type_message ->
  decode_packet true (encode_packet true p) = Ok p.
Proof. exact packet_roundtrip_binary. Qed.

(** Binary packets as 'b' + base64 in a text frame. *)
Theorem C11_packet_roundtrip_b64 : forall p,
  p_binary p = true -> p_type p = type_message -> bytes_ok (p_data p) = true ->
  decode_packet false (encode_packet false p) = Ok p.
Proof. exact packet_roundtrip_b64. Qed.

(** Long-polling payloads: every non-empty list of packets whose text data are free of the
    record separator survives (binary data may contain anything: they travel as base64). *)
Theorem C11_payload_roundtrip : forall ps, ps <> [] ->
  (forall p, In p ps -> packet_ok p = true /\ (p_binary p = false -> ~ In delim (p_data p))) ->
  decode_payload (encode_payload ps) = Ok ps.
Proof. exact payload_roundtrip. Qed.

(** The empty list is written as the empty body, which does not decode: protocol v4 has no
    representation of "no packets" (a poll must never be answered with an empty batch). *)
Theorem C11_empty_payload_is_error : encode_payload [] = [] /\ decode_payload [] = Err.
Proof. exact empty_payload_is_error. Qed.

(** The advertised lengths are the real ones: Packet.EncodedLen (frame headers, batching) and
    EncodedPayloadsLen (Content-Length) equal the number of bytes written. *)
Theorem C11_encoded_len_exact : forall sb p, zlen (encode_packet sb p) = encoded_len sb p.
Proof. exact encoded_len_exact. Qed.

Theorem C11_payload_len_exact : forall ps, zlen (encode_payload ps) = payload_len ps.
Proof. exact payload_len_exact. Qed.

(** WebTransport: a frame of any length below 2^63 is read back as the packet that was sent and
    leaves the rest of the stream untouched - for every way the stream may be cut into reads,
    for the client's reader and for the server's limited reader whenever the limit admits the
    frame. *)
Theorem C11_wt_roundtrip : forall r p s rest,
  packet_ok p = true -> (encoded_len true p <= Z.of_N max_int)%Z ->
  concat s = wt_send p ++ rest ->
  exceeds r (Z.to_N (encoded_len true p)) = false ->
  exists s' t, next_packet r s = (Ok (p, s'), t) /\ concat s' = rest.
Proof. exact wt_roundtrip. Qed.

(** ... and a frame longer than the configured limit is refused. *)
Theorem C11_wt_limit_enforced : forall r p s rest,
  (encoded_len true p <= Z.of_N max_int)%Z ->
  concat s = wt_send p ++ rest ->
  exceeds r (Z.to_N (encoded_len true p)) = true ->
  fst (next_packet r s) = Err.
Proof. exact wt_limit_enforced. Qed.

(** Which length prefix is written for which length (boundaries 125/126 and 65535/65536). *)
Theorem C11_wt_prefix_forms : forall (n : N) (bin : bool),
  let flag := if bin then 128 else 0 in
  (n < 126 -> wt_header n bin = [n + flag])
  /\ (126 <= n < 65536 -> wt_header n bin = [126 + flag; n / 256; n mod 256])
  /\ (65536 <= n -> wt_header n bin = (127 + flag) :: be_bytes 8 n /\ nlen (wt_header n bin) = 9).
Proof. exact wt_prefix_forms. Qed.

(** Decoding arbitrary bytes never panics: single frames, payload bodies, WebTransport streams
    (any chunking, any limit). *)
Theorem C11_decode_no_panic : forall bf data, decode_packet bf data <> Panic.
Proof. exact decode_no_panic. Qed.

Theorem C11_decode_payload_no_panic : forall buf, decode_payload buf <> Panic.
Proof. exact decode_payload_no_panic. Qed.

Theorem C11_wt_no_panic : forall r s, fst (next_packet r s) <> Panic.
Proof. exact wt_no_panic. Qed.

(** A frame header never makes the reader allocate beyond the configured limit: every buffer
    allocated while reading a frame from any stream is within MaxBufferSize when one is set, and
    - limit or not - is at most 64 KiB or twice the number of bytes the stream really holds. *)
Theorem C11_wt_alloc_bounded : forall r s,
  Forall (fun a =>
            (forall l, r = Some l -> (0 < l)%Z -> (Z.of_N a <= l)%Z)
            /\ (a <= max_prealloc \/ a <= 2 * nlen (concat s)))
         (allocs_of (snd (next_packet r s))).
Proof. exact wt_alloc_bounded. Qed.

(** The bytes are those of Engine.IO protocol v4 (CodecSpec.v: the wire format written down from
    the protocol document and RFC 4648, independently of the encoder). *)
Theorem C11_wire_is_v4 :
  (forall sb p, packet_ok p = true -> encode_packet sb p = spec_packet sb p)
  /\ (forall ps, (forall p, In p ps -> packet_ok p = true) -> encode_payload ps = spec_payload ps)
  /\ (forall p, packet_ok p = true -> wt_send p = spec_frame p).
Proof. exact (conj packet_is_v4 (conj payload_is_v4 frame_is_v4)). Qed.

(** What decodes as a text packet has exactly one spelling. *)
Theorem C11_decode_text_canonical : forall data p,
  decode_packet false data = Ok p -> p_binary p = false -> encode_packet false p = data.
Proof. exact decode_text_canonical. Qed.

(** ** Examples from the protocol document (and non-vacuity of the hypotheses) *)
Definition hello := mkPacket false 4 (txt_hello).
Definition bin1234 := mkPacket true 4 [1; 2; 3; 4].

Example C11_ex_packet : encode_packet false hello = txt_4hello
  /\ encode_packet false bin1234 = txt_b64_1234
  /\ decode_packet false (txt_b64_1234) = Ok bin1234
  /\ decode_packet false (txt_2probe) = Ok (mkPacket false 2 (txt_probe)).
Proof. vm_compute. auto. Qed.

Example C11_ex_payload :
  encode_payload [hello; mkPacket false 2 []; mkPacket false 4 (txt_world)]
    = txt_4hello ++ 30 :: txt_2 ++ 30 :: txt_4world
  /\ encode_payload [hello; bin1234] = txt_4hello ++ 30 :: txt_b64_1234
  /\ decode_payload (txt_4hello ++ 30 :: txt_b64_1234) = Ok [hello; bin1234].
Proof. vm_compute. auto. Qed.

Example C11_ex_frames :
  wt_send hello = 6 :: txt_4hello
  /\ wt_send bin1234 = [132; 1; 2; 3; 4]
  /\ map (fun n => wt_header n false) [125; 126; 65535; 65536]
     = [[125]; [126; 0; 126]; [126; 255; 255]; [127; 0; 0; 0; 0; 0; 1; 0; 0]]
  /\ fst (next_packet (Some 4%Z) [[132; 1]; [2; 3; 4; 6]]) = Ok (bin1234, [[6]])
  /\ fst (next_packet (Some 3%Z) [[132; 1]; [2; 3; 4; 6]]) = Err
  /\ next_packet (Some 1000%Z) [[255; 0; 0; 0; 255; 0; 0; 0; 0; 1; 2]] = (Err, [EvRead 1; EvRead 8]).
Proof. vm_compute. auto 10. Qed.
