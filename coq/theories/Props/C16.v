(** C16 - The public API is safe under arbitrary concurrent use: no deadlock, no mutex left held.
    (Data-race freedom of accesses made without a mutex is NOT provable in this model; it is only
    explored by the race detector - see docs/C16.md.)
    This file holds statements only; every proof is `exact <lemma>`. *)
From Coq Require Import List NArith Bool.
Import ListNotations.
From SioV Require Import Sio.LockOrder Sio.LockOrderProofs Sio.LockOrderCheck.
Local Open Scope N_scope.

(** Any number of threads over any set of locks (mutexes, RWMutexes in either mode, Once bodies),
    each requesting only locks ranked strictly above everything it holds, under ANY lock
    implementation that grants a free lock: from every reachable state either every thread has
    finished or some thread can take a step.  No reachable state is a deadlock. *)
Theorem C16_rank_respecting_no_deadlock :
  forall (lock : Type) (lock_eqb : lock -> lock -> bool),
  (forall a b, lock_eqb a b = true <-> a = b) ->
  forall (grant : state lock -> lock -> mode -> bool) (rank : lock -> N),
  grants_free lock lock_eqb grant ->
  forall s0, initial lock lock_eqb rank s0 ->
  forall s, reachable lock lock_eqb grant s0 s ->
  all_done lock s = true \/ exists s', step lock lock_eqb grant s s'.
Proof. exact progress. Qed.

Theorem C16_no_reachable_deadlock :
  forall (lock : Type) (lock_eqb : lock -> lock -> bool),
  (forall a b, lock_eqb a b = true <-> a = b) ->
  forall (grant : state lock -> lock -> mode -> bool) (rank : lock -> N),
  grants_free lock lock_eqb grant ->
  forall s0, initial lock lock_eqb rank s0 ->
  forall s, reachable lock lock_eqb grant s0 s -> ~ deadlocked lock lock_eqb grant s.
Proof. exact no_deadlock. Qed.

(** No mutex is left held: in every reachable state a thread that has finished holds nothing. *)
Theorem C16_no_lock_leak :
  forall (lock : Type) (lock_eqb : lock -> lock -> bool),
  forall (grant : state lock -> lock -> mode -> bool) (rank : lock -> N),
  forall s0, initial lock lock_eqb rank s0 ->
  forall s t, reachable lock lock_eqb grant s0 s -> In t s -> prog t = [] -> held t = [].
Proof. exact no_lock_leak. Qed.

(** Operations issued from inside a handler: if the handler is entered with nothing held (which is
    what [check_user_outside] establishes for the regenerated table of call-user sites and what the
    tracer checks at every handler entry), splicing any rank-respecting sequence of operations in at
    that point yields a rank-respecting thread again - so the two theorems above cover programs
    that call the API from event, acknowledgement and lifecycle handlers. *)
Theorem C16_user_code_outside_locks :
  forall (lock : Type) (lock_eqb : lock -> lock -> bool) (rank : lock -> N) p1 p2 q,
  ranked lock lock_eqb rank [] (p1 ++ CallUser :: p2) = true ->
  user_outside lock lock_eqb [] (p1 ++ CallUser :: p2) = true ->
  run_held lock lock_eqb [] p1 = [] ->
  ranked lock lock_eqb rank [] q = true ->
  ranked lock lock_eqb rank [] (p1 ++ CallUser :: q ++ p2) = true.
Proof. exact ranked_splice. Qed.

(** The tie to the code: threads all of whose nested acquisitions are edges of a graph accepted
    by [check_ranked] (the graph regenerated from the source tree on every run, its acceptance
    re-proved by vm_compute in the generated LockFacts.v) cannot deadlock. *)
Theorem C16_checked_graph_no_deadlock :
  forall (f : facts) grant,
  check_ranked f = true ->
  grants_free ilock ilock_eqb grant ->
  forall s0, (forall t, In t s0 -> held t = [] /\ conforms (f_edges f) [] (prog t) = true) ->
  forall s, reachable ilock ilock_eqb grant s0 s ->
  all_done ilock s = true \/ exists s', step ilock ilock_eqb grant s s'.
Proof. exact graph_no_deadlock. Qed.

(** The hypothesis on the lock implementation is satisfiable: plain exclusive mutexes. *)
Theorem C16_exclusive_mutex_grants_free :
  forall (lock : Type) (eqb : lock -> lock -> bool), grants_free lock eqb (grant_excl lock eqb).
Proof. exact grant_excl_grants_free. Qed.

(** Non-vacuity: two threads taking A then B, and the inverted pair that the discipline rejects
    and that does deadlock. *)
Example C16_example_ranked :
  let rk := fun l : N => l in
  let t := [Acquire 1 Excl; Acquire 2 Shared; CallUser; Release 2; Release 1] in
  ranked N N.eqb rk [] t = true /\ user_outside N N.eqb [] t = false.
Proof. vm_compute. split; reflexivity. Qed.

Example C16_example_inverted_rejected :
  let rk := fun l : N => l in
  ranked N N.eqb rk [] [Acquire 2 Excl; Acquire 1 Excl; Release 1; Release 2] = false.
Proof. vm_compute. reflexivity. Qed.

Example C16_example_inverted_deadlocks :
  let ta := mkThread [1] [Acquire 2 Excl; Release 2; Release 1] in
  let tb := mkThread [2] [Acquire 1 Excl; Release 1; Release 2] in
  let s := [ta; tb] in
  all_done N s = false /\ existsb (can_step N N.eqb (grant_excl N N.eqb) s) s = false.
Proof. vm_compute. split; reflexivity. Qed.

(** A sync.Once re-entered from its own body (a handler run inside Do calling the same close path)
    is rejected by the discipline: same lock, rank not strictly above. *)
Example C16_example_once_reentry_rejected :
  ranked N N.eqb (fun l => l) [] [Acquire 5 Shared; Acquire 5 Shared; Release 5; Release 5] = false.
Proof. vm_compute. reflexivity. Qed.
