(** C01 - Every event emitted on a connected socket reaches the peer exactly once, intact.
    Statements only; every proof is [exact <lemma>].

    The composition theorems are stated for EVERY choice of components that satisfies the theorems
    of the component properties (section hypotheses below, each named after its provider); the
    [_inst] theorems at the end discharge the hypotheses for a concrete codec/framing, so they are
    satisfiable and the composition is not vacuous. *)
From Coq Require Import List Bool Arith Permutation NArith ZArith.
Import ListNotations.
From SioV Require Import Base.GoSem Eio.Packet Eio.Batcher.
From SioV Require Eio.Limits.
From SioV Require Import Base.Conc Sio.Pipeline.
From SioV Require Import Sio.HandlerStore.
From SioV Require Import Sio.Json Sio.Header Sio.Binary.
From SioV Require Sio.Codec Sio.DecodeProofs.
From SioV Require Import Sio.EndToEnd Sio.EndToEndInst Sio.EndToEndReal Sio.EndToEndSched Sio.EndToEndRegistry Sio.EndToEndBytes Sio.EndToEndFeeders Sio.EndToEndConnect.

Section C01.
  (** C09/C10: Socket.IO codec. One packet = header frame + attachments; an idle decoder fed the
      frames of [e] yields exactly [e] after the last frame, nothing before, and is idle again. *)
  Variables (name arg offset frame dstate : Type).
  Variable name_eqb : name -> name -> bool.
  Hypothesis name_eqb_eq : forall a b, name_eqb a b = true <-> a = b.
  Variable off_arg : offset -> arg.
  Variable enc : event name arg -> list frame.
  Variable d0 : dstate.
  Variable dec_step : dstate -> frame -> dstate * option (event name arg).
  Let feed := feed name arg frame dstate dec_step.
  Hypothesis C09_codec_roundtrip : forall e, feed d0 (enc e) = (d0, [e]).
  Hypothesis C09_codec_silent_prefix :
    forall e p s, enc e = p ++ s -> s <> [] -> snd (feed d0 p) = [].
  (** C11: Engine.IO framing of one transport send round-trips on well-formed message packets,
      and those are what the codec produces. *)
  Variable frame_ok : frame -> Prop.
  Hypothesis C09_enc_frames_ok : forall e, Forall frame_ok (enc e).
  Variable wunit : Type.
  Variable pack : list frame -> wunit.
  Variable unpack : wunit -> list frame.
  Hypothesis C11_framing_roundtrip : forall b, Forall frame_ok b -> unpack (pack b) = b.
  (** C13: the receiving transport's size decision per wire unit. *)
  Variable accepts : wunit -> bool.
  (** TCP / HTTP / websocket library: reliable FIFO per connection (assumed; tied by the live rig). *)
  Variable link : list wunit -> list wunit.
  Hypothesis link_fifo : forall us, link us = us.
  (** C18/C05: the registry returns exactly the handlers registered for the name, once each. *)
  Variable hs : list (handler name).
  Variable get_all : name -> list (handler name).
  Hypothesis C18_get_all : forall n, get_all n = filter (fun h => name_eqb (hname name h) n) hs.
  Hypothesis C18_registrations_distinct : NoDup (map (hid name) hs).

  Let wire := wire name arg offset off_arg frame enc.
  Let stamp := stamp name arg offset off_arg.
  Let parsed := parsed name arg frame dstate d0 dec_step wunit pack unpack accepts link.
  Let deliveries := deliveries name arg frame dstate d0 dec_step wunit pack unpack accepts link get_all.
  Let handed := handed arg.
  Let args_named := args_named name name_eqb arg.
  Let within_limits := within_limits frame wunit pack accepts.
  Let sig_matches := sig_matches name arg hs.
  Let handlers_ok := handlers_ok name hs.

  (** The property, for the code as repaired ([client_strips_offset = false]): for every
      configuration (recovery off/on, either direction), every number of emitters, every list of
      events per emitter, every interleaving [tr] of the emitters at packet granularity (C02's
      conclusion), every cutting [batches] of the frame stream into transport sends that the
      receiver accepts (C13), and handlers whose arity matches the events of their name:
      - the peer's parser finishes exactly the emitted packets in wire order, each emitter's in
        its own order;
      - every registered handler is handed exactly the argument lists emitted under its name,
        unchanged, in wire order; as a multiset: those the emitters sent under that name, once each;
      - every invocation is of a registered handler, with the arguments of an emitted event of the
        handler's own name (nothing altered, nothing to another name, nothing invented). *)
  Theorem C01_exactly_once_intact :
    forall (c : cfg) (ems : list (list (event name arg * offset))) tr batches,
      client_strips_offset c = false ->
      Interleave ems tr ->
      concat batches = wire c tr ->
      within_limits batches ->
      sig_matches (map fst (concat ems)) ->
      let got := deliveries c batches in
      (parsed batches = map (stamp c) (map snd tr) /\ forall i, proj i tr = nth i ems [])
      /\ (forall h, In h hs ->
            handed (hid name h) got = args_named (hname name h) (map fst (map snd tr))
            /\ Permutation (handed (hid name h) got)
                           (args_named (hname name h) (map fst (concat ems))))
      /\ (forall k a, In (k, a) got ->
            exists h e, In h hs /\ hid name h = k /\ In e (map fst (concat ems))
                        /\ hname name h = fst e /\ a = snd e).
  Proof.
    exact (fun c ems tr batches Hs Hil Hw Hl Hsig =>
      exactly_once_intact name name_eqb name_eqb_eq arg offset off_arg frame enc dstate d0 dec_step
        C09_codec_roundtrip frame_ok C09_enc_frames_ok wunit pack unpack C11_framing_roundtrip accepts link link_fifo hs get_all
        C18_get_all C18_registrations_distinct c ems tr batches Hil Hw Hl Hsig
        (handlers_ok_fixed name hs c Hs)).
  Qed.

  (** The same for the client as it was before the fix (it dropped a trailing string value as
      "the offset" whenever a private session id was known): the statement holds under the
      decidable side condition [handlers_ok] - no handler whose last parameter is a string while
      recovery is on and the direction is server -> client. *)
  Theorem C01_recovery_on_partial :
    forall (c : cfg) (ems : list (list (event name arg * offset))) tr batches,
      Interleave ems tr ->
      concat batches = wire c tr ->
      within_limits batches ->
      sig_matches (map fst (concat ems)) ->
      handlers_ok c = true ->
      let got := deliveries c batches in
      (parsed batches = map (stamp c) (map snd tr) /\ forall i, proj i tr = nth i ems [])
      /\ (forall h, In h hs ->
            handed (hid name h) got = args_named (hname name h) (map fst (map snd tr))
            /\ Permutation (handed (hid name h) got)
                           (args_named (hname name h) (map fst (concat ems))))
      /\ (forall k a, In (k, a) got ->
            exists h e, In h hs /\ hid name h = k /\ In e (map fst (concat ems))
                        /\ hname name h = fst e /\ a = snd e).
  Proof.
    exact (exactly_once_intact name name_eqb name_eqb_eq arg offset off_arg frame enc dstate d0 dec_step
        C09_codec_roundtrip frame_ok C09_enc_frames_ok wunit pack unpack C11_framing_roundtrip accepts link link_fifo hs get_all
        C18_get_all C18_registrations_distinct).
  Qed.

  (** The side condition is void off the finding class: recovery off, or client -> server. *)
  Theorem C01_side_condition_only_recovery_s2c :
    forall c, recovery c = false \/ s2c c = false -> handlers_ok c = true.
  Proof. exact (handlers_ok_other_configs name hs). Qed.

  (** ... and inside the class the old client starves the handler completely: whatever is
      emitted, in whatever order and batching, a handler with a trailing string parameter is never
      invoked (known finding recovery-on:trailing-string-arg of the code before the fix). *)
  Theorem C01_recovery_on_trailing_string_starves :
    forall (c : cfg) h batches,
      In h hs ->
      client_strips_offset c = true -> recovery c = true -> s2c c = true ->
      hlast_str name h = true ->
      handed (hid name h) (deliveries c batches) = [].
  Proof.
    exact (stripped_handler_starves name name_eqb arg frame dstate d0 dec_step wunit pack unpack
             accepts link hs get_all C18_get_all C18_registrations_distinct).
  Qed.

  (** Nothing truncated: if the connection is cut inside a packet, the complete packets before it
      are delivered and the partial one yields nothing. *)
  Theorem C01_no_truncated_delivery :
    forall evs e p s, enc e = p ++ s -> s <> [] -> snd (feed d0 (flat_map enc evs ++ p)) = evs.
  Proof.
    exact (no_truncated_delivery name arg frame enc dstate d0 dec_step
             C09_codec_roundtrip C09_codec_silent_prefix).
  Qed.

  (** Beyond the limit (the part of the property's quantifier outside [within_limits]): a send the
      receiver refuses closes the connection - the complete packets carried by the sends before it
      are delivered, a packet cut by the refusal yields nothing, nothing sent afterwards arrives. *)
  Theorem C01_rejected_send_closes_partial :
    forall evs1 p batches1 bad batches2,
      concat batches1 = flat_map enc evs1 ++ p ->
      (p = [] \/ exists e s, enc e = p ++ s /\ s <> []) ->
      Forall (fun b => accepts (pack b) = true) batches1 ->
      accepts (pack bad) = false ->
      parsed (batches1 ++ bad :: batches2) = evs1.
  Proof.
    exact (rejected_send_cuts name arg frame enc dstate d0 dec_step C09_codec_roundtrip
             C09_codec_silent_prefix frame_ok C09_enc_frames_ok wunit pack unpack
             C11_framing_roundtrip accepts link link_fifo).
  Qed.
End C01.

(** * Instance: the hypotheses are satisfiable, the composition is not vacuous. *)

(** All section hypotheses discharged for the concrete packet codec of Sio/EndToEndInst.v
    (header frame with numbered placeholders + one frame per binary leaf, decoder state machine
    with a reconstructor), identity framing with a byte limit, identity link, filter registry. *)
Theorem C01_exactly_once_intact_inst :
  forall (max : N) (hs : list (handler iname)), NoDup (map (hid iname) hs) ->
  forall (c : cfg) (ems : list (list (event iname iarg * ioffset))) tr batches,
    client_strips_offset c = false ->
    Interleave ems tr ->
    concat batches = wire iname iarg ioffset ioff_arg iframe ienc c tr ->
    within_limits iframe (list iframe) (fun b => b) (iaccepts max) batches ->
    sig_matches iname iarg hs (map fst (concat ems)) ->
    forall h, In h hs ->
      Permutation (handed iarg (hid iname h) (ideliveries max hs c batches))
                  (args_named iname iname_eqb iarg (hname iname h) (map fst (concat ems))).
Proof. exact inst_exactly_once. Qed.

(** Refutation witness for the code before the fix (replayed on the real client by the harness:
    recovery on, server emits "str"("hi"), client handler [func(string)] is never called). *)
Theorem C01_recovery_on_trailing_string_refuted :
  exists (c : cfg) (hs : list (handler iname)) ems tr batches h,
    NoDup (map (hid iname) hs) /\ In h hs /\
    Interleave ems tr /\
    concat batches = wire iname iarg ioffset ioff_arg iframe ienc c tr /\
    within_limits iframe (list iframe) (fun b => b) (iaccepts 1000000) batches /\
    sig_matches iname iarg hs (map fst (concat ems)) /\
    handed iarg (hid iname h) (ideliveries 1000000 hs c batches) = [] /\
    args_named iname iname_eqb iarg (hname iname h) (map fst (concat ems)) <> [].
Proof. exact inst_refuted. Qed.

(** Non-vacuity of the repaired behaviour on the same witness: the handler gets the string. *)
Example C01_recovery_on_fixed_example :
  handed iarg 0 (ideliveries 1000000 witness_hs (mkCfg true true false) witness_batches)
  = [[IStr [104; 105]%N]].
Proof. exact inst_fixed_example. Qed.

(** * Over the real transport models: websocket framing of Eio/Codec.v (round trip = C11's
    theorems, discharged), sends cut by the real batcher of Eio/Batcher.v (sequence kept = C13's
    theorem, discharged).  The Socket.IO codec stays a hypothesis (C09/C10). *)
Section C01_real_transport.
  Variables (name arg offset dstate : Type).
  Variable name_eqb : name -> name -> bool.
  Hypothesis name_eqb_eq : forall a b, name_eqb a b = true <-> a = b.
  Variable off_arg : offset -> arg.
  Variable enc : event name arg -> list packet.
  Variable d0 : dstate.
  Variable dec_step : dstate -> packet -> dstate * option (event name arg).
  Hypothesis C09_codec_roundtrip :
    forall e, feed name arg packet dstate dec_step d0 (enc e) = (d0, [e]).
  Hypothesis C09_frames_are_message_packets : forall e, Forall msg_ok (enc e).
  Variable hs : list (handler name).
  Hypothesis C18_registrations_distinct : NoDup (map (hid name) hs).

  Theorem C01_exactly_once_intact_real_websocket :
    forall (c : cfg) (ems : list (list (event name arg * offset))) tr (maxp rmax : Z) polling,
      client_strips_offset c = false ->
      Interleave ems tr ->
      let frames := wire name arg offset off_arg packet enc c tr in
      let batches := write_writable maxp polling frames in
      within_limits packet (list (bool * bytes)) ws_pack (ws_accepts rmax) batches ->
      sig_matches name arg hs (map fst (concat ems)) ->
      forall h, In h hs ->
        Permutation
          (handed arg (hid name h)
             (real_deliveries name arg dstate name_eqb d0 dec_step hs rmax c batches))
          (args_named name name_eqb arg (hname name h) (map fst (concat ems))).
  Proof.
    exact (real_ws_exactly_once name arg offset dstate name_eqb name_eqb_eq off_arg enc d0 dec_step
             C09_codec_roundtrip C09_frames_are_message_packets hs C18_registrations_distinct).
  Qed.

  (** "Any size up to the limit announced in the handshake" (websocket, both directions): the
      receiver's decision is C13's model of the code ([Limits.decide], server reads with
      MaxBufferSize, client with the announced maxPayload - after fix b9ea39c); if every frame of
      every event fits the announced limit, every send cut by the real batcher is accepted and
      every handler gets the events of its name exactly once, intact. *)
  Theorem C01_announced_limit_websocket :
    forall (lc : Limits.cfg) (d : Limits.direction) (c : cfg)
           (ems : list (list (event name arg * offset))) tr (maxp : Z) polling,
      client_strips_offset c = false ->
      Interleave ems tr ->
      let frames := wire name arg offset off_arg packet enc c tr in
      let batches := write_writable maxp polling frames in
      frames_within_announced lc frames ->
      sig_matches name arg hs (map fst (concat ems)) ->
      forall h, In h hs ->
        Permutation
          (handed arg (hid name h)
             (real_deliveries_c13 name arg dstate name_eqb d0 dec_step hs lc d c batches))
          (args_named name name_eqb arg (hname name h) (map fst (concat ems))).
  Proof.
    exact (real_ws_announced_limit name arg offset dstate name_eqb name_eqb_eq off_arg enc d0 dec_step
             C09_codec_roundtrip C09_frames_are_message_packets hs C18_registrations_distinct).
  Qed.

  (** Long-polling: real payload framing (C11_payload_roundtrip: several packets per HTTP body,
      'b' + base64 for binary; discharged), sends cut by the real batcher (C13, discharged).
      C11's precondition on the frames is a hypothesis on the codec: bytes, and no raw record
      separator 0x1e inside a text frame. *)
  Hypothesis C09_frames_fit_payload : forall e, Forall poll_frame_ok (enc e).

  Theorem C01_exactly_once_intact_real_polling :
    forall (c : cfg) (ems : list (list (event name arg * offset))) tr (maxp : Z) polling
           (accepts : bytes -> bool),
      client_strips_offset c = false ->
      Interleave ems tr ->
      let frames := wire name arg offset off_arg packet enc c tr in
      let batches := write_writable maxp polling frames in
      within_limits packet bytes poll_pack accepts batches ->
      sig_matches name arg hs (map fst (concat ems)) ->
      forall h, In h hs ->
        Permutation
          (handed arg (hid name h)
             (real_poll_deliveries name arg dstate name_eqb d0 dec_step hs accepts c batches))
          (args_named name name_eqb arg (hname name h) (map fst (concat ems))).
  Proof.
    exact (real_polling_exactly_once name arg offset dstate name_eqb name_eqb_eq off_arg enc d0 dec_step
             C09_codec_roundtrip hs C18_registrations_distinct C09_frames_fit_payload).
  Qed.
End C01_real_transport.

(** * Over ALL SCHEDULES of C02's concurrent model (Sio/Pipeline.v): emitter goroutines, packet
    queue, drainer, transport (websocket / polling either side, any sequence-keeping splitter),
    control packets, the peer's parser, one dispatch goroutine per finished packet entering the
    handlers in ANY order.  The emitters' programs are the encodings of the stamped events; the
    codec is a packet-level hypothesis (C09).  In every reachable quiescent state the parser has
    not failed, is idle, has finished exactly the emitted events in an order that is an
    interleaving ([pops], C02) of the per-emitter sequences, and every registered handler has been
    handed, as a multiset, exactly the argument lists emitted under its name. *)
Section C01_all_schedules.
  Variables (name arg offset data : Type).
  Variable name_eqb : name -> name -> bool.
  Hypothesis name_eqb_eq : forall a b, name_eqb a b = true <-> a = b.
  Variable off_arg : offset -> arg.
  Variable hs : list (handler name).
  Variable get_all : name -> list (handler name).
  Hypothesis C18_get_all : forall n, get_all n = filter (fun h => name_eqb (hname name h) n) hs.
  Hypothesis C18_registrations_distinct : NoDup (map (hid name) hs).
  Variable declared : data -> option nat.
  Variable max_atts : nat.
  Variable split : list (frame data) -> list (list (frame data)).
  Hypothesis C13_split_keeps_sequence : forall b, concat (split b) = b.
  Variable encode_sp : event name arg -> spacket data.
  Variable decode_sp : spacket data -> option (event name arg).
  Hypothesis C09_packet_roundtrip : forall e, decode_sp (encode_sp e) = Some e.
  Hypothesis C09_encode_wf : forall e, wf_packet declared max_atts (encode_sp e).

  Theorem C01_all_schedules_exactly_once :
    forall (tr : transport) (c : cfg) (ems : list (list (event name arg * offset))) (s : state data),
      client_strips_offset c = false ->
      sig_matches name arg hs (map fst (concat ems)) ->
      reachable_from declared max_atts split tr
        (programs name arg offset off_arg data encode_sp c ems) s ->
      quiescent_state s ->
      st_rerr s = false /\ st_parser s = None /\
      (exists order evs rem,
          pops ems order = Some (evs, rem) /\ all_nil rem = true /\
          decoded name arg data decode_sp (st_finished s) = map (stamp name arg offset off_arg c) evs) /\
      forall h, In h hs ->
        Permutation
          (handed arg (hid name h) (sched_deliveries name arg get_all data decode_sp c s))
          (args_named name name_eqb arg (hname name h) (map fst (concat ems))).
  Proof.
    exact (all_schedules_exactly_once name arg offset name_eqb name_eqb_eq off_arg hs get_all
             C18_get_all C18_registrations_distinct data declared max_atts split
             C13_split_keeps_sequence encode_sp decode_sp C09_packet_roundtrip C09_encode_wf).
  Qed.
End C01_all_schedules.

(** * The registry hypothesis ([C18_get_all] above) holds for C18's model of store.go's event
    registry (Sio/HandlerStore.v [estep]/[erun]): after one OnEvent per entry of the table, an
    occurrence of [n] runs exactly the entries registered for [n], once each, in order. *)
Theorem C01_registry_hypothesis_discharged :
  forall (same : handler N -> handler N -> bool) (hs : list (handler N)) (n : N),
    store_get_all same hs n = filter (fun h => N.eqb (hname N h) n) hs.
Proof. exact store_get_all_spec. Qed.

(** * Byte level: the real Socket.IO codec (C09: [encode], [add]/[feed], [decode] of Sio/Codec.v)
    composed with the real Engine.IO framings (C11) - no codec hypothesis left.

    An emitted item is a Go value [em_x] encoded by [Sio.Codec.encode] under C09's side conditions
    ([emitted_ok]: well-formed value tree, type EVENT, at least one binary leaf, shape
    [name :: args], header accepted by [header_ok]); a handler is (name, parameter types) and is
    handed what [Sio.Codec.decode] returns for its own types.  COVERED: EVENT packets carrying
    binary (BINARY_EVENT on the wire), any depth, any namespace/ack id, handler types fitting the
    arguments ([args_ok], as many parameters as arguments).  NOT covered (still the abstract
    hypothesis of the theorems above): EVENT packets without a binary leaf (no C09 theorem yet) and
    recovery-stamped events received by a handler without a parameter for the offset.
    Assumptions left: H1-H3 on the JSON library (below: only H2 for the jprint/jparse instance)
    and the reliability of the link. *)
Section C01_bytes.
  Variable marshal : jv -> bytes.
  Variable unmarshal : bytes -> option jv.
  Variable max_att : Z.
  Hypothesis JSON_H1 : forall j, unmarshal (marshal j) = Some j.
  Hypothesis JSON_H2 : forall name rest, exists tmp,
      prescan (marshal (JArr (JStr name :: rest))) = Ok tmp /\ unmarshal tmp = Some (JArr [JStr name]).
  Hypothesis JSON_H3 : forall l, exists r, marshal (JArr l) = 91%N :: r.

  (** websocket *)
  Theorem C01_exactly_once_intact_real :
    forall (ems : list (list emitted)) (tr : list (nat * emitted)) batches rmax,
      Interleave ems tr ->
      Forall (fun it => emitted_ok marshal unmarshal max_att it /\ typable it) (concat ems) ->
      concat batches = flat_map (fun p => raw_frames (raw_of (snd p))) tr ->
      Forall (fun b => ws_accepts rmax (ws_pack b) = true) batches ->
      (ws_parsed unmarshal rmax batches = map raw_of (map snd tr)
       /\ forall i, proj i tr = nth i ems [])
      /\ forall h,
          (forall it, In it (concat ems) -> em_name it = bh_name h ->
                      Sio.DecodeProofs.args_ok (bh_tys h) (em_args it) = true) ->
          handed_b marshal unmarshal h (ws_parsed unmarshal rmax batches) = expected_b h (map snd tr)
          /\ Permutation (handed_b marshal unmarshal h (ws_parsed unmarshal rmax batches))
                         (expected_b h (concat ems)).
  Proof. exact (real_websocket_bytes marshal unmarshal max_att JSON_H1 JSON_H2 JSON_H3). Qed.

  (** long-polling (payload of several packets, base64 for the attachments) *)
  Theorem C01_exactly_once_intact_real_polling_bytes :
    forall (ems : list (list emitted)) (tr : list (nat * emitted)) batches accepts,
      Interleave ems tr ->
      Forall (fun it => emitted_ok marshal unmarshal max_att it /\ typable it) (concat ems) ->
      concat batches = flat_map (fun p => raw_frames (raw_of (snd p))) tr ->
      Forall poll_frame_ok (flat_map (fun p => raw_frames (raw_of (snd p))) tr) ->
      Forall (fun b => accepts (poll_pack b) = true) batches ->
      (poll_parsed unmarshal accepts batches = map raw_of (map snd tr)
       /\ forall i, proj i tr = nth i ems [])
      /\ forall h,
          (forall it, In it (concat ems) -> em_name it = bh_name h ->
                      Sio.DecodeProofs.args_ok (bh_tys h) (em_args it) = true) ->
          handed_b marshal unmarshal h (poll_parsed unmarshal accepts batches) = expected_b h (map snd tr)
          /\ Permutation (handed_b marshal unmarshal h (poll_parsed unmarshal accepts batches))
                         (expected_b h (concat ems)).
  Proof. exact (real_polling_bytes marshal unmarshal max_att JSON_H1 JSON_H2 JSON_H3). Qed.
End C01_bytes.

(** The instance for Go's encoding/json as modelled by jprint/jparse: H1 and H3 are C09's theorems
    (discharged); H2 (pre-scan of the event name) is the single remaining JSON hypothesis. *)
Theorem C01_exactly_once_intact_real_go :
  forall (max_att : Z),
    (forall name rest, exists tmp,
        prescan (jprint (JArr (JStr name :: rest))) = Ok tmp /\ jparse tmp = Some (JArr [JStr name])) ->
    forall (ems : list (list emitted)) (tr : list (nat * emitted)) batches rmax,
      Interleave ems tr ->
      Forall (fun it => emitted_ok jprint jparse max_att it /\ typable it) (concat ems) ->
      concat batches = flat_map (fun p => raw_frames (raw_of (snd p))) tr ->
      Forall (fun b => ws_accepts rmax (ws_pack b) = true) batches ->
      forall h,
        (forall it, In it (concat ems) -> em_name it = bh_name h ->
                    Sio.DecodeProofs.args_ok (bh_tys h) (em_args it) = true) ->
        Permutation (handed_b jprint jparse h (ws_parsed jparse rmax batches))
                    (expected_b h (concat ems)).
Proof.
  exact (fun max_att H2 ems tr batches rmax Hil Hok Hw Hl h Hsig =>
           proj2 (proj2 (real_websocket_go max_att H2 ems tr batches rmax Hil Hok Hw Hl) h Hsig)).
Qed.

(** Non-vacuity of the byte-level theorems: Emit("e", Binary{7,8}) satisfies the side conditions
    and a handler func(sio.Binary) registered for "e" is handed exactly those two bytes. *)
Example C01_bytes_side_conditions_satisfiable :
  (emitted_ok jprint jparse 0 ex_item /\ typable ex_item)
  /\ handed_b jprint jparse (mkBHandler [101%N] [TBin]) [raw_of ex_item] = [[BBin [7%N; 8%N]]].
Proof. exact (conj ex_item_ok ex_item_handed). Qed.

(** * Several transports feeding one parser (the upgrade window): the assumption of the
    single-link theorems made explicit.  The parser consumes the deliveries (one OnPacket call of
    one transport = one delivery, fed under parserMu as a whole) of all feeders in the order they
    win the mutex.  IF every delivery consists of whole packets, then for any number of feeders
    and any merge at delivery granularity the parser finishes exactly the carried events, in
    merge order, every feeder's in its own order - nothing lost, duplicated, altered. *)
Section C01_feeders.
  Variables (name arg frame dstate : Type).
  Variable enc : event name arg -> list frame.
  Variable d0 : dstate.
  Variable dec_step : dstate -> frame -> dstate * option (event name arg).
  Hypothesis C09_codec_roundtrip :
    forall e, feed name arg frame dstate dec_step d0 (enc e) = (d0, [e]).

  Theorem C01_feeders_exactly_once_partial :
    forall (feeders : list (list (list (event name arg)))) (tr : list (nat * list (event name arg))),
      Interleave feeders tr ->
      let got := parse_deliveries name arg frame dstate d0 dec_step
                   (map (fun p => delivery_of name arg frame enc (snd p)) tr) in
      got = concat (map snd tr)
      /\ (forall i, proj i tr = nth i feeders [])
      /\ Permutation got (concat (concat feeders)).
  Proof. exact (feeders_exactly_once name arg frame dstate enc d0 dec_step C09_codec_roundtrip). Qed.

  (** The repaired client (63b366a): the old transport delivers nothing after the swap
      (C07_no_poll_delivery_after_swap, Props/C07.v), so the feeders are sequential; then whatever
      the cutting of the new transport's frames into deliveries (one frame per websocket message,
      attachments included), the parser finishes exactly the old transport's events followed by
      the new transport's. *)
  Theorem C01_feeders_sequential_exactly_once :
    forall (evs_old evs_new : list (event name arg)) (old_ds new_ds : list (list frame)),
      concat old_ds = flat_map enc evs_old ->
      concat new_ds = flat_map enc evs_new ->
      parse_deliveries name arg frame dstate d0 dec_step (old_ds ++ new_ds) = evs_old ++ evs_new.
  Proof. exact (feeders_sequential_exactly_once name arg frame dstate enc d0 dec_step C09_codec_roundtrip). Qed.
End C01_feeders.

(** Outside the side condition, on C02's model of Parser.Add (it takes whatever comes next as the
    attachment it waits for, like the code):
    (1) deliveries not atomic (mutex per frame - a class of breaking changes): a poll response
        [header 11, attachment 7] and a websocket message [header 20] merged as 11, 20, 7 give an
        altered packet 11[20], lose 20, and then fail on the orphan attachment. *)
Theorem C01_feeders_frame_granularity_refuted :
  exists (poll ws : list nat),
    @parse_from nat wdeclared 0 None (poll ++ ws) = Ok (None, [mkSP 11 [7]; mkSP 20 []]) /\
    @parse_from nat wdeclared 0 None (ws ++ poll) = Ok (None, [mkSP 20 []; mkSP 11 [7]]) /\
    @parse_from nat wdeclared 0 None [11; 20] = Ok (None, [mkSP 11 [20]]) /\
    @parse_from nat wdeclared 0 None [11; 20; 7] = Err.
Proof. exact feeders_frame_granularity_refuted. Qed.

(** (2) The code BEFORE fix 63b366a (finding upgrade-window:late-poll-vs-websocket-attachments;
        since the fix: C01_feeders_sequential_exactly_once): deliveries
        are atomic, but a websocket delivery is one frame; a late poll response that wins the mutex
        between the websocket header 31 and its attachment 8 is taken for the attachment. *)
Theorem C01_feeders_websocket_attachments_refuted :
  exists (ws1 ws2 poll : list nat),
    length ws1 = 1 /\ length ws2 = 1 /\
    @parse_from nat wdeclared 0 None (poll ++ ws1 ++ ws2) = Ok (None, [mkSP 11 [7]; mkSP 31 [8]]) /\
    @parse_from nat wdeclared 0 None (ws1 ++ ws2 ++ poll) = Ok (None, [mkSP 31 [8]; mkSP 11 [7]]) /\
    @parse_from nat wdeclared 0 None (ws1 ++ [11]) = Ok (None, [mkSP 31 [11]]) /\
    @parse_from nat wdeclared 0 None (ws1 ++ poll ++ ws2) = Err.
Proof. exact feeders_websocket_attachments_refuted. Qed.

(** * Several handlers of one name: [decode] is called once PER HANDLER on the same finished packet
    (a closure over the reconstructor), each time with that handler's own parameter types.  With the
    reconstructor's buffers threaded through the calls as the code does ([dec_keep]: reconstruct
    never writes [r.buffers]) every handler - whatever its position and whatever the types of the
    handlers before it - is handed the decode of the same packet, so the per-handler statements
    above ([handed_b], one handler at a time) hold for all registrations at once. *)
Theorem C01_dispatch_every_handler_same_packet :
  forall (marshal : jv -> bytes) (unmarshal : bytes -> option jv) (hdr : header)
         (bufs : list bytes) (hs : list (list ty)),
    dispatch_all (dec_keep marshal unmarshal hdr) bufs hs
    = map (Sio.Codec.decode marshal unmarshal hdr bufs) hs.
Proof. exact dispatch_keep_independent. Qed.

(** A reconstructor that releases the attachments after the first successful decode (a class of
    breaking change: mutant ind2) is refuted: Emit("e", Binary{7,8}) with two handlers
    [func(Binary)] - the first gets the two bytes, the second the placeholder text, without error. *)
Theorem C01_dispatch_releasing_decode_refuted :
  let r := raw_of ex_item in
  dispatch_all (dec_keep jprint jparse (fst (fst r))) (snd r) [[TBin]; [TBin]]
    = [Ok [BBin [7%N; 8%N]]; Ok [BBin [7%N; 8%N]]]
  /\ exists other,
       dispatch_all (dec_release jprint jparse (fst (fst r))) (snd r) [[TBin]; [TBin]]
         = [Ok [BBin [7%N; 8%N]]; other]
       /\ other <> Ok [BBin [7%N; 8%N]].
Proof. exact dispatch_release_refuted. Qed.

(** * The client's receive buffer around the CONNECT reply (onEvent / onConnect / emitBuffered;
    model Sio/EndToEndConnect.v): events that reach a socket that is not connected yet are parked
    and replayed - handler after handler, user code of arbitrary duration - when the reply is
    processed, while further events keep arriving.  For the code as it is (state = Connected first,
    then the replay): whatever arrives before ([a0]), between the two control steps ([a1]), at any
    point of the replay ([segs], [tl]) and after it ([a3]) is handed over exactly once, the parked
    events in their order, and nothing stays parked. *)
Theorem C01_connect_window_exactly_once :
  forall (ev : Type) (a0 a1 : list ev) (segs : list (list ev)) (tl a3 : list ev),
    length segs = length a0 ->
    let s := exec ev (init ev) (as_coded ev a0 a1 segs tl a3) in
    buf ev s = [] /\ blocked ev s = [] /\ snap ev s = None /\
    log ev s = a1 ++ weave ev segs a0 ++ tl ++ a3 /\
    Permutation (log ev s) (a0 ++ a1 ++ concat segs ++ tl ++ a3).
Proof. exact connect_window_exactly_once. Qed.

(** The other order of the two control steps ("flush what was buffered, then mark connected" - a
    class of breaking change, mutant ind3): everything that arrives during the replay and until the
    state changes ends up parked after the buffer was cleared and is never read again. *)
Theorem C01_connect_window_flush_first_strands :
  forall (ev : Type) (a0 : list ev) (segs : list (list ev)) (tl a2 a3 : list ev),
    length segs = length a0 ->
    let s := exec ev (init ev) (flush_first ev a0 segs tl a2 a3) in
    log ev s = a0 ++ a3 /\ buf ev s = concat segs ++ tl ++ a2.
Proof. exact connect_window_flush_first_strands. Qed.

Theorem C01_connect_window_flush_first_refuted :
  exists (a0 : list nat) segs tl a2 a3,
    length segs = length a0 /\
    ~ Permutation (log nat (exec nat (init nat) (flush_first nat a0 segs tl a2 a3)))
                  (a0 ++ concat segs ++ tl ++ a2 ++ a3).
Proof. exact flush_first_refuted. Qed.
