(** C01 - Every event emitted on a connected socket reaches the peer exactly once, intact.
    Statements only; every proof is [exact <lemma>].

    The composition theorems are stated for EVERY choice of components that satisfies the theorems
    of the component properties (section hypotheses below, each named after its provider); the
    [_inst] theorems at the end discharge the hypotheses for a concrete codec/framing, so they are
    satisfiable and the composition is not vacuous. *)
From Coq Require Import List Bool Arith Permutation NArith.
Import ListNotations.
From SioV Require Import Sio.EndToEnd Sio.EndToEndInst.

Section C01.
  (** C09/C10: Socket.IO codec. One packet = header frame + attachments; an idle decoder fed the
      frames of [e] yields exactly [e] after the last frame, nothing before, and is idle again. *)
  Variables (name arg offset frame dstate : Type).
  Variable name_eqb : name -> name -> bool.
  Hypothesis name_eqb_eq : forall a b, name_eqb a b = true <-> a = b.
  Variable off_arg : offset -> arg.
  Variable enc : event name arg -> list frame.
  Variable d0 : dstate.
  Variable dec_step : dstate -> frame -> dstate * option (event name arg).
  Let feed := feed name arg frame dstate dec_step.
  Hypothesis C09_codec_roundtrip : forall e, feed d0 (enc e) = (d0, [e]).
  Hypothesis C09_codec_silent_prefix :
    forall e p s, enc e = p ++ s -> s <> [] -> snd (feed d0 p) = [].
  (** C11: Engine.IO framing of one transport send round-trips. *)
  Variable wunit : Type.
  Variable pack : list frame -> wunit.
  Variable unpack : wunit -> list frame.
  Hypothesis C11_framing_roundtrip : forall b, unpack (pack b) = b.
  (** C13: the receiving transport's size decision per wire unit. *)
  Variable accepts : wunit -> bool.
  (** TCP / HTTP / websocket library: reliable FIFO per connection (assumed; tied by the live rig). *)
  Variable link : list wunit -> list wunit.
  Hypothesis link_fifo : forall us, link us = us.
  (** C18/C05: the registry returns exactly the handlers registered for the name, once each. *)
  Variable hs : list (handler name).
  Variable get_all : name -> list (handler name).
  Hypothesis C18_get_all : forall n, get_all n = filter (fun h => name_eqb (hname name h) n) hs.
  Hypothesis C18_registrations_distinct : NoDup (map (hid name) hs).

  Let wire := wire name arg offset off_arg frame enc.
  Let stamp := stamp name arg offset off_arg.
  Let parsed := parsed name arg frame dstate d0 dec_step wunit pack unpack accepts link.
  Let deliveries := deliveries name arg frame dstate d0 dec_step wunit pack unpack accepts link get_all.
  Let handed := handed arg.
  Let args_named := args_named name name_eqb arg.
  Let within_limits := within_limits frame wunit pack accepts.
  Let sig_matches := sig_matches name arg hs.
  Let handlers_ok := handlers_ok name hs.

  (** The property, for the code as repaired ([client_strips_offset = false]): for every
      configuration (recovery off/on, either direction), every number of emitters, every list of
      events per emitter, every interleaving [tr] of the emitters at packet granularity (C02's
      conclusion), every cutting [batches] of the frame stream into transport sends that the
      receiver accepts (C13), and handlers whose arity matches the events of their name:
      - the peer's parser finishes exactly the emitted packets in wire order, each emitter's in
        its own order;
      - every registered handler is handed exactly the argument lists emitted under its name,
        unchanged, in wire order; as a multiset: those the emitters sent under that name, once each;
      - every invocation is of a registered handler, with the arguments of an emitted event of the
        handler's own name (nothing altered, nothing to another name, nothing invented). *)
  Theorem C01_exactly_once_intact :
    forall (c : cfg) (ems : list (list (event name arg * offset))) tr batches,
      client_strips_offset c = false ->
      Interleave ems tr ->
      concat batches = wire c tr ->
      within_limits batches ->
      sig_matches (map fst (concat ems)) ->
      let got := deliveries c batches in
      (parsed batches = map (stamp c) (map snd tr) /\ forall i, proj i tr = nth i ems [])
      /\ (forall h, In h hs ->
            handed (hid name h) got = args_named (hname name h) (map fst (map snd tr))
            /\ Permutation (handed (hid name h) got)
                           (args_named (hname name h) (map fst (concat ems))))
      /\ (forall k a, In (k, a) got ->
            exists h e, In h hs /\ hid name h = k /\ In e (map fst (concat ems))
                        /\ hname name h = fst e /\ a = snd e).
  Proof.
    exact (fun c ems tr batches Hs Hil Hw Hl Hsig =>
      exactly_once_intact name name_eqb name_eqb_eq arg offset off_arg frame enc dstate d0 dec_step
        C09_codec_roundtrip wunit pack unpack C11_framing_roundtrip accepts link link_fifo hs get_all
        C18_get_all C18_registrations_distinct c ems tr batches Hil Hw Hl Hsig
        (handlers_ok_fixed name hs c Hs)).
  Qed.

  (** The same for the client as it was before the fix (it dropped a trailing string value as
      "the offset" whenever a private session id was known): the statement holds under the
      decidable side condition [handlers_ok] - no handler whose last parameter is a string while
      recovery is on and the direction is server -> client. *)
  Theorem C01_recovery_on_partial :
    forall (c : cfg) (ems : list (list (event name arg * offset))) tr batches,
      Interleave ems tr ->
      concat batches = wire c tr ->
      within_limits batches ->
      sig_matches (map fst (concat ems)) ->
      handlers_ok c = true ->
      let got := deliveries c batches in
      (parsed batches = map (stamp c) (map snd tr) /\ forall i, proj i tr = nth i ems [])
      /\ (forall h, In h hs ->
            handed (hid name h) got = args_named (hname name h) (map fst (map snd tr))
            /\ Permutation (handed (hid name h) got)
                           (args_named (hname name h) (map fst (concat ems))))
      /\ (forall k a, In (k, a) got ->
            exists h e, In h hs /\ hid name h = k /\ In e (map fst (concat ems))
                        /\ hname name h = fst e /\ a = snd e).
  Proof.
    exact (exactly_once_intact name name_eqb name_eqb_eq arg offset off_arg frame enc dstate d0 dec_step
        C09_codec_roundtrip wunit pack unpack C11_framing_roundtrip accepts link link_fifo hs get_all
        C18_get_all C18_registrations_distinct).
  Qed.

  (** The side condition is void off the finding class: recovery off, or client -> server. *)
  Theorem C01_side_condition_only_recovery_s2c :
    forall c, recovery c = false \/ s2c c = false -> handlers_ok c = true.
  Proof. exact (handlers_ok_other_configs name hs). Qed.

  (** ... and inside the class the old client starves the handler completely: whatever is
      emitted, in whatever order and batching, a handler with a trailing string parameter is never
      invoked (known finding recovery-on:trailing-string-arg of the code before the fix). *)
  Theorem C01_recovery_on_trailing_string_starves :
    forall (c : cfg) h batches,
      In h hs ->
      client_strips_offset c = true -> recovery c = true -> s2c c = true ->
      hlast_str name h = true ->
      handed (hid name h) (deliveries c batches) = [].
  Proof.
    exact (stripped_handler_starves name name_eqb arg frame dstate d0 dec_step wunit pack unpack
             accepts link hs get_all C18_get_all C18_registrations_distinct).
  Qed.

  (** Nothing truncated: if the connection is cut inside a packet, the complete packets before it
      are delivered and the partial one yields nothing. *)
  Theorem C01_no_truncated_delivery :
    forall evs e p s, enc e = p ++ s -> s <> [] -> snd (feed d0 (flat_map enc evs ++ p)) = evs.
  Proof.
    exact (no_truncated_delivery name arg frame enc dstate d0 dec_step
             C09_codec_roundtrip C09_codec_silent_prefix).
  Qed.
End C01.

(** * Instance: the hypotheses are satisfiable, the composition is not vacuous. *)

(** All section hypotheses discharged for the concrete packet codec of Sio/EndToEndInst.v
    (header frame with numbered placeholders + one frame per binary leaf, decoder state machine
    with a reconstructor), identity framing with a byte limit, identity link, filter registry. *)
Theorem C01_exactly_once_intact_inst :
  forall (max : N) (hs : list (handler iname)), NoDup (map (hid iname) hs) ->
  forall (c : cfg) (ems : list (list (event iname iarg * ioffset))) tr batches,
    client_strips_offset c = false ->
    Interleave ems tr ->
    concat batches = wire iname iarg ioffset ioff_arg iframe ienc c tr ->
    within_limits iframe (list iframe) (fun b => b) (iaccepts max) batches ->
    sig_matches iname iarg hs (map fst (concat ems)) ->
    forall h, In h hs ->
      Permutation (handed iarg (hid iname h) (ideliveries max hs c batches))
                  (args_named iname iname_eqb iarg (hname iname h) (map fst (concat ems))).
Proof. exact inst_exactly_once. Qed.

(** Refutation witness for the code before the fix (replayed on the real client by the harness:
    recovery on, server emits "str"("hi"), client handler [func(string)] is never called). *)
Theorem C01_recovery_on_trailing_string_refuted :
  exists (c : cfg) (hs : list (handler iname)) ems tr batches h,
    NoDup (map (hid iname) hs) /\ In h hs /\
    Interleave ems tr /\
    concat batches = wire iname iarg ioffset ioff_arg iframe ienc c tr /\
    within_limits iframe (list iframe) (fun b => b) (iaccepts 1000000) batches /\
    sig_matches iname iarg hs (map fst (concat ems)) /\
    handed iarg (hid iname h) (ideliveries 1000000 hs c batches) = [] /\
    args_named iname iname_eqb iarg (hname iname h) (map fst (concat ems)) <> [].
Proof. exact inst_refuted. Qed.

(** Non-vacuity of the repaired behaviour on the same witness: the handler gets the string. *)
Example C01_recovery_on_fixed_example :
  handed iarg 0 (ideliveries 1000000 witness_hs (mkCfg true true false) witness_batches)
  = [[IStr [104; 105]%N]].
Proof. exact inst_fixed_example. Qed.
