(** C05 - Namespaces multiplexed on one connection are isolated from each other.
    This file holds statements only; every proof is `exact <lemma>`.

    Model: Sio/NspRouting.v (server_conn.go routing, admission, per-namespace adapters and ack
    counters, per-socket ack tables; client Manager routing and sockets).  [sstep] is one atomic
    step of the server on behalf of one connection / namespace, [srun] a history of them. *)
From SioV Require Import Base.GoSem Sio.NspRouting Sio.NspRoutingProofs Sio.NspRoutingWire.
From SioV Require Import Sio.Header Sio.HeaderProofs Sio.NspFrames Sio.NspFramesProofs.
Local Open Scope N_scope.

(** A decoded packet is dispatched only to the socket registered for exactly its (normalised)
    namespace string on the connection it arrived on: every handler entry and ack callback that
    the routing of packet p on connection c produces is on that socket and carries that namespace. *)
Theorem C05_routed_by_header_nsp : forall c p s,
  Forall (fun x => match x with
                   | OEv _ c' n sid _ =>
                       c' = c /\ n = norm_hdr (p_nsp p) /\ alookup n (table s c) = Some sid
                   | OAck _ c' n _ =>
                       c' = c /\ n = norm_hdr (p_nsp p) /\ exists sid, alookup n (table s c) = Some sid
                   | _ => True
                   end) (snd (s_recv c p s)).
Proof. exact s_recv_routed. Qed.

(** The same on the client: the Manager hands a packet to the socket registered for exactly its
    namespace, and drops it when there is none. *)
Theorem C05_routed_by_header_nsp_client : forall c p m,
  Forall (fun x => match x with
                   | OEv _ c' n _ _ | OAck _ c' n _ =>
                       c' = c /\ n = norm_hdr (p_nsp p) /\ exists k, alookup n (m_socks m) = Some k
                   | _ => True
                   end) (snd (c_recv c p m)).
Proof. exact c_recv_routed. Qed.

Theorem C05_unknown_nsp_dropped_client : forall c p m,
  alookup (norm_hdr (p_nsp p)) (m_socks m) = None -> c_recv c p m = (m, []).
Proof. exact c_recv_unknown_dropped. Qed.

(** Prefix-related and look-alike names are different keys: registering /a changes nothing for
    /ab, /a/b, / and vice versa. *)
Theorem C05_lookalike_names_are_distinct_keys :
  let a := [47; 97] in let ab := [47; 97; 98] in let a_b := [47; 97; 47; 98] in let root := [47] in
  forall (t : list (nsname * N)) v,
    alookup ab (aset a v t) = alookup ab t /\ alookup a_b (aset a v t) = alookup a_b t /\
    alookup root (aset a v t) = alookup root t /\ alookup a (aset a_b v t) = alookup a t /\
    alookup a (aset ab v t) = alookup a t.
Proof. exact lookalike_keys_distinct. Qed.

(** A packet other than CONNECT addressed to a namespace the connection has not joined is not
    dispatched: the connection is closed, its table emptied, and no handler or ack callback runs. *)
Theorem C05_unknown_nsp_closes : forall c p s,
  alookup (norm_hdr (p_nsp p)) (table s c) = None -> p_type p <> PConnect ->
  s_recv c p s = close_conn c s /\
  sc_closed (sv_conn (fst (s_recv c p s)) c) = true /\
  table (fst (s_recv c p s)) c = [] /\
  Forall (fun x => delivery x = false) (snd (s_recv c p s)).
Proof. exact s_recv_unknown_closes. Qed.

(** The client side of it (repaired code): a socket hands nothing to the wire before the
    server's CONNECT reply arrived ... *)
Theorem C05_client_sends_nothing_before_accept : forall c n tag ack m,
  cs_state (get_sock m (norm_api n)) <> CConn -> snd (c_emit c n tag ack m) = [].
Proof. exact c_emit_buffers_until_connected. Qed.

(** ... so in the composed system an emit on /b while its CONNECT is held by a middleware leaves /a
    connected and is delivered after the accept (the scenario that closed the whole connection
    before the repair; replayed on the implementation by corpus/C05/01-pending-emit.json). *)
Example C05_pending_emit_keeps_other_nsp :
  let a := [47; 97] in let b := [47; 98] in
  let obs := snd (yrun [OpConnect 0 a; OpConnect 0 b; OpCEmit 0 b 2 false; OpRelease b true]
                       (sys0 [a; b] [b] [])) in
  flat_map (fun x => match x with BOut (OLife _ _ _ 2) | BOut (OClosed _ _) => [x] | _ => [] end) obs = [] /\
  existsb (fun x => match x with BOut (OEv true 0 n _ 2) => nseqb n b | _ => false end) obs = true.
Proof. vm_compute. split; reflexivity. Qed.

(** A client is attached to a namespace only once the server has accepted its CONNECT: a
    connection's table gains a namespace only in the step in which nsp.add succeeds (middleware
    chain accepted) for a CONNECT of this very connection to this very namespace ... *)
Theorem C05_attach_only_after_accept_step : forall o s c n sid,
  tbl s c n <> Some sid -> tbl (fst (sstep o s)) c n = Some sid ->
  o = SVerdict c n true sid /\ existsb (N.eqb c) (ns_held (sv_nsp s n)) = true.
Proof. exact table_gains_only_by_accept. Qed.

(** ... so, over every history from the initial state: a namespace present in a connection's table
    was put there by a successful add of that very connection to that very namespace. *)
Theorem C05_attach_only_after_accept : forall names l c n sid,
  tbl (fst (srun l (server0 names))) c n = Some sid ->
  exists l1 l2, l = l1 ++ SVerdict c n true sid :: l2.
Proof. exact attach_only_after_accept. Qed.

(** The CONNECT reply never precedes the attachment: a step that hands a CONNECT packet of namespace
    n to an open connection c leaves n in c's table, so the first packet the client sends on reading
    the reply is routed to its socket instead of closing the connection.  (This is what the order
    repaired in 2cd31b1 guarantees; with the table written after the reply the statement is false.) *)
Theorem C05_connect_reply_implies_attached : forall o s c p,
  In (OSend c p) (snd (sstep o s)) -> p_type p = PConnect -> closed s c = false ->
  tbl (fst (sstep o s)) c (p_nsp p) <> None.
Proof. exact connect_reply_implies_attached. Qed.

(** "Attached" also means "reachable by broadcasts": the adapter of a namespace delivers only to
    sockets the namespace's store knows, and a socket enters that store only in the step in which
    nsp.add succeeds.  So over every history, every packet that a broadcast in namespace n (whole
    namespace, a room, with or without exceptions) puts on a connection c goes to a socket of n that
    was accepted for c earlier -- never to one whose CONNECT is still with the middlewares, whatever
    rooms a middleware has already joined it to ([SMwJoin]). *)
Theorem C05_broadcast_reaches_only_accepted : forall names l n room ex tag c p,
  In (OSend c p) (snd (s_bcast n room ex tag (fst (srun l (server0 names))))) ->
  p_nsp p = n /\ exists sid l1 l2, l = l1 ++ SVerdict c n true sid :: l2.
Proof. exact broadcast_reaches_only_accepted. Qed.

Theorem C05_in_namespace_store_only_after_accept : forall names l n sid c,
  In (sid, c) (ids (sv_nsp (fst (srun l (server0 names))) n)) ->
  exists l1 l2, l = l1 ++ SVerdict c n true sid :: l2.
Proof. exact socks_only_after_accept. Qed.

(** Frame over the product state: a step on behalf of namespace a that does not close the
    connection leaves the namespace state (sockets, rooms, ack tables, ack counter) and every
    connection's table entry of any other namespace b untouched, and everything it emits (packets,
    handler entries, ack callbacks, lifecycle events) carries namespace a. *)
Theorem C05_broadcast_and_ack_isolated_step : forall o s a b,
  sop_nsp o = Some a -> closes o s = None -> a <> b ->
  view_eq b (fst (sstep o s)) s /\ Forall (fun x => out_nsp x = Some a) (snd (sstep o s)).
Proof. intros o s a b H1 H2 H3. exact (conj (sstep_frame o s a b H1 H2 H3) (sstep_out_nsp o s a H1 H2)). Qed.

(** For all operation histories (connect / verdict / emit / ack / broadcast / join /
    disconnect on any connections and namespaces, in any interleaving) in which no connection is
    closed: what namespace b ends up with, and everything delivered or sent in b, is exactly what
    the operations of b alone produce.  Other namespaces' traffic cannot be observed in b. *)
Theorem C05_broadcast_and_ack_isolated : forall b l s1 s2,
  view_eq b s1 s2 -> quiet l s1 = true ->
  view_eq b (fst (srun l s1)) (fst (srun (filter (scoped b) l) s2)) /\
  filter (out_in b) (snd (srun l s1)) = snd (srun (filter (scoped b) l) s2).
Proof. exact noninterference. Qed.

(** The only way a step scoped to one namespace reaches the others is by closing the connection,
    and then it does exactly what a transport close does. *)
Theorem C05_interference_only_by_closing : forall o s c,
  closes o s = Some c -> sstep o s = close_conn c s.
Proof. exact closes_spec. Qed.

(** Disconnecting one namespace (DISCONNECT packet from the client, or Disconnect(false) on the
    server) leaves the other namespaces of the connection attached and the connection open. *)
Theorem C05_disconnect_one_keeps_others : forall c p s sid b,
  p_type p = PDisconnect -> alookup (norm_hdr (p_nsp p)) (table s c) = Some sid ->
  norm_hdr (p_nsp p) <> b ->
  let s' := fst (s_recv c p s) in
  tbl s' c b = tbl s c b /\ sv_nsp s' b = sv_nsp s b /\
  sc_closed (sv_conn s' c) = sc_closed (sv_conn s c) /\
  tbl s' c (norm_hdr (p_nsp p)) = None.
Proof. exact disconnect_one_keeps_others_recv. Qed.

Theorem C05_server_disconnect_one_keeps_others : forall c a s b,
  a <> b ->
  let s' := fst (s_disc c a s) in
  tbl s' c b = tbl s c b /\ sv_nsp s' b = sv_nsp s b /\
  sc_closed (sv_conn s' c) = sc_closed (sv_conn s c).
Proof. exact disconnect_one_keeps_others_srv. Qed.

(** On the client every operation and every received packet of namespace a leaves the sockets of
    the other namespaces as they were. *)
Theorem C05_client_sockets_isolated : forall c o m a b,
  cop_nsp o = Some a -> a <> b ->
  alookup b (m_socks (fst (cstep c o m))) = alookup b (m_socks m).
Proof. exact cstep_frame. Qed.

(** Wire level (on C10's port of the header printer/parser): a namespace that starts with '/' and
    holds no comma is read back exactly, and two such namespaces never share a wire form. *)
Theorem C05_nsp_injective : forall n1 n2 rest1 rest2,
  wf_nsp n1 -> wf_nsp n2 -> starts_not_slash rest1 -> starts_not_slash rest2 ->
  nsp_part n1 ++ rest1 = nsp_part n2 ++ rest2 -> n1 = n2 /\ rest1 = rest2.
Proof. exact nsp_wire_injective. Qed.

Theorem C05_nsp_roundtrip : forall n rest,
  wf_nsp n -> starts_not_slash rest -> nsp_stage (nsp_part n ++ rest) = Ok (n, rest).
Proof. exact nsp_wire_roundtrip. Qed.

(** Without the side condition the statement is false: "/a,b" is read back as "/a". *)
Theorem C05_nsp_comma_refuted :
  exists n rest, nsp_stage (nsp_part n ++ rest) <> Ok (n, rest) /\
                 nsp_stage (nsp_part n ++ rest) = Ok ([47; 97], [98; 44] ++ rest).
Proof. exists [47; 97; 44; 98], [91]. rewrite nsp_comma_not_roundtrip. split; [discriminate | reflexivity]. Qed.

(** Non-vacuity: the hypotheses of the history theorem are satisfiable by a history that mixes
    three look-alike namespaces on one connection. *)
Example C05_example_quiet :
  let a := [47; 97] in let ab := [47; 97; 98] in let a_b := [47; 97; 47; 98] in
  let l := [SRecv 0 (mkP PConnect a None 0); SVerdict 0 a true 1;
            SRecv 0 (mkP PConnect ab None 0); SVerdict 0 ab true 2;
            SRecv 0 (mkP PEvent a (Some 7) 100); SEmit 0 ab 101 true;
            SRecv 0 (mkP PAck ab (Some 0) 101); SBcast a None None 102;
            SRecv 0 (mkP PDisconnect a None 0); SRecv 0 (mkP PEvent ab None 103)] in
  quiet l (server0 [a; ab; a_b]) = true /\
  map out_nsp (snd (srun l (server0 [a; ab; a_b]))) =
  [Some a; Some a; Some ab; Some ab; Some a; Some a; Some ab; Some ab; Some a; Some a; Some ab].
Proof. vm_compute. split; reflexivity. Qed.

(** * Frames of several namespaces on the shared connection (Sio/NspFrames.v)
    For every set of concurrent emitters (any namespaces, any goroutines: Emit, broadcast, ack) and
    every interleaving of their queue operations on one connection: the receiver dispatches exactly
    the queued packets, each with its own namespace, tag and attachments, and never hits a parse
    error -- no handler ever receives a frame of another namespace's traffic, and no namespace's
    traffic closes the connection under the others. *)
Theorem C05_frames_isolated : forall sched ems,
  receive None (wire_atomic sched ems) = (map delivered_as (sent_order sched ems), false) /\
  (forall r, In r (fst (receive None (wire_atomic sched ems))) ->
     exists q p, In q ems /\ In p q /\ r = delivered_as p).
Proof. exact frames_isolated. Qed.

(** What this excludes (frames queued one call each): /a's handler gets /b's frame as an
    attachment, then a parse error closes the connection. *)
Theorem C05_split_frames_leak_refuted :
  let a := [47; 97] in let b := [47; 98] in
  receive None (wire_split [0; 1; 0; 0]%nat [[mkFP a 1 [10; 11]]; [mkFP b 2 []]]) =
  ([mkRP a 1 [FText b 2 0; FBin 10]], true).
Proof. exact split_frames_leak. Qed.
