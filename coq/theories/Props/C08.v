(** C08 - State recovery replays exactly the missed packets, or falls back cleanly.
    Statements only; every proof is `exact <lemma>`.

    Vocabulary (Adapter/Session.v): a history [h] is a list of timed operations on the
    session-aware adapter (Broadcast / PersistSession / clean-up pass / RestoreSession);
    [final W h] is the adapter state after [h] with recovery window [W]; [emitted h] is the list of
    packets the history has broadcast with an offset id, in emission order (ground truth,
    independent of the adapter's log); [last_persist pid h None] the session last persisted under
    [pid]; [selected s p] = shouldIncludePacket(session rooms, packet options).
    Hypothesis about the id generator (yeast): ids along a history are distinct - discharged for the
    real generator at the end of this file (C08_offset_ids_distinct), given a clock that never steps back. *)
From SioV Require Import Base.GoSem Adapter.Session Adapter.SessionProofs Adapter.SessionConc Adapter.SessionConcProofs Adapter.SessionSlice Adapter.SessionSliceProofs Adapter.Yeast Adapter.YeastProofs Adapter.YeastSession Adapter.YeastFloat.
Open Scope Z_scope.

(** A successful restore returns exactly the selected packets emitted after the offset packet, in
    emission order - whatever clean-up passes, other restores and persists the history contains. *)
Theorem C08_restore_exact : forall W h t pid off s ms,
  snd (step W t (ORestore pid off) (final W h)) = Some (Some (s, ms)) ->
  exists pre p post,
    emitted h = pre ++ p :: post /\ p_id p = off /\ ms = filter (selected s) post.
Proof. exact restore_exact. Qed.

(** Never recovered with a gap: every packet emitted after THE packet carrying the offset and
    selected by the session is among the replayed ones. *)
Theorem C08_no_gap : forall W h t pid off s ms,
  NoDup (map p_id (emitted h)) ->
  snd (step W t (ORestore pid off) (final W h)) = Some (Some (s, ms)) ->
  forall pre p post q, emitted h = pre ++ p :: post -> p_id p = off ->
    In q post -> selected s q = true -> In q ms.
Proof. exact no_gap_in. Qed.

(** None twice. *)
Theorem C08_restore_nodup : forall W h t pid off s ms,
  NoDup (map p_id (emitted h)) ->
  snd (step W t (ORestore pid off) (final W h)) = Some (Some (s, ms)) ->
  NoDup (map p_id ms).
Proof. exact restore_nodup. Qed.

(** A client that had received every selected packet up to its offset ends up, after the replay,
    with every selected packet of the whole history exactly once and in emission order. *)
Theorem C08_exactly_once : forall W h t pid off s ms,
  NoDup (map p_id (emitted h)) ->
  snd (step W t (ORestore pid off) (final W h)) = Some (Some (s, ms)) ->
  forall pre p post, emitted h = pre ++ p :: post -> p_id p = off ->
    filter (selected s) (pre ++ [p]) ++ ms = filter (selected s) (emitted h).
Proof. exact exactly_once. Qed.

(** The restored session is the one last persisted under that private id (same socket id, same
    rooms), and the reconnection is within the window. *)
Theorem C08_same_sid_rooms : forall W h t pid off s ms,
  snd (step W t (ORestore pid off) (final W h)) = Some (Some (s, ms)) ->
  exists td, last_persist pid h None = Some (s, td) /\ s_pid s = pid /\ t <= td + W.
Proof. exact same_sid_rooms. Qed.

(** Falling back: unknown session, expired session, unknown offset. *)
Theorem C08_fallback_unknown_session : forall W h t pid off,
  last_persist pid h None = None ->
  snd (step W t (ORestore pid off) (final W h)) = Some None.
Proof. exact fallback_unknown_session. Qed.

Theorem C08_fallback_expired_session : forall W h t pid off s td,
  last_persist pid h None = Some (s, td) -> td + W < t ->
  snd (step W t (ORestore pid off) (final W h)) = Some None.
Proof. exact fallback_expired_session. Qed.

Theorem C08_fallback_unknown_offset : forall W h t pid off,
  ~ In off (map p_id (emitted h)) ->
  snd (step W t (ORestore pid off) (final W h)) = Some None.
Proof. exact fallback_unknown_offset. Qed.

(** An offset whose packet had expired when a clean-up pass ran is unknown from then on: the
    client falls back (it can never be "recovered" from a log that no longer reaches its offset). *)
Theorem C08_fallback_collected_offset : forall W h1 tc h2 t pid pre p post,
  NoDup (map p_id (emitted (h1 ++ (tc, OClean) :: h2))) ->
  emitted h1 = pre ++ p :: post -> p_at p + W < tc ->
  snd (step W t (ORestore pid (p_id p)) (final W (h1 ++ (tc, OClean) :: h2))) = Some None.
Proof. exact fallback_collected_offset. Qed.

(** ... and ONLY for one of these four reasons (times non-decreasing): a fallback without a reason -
    a client inside the window, with a live offset, refused - does not happen. *)
Theorem C08_fallback_only_with_reason : forall W h t t0 pid off,
  times_sorted t0 (h ++ [(t, ORestore pid off)]) = true ->
  snd (step W t (ORestore pid off) (final W h)) = Some None ->
  last_persist pid h None = None
  \/ (exists s td, last_persist pid h None = Some (s, td) /\ td + W < t)
  \/ ~ In off (map p_id (emitted h))
  \/ (exists p tc, In p (emitted h) /\ p_id p = off /\ In (tc, OClean) h /\ p_at p + W < tc).
Proof. exact fallback_reason. Qed.

(** Socket layer (namespace.add / newServerSocket / onConnect): a socket is marked recovered only
    if it carries the persisted socket id, re-joins the persisted rooms and is sent exactly the
    missed packets (followed by the CONNECT packet with the same sid and pid) ... *)
Theorem C08_recovered_socket : forall W h t pid off fs fp,
  k_recovered (snd (connect W t pid off fs fp (final W h))) = true ->
  exists s td pre p post,
    last_persist pid h None = Some (s, td) /\ t <= td + W /\
    emitted h = pre ++ p :: post /\ p_id p = off /\
    snd (connect W t pid off fs fp (final W h)) =
    mkSock (s_sid s) pid true (s_rooms s ++ [s_sid s])
           (map FReplay (filter (selected s) post) ++ [FConnect (s_sid s) pid]).
Proof. exact recovered_socket. Qed.

(** ... and whenever the restore fails the client gets a fresh session marked not recovered: new
    socket id, new private id, only its own room, nothing replayed. *)
Theorem C08_fallback_fresh_session : forall W h t pid off fs fp,
  snd (step W t (ORestore pid off) (final W h)) = Some None ->
  snd (connect W t pid off fs fp (final W h)) = mkSock fs fp false [fs] [FConnect fs fp].
Proof. exact fresh_socket. Qed.

(** Liveness: times non-decreasing along the history, the reconnection within the window of the
    session last persisted under [pid], and the offset packet itself not older than the window:
    the session IS recovered (with that session's sid and rooms). *)
Theorem C08_recovers_in_window : forall W h t t0 pid off s td p,
  times_sorted t0 (h ++ [(t, ORestore pid off)]) = true ->
  last_persist pid h None = Some (s, td) -> t <= td + W ->
  In p (emitted h) -> p_id p = off -> t <= p_at p + W ->
  exists ms, snd (step W t (ORestore pid off) (final W h)) = Some (Some (s, ms)).
Proof. exact recovers_in_window. Qed.

(** "Addressed to the session": the selection predicate, declaratively - the packet went to no
    room in particular or to a room of the session, and to no excluded room of the session. *)
Theorem C08_addressed : forall rooms o,
  should_include rooms o = true <->
  (o_rooms o = [] \/ exists r, In r rooms /\ In r (o_rooms o)) /\
  (forall r, In r rooms -> ~ In r (o_except o)).
Proof. exact should_include_spec. Qed.

(** Several sessions recovering from the same log: the results of the restores of session [p] are
    the same in the history from which every persist / restore of other sessions is removed. *)
Theorem C08_many_sessions : forall W p h,
  results_for p h (snd (run W h st_empty)) =
  results_for p (proj p h) (snd (run W (proj p h) st_empty)).
Proof. exact many_sessions. Qed.

(** A clean-up pass: with the log in emission-time order it removes exactly the expired packets;
    and in any case no expired packet survives it. *)
Theorem C08_cleaner_exact : forall W now l,
  at_sorted l -> clean_packets W now l = filter (fun p => negb (pkt_expired W now p)) l.
Proof. exact clean_packets_filter. Qed.

Theorem C08_cleaner_collects : forall W now l p,
  In p (clean_packets W now l) -> pkt_expired W now p = false.
Proof. exact clean_packets_drops_expired. Qed.

(** Non-vacuity: two broadcasts, a session (rooms 1 and 9) persisted, three more broadcasts, a
    clean-up pass between the disconnection and the reconnection, restore with the first offset. *)
Example C08_example :
  let o := mkOpts [] [] in
  let h := [(0, OBroadcast KEvent 1%N o); (0, OBroadcast KEvent 2%N (mkOpts [7%N] []));
            (1, OPersist (mkSess 5%N 3%N [1%N; 9%N])); (2, OBroadcast KEvent 3%N (mkOpts [1%N] []));
            (2, OBroadcast KEvent 4%N (mkOpts [] [9%N])); (3, OBroadcast KEvent 5%N o); (4, OClean)] in
  option_map (fun r => option_map (fun x => map p_id (snd x)) r)
             (snd (step 10 5 (ORestore 3%N 1%N) (final 10 h))) = Some (Some [3%N; 5%N]).
Proof. vm_compute. reflexivity. Qed.

(** The code before fix 8f03b0c (inverted HasExpired, one entry removed per pass), run through
    the same machine: a pass between disconnect and reconnect drops the newest packet and the
    restore still succeeds - a session reported recovered with a gap (id 2 is never replayed). *)
Example C08_legacy_code_gap :
  let o := mkOpts [] [] in
  let h := [(0, OBroadcast KEvent 1%N o); (0, OBroadcast KEvent 2%N o); (0, OClean);
            (0, OPersist (mkSess 1%N 3%N [])) ] in
  option_map (fun r => option_map (fun x => map p_id (snd x)) r)
             (snd (step_legacy 10 0 (ORestore 3%N 1%N) (fst (run_legacy 10 h st_empty)))) = Some (Some []).
Proof. vm_compute. reflexivity. Qed.

(** Selection uses the rooms the socket had when it disconnected. If they differ from the rooms
    it had when a packet was emitted (it joined room 1 only afterwards), a packet that was not
    addressed to it at emission time is replayed (same in the reference implementation). *)
Example C08_addressed_needs_stable_rooms :
  let q := mkOpts [1%N] [] in
  should_include [] q = false /\ should_include [1%N] q = true /\
  let h := [(0, OBroadcast KEvent 1%N (mkOpts [] [])); (0, OBroadcast KEvent 2%N q);
            (1, OPersist (mkSess 5%N 3%N [1%N]))] in
  option_map (fun r => option_map (fun x => map p_id (snd x)) r)
             (snd (step 10 2 (ORestore 3%N 1%N) (final 10 h))) = Some (Some [2%N]).
Proof. vm_compute. auto. Qed.

(** ** Across the reconnection instant, with a broadcast in flight (Adapter/SessionConc.v).
    One broadcast = {log append; start of the target iteration; visit of the session's socket; end}
    interleaved, over ALL schedules, with the reconnection (restore + re-join + visible), clean-up
    passes, persists / restores of other sessions and the log appends of other broadcasts. *)

(** Never neither: the log append comes first ([g_lf]) and the reconnection is atomic ([no_split]):
    a completed broadcast addressed to the recovered session was replayed or delivered live. *)
Theorem C08_concurrent_no_gap : forall g sched st0 rest0 c,
  g_lf g = true -> 0 <= g_W g ->
  fresh_log (g_W g) (st_packets st0) ->
  after_offset (g_off g) (st_packets st0) = Some rest0 ->
  no_split sched -> crun g sched (cinit st0) = Some c ->
  c_phase c = 3%nat -> c_app c = true -> c_ended c = true -> addressed g c = true ->
  replayed g c = true \/ (1 <= c_live c)%nat.
Proof. exact concurrent_no_gap. Qed.

Theorem C08_concurrent_live_once : forall g sched st0 c,
  g_lf g = true -> ~ In (g_id g) (map p_id (st_packets st0)) ->
  no_split sched -> crun g sched (cinit st0) = Some c -> (c_live c <= 1)%nat.
Proof. exact concurrent_live_once. Qed.

(** Never both - REFUTED for the code as it is: a reconnection that lands after the log append
    and before the end of the target iteration gets the packet replayed and live
    (known finding reconnect-during-broadcast; replayed on the real adapter by the conc rig). *)
Definition c08_st0 : state :=
  final 10 [(0, OBroadcast KEvent 1%N (mkOpts [] [])); (0, OPersist (mkSess 9%N 3%N [1%N]))].
Definition c08_g (lf : bool) : cfg := mkCfg lf 10 3%N 1%N 2%N (mkOpts [1%N] []).

Theorem C08_concurrent_no_dup_refuted :
  exists sched c, no_split sched /\ crun (c08_g true) sched (cinit c08_st0) = Some c /\
    addressed (c08_g true) c = true /\ replayed (c08_g true) c = true /\ c_live c = 1%nat.
Proof.
  exists [SAppend; SReconnect; SBegin; SVisit; SEnd]. eexists. split.
  - repeat constructor.
  - vm_compute. repeat split; reflexivity.
Qed.

(** ... and proved under the side condition that excludes exactly that class: the broadcast was
    not in flight (appended and not ended) at the reconnection instant ([c_quiet]). *)
Theorem C08_concurrent_no_dup_partial : forall g sched st0 c,
  g_lf g = true -> ~ In (g_id g) (map p_id (st_packets st0)) ->
  no_split sched -> crun g sched (cinit st0) = Some c ->
  c_phase c = 3%nat -> c_quiet c = true ->
  ~ (replayed g c = true /\ (1 <= c_live c)%nat).
Proof. exact concurrent_no_dup_partial. Qed.

Example C08_concurrent_quiet_satisfiable :
  option_map (fun c => (c_quiet c, replayed (c08_g true) c, c_live c))
             (crun (c08_g true) [SAppend; SBegin; SEnd; SEnv OClean; SReconnect] (cinit c08_st0))
  = Some (true, true, 0%nat).
Proof. vm_compute. reflexivity. Qed.

(** A reconnection that is NOT atomic (restore, then later re-join / visible, as namespace.add does)
    lets a whole broadcast slip in between: REFUTED no-gap (known finding reconnect-not-atomic). *)
Theorem C08_concurrent_nonatomic_gap_refuted :
  exists sched c, crun (c08_g true) sched (cinit c08_st0) = Some c /\
    c_phase c = 3%nat /\ c_app c = true /\ c_ended c = true /\ addressed (c08_g true) c = true /\
    replayed (c08_g true) c = false /\ c_live c = 0%nat.
Proof.
  exists [SRestore; SAppend; SBegin; SEnd; SJoin; SVisible]. eexists.
  vm_compute. repeat split; reflexivity.
Qed.

(** What the log-append-first order buys: with the append AFTER the delivery ([g_lf] = false) an
    atomic reconnection inside the broadcast is recovered with a gap. *)
Example C08_log_after_delivery_gap :
  option_map (fun c => (c_phase c, c_app c, c_ended c, addressed (c08_g false) c, replayed (c08_g false) c, c_live c))
             (crun (c08_g false) [SBegin; SReconnect; SEnd; SAppend] (cinit c08_st0))
  = Some (3%nat, true, true, true, false, 0%nat).
Proof. vm_compute. reflexivity. Qed.

(** ** The log as a Go slice: RestoreSession against clean-up passes that trim IN PLACE
    (Adapter/SessionSlice.v: heap of backing arrays, append in place / reallocation,
    slices.Delete shifting left and nil-ing the tail; the restore = lookup, filter steps, end). *)

(** The slice-level clean-up pass is the abstract one. *)
Theorem C08_slice_clean_refines : forall W now s, wf s ->
  wf (sl_clean W now s) /\ sl_abs (sl_clean W now s) = clean_packets W now (sl_abs s).
Proof. intros W now s H. destruct (clean_spec W now s H) as [A [B _]]. split; assumption. Qed.

(** Filtering under the lock (the code as it is) or on a private copy: for EVERY interleaving of the
    restore's sub-steps with clean-up passes and broadcasts, the answer is the sequential
    RestoreSession's answer on the log as it was at the lookup - a consistent snapshot; in
    particular never a nil dereference, never a skipped or foreign packet. *)
Theorem C08_restore_consistent_snapshot : forall W rooms off m l sched s r,
  m <> Alias ->
  rrun m W rooms off sched (rinit l) = Some s -> rs_res s = Some r ->
  exists l', rs_snap s = Some l' /\ r = snapshot_answer rooms off l'.
Proof. exact restore_consistent. Qed.

(** Filtering the sub-slice a.packets[index+1:] without the lock: REFUTED - a pass that trims one
    expired packet and a broadcast that refills the freed slot make the restore skip packet 3
    (reported recovered with a gap) ... *)
Definition c08_l0 : list ppacket :=
  [mkPkt 1 0 (mkOpts [1%N] []); mkPkt 2 10 (mkOpts [1%N] []); mkPkt 3 10 (mkOpts [1%N] []);
   mkPkt 4 10 (mkOpts [1%N] []); mkPkt 5 10 (mkOpts [1%N] [])].

Theorem C08_restore_alias_gap_refuted :
  exists sched s ms, rrun Alias 5 [1%N] 2%N sched (rinit c08_l0) = Some s /\
    rs_res s = Some (Ok ms) /\ map p_id ms = [4%N; 5%N; 6%N] /\
    forall l', In l' (logs_at_lookup s) -> Ok ms <> snapshot_answer [1%N] 2%N l'.
Proof.
  exists [TFind; TClean 10; TBroadcast (mkPkt 6 10 (mkOpts [1%N] [])); TFilter; TFilter; TFilter; TEnd].
  eexists. eexists. split; [vm_compute; reflexivity|]. split; [reflexivity|]. split; [reflexivity|].
  intros l' [<-|[]]. vm_compute. discriminate.
Qed.

(** ... and without the refill the restore dereferences a nil slot (panic in Namespace.add). *)
Theorem C08_restore_alias_panic_refuted :
  exists sched s, rrun Alias 5 [1%N] 2%N sched (rinit c08_l0) = Some s /\ rs_res s = Some Panic.
Proof.
  exists [TFind; TClean 10; TFilter; TFilter; TFilter]. eexists. vm_compute. split; reflexivity.
Qed.

(** ---- the offset-id generator (Adapter/Yeast.v: github.com/karagenc/yeast as called by Broadcast)

    [ids_of ts] = the ids handed out when the successive calls read the clock values [ts]
    ([time.Now().Unix()]); [render] = the Go string.  Whatever the number of calls and however many
    fall into one second: if the clock never steps back, the offset ids are pairwise distinct - the
    hypothesis [NoDup (map p_id (emitted h))] of the theorems above ([small] = below 2^53, where Go's
    float64 division in Encode is exact). *)
Theorem C08_offset_ids_distinct : forall ts,
  nondecreasing ts -> Forall small ts -> (N.of_nat (length ts) < 2 ^ 53)%N ->
  NoDup (map render (ids_of ts)).
Proof. exact ids_distinct. Qed.

(** ... under any injective numbering of id strings (the models above number ids by [N]). *)
Theorem C08_offset_ids_distinct_numbered : forall (num : list N -> N) ts,
  (forall a b, num a = num b -> a = b) ->
  nondecreasing ts -> Forall small ts -> (N.of_nat (length ts) < 2 ^ 53)%N ->
  NoDup (map num (map render (ids_of ts))).
Proof. exact ids_distinct_numbered. Qed.

(** yeast.Decode inverts yeast.Encode. *)
Theorem C08_offset_id_decode_encode : forall n, (n < 2 ^ 66)%N -> dec (enc n) = n.
Proof. exact dec_enc. Qed.

(** The clock hypothesis cannot be dropped: readings 5,5,4,5 repeat the id "5" (a wall clock stepped
    back by NTP would make a later packet carry an earlier packet's offset). *)
Theorem C08_offset_ids_backwards_clock_refuted :
  exists ts, Forall small ts /\ ~ NoDup (map render (ids_of ts)).
Proof. exact backwards_clock_repeats. Qed.

(** Composition (Adapter/YeastSession.v): [with_ids ids h] = the history [h] whose logged broadcasts take
    their offset ids, in order, from [ids]; [draws h] = the number of logged broadcasts (= Yeast() calls:
    Broadcast draws one id per logged packet, under the adapter's lock, and none otherwise).  A history
    whose ids come from the generator satisfies the distinct-ids hypothesis ... *)
Theorem C08_generated_ids_distinct : forall (num : list N -> N) ts h,
  (forall a b, num a = num b -> a = b) ->
  nondecreasing ts -> Forall small ts -> (N.of_nat (length ts) < 2 ^ 53)%N ->
  (draws h <= length ts)%nat ->
  NoDup (map p_id (emitted (with_ids (map num (map render (ids_of ts))) h))).
Proof. exact generated_ids_distinct. Qed.

(** ... so "never recovered with a gap" holds for it with nothing assumed about ids. *)
Theorem C08_no_gap_generated : forall (num : list N -> N) ts W h0 t pid off s ms,
  (forall a b, num a = num b -> a = b) ->
  nondecreasing ts -> Forall small ts -> (N.of_nat (length ts) < 2 ^ 53)%N ->
  (draws h0 <= length ts)%nat ->
  let h := with_ids (map num (map render (ids_of ts))) h0 in
  snd (step W t (ORestore pid off) (final W h)) = Some (Some (s, ms)) ->
  forall pre p post q, emitted h = pre ++ p :: post -> p_id p = off ->
    In q post -> selected s q = true -> In q ms.
Proof. exact no_gap_generated. Qed.

(** Go's Encode divides through float64: [int64(math.Floor(float64(num) / float64(64)))].  With IEEE-754
    binary64 (Flocq: precision 53, emin -1074, round to nearest even) that IS integer division below 2^53
    ([fdiv64], Adapter/YeastFloat.v) ... *)
Theorem C08_offset_id_float_division_exact : forall n : Z,
  0 <= n < 2 ^ 53 -> fdiv64 n = n / 64.
Proof. exact float_division_exact. Qed.

(** ... so the encoder written with the float division, loop for loop as in the Go source, is the
    model's encoder there (these two theorems use the standard library's real numbers: their axioms are
    listed by Print Assumptions and in the evidence). *)
Theorem C08_offset_id_go_encoder_is_model : forall f (n : N),
  (n < 2 ^ 53)%N -> enc_go_fuel f (Z.of_N n) = enc_fuel f n.
Proof. exact enc_go_is_enc. Qed.
