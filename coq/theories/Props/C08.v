(** C08 - State recovery replays exactly the missed packets, or falls back cleanly.
    Statements only; every proof is `exact <lemma>`.

    Vocabulary (Adapter/Session.v): a history [h] is a list of timed operations on the
    session-aware adapter (Broadcast / PersistSession / clean-up pass / RestoreSession);
    [final W h] is the adapter state after [h] with recovery window [W]; [emitted h] is the list of
    packets the history has broadcast with an offset id, in emission order (ground truth,
    independent of the adapter's log); [last_persist pid h None] the session last persisted under
    [pid]; [selected s p] = shouldIncludePacket(session rooms, packet options).
    Hypothesis about the id generator (yeast): ids along a history are distinct. *)
From SioV Require Import Base.GoSem Adapter.Session Adapter.SessionProofs.
Open Scope Z_scope.

(** A successful restore returns exactly the selected packets emitted after the offset packet, in
    emission order - whatever clean-up passes, other restores and persists the history contains. *)
Theorem C08_restore_exact : forall W h t pid off s ms,
  snd (step W t (ORestore pid off) (final W h)) = Some (Some (s, ms)) ->
  exists pre p post,
    emitted h = pre ++ p :: post /\ p_id p = off /\ ms = filter (selected s) post.
Proof. exact restore_exact. Qed.

(** Never recovered with a gap: every packet emitted after THE packet carrying the offset and
    selected by the session is among the replayed ones. *)
Theorem C08_no_gap : forall W h t pid off s ms,
  NoDup (map p_id (emitted h)) ->
  snd (step W t (ORestore pid off) (final W h)) = Some (Some (s, ms)) ->
  forall pre p post q, emitted h = pre ++ p :: post -> p_id p = off ->
    In q post -> selected s q = true -> In q ms.
Proof. exact no_gap_in. Qed.

(** None twice. *)
Theorem C08_restore_nodup : forall W h t pid off s ms,
  NoDup (map p_id (emitted h)) ->
  snd (step W t (ORestore pid off) (final W h)) = Some (Some (s, ms)) ->
  NoDup (map p_id ms).
Proof. exact restore_nodup. Qed.

(** A client that had received every selected packet up to its offset ends up, after the replay,
    with every selected packet of the whole history exactly once and in emission order. *)
Theorem C08_exactly_once : forall W h t pid off s ms,
  NoDup (map p_id (emitted h)) ->
  snd (step W t (ORestore pid off) (final W h)) = Some (Some (s, ms)) ->
  forall pre p post, emitted h = pre ++ p :: post -> p_id p = off ->
    filter (selected s) (pre ++ [p]) ++ ms = filter (selected s) (emitted h).
Proof. exact exactly_once. Qed.

(** The restored session is the one last persisted under that private id (same socket id, same
    rooms), and the reconnection is within the window. *)
Theorem C08_same_sid_rooms : forall W h t pid off s ms,
  snd (step W t (ORestore pid off) (final W h)) = Some (Some (s, ms)) ->
  exists td, last_persist pid h None = Some (s, td) /\ s_pid s = pid /\ t <= td + W.
Proof. exact same_sid_rooms. Qed.

(** Falling back: unknown session, expired session, unknown offset. *)
Theorem C08_fallback_unknown_session : forall W h t pid off,
  last_persist pid h None = None ->
  snd (step W t (ORestore pid off) (final W h)) = Some None.
Proof. exact fallback_unknown_session. Qed.

Theorem C08_fallback_expired_session : forall W h t pid off s td,
  last_persist pid h None = Some (s, td) -> td + W < t ->
  snd (step W t (ORestore pid off) (final W h)) = Some None.
Proof. exact fallback_expired_session. Qed.

Theorem C08_fallback_unknown_offset : forall W h t pid off,
  ~ In off (map p_id (emitted h)) ->
  snd (step W t (ORestore pid off) (final W h)) = Some None.
Proof. exact fallback_unknown_offset. Qed.
