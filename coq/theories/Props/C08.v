(** C08 - State recovery replays exactly the missed packets, or falls back cleanly.
    Statements only; every proof is `exact <lemma>`. *)
From SioV Require Import Base.GoSem Adapter.Session.

(** placeholder while the proofs are being written *)
Theorem C08_model_runs : final 10 [(0%Z, OBroadcast KEvent 1%N (mkOpts [] []))] = mkSt [] [mkPkt 1%N 0%Z (mkOpts [] [])].
Proof. reflexivity. Qed.
