(** C19 - Queued packets are sent without waiting for unrelated traffic (no lost wake-up).
    Statements only; every proof is `exact <lemma>`.  Two queues, both modelled as concurrent
    transition systems over Base/Conc.v and quantified over ALL schedules ([preachable] /
    [qreachable] = reachable by any interleaving of any number of producers, consumers, timers,
    close/reset/closers):
      - Eio/PollQueue.v    the long-polling transport's pollQueue (as repaired);
      - Sio/PacketQueue.v  the Socket.IO connection's packetQueue and its sender goroutine. *)
From Coq Require Import List NArith Bool Arith.
From SioV Require Import Base.Conc.
From SioV Require Eio.PollQueue Eio.PollQueueProofs Sio.PacketQueue Sio.PacketQueueProofs.
From SioV Require Eio.PollQueueSwap Eio.PollQueueSwapProofs.
From SioV Require Sio.Pipeline Sio.PipelineConn Sio.PacketQueuePark Sio.PacketQueueParkProofs.
Import ListNotations.

Module P := Eio.PollQueue.
Module PP := Eio.PollQueueProofs.
Module Q := Sio.PacketQueue.
Module QP := Sio.PacketQueueProofs.
Module W := Eio.PollQueueSwap.
Module WP := Eio.PollQueueSwapProofs.
Module C := Sio.PipelineConn.
Module K := Sio.PacketQueuePark.
Module KP := Sio.PacketQueueParkProofs.

(** * packetQueue (sender goroutine of a Socket.IO connection) *)

(** No lost wake-up: whenever packets are queued, the token is pending in [ready], or a producer
    that has appended is about to signal, or a consumer already took the token and is about to
    get().  In particular: packets queued, producers done, every consumer parked => token pending. *)
Theorem C19_pq_no_lost_wakeup : forall s,
  Q.qreachable s -> Q.q_q s <> [] ->
  Q.q_tok s = true \/ Q.q_nsig s > 0 \/ exists c, Q.q_pc s c = Q.QWoke.
Proof. exact QP.no_lost_wakeup. Qed.

Theorem C19_pq_no_lost_wakeup_parked : forall s,
  Q.qreachable s -> Q.q_q s <> [] -> Q.q_nsig s = 0 -> (forall c, Q.q_pc s c <> Q.QWoke) ->
  Q.q_tok s = true.
Proof. exact QP.no_lost_wakeup_parked. Qed.

(** Progress without any timer or other traffic: from every reachable state with packets queued
    and the producers past their signal, if a consumer is waiting inside poll then at most three
    steps of one consumer alone make its poll return the whole queue (and release a closer parked
    in waitForDrain). *)
Theorem C19_pq_progress : forall s c,
  Q.qreachable s -> Q.q_q s <> [] -> Q.q_nsig s = 0 -> Q.qwaiting (Q.q_pc s c) = true ->
  exists c' sched,
    length sched <= 3 /\
    (forall l, In l sched -> l = Q.QSelReady c' \/ l = Q.QGet c' \/ l = Q.QDrain c') /\
    exists s', exec_opt Q.qstep sched s = Some s' /\
      Q.q_pc s' c' = Q.QDone (Q.RPk (Q.q_q s)) /\ Q.q_q s' = [] /\
      (Q.q_wpark s > 0 -> Q.q_wclose s' = S (Q.q_wclose s) /\ Q.q_wpark s' = pred (Q.q_wpark s)).
Proof. exact QP.progress. Qed.

(** The sender goroutine running alone, from wherever it is in its loop (idle, between polls,
    parked at the wait, woken, about to signal drain): two iterations of its loop hand out the
    whole queue; no timer, heartbeat or further packet is needed. *)
Theorem C19_pq_sender_loop_delivers : forall s c,
  Q.qreachable s -> Q.q_q s <> [] -> Q.q_nsig s = 0 ->
  (forall c', c' <> c -> Q.q_pc s c' <> Q.QWoke) ->
  let s' := exec Q.qstep (QP.sender_round c ++ QP.sender_round c) s in
  Q.q_q s' = [] /\ Q.qdelivered (Q.q_log s') = Q.qdelivered (Q.q_log s) ++ Q.q_q s.
Proof. exact QP.sender_loop_delivers. Qed.

(** A poll that starts while packets are queued returns them in its first step. *)
Theorem C19_pq_arriving_poll_returns_queue : forall s c s',
  Q.q_q s <> [] -> Q.qstep (Q.QStart c) s = Some s' ->
  Q.q_pc s' c = Q.QDone (Q.RPk (Q.q_q s)) /\ Q.q_q s' = [].
Proof. exact QP.arriving_poll_returns_queue. Qed.

(** FIFO, nothing lost or duplicated: until close/reset discards something, the concatenation of
    what the polls returned, followed by what is still queued, is what was added, in order. *)
Theorem C19_pq_fifo_all_delivered : forall s,
  Q.qreachable s -> existsb Q.is_drop (Q.q_log s) = false ->
  Q.qdelivered (Q.q_log s) ++ Q.q_q s = Q.qadded (Q.q_log s).
Proof. exact QP.fifo_all_delivered. Qed.

(** close/reset racing anything: every packet leaves the queue exactly once, in order, either
    handed to a poll or discarded by the close()/reset() that found it queued. *)
Theorem C19_pq_close_drain : forall s,
  Q.qreachable s -> Q.qleft (Q.q_log s) ++ Q.q_q s = Q.qadded (Q.q_log s).
Proof. exact QP.fifo_conservation. Qed.

(** The close signal is not lost: after close(), a consumer parked at the wait returns closed by
    one step of its own, unless another poll already returned closed. *)
Theorem C19_pq_close_releases_consumer : forall s c,
  Q.qreachable s -> existsb Q.is_close (Q.q_log s) = true -> existsb Q.is_closed (Q.q_log s) = false ->
  Q.q_pc s c = Q.QWin ->
  exists s', Q.qstep (Q.QSelClose c) s = Some s' /\ Q.q_pc s' c = Q.QDone Q.RClosed.
Proof. exact QP.close_releases_consumer. Qed.

(** Closers and close()/reset() are never blocked by the queue. *)
Theorem C19_pq_closer_never_deadlocks : forall s,
  (Q.q_wpark s > 0 -> Q.qstep Q.WTimeout s <> None) /\ (Q.q_wclose s > 0 -> Q.qstep Q.WClose s <> None) /\
  (Q.q_wwin s > 0 -> Q.qstep Q.WEnter s <> None) /\ Q.qstep Q.QClose s <> None /\ Q.qstep Q.QReset s <> None.
Proof. exact QP.closer_never_deadlocks. Qed.

(** * pollQueue (long-polling transport, repaired) *)

Theorem C19_poll_no_lost_wakeup : forall s,
  P.preachable s -> P.p_q s <> [] -> P.p_tok s = true \/ exists c, P.p_pc s c = P.CWoke.
Proof. exact PP.no_lost_wakeup. Qed.

Theorem C19_poll_no_lost_wakeup_parked : forall s,
  P.preachable s -> P.p_q s <> [] -> (forall c, P.p_pc s c <> P.CWoke) -> P.p_tok s = true.
Proof. exact PP.no_lost_wakeup_parked. Qed.

(** The pending poll request gets the packets by at most two steps of its own; no timer step. *)
Theorem C19_poll_progress : forall s c,
  P.preachable s -> P.p_q s <> [] -> P.waiting (P.p_pc s c) = true ->
  exists c' sched,
    length sched <= 2 /\ forallb P.timer_free sched = true /\
    (forall l, In l sched -> l = P.PSelTok c' \/ l = P.PGet c') /\
    exists s', exec_opt P.pstep sched s = Some s' /\
      P.p_pc s' c' = P.CDone (P.p_q s) /\ P.p_q s' = [].
Proof. exact PP.progress. Qed.

(** One pending poll request: that request, running alone, returns the whole queue. *)
Theorem C19_poll_progress_single : forall s c,
  P.preachable s -> P.p_q s <> [] -> P.waiting (P.p_pc s c) = true ->
  (forall c', c' <> c -> P.p_pc s c' <> P.CWoke) ->
  let s' := alone P.pstep (P.PGet c) 1 (alone P.pstep (P.PSelTok c) 1 s) in
  P.p_pc s' c = P.CDone (P.p_q s) /\ P.p_q s' = [].
Proof. exact PP.progress_single. Qed.

(** One poll request running alone, wherever it is (not yet started, parked at the wait, woken):
    its three labels - start, take the token, get - make it return the whole queue; none of them
    involves the timer. *)
Theorem C19_poll_request_delivers : forall s c,
  P.preachable s -> P.p_q s <> [] -> (forall c', c' <> c -> P.p_pc s c' <> P.CWoke) ->
  let s' := exec P.pstep (PP.poll_request c) s in
  P.p_pc s' c = P.CDone (P.p_q s) /\ P.p_q s' = [] /\ forallb P.timer_free (PP.poll_request c) = true.
Proof. exact PP.poll_request_delivers. Qed.

(** ... or by the poll request that arrives next. *)
Theorem C19_poll_arriving_poll_returns_queue : forall s c s',
  P.p_q s <> [] -> P.pstep (P.PStart c) s = Some s' -> P.p_pc s' c = P.CDone (P.p_q s) /\ P.p_q s' = [].
Proof. exact PP.arriving_poll_returns_queue. Qed.

Theorem C19_poll_fifo_all_delivered : forall s,
  P.preachable s -> P.handed_out (P.p_log s) ++ P.p_q s = P.added (P.p_log s).
Proof. exact PP.fifo_all_delivered. Qed.

(** A poll never answers empty while packets are queued: the only step that makes a poll answer
    [] is the timeout branch, with the timer expired, taken when the queue is empty ... *)
Theorem C19_poll_never_empty_while_queued : forall s l s' c,
  P.pstep l s = Some s' -> P.p_pc s' c = P.CDone [] -> P.p_pc s c <> P.CDone [] ->
  l = P.PSelTimeout c /\ P.p_q s = [] /\ P.p_fired s c = true.
Proof. exact PP.never_empty_while_queued. Qed.

(** ... so at every empty answer in any history, everything added before it had been handed out. *)
Theorem C19_poll_empty_answer_means_all_handed_out : forall s,
  P.preachable s ->
  forall pre c post, P.p_log s = pre ++ P.ERet c [] :: post -> P.handed_out pre = P.added pre.
Proof. exact PP.empty_answer_means_all_handed_out. Qed.

(** * Which queue a packet goes to: Send racing the transport swap (engine.io server socket) *)

(** For the code as it is (Send holds transportMu.RLock across the transport write), over ALL
    schedules of any number of senders, successive upgrades and peers: a transport that has been
    discarded (no longer current, its drain into the new transport over) holds no packet - nothing
    is ever added to a discarded transport's queue after its drain, so nothing is stranded where no
    poll request, heartbeat or later packet would flush it. *)
Theorem C19_swap_no_stranded : forall s t,
  W.wreachable true s -> W.discarded s t -> W.w_queue s t = [].
Proof. exact WP.no_stranded. Qed.

(** A sender that has picked a transport still has the current one, no swap is in progress, and
    the upgrade cannot take the lock before the packet is queued and the sender has released. *)
Theorem C19_swap_send_targets_current : forall s i t p,
  W.wreachable true s -> W.w_spc s i = W.SHave t p ->
  t = W.w_cur s /\ W.w_upc s = W.UIdle /\ W.wstep true W.UAcquire s = None.
Proof. exact WP.send_targets_current. Qed.

(** Holding the lock across the write costs no liveness inside the socket: a sender holding it,
    and an upgrade holding it, can always take their next step; a new sender waits only for an
    upgrade in progress. *)
Theorem C19_swap_no_deadlock : forall s,
  (forall i t p, W.w_spc s i = W.SHave t p -> W.wstep true (W.WAdd i) s <> None) /\
  (forall i, W.w_spc s i = W.SAdded -> W.wstep true (W.WRelease i) s <> None) /\
  (W.w_upc s = W.ULocked -> W.wstep true W.USwap s <> None) /\
  (forall o, W.w_upc s = W.USwapped o -> W.wstep true W.UDrain s <> None) /\
  (W.w_upc s = W.UDrained -> W.wstep true W.URelease s <> None) /\
  (forall i p, W.w_spc s i = W.SIdle -> W.w_wr s = false -> W.wstep true (W.WAcquire i p) s <> None).
Proof. exact WP.swap_no_deadlock. Qed.

(** The variant that releases the read lock before the write (`s.Transport().Send(p)`) violates
    the property: sender picks transport 0, a complete upgrade overtakes it, packet 7 lands in the
    discarded transport's queue and stays there whatever the current transport's peer takes.
    (Replayed on the real socket by the swap suite: schedule N0 hold; U; R0.) *)
Theorem C19_swap_unlocked_send_refuted :
  exists s, exec_opt (W.wstep false) WP.stranding_schedule W.winit = Some s /\
            W.discarded s 0 /\ W.w_queue s 0 = [7%N] /\ W.w_queue s (W.w_cur s) = [] /\
            forall s', W.wstep false (W.WTake (W.w_cur s)) s = Some s' -> W.w_queue s' 0 = [7%N].
Proof. exact WP.unlocked_send_strands_packet. Qed.

(** ... and that schedule is not a run of the code as it is: the upgrade cannot take the lock. *)
Theorem C19_swap_locked_send_blocks_upgrade :
  exec_opt (W.wstep true) WP.stranding_schedule W.winit = None /\
  exists s, exec_opt (W.wstep true) [W.WAcquire 0 7%N] W.winit = Some s /\ W.wstep true W.UAcquire s = None.
Proof. exact WP.locked_send_blocks_that_schedule. Qed.

(** * In front of the packet queue: the client socket's park / flush stage (CONNECT pending) *)

(** Over b-C02's model of the stage (Sio/PipelineConn.v, [cstep_fix] = the code as it is), with the
    flush of onConnect restricted to the single call the code makes ([K.kstep], [K.KFlush]); for
    ALL schedules of any number of emitters, the CONNECT reply, its flush and everything downstream:
    a packet sits in sendBuffer of a CONNECTED socket only while that flush is still to come, and the
    flush is enabled and hands every parked packet, in order, to the packet queue in one step. *)
Theorem C19_park_flush_pending :
  forall (data : Type) declared max_atts split tr (progs : list (list (Sio.Pipeline.spacket data))) k,
  K.kreachable (K.cfix declared max_atts split tr) progs k ->
  C.c_connected (K.k_c k) = true -> C.c_parked (K.k_c k) <> [] ->
  K.k_flushed k = false /\
  exists k', K.kstep (K.cfix declared max_atts split tr) K.KFlush k = Some k' /\
    C.c_parked (K.k_c k') = [] /\ C.c_sendbuf (K.k_c k') = [] /\
    Sio.Pipeline.st_log (C.c_base (K.k_c k')) = Sio.Pipeline.st_log (C.c_base (K.k_c k)) ++ C.c_parked (K.k_c k).
Proof. exact (@KP.park_flush_pending). Qed.

(** Once the flush has run nothing is parked, ever: no packet is stranded behind it ... *)
Theorem C19_park_none_stranded :
  forall (data : Type) declared max_atts split tr (progs : list (list (Sio.Pipeline.spacket data))) k,
  K.kreachable (K.cfix declared max_atts split tr) progs k -> K.k_flushed k = true ->
  C.c_parked (K.k_c k) = [] /\ C.c_sendbuf (K.k_c k) = [].
Proof. exact (@KP.park_none_stranded). Qed.

(** ... and every emit after it goes straight to the packet queue. *)
Theorem C19_park_emit_after_flush_is_sent :
  forall (data : Type) declared max_atts split tr (progs : list (list (Sio.Pipeline.spacket data))) k i k',
  K.kreachable (K.cfix declared max_atts split tr) progs k -> K.k_flushed k = true ->
  K.kstep (K.cfix declared max_atts split tr) (K.KAct (C.CEmit i)) k = Some k' ->
  exists p, Sio.Pipeline.st_log (C.c_base (K.k_c k')) = Sio.Pipeline.st_log (C.c_base (K.k_c k)) ++ [(i, p)]
            /\ C.c_parked (K.k_c k') = [].
Proof. exact (@KP.park_emit_after_flush_is_sent). Qed.

(** The variant whose decision uses a state sampled BEFORE sendBufferMu is taken violates the
    property: the emit samples "not connected", the CONNECT reply and its flush run, the emit then
    parks packet 1 - connected, flush over, packet parked; no flush is enabled any more and the next
    emit parks behind it instead of being sent.  (Replayed on the real socket by the park suite:
    E0; C; F; R0.) *)
Theorem C19_park_stale_read_refuted :
  exists k, exec_opt KP.kstale KP.stale_schedule (K.kinit KP.stale_progs) = Some k /\
    C.c_connected (K.k_c k) = true /\ K.k_flushed k = true /\ map snd (C.c_parked (K.k_c k)) = [KP.p1] /\
    KP.kstale K.KFlush k = None /\
    exists k', KP.kstale (K.KAct (C.CEmit 0)) k = Some k' /\ map snd (C.c_parked (K.k_c k')) = [KP.p1; KP.p2] /\
               Sio.Pipeline.st_log (C.c_base (K.k_c k')) = [].
Proof. exact KP.stale_read_strands_packet. Qed.

(** * The original pollQueue (unbuffered ready, no re-check) violates the property *)

(** Witness (replayed on the real queue by the forced-schedule suite; on the repaired code the
    consumer returns packet 1 at once): consumer finds the queue empty; producer adds packet 1 in
    the window; consumer parks; poll timeout; the poll answers EMPTY with packet 1 queued. *)
Theorem C19_poll_lost_wakeup_refuted_in_original :
  exists s, exec_opt (P.ostep 1) [P.OStart 0; P.OAdd [1%N] None; P.OEnter 0; P.OTimeout 0] P.oinit = Some s /\
            P.o_q s = [1%N] /\ P.o_pc s 0 = P.ODone [].
Proof. exact PP.original_loses_wakeup. Qed.

Theorem C19_poll_original_parked_with_packet_queued :
  exists s, exec_opt (P.ostep 1) [P.OStart 0; P.OAdd [1%N] None; P.OEnter 0] P.oinit = Some s /\
            P.o_q s = [1%N] /\ P.o_pc s 0 = P.OPark /\
            P.ostep 1 (P.OGet 0) s = None /\ P.ostep 1 (P.OStart 0) s = None /\ P.ostep 1 (P.OEnter 0) s = None.
Proof. exact PP.original_parked_forever_without_timer. Qed.

(** Non-vacuity: the hypotheses of the progress theorems are reachable (consumer in the window,
    producer adds, consumer still waiting with the packet queued), and the run delivers. *)
Example C19_poll_example :
  let s := exec P.pstep [P.PStart 0; P.PAdd [7%N]] P.pinit in
  P.p_q s = [7%N] /\ P.waiting (P.p_pc s 0) = true /\
  P.p_pc (exec P.pstep [P.PSelTok 0; P.PGet 0] s) 0 = P.CDone [7%N].
Proof. vm_compute. repeat split; reflexivity. Qed.

Example C19_pq_example :
  let s := exec Q.qstep [Q.QStart 0; Q.QAppend [7%N]; Q.QSignal] Q.qinit in
  Q.q_q s = [7%N] /\ Q.q_nsig s = 0 /\ Q.qwaiting (Q.q_pc s 0) = true /\
  Q.q_pc (exec Q.qstep [Q.QSelReady 0; Q.QGet 0; Q.QDrain 0] s) 0 = Q.QDone (Q.RPk [7%N]).
Proof. vm_compute. repeat split; reflexivity. Qed.
