(** Base/Conc.v - a small, dependency-free library for concurrent transition systems.

    A system is a type of states, a type [tid] of schedulable actions (a thread id, or a thread id
    together with the resolution of a non-deterministic choice such as "which ready case a Go
    [select] takes") and a partial step function

        step : tid -> state -> option state        (None = that action is not enabled: the
                                                     thread is blocked, finished, or absent)

    A mutex-protected critical section is ONE step.  A run is a fold over a schedule [list tid].
    Two ways of running are provided:
      - [exec]    : a disabled action is skipped (stutters), so every schedule is a run;
      - [exec_opt]: a disabled action aborts the run (None), for replaying recorded schedules.
    [reachable] is the usual inductive closure; [invariant_reachable] is the
    invariant-by-induction principle, with variants for [exec] / [exec_opt] and for invariants
    that need a second, already established one.  [alone] runs one action repeatedly (bounded
    progress statements: "scheduling the consumer alone delivers within k steps").

    Only the Coq standard library ([List]) is used.  Everything is axiom-free. *)
From Coq Require Import List.
Import ListNotations.

Set Implicit Arguments.

Section Conc.
  Variables (state tid : Type).
  Variable step : tid -> state -> option state.

  (** ** Running schedules *)

  (** One action; a disabled action leaves the state unchanged. *)
  Definition step_skip (s : state) (t : tid) : state :=
    match step t s with Some s' => s' | None => s end.

  (** Run a schedule from [s]; disabled actions are skipped. *)
  Definition exec (sched : list tid) (s : state) : state := fold_left step_skip sched s.

  (** Run a schedule from [s]; [None] as soon as an action is not enabled. *)
  Fixpoint exec_opt (sched : list tid) (s : state) : option state :=
    match sched with
    | [] => Some s
    | t :: sched' => match step t s with Some s' => exec_opt sched' s' | None => None end
    end.

  (** The states visited by [exec], the start state first (length = S (length sched)). *)
  Fixpoint trace (sched : list tid) (s : state) : list state :=
    match sched with
    | [] => [s]
    | t :: sched' => s :: trace sched' (step_skip s t)
    end.

  Definition enabled (t : tid) (s : state) : Prop := step t s <> None.
  Definition enabledb (t : tid) (s : state) : bool :=
    match step t s with Some _ => true | None => false end.

  (** No action of the list is enabled (all those threads are blocked / finished). *)
  Definition quiescent (ts : list tid) (s : state) : Prop := forall t, In t ts -> step t s = None.

  Lemma exec_nil s : exec [] s = s.
  Proof. reflexivity. Qed.

  Lemma exec_cons t sched s : exec (t :: sched) s = exec sched (step_skip s t).
  Proof. reflexivity. Qed.

  Lemma exec_app a b s : exec (a ++ b) s = exec b (exec a s).
  Proof. unfold exec. apply fold_left_app. Qed.

  Lemma exec_opt_app a b s :
    exec_opt (a ++ b) s = match exec_opt a s with Some s' => exec_opt b s' | None => None end.
  Proof.
    revert s; induction a as [|t a IH]; intros s; simpl; [reflexivity|].
    destruct (step t s); [apply IH | reflexivity].
  Qed.

  (** A strict run is also a skipping run. *)
  Lemma exec_opt_exec sched s s' : exec_opt sched s = Some s' -> exec sched s = s'.
  Proof.
    revert s; induction sched as [|t sched IH]; intros s; simpl.
    - now intros [= ->].
    - unfold step_skip. destruct (step t s) as [s1|] eqn:E; [|discriminate]. apply IH.
  Qed.

  Lemma trace_length sched s : length (trace sched s) = S (length sched).
  Proof. revert s; induction sched; intros; simpl; auto. Qed.

  Lemma trace_last sched s : last (trace sched s) s = exec sched s.
  Proof.
    revert s; induction sched as [|t sched IH]; intros s; simpl; [reflexivity|].
    rewrite <- IH. destruct (trace sched (step_skip s t)) eqn:E.
    - pose proof (trace_length sched (step_skip s t)) as L. rewrite E in L. discriminate.
    - clear. generalize (step_skip s t) as d. revert s s0.
      induction l as [|x l IHl]; intros; simpl; [reflexivity|]. destruct l; [reflexivity|].
      apply (IHl s x).
  Qed.

  (** ** Reachability and invariants *)

  Variable init : state -> Prop.

  Inductive reachable : state -> Prop :=
  | reach_init s : init s -> reachable s
  | reach_step s t s' : reachable s -> step t s = Some s' -> reachable s'.

  Lemma reachable_step_skip s t : reachable s -> reachable (step_skip s t).
  Proof.
    intros R. unfold step_skip. destruct (step t s) eqn:E; [eapply reach_step; eauto | exact R].
  Qed.

  Lemma reachable_exec sched s : reachable s -> reachable (exec sched s).
  Proof.
    revert s; induction sched as [|t sched IH]; intros s R; simpl; [exact R|].
    apply IH, reachable_step_skip, R.
  Qed.

  Lemma reachable_exec_opt sched s s' : reachable s -> exec_opt sched s = Some s' -> reachable s'.
  Proof. intros R E. apply exec_opt_exec in E. subst. now apply reachable_exec. Qed.

  (** Every reachable state is the result of a strict run from an initial state. *)
  Lemma reachable_has_schedule s :
    reachable s -> exists s0 sched, init s0 /\ exec_opt sched s0 = Some s.
  Proof.
    induction 1 as [s I | s t s' R (s0 & sched & I & E) St].
    - exists s, []. split; [exact I | reflexivity].
    - exists s0, (sched ++ [t]). split; [exact I|]. rewrite exec_opt_app, E. simpl. now rewrite St.
  Qed.

  (** [P] is inductive: holds initially and is preserved by every enabled action. *)
  Definition inductive (P : state -> Prop) : Prop :=
    (forall s, init s -> P s) /\ (forall s t s', P s -> step t s = Some s' -> P s').

  (** [P] is inductive relative to an invariant [Q] already known. *)
  Definition inductive_under (Q P : state -> Prop) : Prop :=
    (forall s, init s -> P s) /\ (forall s t s', Q s -> P s -> step t s = Some s' -> P s').

  (** Invariant by induction: the proof principle for "for ALL schedules". *)
  Theorem invariant_reachable (P : state -> Prop) : inductive P -> forall s, reachable s -> P s.
  Proof. intros [HI HS] s R. induction R; eauto. Qed.

  Theorem invariant_reachable_under (Q P : state -> Prop) :
    (forall s, reachable s -> Q s) -> inductive_under Q P -> forall s, reachable s -> P s.
  Proof. intros HQ [HI HS] s R. induction R; eauto. Qed.

  Corollary invariant_exec (P : state -> Prop) :
    inductive P -> forall s0 sched, init s0 -> P (exec sched s0).
  Proof. intros H s0 sched I. apply invariant_reachable; [exact H|]. apply reachable_exec, reach_init, I. Qed.

  Corollary invariant_exec_opt (P : state -> Prop) :
    inductive P -> forall s0 sched s, init s0 -> exec_opt sched s0 = Some s -> P s.
  Proof.
    intros H s0 sched s I E. apply invariant_reachable; [exact H|].
    eapply reachable_exec_opt; [apply reach_init, I | exact E].
  Qed.

  (** Every state of the trace of a run from an initial state satisfies an inductive [P]. *)
  Corollary invariant_trace (P : state -> Prop) :
    inductive P -> forall s0 sched, init s0 -> Forall P (trace sched s0).
  Proof.
    intros H s0 sched I. assert (R : reachable s0) by now apply reach_init.
    clear I. revert s0 R. induction sched as [|t sched IH]; intros s0 R; simpl.
    - constructor; [|constructor]. now apply invariant_reachable.
    - constructor; [now apply invariant_reachable|]. apply IH, reachable_step_skip, R.
  Qed.

  (** Step-indexed relational invariant (history variables): if [P] relates consecutive states
      of every enabled step from a reachable state, it relates them along every run. *)
  Lemma step_property_exec (Q : state -> Prop) (P : state -> state -> Prop) :
    (forall s, reachable s -> Q s) ->
    (forall s, P s s) ->
    (forall s1 s2 s3, P s1 s2 -> P s2 s3 -> P s1 s3) ->
    (forall s t s', Q s -> step t s = Some s' -> P s s') ->
    forall sched s, reachable s -> P s (exec sched s).
  Proof.
    intros HQ Hrefl Htrans Hstep sched. induction sched as [|t sched IH]; intros s R; simpl.
    - apply Hrefl.
    - eapply Htrans; [|apply IH, reachable_step_skip, R].
      unfold step_skip. destruct (step t s) eqn:E; [eapply Hstep; eauto | apply Hrefl].
  Qed.

  (** ** One action alone, repeatedly (bounded progress) *)

  (** Run action [t] up to [k] times, stopping when it is no longer enabled. *)
  Fixpoint alone (t : tid) (k : nat) (s : state) : state :=
    match k with
    | O => s
    | S k' => match step t s with Some s' => alone t k' s' | None => s end
    end.

  Lemma alone_exec t k s : alone t k s = exec (repeat t k) s.
  Proof.
    revert s; induction k as [|k IH]; intros s; simpl; [reflexivity|].
    unfold step_skip. destruct (step t s) as [s'|] eqn:E; [apply IH|].
    clear IH. induction k as [|k IHk]; simpl; [reflexivity|].
    unfold step_skip. now rewrite E.
  Qed.

  Lemma reachable_alone t k s : reachable s -> reachable (alone t k s).
  Proof. intros R. rewrite alone_exec. now apply reachable_exec. Qed.

  (** Run the actions of [ts] round-robin, [k] rounds, skipping the disabled ones. *)
  Definition rounds (ts : list tid) (k : nat) (s : state) : state :=
    exec (concat (repeat ts k)) s.

  Lemma reachable_rounds ts k s : reachable s -> reachable (rounds ts k s).
  Proof. apply reachable_exec. Qed.

End Conc.

(** ** Small helpers for thread-indexed state: total maps [nat -> A] with point update. *)
Definition upd {A} (f : nat -> A) (i : nat) (a : A) : nat -> A :=
  fun j => if Nat.eqb j i then a else f j.

Lemma upd_same {A} (f : nat -> A) i a : upd f i a i = a.
Proof. unfold upd. now rewrite PeanoNat.Nat.eqb_refl. Qed.

Lemma upd_other {A} (f : nat -> A) i j a : j <> i -> upd f i a j = f j.
Proof. unfold upd. intros H. apply PeanoNat.Nat.eqb_neq in H. now rewrite H. Qed.
