(** Base conventions shared by every model: bytes, Go-style results, small list helpers.
    Bytes are [N] (a Go [byte] b satisfies [b < 256]; [bytes_ok] states it). *)
From Coq Require Export List NArith ZArith Bool Lia.
Export ListNotations.

Definition byte := N.
Definition bytes := list N.

Definition byte_ok (b : N) : bool := (b <? 256)%N.
Definition bytes_ok (bs : bytes) : bool := forallb byte_ok bs.

(** Result of a Go call that may return an error or panic. *)
Inductive res (A : Type) : Type :=
| Ok (a : A)
| Err            (* the function returned a non-nil error *)
| Panic.         (* Go would panic here (index/slice out of range, nil deref, ...) *)
Arguments Ok {A} a.
Arguments Err {A}.
Arguments Panic {A}.

Definition rbind {A B} (r : res A) (f : A -> res B) : res B :=
  match r with Ok a => f a | Err => Err | Panic => Panic end.

Definition is_panic {A} (r : res A) : bool :=
  match r with Panic => true | _ => false end.

Definition sumZ (l : list Z) : Z := fold_right Z.add 0%Z l.

Fixpoint list_eqb {A} (eqb : A -> A -> bool) (a b : list A) : bool :=
  match a, b with
  | [], [] => true
  | x :: a', y :: b' => eqb x y && list_eqb eqb a' b'
  | _, _ => false
  end.

Lemma list_eqb_eq {A} (eqb : A -> A -> bool) :
  (forall x y, eqb x y = true <-> x = y) ->
  forall a b, list_eqb eqb a b = true <-> a = b.
Proof.
  intros H a; induction a as [|x a IH]; intros [|y b]; simpl; split; intros E;
    try reflexivity; try discriminate.
  - apply andb_true_iff in E as [E1 E2]. apply H in E1. apply IH in E2. now subst.
  - inversion E; subst. apply andb_true_iff; split; [now apply H | now apply IH].
Qed.
