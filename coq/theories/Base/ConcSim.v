(** Base/ConcSim.v - executable helpers for replaying observed runs of a real implementation on a
    non-deterministic model: sets of candidate states kept as duplicate-free lists (states are
    compared through a user-supplied key), and the closure of a set under a successor function
    until quiescence ("let every released thread run until it blocks or finishes").
    Dependency-free (Coq standard library only).  Used by the correspondence checks (…Check.v). *)
From Coq Require Import List NArith Bool.
Import ListNotations.

Fixpoint key_eqb (a b : list N) : bool :=
  match a, b with
  | [], [] => true
  | x :: a', y :: b' => if N.eqb x y then key_eqb a' b' else false
  | _, _ => false
  end.

Section Sim.
  Variable S : Type.
  Variable key : S -> list N.

  Fixpoint key_mem (k : list N) (l : list S) : bool :=
    match l with
    | [] => false
    | x :: l' => if key_eqb k (key x) then true else key_mem k l'
    end.

  (** Keep the first state of every key. *)
  Fixpoint dedupe_acc (acc l : list S) : list S :=
    match l with
    | [] => rev acc
    | x :: l' => if key_mem (key x) acc then dedupe_acc acc l' else dedupe_acc (x :: acc) l'
    end.
  Definition dedupe (l : list S) : list S := dedupe_acc [] l.

  Variable succ : S -> list S.   (* all one-step successors by the threads allowed to run *)

  (** Split a frontier into quiescent states (no successor) and the successors of the others. *)
  Fixpoint expand (frontier : list S) : list S * list S :=
    match frontier with
    | [] => ([], [])
    | x :: f' =>
        let '(fin, nxt) := expand f' in
        match succ x with
        | [] => (x :: fin, nxt)
        | ys => (fin, ys ++ nxt)
        end
    end.

  (** All quiescent states reachable from the frontier (maximal runs).  [fuel] bounds the length
      of a run; states still running when the fuel is exhausted are dropped. *)
  Fixpoint quiesce (fuel : nat) (frontier finals : list S) : list S :=
    match fuel with
    | O => dedupe finals
    | Datatypes.S f =>
        let '(fin, nxt) := expand frontier in
        match nxt with
        | [] => dedupe (fin ++ finals)
        | _ => quiesce f (dedupe nxt) (fin ++ finals)
        end
    end.
End Sim.

Arguments dedupe {S} key l.
Arguments quiesce {S} key succ fuel frontier finals.
