(** Model of the two room indexes of adapter/adapter_memory.go (inMemoryAdapter):

      rooms map[Room]Set[SocketID]     sids map[SocketID]Set[Room]

    and of AddAll / Delete / delete / DeleteAll exactly as the code updates them.  Socket ids and
    room names are [positive] (the harness interns the Go strings; a socket's own room - Room(id) -
    is the same number as its id).  Every operation runs under the adapter mutex, so each is one
    atomic step; a history is a list of operations folded from the empty adapter. *)
From stdpp Require Export gmap.

Notation sid := positive (only parsing).
Notation room := positive (only parsing).

Record adapter := Adapter {
  a_rooms : gmap positive (gset positive);   (* room -> sockets *)
  a_sids  : gmap positive (gset positive)    (* socket -> rooms *)
}.

Definition empty_adapter : adapter := Adapter ∅ ∅.

(** Lookups the way Go reads a missing key of a map of sets: "no set". *)
Definition room_sids (st : adapter) (r : room) : gset sid := default ∅ (a_rooms st !! r).
Definition sid_rooms (st : adapter) (s : sid) : gset room := default ∅ (a_sids st !! s).

(** Body of the loop of AddAll for one room:
      s := a.sids[sid]; s.Add(room)
      r, ok := a.rooms[room]; if !ok { r = new set; a.rooms[room] = r }
      if !r.Contains(sid) { r.Add(sid) }                                   *)
Definition add_one (s : sid) (st : adapter) (r : room) : adapter :=
  Adapter (<[r := {[s]} ∪ room_sids st r]> (a_rooms st))
          (alter (λ x, {[r]} ∪ x) s (a_sids st)).

(** AddAll: the sid entry is created first, even when the room list is empty. *)
Definition add_all (s : sid) (rs : list room) (st : adapter) : adapter :=
  let st0 := match a_sids st !! s with
             | Some _ => st
             | None => Adapter (a_rooms st) (<[s := ∅]> (a_sids st))
             end in
  foldl (add_one s) st0 rs.

(** delete (unexported): remove sid from the room's set; drop the room when it became empty. *)
Definition del_room (s : sid) (rm : gmap positive (gset positive)) (r : room) :=
  match rm !! r with
  | Some x => let x' := x ∖ {[s]} in
              if decide (size x' = 0) then delete r rm else <[r := x']> rm
  | None => rm
  end.

(** Delete: s, ok := a.sids[sid]; if ok { s.Remove(room) }; a.delete(sid, room).
    The sid entry stays, possibly with an empty room set. *)
Definition delete_room (s : sid) (r : room) (st : adapter) : adapter :=
  Adapter (del_room s (a_rooms st) r) (alter (λ x, x ∖ {[r]}) s (a_sids st)).

(** DeleteAll: unknown sid -> nothing; else a.delete(sid, room) for each room of the sid's set,
    then delete(a.sids, sid).  (Go iterates the set in map order; the model in key order - the
    result does not depend on it: RoomsProofs.foldl_del_room_look holds for any list.) *)
Definition delete_all (s : sid) (st : adapter) : adapter :=
  match a_sids st !! s with
  | None => st
  | Some x => Adapter (foldl (del_room s) (a_rooms st) (elements x)) (delete s (a_sids st))
  end.

(** Adapter-level operations and histories. *)
Inductive aop :=
| AddAll (s : sid) (rs : list room)
| Delete (s : sid) (r : room)
| DeleteAll (s : sid).

Definition astep (st : adapter) (o : aop) : adapter :=
  match o with
  | AddAll s rs => add_all s rs st
  | Delete s r => delete_room s r st
  | DeleteAll s => delete_all s st
  end.

Definition arun (h : list aop) : adapter := foldl astep empty_adapter h.

(** Abstract membership: a set of (socket, room) pairs plus the set of registered sockets, folded
    over the same history.  This is the specification "net effect of the joins and leaves". *)
Record amem := AMem { m_pairs : gset (positive * positive); m_present : gset positive }.

Definition mstep (m : amem) (o : aop) : amem :=
  match o with
  | AddAll s rs => AMem (m_pairs m ∪ list_to_set (map (λ r, (s, r)) rs)) (m_present m ∪ {[s]})
  | Delete s r => AMem (m_pairs m ∖ {[(s, r)]}) (m_present m)
  | DeleteAll s => AMem (filter (λ p, p.1 ≠ s) (m_pairs m)) (m_present m ∖ {[s]})
  end.

Definition mrun (h : list aop) : amem := foldl mstep (AMem ∅ ∅) h.

(** Declarative reading of "net effect": what an operation does to one (socket, room) pair. *)
Definition joins (s : sid) (r : room) (o : aop) : Prop :=
  match o with AddAll s' rs => s' = s ∧ r ∈ rs | _ => False end.
Definition leaves (s : sid) (r : room) (o : aop) : Prop :=
  match o with
  | Delete s' r' => s' = s ∧ r' = r
  | DeleteAll s' => s' = s
  | AddAll _ _ => False
  end.
(** s is in r after h iff some operation of h joined s to r and no later one made it leave. *)
Definition member_after (h : list aop) (s : sid) (r : room) : Prop :=
  ∃ h1 o h2, h = h1 ++ o :: h2 ∧ joins s r o ∧ Forall (λ o', ¬ leaves s r o') h2.

(** The invariant of the two indexes. *)
Definition indexes_inverse (st : adapter) : Prop :=
  (∀ s r, s ∈ room_sids st r ↔ r ∈ sid_rooms st s) ∧
  (∀ r x, a_rooms st !! r = Some x → x ≠ ∅).
