(** AddSockets / DelSockets / DisconnectSockets run their callback INSIDE apply's loops: the
    callback (socket.Join / Leave / Disconnect) changes the very indexes apply is iterating.
    Broadcast.nstep models these operations as "select in the state before the call, then apply
    the callback per socket".  This file models the interleaving itself - each room is looked up
    in the CURRENT state when the outer loop reaches it, a key removed before the inner loop
    reaches it is not produced (Go map semantics; the callbacks never insert a new key into the
    map being iterated), the except set is computed once - for arbitrary iteration orders, and
    proves that the interleaved execution refines the same abstract set-wise operation.  Hence the
    simplification in Broadcast.nstep loses nothing. *)
From SioV Require Import Adapter.Rooms Adapter.RoomsProofs Adapter.Broadcast Adapter.BroadcastSpec
  Adapter.BroadcastProofs Adapter.BroadcastNspProofs.

Section interleaved.
  (** the callback and the abstract operation it implements on a set of sockets *)
  Context (cb : nsp → sid → nsp) (OP : gset sid → ansp → ansp).
  Hypothesis H_cb : ∀ n a s, J n a → J (cb n s) (OP {[s]} a).
  Hypothesis H_union : ∀ X s a, aeq (OP {[s]} (OP X a)) (OP (X ∪ {[s]}) a).
  Hypothesis H_empty : ∀ a, aeq (OP ∅ a) a.
  Hypothesis H_frame_pairs : ∀ X a s r, s ∉ X → ((s, r) ∈ an_pairs (OP X a) ↔ (s, r) ∈ an_pairs a).
  Hypothesis H_frame_store : ∀ X a s, s ∉ X → (s ∈ an_store (OP X a) ↔ s ∈ an_store a).
  Hypothesis H_frame_present : ∀ X a s, s ∉ X → (s ∈ an_present (OP X a) ↔ s ∈ an_present a).

  (** iteration orders: any enumeration of a set's keys *)
  Context (ord : gset sid → list sid) (Hord : ∀ x s, s ∈ ord x ↔ s ∈ x).

  Definition visit_i (ex : gset sid) (r : room) (acc : nsp * gset sid) (s : sid) : nsp * gset sid :=
    let '(n, ids) := acc in
    if decide (s ∈ room_sids (n_ad n) r) then            (* still in the map when reached *)
      if decide (s ∈ ids ∨ s ∈ ex) then acc
      else if n_known n s then (cb n s, ids ∪ {[s]}) else acc
    else acc.

  Definition room_i (ex : gset sid) (acc : nsp * gset sid) (r : room) : nsp * gset sid :=
    match a_rooms (n_ad acc.1) !! r with                  (* looked up when the outer loop gets here *)
    | None => acc
    | Some x => foldl (visit_i ex r) acc (ord x)
    end.

  Definition all_i (ex : gset sid) (acc : nsp * gset sid) (s : sid) : nsp * gset sid :=
    let '(n, ids) := acc in
    if decide (s ∈ dom (a_sids (n_ad n))) then
      if decide (s ∈ ex) then acc
      else if n_known n s then (cb n s, ids ∪ {[s]}) else acc
    else acc.

  Definition apply_i (n : nsp) (T E : gset room) (Tl : list room) (all : list sid) : nsp :=
    let ex := except_sids E (n_ad n) in
    if decide (0 < size T) then (foldl (room_i ex) (n, ∅) Tl).1
    else (foldl (all_i ex) (n, ∅) all).1.

  (** prefix-indexed loop invariants *)
  Lemma foldl_prefix_inv {A B} (f : A → B → A) (P : list B → A → Prop) l a :
    P [] a → (∀ pre x a, P pre a → P (pre ++ [x]) (f a x)) → P l (foldl f a l).
  Proof.
    intros H0 Hs. assert (G : ∀ pre a, P pre a → P (pre ++ l) (foldl f a l)); [|by apply (G [])].
    induction l as [|x l IH]; intros pre a' Hp; simpl; [by rewrite app_nil_r|].
    replace (pre ++ x :: l) with ((pre ++ [x]) ++ l) by (by rewrite <- app_assoc). apply IH. by apply Hs.
  Qed.

  Context (n0 : nsp) (a0 : ansp) (HJ0 : J n0 a0) (T E : gset room).
  Let ex := except_sids E (n_ad n0).
  Let Sel := an_selected a0 T E.

  (** the loop invariant: the current state is the initial one with the callback applied to the
      visited sockets, and only selected sockets have been visited *)
  Definition Inv (acc : nsp * gset sid) : Prop := acc.2 ⊆ Sel ∧ J acc.1 (OP acc.2 a0).

  Lemma frame_room n ids s r : J n (OP ids a0) → s ∉ ids →
    (s ∈ room_sids (n_ad n) r ↔ s ∈ room_sids (n_ad n0) r).
  Proof.
    intros [([Hi _] & _) (H1 & _)] Hs. destruct HJ0 as [([Hi0 _] & _) (H10 & _)].
    rewrite Hi, <- H1, (H_frame_pairs _ _ _ _ Hs), H10, <- Hi0. done.
  Qed.
  Lemma frame_known n ids s : J n (OP ids a0) → s ∉ ids → n_known n s = n_known n0 s.
  Proof.
    intros [_ (_ & _ & H3 & _)] Hs. destruct HJ0 as [_ (_ & _ & H30 & _)].
    unfold n_known. apply bool_decide_ext. rewrite <- H3, (H_frame_store _ _ _ Hs), H30. done.
  Qed.
  Lemma frame_present n ids s : J n (OP ids a0) → s ∉ ids →
    (s ∈ dom (a_sids (n_ad n)) ↔ s ∈ dom (a_sids (n_ad n0))).
  Proof.
    intros [_ (_ & H2 & _)] Hs. destruct HJ0 as [_ (_ & H20 & _)].
    rewrite <- H2, (H_frame_present _ _ _ Hs), H20. done.
  Qed.

  Lemma Sel_spec s : s ∈ Sel ↔ selected (n_known n0) T E (n_ad n0) s.
  Proof. symmetry. by apply J_selected. Qed.

  Lemma Inv_visit n ids s : Inv (n, ids) → s ∈ Sel → Inv (cb n s, ids ∪ {[s]}).
  Proof.
    intros [Hsub HJ] Hs. split; simpl in *; [set_solver|].
    eapply J_aeq; [apply H_cb, HJ|]. apply H_union.
  Qed.

  (** ** rooms branch *)
  Lemma visit_i_inv r l acc :
    r ∈ T → Inv acc →
    let acc' := foldl (visit_i ex r) acc l in
    Inv acc' ∧ acc.2 ⊆ acc'.2 ∧
    (∀ s, s ∈ l → s ∈ Sel → s ∈ room_sids (n_ad n0) r → s ∈ acc'.2).
  Proof.
    intros Hr Hinv.
    apply (foldl_prefix_inv (visit_i ex r)
      (λ pre acc', Inv acc' ∧ acc.2 ⊆ acc'.2 ∧ ∀ s, s ∈ pre → s ∈ Sel → s ∈ room_sids (n_ad n0) r → s ∈ acc'.2)).
    - split; [done|]. split; [done|]. intros s Hs. by apply elem_of_nil in Hs.
    - intros pre s [n ids] (Hi & Hmono & Hdone). pose proof Hi as [Hsub HJ]. simpl in *.
      unfold visit_i.
      destruct (decide (s ∈ room_sids (n_ad n) r)) as [Hin|Hin].
      + destruct (decide (s ∈ ids ∨ s ∈ ex)) as [Hd|Hd].
        * split; [done|]. split; [done|]. intros s' [Hs'| ->%elem_of_list_singleton]%elem_of_app HSel Hroom; [by apply Hdone|].
          destruct Hd as [?|Hex]; [done|]. exfalso. apply Sel_spec in HSel as (_ & _ & _ & HE).
          apply except_sids_spec in Hex as (r' & ? & ?). by eapply HE.
        * assert (Hnid : s ∉ ids) by tauto. assert (Hnex : s ∉ ex) by tauto.
          rewrite (frame_known n ids s HJ Hnid).
          apply (frame_room n ids s r HJ) in Hin; [|done].
          destruct (n_known n0 s) eqn:Hk.
          -- assert (HSel : s ∈ Sel).
             { apply Sel_spec. split; [done|]. destruct HJ0 as [(Hinv0 & _) _].
               split; [by eapply inverse_member_registered|]. split; [right; eauto|].
               intros r' Hr' Hs'. apply Hnex. apply except_sids_spec. eauto. }
             split; [by apply Inv_visit|]. simpl. split; [set_solver|].
             intros s' [Hs'| ->%elem_of_list_singleton]%elem_of_app ? ?; [|set_solver].
             apply elem_of_union. left. by apply Hdone.
          -- split; [done|]. split; [done|]. intros s' [Hs'| ->%elem_of_list_singleton]%elem_of_app HSel' Hroom; [by apply Hdone|].
             apply Sel_spec in HSel' as (Hk' & _). congruence.
      + split; [done|]. split; [done|]. intros s' [Hs'| ->%elem_of_list_singleton]%elem_of_app HSel Hroom; [by apply Hdone|].
        destruct (decide (s ∈ ids)) as [|Hnid]; [done|]. exfalso. apply Hin.
        by apply (frame_room n ids s r HJ).
  Qed.

  Lemma room_i_inv Tl acc :
    (∀ r, r ∈ Tl → r ∈ T) → Inv acc →
    let acc' := foldl (room_i ex) acc Tl in
    Inv acc' ∧ (∀ r s, r ∈ Tl → s ∈ Sel → s ∈ room_sids (n_ad n0) r → s ∈ acc'.2).
  Proof.
    intros HTl Hinv.
    assert (G : ∀ l, (∀ r, r ∈ l → r ∈ T) →
      let acc' := foldl (room_i ex) acc l in
      Inv acc' ∧ acc.2 ⊆ acc'.2 ∧ (∀ r s, r ∈ l → s ∈ Sel → s ∈ room_sids (n_ad n0) r → s ∈ acc'.2)).
    { intros l Hl.
      apply (foldl_prefix_inv (room_i ex)
        (λ pre acc', (∀ r, r ∈ pre → r ∈ T) → Inv acc' ∧ acc.2 ⊆ acc'.2 ∧
                     ∀ r s, r ∈ pre → s ∈ Sel → s ∈ room_sids (n_ad n0) r → s ∈ acc'.2)); [| |done].
      - intros _. split; [done|]. split; [done|]. intros r s Hr. by apply elem_of_nil in Hr.
      - intros pre r [n ids] IH Hpre.
        destruct IH as (Hi & Hmono & Hdone); [intros r' Hr'; apply Hpre; set_solver|].
        assert (HrT : r ∈ T) by (apply Hpre; set_solver).
        pose proof Hi as [Hsub HJ]. simpl in *.
        unfold room_i. simpl. destruct (a_rooms (n_ad n) !! r) as [x|] eqn:Hx.
        + destruct (visit_i_inv r (ord x) (n, ids) HrT Hi) as (Hi' & Hmono' & Hdone'). simpl in *.
          split; [done|]. split; [set_solver|].
          intros r' s [Hr'| ->%elem_of_list_singleton]%elem_of_app HSel Hroom.
          * apply Hmono'. by eapply Hdone.
          * destruct (decide (s ∈ ids)) as [|Hnid]; [by apply Hmono'|].
            apply Hdone'; [|done|done]. apply Hord.
            apply (frame_room n ids s r HJ Hnid) in Hroom.
            apply room_sids_lookup in Hroom as (x' & Hx' & ?). congruence.
        + split; [done|]. split; [done|].
          intros r' s [Hr'| ->%elem_of_list_singleton]%elem_of_app HSel Hroom; [by eapply Hdone|].
          destruct (decide (s ∈ ids)) as [|Hnid]; [done|]. exfalso.
          apply (frame_room n ids s r HJ Hnid) in Hroom.
          apply room_sids_lookup in Hroom as (x' & Hx' & ?). congruence. }
    destruct (G Tl HTl) as (? & _ & ?). done.
  Qed.

  (** ** all-sockets branch *)
  Lemma all_i_inv l acc :
    T = ∅ → Inv acc →
    let acc' := foldl (all_i ex) acc l in
    Inv acc' ∧ acc.2 ⊆ acc'.2 ∧ (∀ s, s ∈ l → s ∈ Sel → s ∈ acc'.2).
  Proof.
    intros HT Hinv.
    apply (foldl_prefix_inv (all_i ex)
      (λ pre acc', Inv acc' ∧ acc.2 ⊆ acc'.2 ∧ ∀ s, s ∈ pre → s ∈ Sel → s ∈ acc'.2)).
    - split; [done|]. split; [done|]. intros s Hs. by apply elem_of_nil in Hs.
    - intros pre s [n ids] (Hi & Hmono & Hdone). pose proof Hi as [Hsub HJ]. simpl in *.
      unfold all_i.
      destruct (decide (s ∈ ids)) as [Hid|Hnid].
      { (* visited before: whatever the body does, s stays visited and Inv holds *)
        assert (Hskip : ∀ acc', (acc' = (n, ids) ∨ (acc' = (cb n s, ids ∪ {[s]}) )) →
          Inv acc' ∧ acc.2 ⊆ acc'.2 ∧ (∀ s', s' ∈ pre ++ [s] → s' ∈ Sel → s' ∈ acc'.2)).
        { intros acc' [->| ->]; simpl.
          - split; [done|]. split; [done|]. intros s' [?| ->%elem_of_list_singleton]%elem_of_app ?; [by apply Hdone|done].
          - split; [apply Inv_visit; [done|set_solver]|]. split; [set_solver|].
            intros s' [?| ->%elem_of_list_singleton]%elem_of_app ?; [|set_solver]. apply elem_of_union. left. by apply Hdone. }
        destruct (decide (s ∈ dom (a_sids (n_ad n)))); [|apply Hskip; by left].
        destruct (decide (s ∈ ex)); [apply Hskip; by left|].
        destruct (n_known n s); apply Hskip; [by right|by left]. }
      destruct (decide (s ∈ dom (a_sids (n_ad n)))) as [Hin|Hin].
      + apply (frame_present n ids s HJ Hnid) in Hin.
        destruct (decide (s ∈ ex)) as [Hex|Hnex].
        * split; [done|]. split; [done|]. intros s' [?| ->%elem_of_list_singleton]%elem_of_app HSel; [by apply Hdone|].
          exfalso. apply Sel_spec in HSel as (_ & _ & _ & HE).
          apply except_sids_spec in Hex as (r' & ? & ?). by eapply HE.
        * rewrite (frame_known n ids s HJ Hnid). destruct (n_known n0 s) eqn:Hk.
          -- assert (HSel : s ∈ Sel).
             { apply Sel_spec. split; [done|]. split; [done|]. split; [by left|].
               intros r' Hr' Hs'. apply Hnex. apply except_sids_spec. eauto. }
             split; [by apply Inv_visit|]. simpl. split; [set_solver|].
             intros s' [?| ->%elem_of_list_singleton]%elem_of_app ?; [|set_solver]. apply elem_of_union. left. by apply Hdone.
          -- split; [done|]. split; [done|]. intros s' [?| ->%elem_of_list_singleton]%elem_of_app HSel'; [by apply Hdone|].
             apply Sel_spec in HSel' as (Hk' & _). congruence.
      + split; [done|]. split; [done|]. intros s' [?| ->%elem_of_list_singleton]%elem_of_app HSel; [by apply Hdone|].
        exfalso. apply Hin. apply (frame_present n ids s HJ Hnid). by apply Sel_spec in HSel as (_ & ? & _).
  Qed.

  (** ** the interleaved execution implements the abstract operation on the selected set *)
  Theorem apply_i_refines Tl all :
    (∀ r, r ∈ Tl ↔ r ∈ T) → (∀ s, s ∈ all ↔ s ∈ dom (a_sids (n_ad n0))) →
    J (apply_i n0 T E Tl all) (OP Sel a0).
  Proof.
    intros HTl Hall. unfold apply_i. fold ex.
    assert (Hinv0 : Inv (n0, ∅)).
    { split; simpl; [set_solver|]. eapply J_aeq; [exact HJ0|]. destruct (H_empty a0) as (E1&E2&E3&E4). split; [|split; [|split]]; by symmetry. }
    destruct (decide (0 < size T)) as [Hsz|Hsz].
    - destruct (room_i_inv Tl (n0, ∅)) as [[Hsub HJ] Hdone]; [intros r; apply HTl|done|].
      set (acc' := foldl (room_i ex) (n0, ∅) Tl) in *.
      assert (Heq : acc'.2 = Sel).
      { apply set_eq. intros s. split; [apply Hsub|]. intros HSel. pose proof HSel as HS.
        apply Sel_spec in HS as (_ & _ & [HT|(r & Hr & Hroom)] & _).
        - rewrite HT, size_empty in Hsz. lia.
        - apply (Hdone r s); [by apply HTl|done|done]. }
      by rewrite <- Heq.
    - assert (HT : T = ∅) by (apply leibniz_equiv, size_empty_inv; lia).
      destruct (all_i_inv all (n0, ∅) HT Hinv0) as ([Hsub HJ] & _ & Hdone).
      set (acc' := foldl (all_i ex) (n0, ∅) all) in *.
      assert (Heq : acc'.2 = Sel).
      { apply set_eq. intros s. split; [apply Hsub|]. intros HSel. apply Hdone; [|done].
        apply Hall. by apply Sel_spec in HSel as (_ & ? & _). }
      by rewrite <- Heq.
  Qed.
End interleaved.

(** * The three instances *)
Lemma join_union rs X s a : aeq (an_join rs {[s]} (an_join rs X a)) (an_join rs (X ∪ {[s]}) a).
Proof.
  unfold an_join. aeq_split.
  - intros p. rewrite !elem_of_union, !elem_of_cross. set_solver.
  - set_solver.
Qed.
Lemma join_empty rs a : aeq (an_join rs ∅ a) a.
Proof.
  unfold an_join. aeq_split.
  - intros p. rewrite elem_of_union, elem_of_cross. set_solver.
  - set_solver.
Qed.

Theorem sockets_join_interleaved rs ord n a from T E Tl all :
  (∀ x s, s ∈ ord x ↔ s ∈ x) → J n a →
  (∀ r, r ∈ Tl ↔ r ∈ (list_to_set T : gset room)) → (∀ s, s ∈ all ↔ s ∈ dom (a_sids (n_ad n))) →
  J (apply_i (n_join rs) ord n (list_to_set T) (sender_except from (list_to_set E)) Tl all)
    (anstep a (NSocketsJoin from T E rs)).
Proof.
  intros Hord HJ HTl Hall.
  apply (apply_i_refines (n_join rs) (an_join rs)); try done.
  - intros. by apply J_join.
  - apply join_union.
  - apply join_empty.
  - intros X a' s r Hs. unfold an_join. simpl. rewrite elem_of_union, elem_of_cross. simpl. set_solver.
  - intros X a' s Hs. unfold an_join. simpl. set_solver.
Qed.

Lemma leave_union rs X s a : aeq (an_leave rs {[s]} (an_leave rs X a)) (an_leave rs (X ∪ {[s]}) a).
Proof.
  unfold an_leave. aeq_split.
  intros p. rewrite !elem_of_difference, !elem_of_cross. set_solver.
Qed.
Lemma leave_empty rs a : aeq (an_leave rs ∅ a) a.
Proof.
  unfold an_leave. aeq_split.
  intros p. rewrite elem_of_difference, elem_of_cross. set_solver.
Qed.

Theorem sockets_leave_interleaved rs ord n a from T E Tl all :
  (∀ x s, s ∈ ord x ↔ s ∈ x) → J n a →
  (∀ r, r ∈ Tl ↔ r ∈ (list_to_set T : gset room)) → (∀ s, s ∈ all ↔ s ∈ dom (a_sids (n_ad n))) →
  J (apply_i (λ n' s, foldl (λ n'' r, n_leave r n'' s) n' rs) ord n (list_to_set T)
       (sender_except from (list_to_set E)) Tl all)
    (anstep a (NSocketsLeave from T E rs)).
Proof.
  intros Hord HJ HTl Hall.
  apply (apply_i_refines (λ n' s, foldl (λ n'' r, n_leave r n'' s) n' rs) (an_leave rs)); try done.
  - intros. by apply J_leave_rooms.
  - apply leave_union.
  - apply leave_empty.
  - intros X a' s r Hs. unfold an_leave. simpl. rewrite elem_of_difference, elem_of_cross. simpl. set_solver.
Qed.

Lemma disconnect_union X s a : aeq (an_disconnect {[s]} (an_disconnect X a)) (an_disconnect (X ∪ {[s]}) a).
Proof.
  unfold an_disconnect. aeq_split.
  - intros p. rewrite !elem_of_filter. destruct (decide (p.1 = s)); destruct (decide (p.1 ∈ X)); set_solver.
  - intros x. destruct (decide (x = s)); destruct (decide (x ∈ X)); set_solver.
  - intros x. destruct (decide (x = s)); destruct (decide (x ∈ X)); set_solver.
  - intros x. destruct (decide (x = s)); destruct (decide (x ∈ X)); set_solver.
Qed.
Lemma disconnect_empty a : aeq (an_disconnect ∅ a) a.
Proof.
  unfold an_disconnect. aeq_split.
  - intros p. rewrite elem_of_filter. set_solver.
  - set_solver. - set_solver. - set_solver.
Qed.

Theorem disconnect_sockets_interleaved ord n a from T E Tl all :
  (∀ x s, s ∈ ord x ↔ s ∈ x) → J n a →
  (∀ r, r ∈ Tl ↔ r ∈ (list_to_set T : gset room)) → (∀ s, s ∈ all ↔ s ∈ dom (a_sids (n_ad n))) →
  J (apply_i n_disconnect ord n (list_to_set T) (sender_except from (list_to_set E)) Tl all)
    (anstep a (NDisconnectSockets from T E)).
Proof.
  intros Hord HJ HTl Hall.
  apply (apply_i_refines n_disconnect an_disconnect); try done.
  - intros. by apply J_disconnect.
  - apply disconnect_union.
  - apply disconnect_empty.
  - intros X a' s r Hs. unfold an_disconnect. simpl. rewrite elem_of_filter. simpl. set_solver.
  - intros X a' s Hs. unfold an_disconnect. simpl. set_solver.
  - intros X a' s Hs. unfold an_disconnect. simpl. set_solver.
Qed.

(** After any history: running the operation with the callback interleaved into apply's loops
    (any iteration order) yields a state that satisfies the invariant [n_inv] and denotes
    ([n_abs]) exactly the abstract state after the operation - the same abstract state as
    Broadcast.nstep (theorem nrun_J), so both have the same rooms, registered, connected and
    closed sockets. *)
Lemma anrun_snoc h o : anrun (h ++ [o]) = anstep (anrun h) o.
Proof. unfold anrun. by rewrite foldl_app. Qed.

Theorem interleaved_after_history h ord Tl all from T E :
  (∀ x s, s ∈ ord x ↔ s ∈ x) →
  (∀ r, r ∈ Tl ↔ r ∈ (list_to_set T : gset room)) → (∀ s, s ∈ all ↔ s ∈ dom (a_sids (n_ad (nrun h)))) →
  let TT := list_to_set T in let EE := sender_except from (list_to_set E) in
  (∀ rs, J (apply_i (n_join rs) ord (nrun h) TT EE Tl all) (anrun (h ++ [NSocketsJoin from T E rs]))) ∧
  (∀ rs, J (apply_i (λ n' s, foldl (λ n'' r, n_leave r n'' s) n' rs) ord (nrun h) TT EE Tl all)
           (anrun (h ++ [NSocketsLeave from T E rs]))) ∧
  J (apply_i n_disconnect ord (nrun h) TT EE Tl all) (anrun (h ++ [NDisconnectSockets from T E])).
Proof.
  intros Hord HTl Hall. pose proof (nrun_J h) as HJ. rewrite !anrun_snoc. split; [|split].
  - intros rs. rewrite anrun_snoc. by apply sockets_join_interleaved.
  - intros rs. rewrite anrun_snoc. by apply sockets_leave_interleaved.
  - by apply disconnect_sockets_interleaved.
Qed.
