(** Namespace level: the model of Join / Leave / Disconnect / SocketsJoin / SocketsLeave /
    DisconnectSockets refines the abstract membership relation of BroadcastSpec.v over all
    histories; a disconnected socket is in no room; sender exclusion. *)
From SioV Require Import Adapter.Rooms Adapter.RoomsProofs Adapter.Broadcast Adapter.BroadcastSpec
  Adapter.BroadcastProofs.

Local Arguments delete_room : simpl never.
Local Arguments add_all : simpl never.
Local Arguments delete_all : simpl never.

Definition n_inv (n : nsp) : Prop :=
  indexes_inverse (n_ad n) ∧
  n_store n ⊆ dom (a_sids (n_ad n)) ∧
  (∀ s, s ∈ n_closed n → s ∉ dom (a_sids (n_ad n)) ∧ s ∉ n_store n).

Definition n_abs (n : nsp) (a : ansp) : Prop :=
  (∀ s r, (s, r) ∈ an_pairs a ↔ r ∈ sid_rooms (n_ad n) s) ∧
  (∀ s, s ∈ an_present a ↔ s ∈ dom (a_sids (n_ad n))) ∧
  (∀ s, s ∈ an_store a ↔ s ∈ n_store n) ∧
  (∀ s, s ∈ an_closed a ↔ s ∈ n_closed n).

Definition J (n : nsp) (a : ansp) : Prop := n_inv n ∧ n_abs n a.

Definition aeq (a a' : ansp) : Prop :=
  an_pairs a ≡ an_pairs a' ∧ an_present a ≡ an_present a' ∧ an_store a ≡ an_store a' ∧ an_closed a ≡ an_closed a'.

Lemma J_aeq n a a' : J n a → aeq a a' → J n a'.
Proof.
  intros [Hi (H1 & H2 & H3 & H4)] (E1 & E2 & E3 & E4). split; [done|].
  split; [|split; [|split]].
  - intros s r. rewrite <- H1. set_solver.
  - intros s. rewrite <- H2. set_solver.
  - intros s. rewrite <- H3. set_solver.
  - intros s. rewrite <- H4. set_solver.
Qed.

Lemma elem_of_cross X rs p : p ∈ cross X rs ↔ p.1 ∈ X ∧ p.2 ∈ rs.
Proof.
  unfold cross. rewrite elem_of_list_to_set, elem_of_list_bind. split.
  - intros (s & Hp & Hs). apply elem_of_list_bind in Hp as (r & Hp & Hr).
    apply elem_of_list_singleton in Hp as ->. simpl. split; [by apply elem_of_elements|done].
  - intros [H1 H2]. exists p.1. split; [|by apply elem_of_elements].
    apply elem_of_list_bind. exists p.2. split; [|done]. destruct p. by apply elem_of_list_singleton.
Qed.

(** ** single-socket operations *)
Lemma J_join rs n a s : J n a → J (n_join rs n s) (an_join rs {[s]} a).
Proof.
  intros [(Hinv & Hst & Hcl) (H1 & H2 & H3 & H4)]. unfold n_join, an_join.
  destruct (decide (s ∈ n_closed n)) as [Hc|Hc].
  - split; [done|]. pose proof Hc as Hc'. apply H4 in Hc'.
    split; [|split; [|split]]; simpl; [| |done|done].
    + intros s' r. rewrite elem_of_union, elem_of_cross, <- H1. simpl. set_solver.
    + intros s'. rewrite <- H2. set_solver.
  - destruct (add_all_spec s rs (n_ad n)) as (A1 & A2 & A3 & A4). destruct Hinv as [Hinv Hne].
    assert (Hc' : s ∉ an_closed a) by (by rewrite H4).
    split.
    + split; simpl; [split; [|by apply A4]|split].
      * intros s' r'. rewrite A1, A2, Hinv. done.
      * rewrite A3. set_solver.
      * intros s' Hs'. destruct (Hcl s' Hs'). rewrite A3. set_solver.
    + split; [|split; [|split]]; simpl; [| |done|done].
      * intros s' r. rewrite elem_of_union, elem_of_cross, A2, <- H1. simpl. set_solver.
      * intros s'. rewrite A3, !elem_of_union, <- H2. set_solver.
Qed.

Lemma J_leave r n a s : J n a → J (n_leave r n s) (an_leave [r] {[s]} a).
Proof.
  intros [(Hinv & Hst & Hcl) (H1 & H2 & H3 & H4)]. unfold n_leave, an_leave.
  destruct (delete_room_spec s r (n_ad n)) as (A1 & A2 & A3 & A4). destruct Hinv as [Hinv Hne].
  split.
  - split; cbn [n_ad n_store n_closed an_pairs an_present an_store an_closed]; [split; [|by apply A4]|split].
    + intros s' r'. rewrite A1, A2, Hinv. done.
    + by rewrite A3.
    + intros s' Hs'. rewrite A3. by apply Hcl.
  - split; [|split; [|split]]; cbn [n_ad n_store n_closed an_pairs an_present an_store an_closed]; [| |done|done].
    + intros s' r'. rewrite elem_of_difference, elem_of_cross, A2, <- H1. simpl.
      rewrite elem_of_singleton, elem_of_list_singleton. done.
    + intros s'. rewrite A3. apply H2.
Qed.

Lemma J_disconnect n a s : J n a → J (n_disconnect n s) (an_disconnect {[s]} a).
Proof.
  intros [(Hinv & Hst & Hcl) (H1 & H2 & H3 & H4)]. unfold n_disconnect, an_disconnect.
  destruct (decide (s ∈ n_store n)) as [Hs|Hs].
  - destruct (delete_all_spec s (n_ad n)) as (A1 & A2 & A3 & A4). destruct Hinv as [Hinv Hne].
    assert (HX : ∀ x, x ∈ ({[s]} ∩ an_store a : gset positive) ↔ x = s).
    { intros x. apply H3 in Hs. set_solver. }
    split.
    + split; simpl; [split; [|by apply A4]|split].
      * intros s' r'. rewrite A1, A2, Hinv. split.
        -- intros [H Hn]. split; [done|]. intros ->. apply Hn. split; [done|]. done.
        -- intros [H Hn]. split; [done|]. intros [-> _]. done.
      * rewrite A3. set_solver.
      * intros s' Hs'. rewrite A3. apply elem_of_union in Hs' as [Hs'| ->%elem_of_singleton].
        -- destruct (Hcl s' Hs'). set_solver.
        -- set_solver.
    + split; [|split; [|split]]; simpl.
      * intros s' r'. rewrite elem_of_filter, A2, <- H1. simpl. rewrite HX. tauto.
      * intros s'. rewrite A3, !elem_of_difference, HX, <- H2, elem_of_singleton. done.
      * intros s'. rewrite !elem_of_difference, HX, <- H3, elem_of_singleton. done.
      * intros s'. rewrite !elem_of_union, HX, <- H4, elem_of_singleton. done.
  - assert (HX : ∀ x, x ∈ ({[s]} ∩ an_store a : gset positive) ↔ False).
    { intros x. rewrite <- H3 in Hs. set_solver. }
    split; [done|]. split; [|split; [|split]]; simpl.
    + intros s' r'. rewrite elem_of_filter, <- H1. simpl. rewrite HX. tauto.
    + intros s'. rewrite elem_of_difference, HX, <- H2. tauto.
    + intros s'. rewrite elem_of_difference, HX, <- H3. tauto.
    + intros s'. rewrite elem_of_union, HX, <- H4. tauto.
Qed.

Lemma J_connect n a s : J n a → J (n_connect s n) (an_connect s a).
Proof.
  intros HJ. pose proof HJ as [(Hinv & Hst & Hcl) (H1 & H2 & H3 & H4)]. unfold n_connect, an_connect.
  destruct (decide (s ∈ n_store n ∨ s ∈ n_closed n)) as [Hc|Hc].
  - rewrite decide_True; [done|]. rewrite H3, H4. done.
  - rewrite decide_False; [|rewrite H3, H4; done].
    assert (Hnc : s ∉ n_closed n) by tauto.
    assert (Hnc' : s ∉ an_closed a) by (by rewrite H4).
    pose proof (J_join [s] n a s HJ) as HJ'. unfold n_join, an_join in HJ'.
    rewrite decide_False in HJ' by done.
    destruct HJ' as [(Hinv' & Hst' & Hcl') (H1' & H2' & H3' & H4')]. cbn [n_ad n_store n_closed an_pairs an_present an_store an_closed] in *.
    split.
    + split; cbn [n_ad n_store n_closed an_pairs an_present an_store an_closed]; [done|split].
      * destruct (add_all_spec s [s] (n_ad n)) as (_ & _ & A3 & _). rewrite A3. set_solver.
      * intros s' Hs'. destruct (Hcl' s' Hs'). split; [done|]. destruct (Hcl s' Hs'). set_solver.
    + split; [|split; [|split]]; cbn [n_ad n_store n_closed an_pairs an_present an_store an_closed]; [| | |done].
      * intros s' r. rewrite <- H1', !elem_of_union, elem_of_cross. cbn [fst snd]. set_solver.
      * intros s'. rewrite <- H2'. set_solver.
      * intros s'. rewrite !elem_of_union, H3. done.
Qed.

(** ** folding a single-socket operation over the visited sockets = the set-wise operation *)
Ltac aeq_split := unfold aeq; simpl; split; [|split; [|split]]; try done.

Lemma an_join_union rs X s a : aeq (an_join rs X (an_join rs {[s]} a)) (an_join rs ({[s]} ∪ X) a).
Proof.
  unfold an_join. aeq_split.
  - intros p. rewrite !elem_of_union, !elem_of_cross. set_solver.
  - set_solver.
Qed.

Lemma J_join_fold rs l n a : J n a → J (foldl (n_join rs) n l) (an_join rs (list_to_set l) a).
Proof.
  revert n a. induction l as [|s l IH]; intros n a HJ; simpl.
  - eapply J_aeq; [done|]. unfold an_join. aeq_split.
    + intros p. rewrite elem_of_union, elem_of_cross. set_solver.
    + set_solver.
  - eapply J_aeq; [apply IH, J_join, HJ|]. apply an_join_union.
Qed.

Lemma an_leave_rooms r rs X a : aeq (an_leave rs X (an_leave [r] X a)) (an_leave (r :: rs) X a).
Proof.
  unfold an_leave. aeq_split.
  intros p. rewrite !elem_of_difference, !elem_of_cross. set_solver.
Qed.

Lemma J_leave_rooms rs s n a : J n a → J (foldl (λ n'' r, n_leave r n'' s) n rs) (an_leave rs {[s]} a).
Proof.
  revert n a. induction rs as [|r rs IH]; intros n a HJ; simpl.
  - eapply J_aeq; [done|]. unfold an_leave. aeq_split.
    intros p. rewrite elem_of_difference, elem_of_cross. set_solver.
  - eapply J_aeq; [apply IH, J_leave, HJ|]. apply an_leave_rooms.
Qed.

Lemma an_leave_union rs X s a : aeq (an_leave rs X (an_leave rs {[s]} a)) (an_leave rs ({[s]} ∪ X) a).
Proof.
  unfold an_leave. aeq_split.
  intros p. rewrite !elem_of_difference, !elem_of_cross. set_solver.
Qed.

Lemma J_leave_fold rs l n a :
  J n a → J (foldl (λ n' s, foldl (λ n'' r, n_leave r n'' s) n' rs) n l) (an_leave rs (list_to_set l) a).
Proof.
  revert n a. induction l as [|s l IH]; intros n a HJ; simpl.
  - eapply J_aeq; [done|]. unfold an_leave. aeq_split.
    intros p. rewrite elem_of_difference, elem_of_cross. set_solver.
  - eapply J_aeq; [apply IH, J_leave_rooms, HJ|]. apply an_leave_union.
Qed.

Lemma an_disconnect_union X s a :
  aeq (an_disconnect X (an_disconnect {[s]} a)) (an_disconnect ({[s]} ∪ X) a).
Proof.
  unfold an_disconnect. aeq_split.
  - intros p. rewrite !elem_of_filter. destruct (decide (p.1 = s)); set_solver.
  - intros x. destruct (decide (x = s)); set_solver.
  - intros x. destruct (decide (x = s)); set_solver.
  - intros x. destruct (decide (x = s)); set_solver.
Qed.

Lemma J_disconnect_fold l n a : J n a → J (foldl n_disconnect n l) (an_disconnect (list_to_set l) a).
Proof.
  revert n a. induction l as [|s l IH]; intros n a HJ; simpl.
  - eapply J_aeq; [done|]. unfold an_disconnect. aeq_split.
    + intros p. rewrite elem_of_filter. set_solver.
    + set_solver. + set_solver. + set_solver.
  - eapply J_aeq; [apply IH, J_disconnect, HJ|]. apply an_disconnect_union.
Qed.

(** ** the sockets apply visits are the abstractly selected ones *)
Lemma J_selected n a T E s :
  J n a → selected (n_known n) T E (n_ad n) s ↔ s ∈ an_selected a T E.
Proof.
  intros [([Hinv Hne] & Hst & Hcl) (H1 & H2 & H3 & H4)]. unfold selected, an_selected, n_known.
  rewrite elem_of_filter, bool_decide_eq_true, H2, H3.
  assert (Hp : ∀ r, s ∈ room_sids (n_ad n) r ↔ (s, r) ∈ an_pairs a) by (intros r; by rewrite Hinv, H1).
  split.
  - intros (Hk & Hd & HT & HE). split; [|done]. split; [done|]. split.
    + destruct HT as [?|(r & ? & ?)]; [by left|right]. exists r. split; [done|]. by apply Hp.
    + intros r Hr. rewrite <- Hp. by apply HE.
  - intros [(Hk & HT & HE) Hd]. split; [done|]. split; [done|]. split.
    + destruct HT as [?|(r & ? & ?)]; [by left|right]. exists r. split; [done|]. by apply Hp.
    + intros r Hr. rewrite Hp. by apply HE.
Qed.

Lemma J_targets n a from T E :
  J n a → (list_to_set (op_targets n from T E) : gset sid) = an_op_selected a from T E.
Proof.
  intros HJ. apply set_eq. intros s. rewrite elem_of_list_to_set. unfold op_targets, n_targets, an_op_selected.
  destruct HJ as [(Hinv & ?) ?] eqn:E'. clear E'.
  destruct (apply_targets_exact (n_known n) (list_to_set T) (sender_except from (list_to_set E)) (n_ad n) Hinv) as [_ Hm].
  rewrite Hm. by apply J_selected.
Qed.

Lemma J_step n a o : J n a → J (nstep n o) (anstep a o).
Proof.
  intros HJ. destruct o; simpl.
  - by apply J_connect.
  - by apply J_join.
  - by apply J_leave.
  - by apply J_disconnect.
  - rewrite <- (J_targets n a from T E HJ). by apply J_join_fold.
  - rewrite <- (J_targets n a from T E HJ). by apply J_leave_fold.
  - rewrite <- (J_targets n a from T E HJ). by apply J_disconnect_fold.
Qed.

Lemma J_empty : J empty_nsp (ANsp ∅ ∅ ∅ ∅).
Proof.
  split.
  - split; [apply empty_inverse|]. split; simpl; set_solver.
  - split; [|split; [|split]]; simpl; try set_solver.
Qed.

Lemma J_foldl h n a : J n a → J (foldl nstep n h) (foldl anstep a h).
Proof. revert n a. induction h; simpl; intros; [done|]. by apply IHh, J_step. Qed.

Theorem nrun_J h : J (nrun h) (anrun h).
Proof. apply J_foldl, J_empty. Qed.

(** ** Consequences over all histories *)

(** Membership, registered, connected and closed sockets of the model are those of the abstract
    relation folded over the same history. *)
Theorem nrun_net_effect h s r :
  (s ∈ room_sids (n_ad (nrun h)) r ↔ (s, r) ∈ an_pairs (anrun h)) ∧
  (r ∈ sid_rooms (n_ad (nrun h)) s ↔ (s, r) ∈ an_pairs (anrun h)) ∧
  (s ∈ dom (a_sids (n_ad (nrun h))) ↔ s ∈ an_present (anrun h)) ∧
  (s ∈ n_store (nrun h) ↔ s ∈ an_store (anrun h)) ∧
  (s ∈ n_closed (nrun h) ↔ s ∈ an_closed (anrun h)).
Proof.
  destruct (nrun_J h) as [([Hinv _] & _) (H1 & H2 & H3 & H4)].
  rewrite Hinv, H1, H2, H3, H4. done.
Qed.

(** A broadcast after any history: exactly the abstractly selected sockets, once each. *)
Theorem nrun_broadcast_exact h from T E :
  NoDup (op_targets (nrun h) from T E) ∧
  ∀ s, s ∈ op_targets (nrun h) from T E ↔ s ∈ an_op_selected (anrun h) from T E.
Proof.
  pose proof (nrun_J h) as HJ. split.
  - destruct HJ as [(Hinv & _) _]. by apply apply_targets_exact.
  - intros s. rewrite <- (J_targets _ _ from T E HJ). by rewrite elem_of_list_to_set.
Qed.

(** A disconnected socket belongs to no room, is not registered, not known, and no broadcast
    reaches it - whatever happens after the disconnection (joins included). *)
Theorem nrun_disconnected_in_no_room h s :
  s ∈ n_closed (nrun h) →
  s ∉ dom (a_sids (n_ad (nrun h))) ∧ sid_rooms (n_ad (nrun h)) s = ∅ ∧
  (∀ r, s ∉ room_sids (n_ad (nrun h)) r) ∧ s ∉ n_store (nrun h) ∧
  (∀ from T E, s ∉ op_targets (nrun h) from T E).
Proof.
  intros Hc. destruct (nrun_J h) as [([Hinv Hne] & Hst & Hcl) _]. destruct (Hcl s Hc) as [Hd Hs].
  assert (Hr : sid_rooms (n_ad (nrun h)) s = ∅).
  { unfold sid_rooms. apply not_elem_of_dom in Hd. by rewrite Hd. }
  split; [done|]. split; [done|]. split; [|split; [done|]].
  - intros r. rewrite Hinv, Hr. set_solver.
  - intros from T E Hin. apply (apply_targets_exact (n_known (nrun h))) in Hin; [|done].
    destruct Hin as (_ & ? & _). done.
Qed.

(** closed sockets stay closed; a socket is closed by (and only by) a disconnect while connected *)
Lemma n_closed_mono h o s : s ∈ n_closed (nrun h) → s ∈ n_closed (nrun (h ++ [o])).
Proof.
  intros Hc. pose proof (nrun_J h) as HJ. pose proof (nrun_J (h ++ [o])) as HJ'.
  destruct HJ as [_ (_ & _ & _ & H4)]. destruct HJ' as [_ (_ & _ & _ & H4')].
  apply H4'. apply H4 in Hc. unfold anrun in *. rewrite foldl_app. simpl.
  set (a := foldl anstep (ANsp ∅ ∅ ∅ ∅) h) in *.
  destruct o; simpl; unfold an_connect, an_join, an_leave, an_disconnect; simpl; try done.
  - by destruct (decide _).
  - set_solver.
  - set_solver.
Qed.

(** ** Sender exclusion *)
Theorem nrun_sender_excluded_partial h s T E :
  s ∈ room_sids (n_ad (nrun h)) s → s ∉ op_targets (nrun h) (Some s) T E.
Proof.
  intros Hown. destruct (nrun_J h) as [(Hinv & _) _].
  by apply sender_excluded_if_in_own_room.
Qed.

Theorem sender_excluded_refuted : ∃ (h : list nop) s T E,
  s ∈ n_store (nrun h) ∧ s ∈ op_targets (nrun h) (Some s) T E.
Proof.
  exists [NConnect 1; NConnect 2; NLeave 1 1]%positive, 1%positive, [], [].
  vm_compute. split; [set_solver|apply elem_of_list_here].
Qed.
