(** Executable comparison (agree) and property oracles used by the C04 correspondence check
    (kernel evaluation of harness rows, see checks/C04.py and harness/cmd/vh/rooms.go). *)
From SioV Require Import Adapter.Rooms Adapter.Broadcast Adapter.BroadcastSpec.
Local Open Scope positive_scope.

Definition count_pos (x : positive) (l : list positive) : nat := length (filter (λ y, y = x) l).
(** same multiset *)
Definition bag_eqb (l1 l2 : list positive) : bool :=
  forallb (λ x, Nat.eqb (count_pos x l1) (count_pos x l2)) (l1 ++ l2).
Definition set_eqb (l1 l2 : list positive) : bool :=
  bool_decide ((list_to_set l1 : gset positive) = list_to_set l2).
Definition nodupb (l : list positive) : bool := forallb (λ x, Nat.eqb (count_pos x l) 1) l.

(** * Table: 3 sockets (1..3) x 3 rooms (4..6). *)
Definition bits (b : N) (base : positive) : list positive :=
  (if N.testbit b 0 then [base] else []) ++ (if N.testbit b 1 then [base + 1] else []) ++
  (if N.testbit b 2 then [base + 2] else []).

Definition table_state (m : N) : adapter :=
  add_all 3 (bits (N.shiftr m 6) 4) (add_all 2 (bits (N.shiftr m 3) 4) (add_all 1 (bits m 4) empty_adapter)).

Definition table_known (kb : N) (s : positive) : bool :=
  match s with 1 => N.testbit kb 0 | 2 => N.testbit kb 1 | 3 => N.testbit kb 2 | _ => false end.

Definition tcase := (N * N * list (list positive))%type.

Definition te_list : list N := map N.of_nat (seq 0 64).

Definition table_model (m kb te : N) : list positive :=
  apply_targets (table_known kb) (list_to_set (bits (N.land te 7) 4)) (list_to_set (bits (N.shiftr te 3) 4))
                (table_state m).

Definition table_agree (c : tcase) : bool :=
  let '(m, kb, outs) := c in
  Nat.eqb (length outs) 64 &&
  forallb (λ p, bag_eqb (table_model m kb p.1) p.2) (zip te_list outs).

(** The property, read off the matrix directly (no adapter model involved): socket i receives
    exactly once iff known, (T empty or its row meets T) and its row does not meet E. *)
Definition table_expect (m kb te : N) (i : N) : nat :=
  let row := N.land (N.shiftr m (3 * i)) 7 in
  let T := N.land te 7 in let E := N.shiftr te 3 in
  if N.testbit kb i && ((T =? 0)%N || negb (N.land row T =? 0)%N) && (N.land row E =? 0)%N then 1%nat else 0%nat.

Definition table_oracle (c : tcase) : bool :=
  let '(m, kb, outs) := c in
  Nat.eqb (length outs) 64 &&
  forallb (λ p, forallb (λ x, bool_decide (x ∈ [1; 2; 3])) p.2 &&
                Nat.eqb (count_pos 1 p.2) (table_expect m kb p.1 0) &&
                Nat.eqb (count_pos 2 p.2) (table_expect m kb p.1 1) &&
                Nat.eqb (count_pos 3 p.2) (table_expect m kb p.1 2)) (zip te_list outs).

(** * Histories. *)
Inductive hop := HN (o : nop) | HA (o : aop).

Definition hstep (n : nsp) (o : hop) : nsp :=
  match o with
  | HN o => nstep n o
  | HA o => Nsp (astep (n_ad n) o) (n_store n) (n_closed n)
  end.

Definition ahstep (a : ansp) (o : hop) : ansp :=
  match o with
  | HN o => anstep a o
  | HA o => let m := mstep (AMem (an_pairs a) (an_present a)) o in
            ANsp (m_pairs m) (m_present m) (an_store a) (an_closed a)
  end.

Record step := St {
  s_op : hop;
  s_rooms : list (positive * list positive);    (* dump of a.rooms (verif hook) *)
  s_sids : list (positive * list positive);     (* dump of a.sids *)
  s_all : list positive;                        (* Sockets({}) *)
  s_pr : positive; s_prs : list positive;       (* Sockets({pr}) *)
  s_ps : positive; s_pok : bool; s_psr : list positive;   (* SocketRooms(ps) *)
  s_from : option positive; s_T : list positive; s_E : list positive; s_out : list positive;
  s_store : list positive; s_closed : list positive
}.

Definition hcase := (list positive * list step)%type.   (* initial store, steps *)

Definition dump_map (d : list (positive * list positive)) : gmap positive (gset positive) :=
  list_to_map (map (λ p, (p.1, list_to_set p.2)) d).

Definition step_agree (n : nsp) (o : step) : bool :=
  bool_decide (a_rooms (n_ad n) = dump_map (s_rooms o)) &&
  bool_decide (a_sids (n_ad n) = dump_map (s_sids o)) &&
  set_eqb (n_targets n ∅ ∅) (s_all o) &&
  set_eqb (n_targets n {[s_pr o]} ∅) (s_prs o) &&
  bool_decide (a_sids (n_ad n) !! s_ps o = if s_pok o then Some (list_to_set (s_psr o)) else None) &&
  bag_eqb (op_targets n (s_from o) (s_T o) (s_E o)) (s_out o) &&
  bool_decide (n_store n = list_to_set (s_store o)) &&
  bool_decide (n_closed n = list_to_set (s_closed o)).

Fixpoint steps_agree (n : nsp) (l : list step) : bool :=
  match l with
  | [] => true
  | o :: l' => let n' := hstep n (s_op o) in step_agree n' o && steps_agree n' l'
  end.

Definition hist_agree (c : hcase) : bool :=
  steps_agree (Nsp empty_adapter (list_to_set c.1) ∅) c.2.

(** Oracle: the abstract membership relation is folded over the operations, and the
    implementation's observations are compared with what the property says they must be. *)
Definition dump_ok (pairs : gset (positive * positive)) (present : gset positive)
    (rooms sids : list (positive * list positive)) : bool :=
  (* no empty room; keys listed once *)
  forallb (λ p, negb (Nat.eqb (length p.2) 0) && nodupb p.2) rooms &&
  nodupb (map fst rooms) && nodupb (map fst sids) && forallb (λ p, nodupb p.2) sids &&
  (* both indexes denote exactly the abstract relation *)
  bool_decide (pairs = list_to_set (r ← rooms; s ← r.2; [(s, r.1)])) &&
  bool_decide (pairs = list_to_set (s ← sids; r ← s.2; [(s.1, r)])) &&
  bool_decide (present = list_to_set (map fst sids)).

Definition step_oracle (a : ansp) (o : step) : bool :=
  dump_ok (an_pairs a) (an_present a) (s_rooms o) (s_sids o) &&
  (* Sockets / SocketRooms *)
  bool_decide (list_to_set (s_all o) = an_selected a ∅ ∅) &&
  bool_decide (list_to_set (s_prs o) = an_selected a {[s_pr o]} ∅) &&
  bool_decide (s_pok o = bool_decide (s_ps o ∈ an_present a)) &&
  bool_decide ((list_to_set (s_psr o) : gset positive) = an_rooms_of a (s_ps o)) &&
  (* the broadcast reached exactly the selected sockets, once each (the sender's own-id room is
     in the exclusions: what newBroadcastOperator does) *)
  nodupb (s_out o) &&
  bool_decide (list_to_set (s_out o) = an_selected a (list_to_set (s_T o)) (sender_except (s_from o) (list_to_set (s_E o)))) &&
  (* a disconnected socket is in no room and is not known *)
  forallb (λ s, bool_decide (s ∉ an_present a) && forallb (λ p, bool_decide (s ∉ p.2)) (s_rooms o)
                && bool_decide (s ∉ s_store o)) (s_closed o).

Fixpoint steps_oracle (a : ansp) (l : list step) : bool :=
  match l with
  | [] => true
  | o :: l' => let a' := ahstep a (s_op o) in step_oracle a' o && steps_oracle a' l'
  end.

Definition hist_oracle (c : hcase) : bool :=
  steps_oracle (ANsp ∅ ∅ (list_to_set c.1) ∅) c.2.

(** "never reaches the sender", per probe; and the finding class when it fails. *)
Definition sender_clause (o : step) : bool :=
  match s_from o with Some s => bool_decide (s ∉ s_out o) | None => true end.
Fixpoint hist_sender_oracle_steps (l : list step) : bool :=
  match l with [] => true | o :: l' => sender_clause o && hist_sender_oracle_steps l' end.
Definition hist_sender_oracle (c : hcase) : bool := hist_sender_oracle_steps c.2.

(** Finding class `sender-left-own-room`: every probe of the history in which the sender received
    its own broadcast is one where the sender is not in the room named by its own id. *)
Definition sender_left_own_room (o : step) : bool :=
  match s_from o with
  | Some s => bool_decide (s ∈ s_out o) &&
              match list_find (λ p, p.1 = s) (s_sids o) with
              | Some (_, p) => negb (bool_decide (s ∈ p.2))
              | None => true
              end
  | None => false
  end.
Definition hist_sender_known (c : hcase) : bool :=
  forallb (λ o, sender_clause o || sender_left_own_room o) c.2.

(** * Operator programs. *)
Definition ocase := (list binstr * list (list positive * list positive))%type.

Definition ops_agree (c : ocase) : bool :=
  let '(h, ops) := foldl bexec ([], []) c.1 in
  bool_decide (map (bop_opts h) ops = map (λ p, (list_to_set p.1, list_to_set p.2)) c.2).

(** Oracle: every operator denotes what its own derivation says, whatever was derived later. *)
Definition ops_oracle (c : ocase) : bool :=
  bool_decide (foldl bdenote [] c.1 = map (λ p, (list_to_set p.1, list_to_set p.2)) c.2).
