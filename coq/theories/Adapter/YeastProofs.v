(** Proofs about the yeast model: Decode . Encode = id, and the ids handed out along ANY sequence of
    non-decreasing clock readings are pairwise distinct (as Go strings). *)
From Coq Require Import List NArith ZArith Bool Sorted Lia ZifyN ZifyNat ZifyBool.
From SioV Require Import Adapter.Yeast.
Import ListNotations.
Open Scope N_scope.
Ltac Zify.zify_post_hook ::= Z.div_mod_to_equations.

Lemma dec_snoc l d : dec (l ++ [d]) = dec l * 64 + d.
Proof. unfold dec. rewrite fold_left_app. reflexivity. Qed.

Lemma pow64_succ f : 64 ^ N.of_nat (S f) = 64 * 64 ^ N.of_nat f.
Proof. rewrite Nat2N.inj_succ, N.pow_succ_r'. reflexivity. Qed.

Lemma dec_enc_fuel : forall f n, n < 64 ^ N.of_nat f -> dec (enc_fuel f n) = n.
Proof.
  induction f as [|f IH]; intros n Hn.
  - cbn in Hn. cbn. lia.
  - rewrite pow64_succ in Hn. cbn [enc_fuel].
    remember (64 ^ N.of_nat f) as P eqn:HP.
    destruct (N.eqb_spec (n / 64) 0) as [Hq|Hq].
    + unfold dec; cbn [fold_left]. lia.
    + rewrite dec_snoc, IH by (subst P; lia). lia.
Qed.

Lemma enc_fuel_digits : forall f n, Forall (fun d => d < 64) (enc_fuel f n).
Proof.
  induction f as [|f IH]; intros n; cbn [enc_fuel]; [constructor|].
  destruct (n / 64 =? 0).
  - constructor; [lia|constructor].
  - apply Forall_app; split; [apply IH|]. constructor; [lia|constructor].
Qed.

Lemma enc_fuel_nonempty f n : enc_fuel (S f) n <> [].
Proof.
  cbn [enc_fuel]. destruct (n / 64 =? 0); [discriminate|].
  intros H. apply app_eq_nil in H. destruct H as [_ H]. discriminate.
Qed.

Definition fits (n : N) : Prop := n < 2 ^ 66.
Lemma small_fits n : small n -> fits n.
Proof. unfold small, fits. intros H. eapply N.lt_trans; [exact H|]. vm_compute. reflexivity. Qed.

Lemma dec_enc n : fits n -> dec (enc n) = n.
Proof. intros H. apply dec_enc_fuel. exact H. Qed.

Lemma enc_inj a b : fits a -> fits b -> enc a = enc b -> a = b.
Proof. intros Ha Hb E. rewrite <- (dec_enc a Ha), <- (dec_enc b Hb), E. reflexivity. Qed.

Lemma enc_digits n : Forall (fun d => d < 64) (enc n).
Proof. apply enc_fuel_digits. Qed.

Lemma enc_nonempty n : enc n <> [].
Proof. apply enc_fuel_nonempty. Qed.

Lemma list_eqb_spec a b : list_eqb a b = true <-> a = b.
Proof.
  revert b; induction a as [|x a IH]; intros [|y b]; cbn; try (split; congruence).
  rewrite andb_true_iff, N.eqb_eq, IH. split; [intros [-> ->]; reflexivity|intros H; inversion H; auto].
Qed.

(** ---- abstract generator: previous clock value instead of its encoding *)
Definition aid := (N * option N)%type.
Definition rend_a (o : aid) : list sym :=
  match o with (t, None) => enc t | (t, Some s) => enc t ++ sep :: enc s end.

Definition a_yeast (st : option N * N) (t : N) : (option N * N) * aid :=
  let '(p, s) := st in
  match p with
  | Some pt => if pt =? t then ((Some t, s + 1), (t, Some s)) else ((Some t, 0), (t, None))
  | None => ((Some t, 0), (t, None))
  end.

Fixpoint a_run (st : option N * N) (ts : list N) : list aid :=
  match ts with
  | [] => []
  | t :: ts' => let '(st', o) := a_yeast st t in o :: a_run st' ts'
  end.

Definition rel (y : yeaster) (st : option N * N) : Prop :=
  y_seed y = snd st /\
  match fst st with None => y_prev y = [] | Some pt => y_prev y = enc pt /\ fits pt end.

Lemma yeast_refines y st t :
  rel y st -> fits t ->
  rel (fst (yeast y t)) (fst (a_yeast st t)) /\ snd (yeast y t) = rend_a (snd (a_yeast st t)).
Proof.
  destruct st as [p s]. unfold rel, yeast, a_yeast. cbv zeta. cbn [fst snd]. intros [Hs Hp] Ht.
  destruct p as [pt|].
  - destruct Hp as [Hp Hpt]. destruct (N.eqb_spec pt t) as [E|E].
    + subst t. rewrite Hp. rewrite (proj2 (list_eqb_spec _ _) eq_refl). cbn [fst snd y_seed y_prev rend_a]. rewrite Hs. repeat split; auto.
    + destruct (list_eqb (enc t) (y_prev y)) eqn:L.
      * apply list_eqb_spec in L. rewrite Hp in L. apply enc_inj in L; auto. congruence.
      * cbn [fst snd y_seed y_prev rend_a]. repeat split; auto.
  - destruct (list_eqb (enc t) (y_prev y)) eqn:L.
    + apply list_eqb_spec in L. rewrite Hp in L. exfalso. exact (enc_nonempty t L).
    + cbn [fst snd y_seed y_prev rend_a]. repeat split; auto.
Qed.

Lemma run_refines : forall ts y st,
  rel y st -> Forall fits ts -> yeast_run y ts = map rend_a (a_run st ts).
Proof.
  induction ts as [|t ts IH]; intros y st R F; [reflexivity|].
  inversion F as [|? ? Ft Fts]; subst.
  destruct (yeast_refines y st t R Ft) as [R' O].
  cbn [yeast_run a_run]. destruct (yeast y t) as [y' id]. destruct (a_yeast st t) as [st' o].
  cbn [fst snd] in *. cbn [map]. rewrite O. f_equal. apply IH; assumption.
Qed.

(** ---- distinctness of abstract ids: keys grow lexicographically *)
Definition key (o : aid) : N * N := match o with (t, None) => (t, 0) | (t, Some s) => (t, s + 1) end.
Definition lexlt (a b : N * N) : Prop := fst a < fst b \/ (fst a = fst b /\ snd a < snd b).

Lemma key_inj a b : key a = key b -> a = b.
Proof.
  destruct a as [t [s|]], b as [u [r|]]; cbn; intros H; inversion H; subst; try reflexivity; try lia.
  f_equal. f_equal. lia.
Qed.

Definition bound (st : option N * N) (k : N * N) : Prop :=
  match fst st with None => True | Some pt => lexlt (pt, snd st) k end.

Lemma a_run_sorted : forall ts st,
  nondecreasing ts ->
  (forall pt, fst st = Some pt -> Forall (N.le pt) ts) ->
  NoDup (a_run st ts) /\ forall o, In o (a_run st ts) -> bound st (key o).
Proof.
  induction ts as [|t ts IH]; intros [p s] S B; [split; [constructor|intros ? []]|].
  apply StronglySorted_inv in S. destruct S as [S Ht].
  cbn [a_run]. destruct (a_yeast (p, s) t) as [st' o] eqn:E.
  assert (Hst' : fst st' = Some t /\ key o = (t, snd st') /\ bound (p, s) (key o)).
  { unfold a_yeast in E. destruct p as [pt|].
    - specialize (B pt eq_refl). apply Forall_inv in B.
      destruct (N.eqb_spec pt t) as [e|e]; inversion E; subst; cbn; unfold bound, lexlt; cbn; repeat split; lia.
    - inversion E; subst; cbn; unfold bound; cbn; repeat split; auto. }
  destruct Hst' as [Hp [Hk Hb]].
  destruct (IH st' S) as [ND LB].
  { intros pt Hpt. rewrite Hp in Hpt. inversion Hpt; subst. exact Ht. }
  assert (LB' : forall o', In o' (a_run st' ts) -> lexlt (key o) (key o')).
  { intros o' Ho'. specialize (LB o' Ho'). unfold bound in LB. rewrite Hp in LB. rewrite Hk. exact LB. }
  split.
  - constructor; [|exact ND]. intros Hin. apply LB' in Hin. unfold lexlt in Hin. lia.
  - intros o' [<-|Ho']; [exact Hb|].
    apply LB' in Ho'. unfold bound in *. cbn [fst snd] in *. destruct p as [pt|]; [|exact I].
    unfold lexlt in *. cbn [fst snd] in *. lia.
Qed.

Lemma a_run_seed_bound : forall ts st o k,
  In o (a_run st ts) -> snd o = Some k -> k < snd st + N.of_nat (length ts).
Proof.
  induction ts as [|t ts IH]; intros [p s] o k Hin Hk; [destruct Hin|].
  cbn [a_run] in Hin. destruct (a_yeast (p, s) t) as [st' o'] eqn:E.
  assert (Hs : snd st' <= s + 1 /\ forall k', snd o' = Some k' -> k' = s).
  { revert E. unfold a_yeast. destruct p as [pt|]; [destruct (pt =? t)|]; intros E; inversion E; subst; cbn; split; try lia;
      intros k' Hk'; inversion Hk'; reflexivity. }
  destruct Hs as [Hs Ho]. cbn [length snd]. destruct Hin as [<-|Hin].
  - rewrite (Ho k Hk). lia.
  - specialize (IH st' o k Hin Hk). lia.
Qed.

Lemma a_run_time : forall ts st o, In o (a_run st ts) -> In (fst o) ts.
Proof.
  induction ts as [|t ts IH]; intros [p s] o Hin; [destruct Hin|].
  cbn [a_run] in Hin. destruct (a_yeast (p, s) t) as [st' o'] eqn:E.
  assert (fst o' = t).
  { revert E. unfold a_yeast. destruct p as [pt|]; [destruct (pt =? t)|]; intros E; inversion E; reflexivity. }
  destruct Hin as [<-|Hin]; [left; auto|right; eapply IH; eauto].
Qed.

(** ---- the rendering is injective *)
Lemma split_at_sep : forall a b x y,
  Forall (fun d => d < 64) a -> Forall (fun d => d < 64) b ->
  (x = [] \/ exists x', x = sep :: x') -> (y = [] \/ exists y', y = sep :: y') ->
  a ++ x = b ++ y -> a = b /\ x = y.
Proof.
  unfold sep.
  induction a as [|d a IH]; intros [|e b] x y Fa Fb Hx Hy E; cbn in E.
  - auto.
  - apply Forall_inv in Fb. destruct Hx as [->|[x' ->]]; [discriminate E|]. inversion E; lia.
  - apply Forall_inv in Fa. destruct Hy as [->|[y' ->]]; [discriminate E|]. inversion E; lia.
  - inversion Fa; inversion Fb; subst. inversion E; subst.
    destruct (IH b x y) as [-> ->]; auto.
Qed.

Lemma rend_a_inj o1 o2 :
  fits (fst o1) -> fits (fst o2) ->
  (forall k, snd o1 = Some k -> fits k) -> (forall k, snd o2 = Some k -> fits k) ->
  rend_a o1 = rend_a o2 -> o1 = o2.
Proof.
  destruct o1 as [t1 s1], o2 as [t2 s2]; cbn [fst snd]; intros F1 F2 K1 K2 E.
  assert (H : enc t1 = enc t2 /\
              match s1 with None => [] | Some s => sep :: enc s end =
              match s2 with None => [] | Some s => sep :: enc s end).
  { apply split_at_sep; try apply enc_digits.
    - destruct s1; [right; eauto|left; auto].
    - destruct s2; [right; eauto|left; auto].
    - destruct s1, s2; cbn in E; rewrite ?app_nil_r in *; exact E. }
  destruct H as [Ht Hs]. apply enc_inj in Ht; auto. subst t2. f_equal.
  destruct s1 as [a|], s2 as [b|]; try discriminate; auto.
  inversion Hs as [Hab]. apply enc_inj in Hab; auto. congruence.
Qed.

Lemma NoDup_map_inj_in {A B} (f : A -> B) l :
  (forall x y, In x l -> In y l -> f x = f y -> x = y) -> NoDup l -> NoDup (map f l).
Proof.
  induction l as [|a l IH]; intros Inj ND; [constructor|].
  inversion ND as [|? ? Hn ND']; subst. cbn. constructor.
  - intros Hin. apply in_map_iff in Hin. destruct Hin as [b [Hb Hbl]].
    assert (b = a) by (apply Inj; [right; auto|left; auto|auto]). subst. contradiction.
  - apply IH; auto. intros x y Hx Hy. apply Inj; right; auto.
Qed.

Fixpoint nodupb (l : list N) : bool :=
  match l with [] => true | x :: l' => negb (existsb (N.eqb x) l') && nodupb l' end.
Lemma nodupb_sound l : nodupb l = true -> NoDup l.
Proof.
  induction l as [|a l IH]; cbn; [constructor|].
  rewrite andb_true_iff, negb_true_iff. intros [H1 H2]. constructor; auto.
  intros Hin. assert (X : existsb (N.eqb a) l = true).
  { apply existsb_exists. exists a. split; [auto|apply N.eqb_refl]. }
  congruence.
Qed.

Lemma symtab_nodup : NoDup symtab.
Proof. apply nodupb_sound. vm_compute. reflexivity. Qed.

Lemma char_inj a b : a <= 64 -> b <= 64 -> char a = char b -> a = b.
Proof.
  intros Ha Hb E. unfold char in E.
  assert (L : length symtab = 65%nat) by reflexivity.
  apply N2Nat.inj. eapply (proj1 (NoDup_nth symtab 0) symtab_nodup); [lia|lia|exact E].
Qed.

Lemma render_inj : forall a b,
  Forall (fun d => d <= 64) a -> Forall (fun d => d <= 64) b -> render a = render b -> a = b.
Proof.
  induction a as [|x a IH]; intros [|y b] Fa Fb E; cbn in E; try discriminate; auto.
  inversion Fa; inversion Fb; subst. inversion E as [[Hc Hr]].
  f_equal; [apply char_inj; auto|apply IH; auto].
Qed.

Lemma rend_a_syms o : Forall (fun d => d <= 64) (rend_a o).
Proof.
  assert (W : forall n, Forall (fun d => d <= 64) (enc n)).
  { intros n. eapply Forall_impl; [|apply enc_digits]. cbn. intros; lia. }
  destruct o as [t [s|]]; cbn; [|apply W].
  apply Forall_app; split; [apply W|]. constructor; [unfold sep; lia|apply W].
Qed.

(** ---- main results *)
Lemma ids_are_abstract ts : Forall fits ts -> ids_of ts = map rend_a (a_run (None, 0) ts).
Proof. intros F. apply run_refines; [split; reflexivity|exact F]. Qed.

Theorem ids_distinct ts :
  nondecreasing ts -> Forall small ts -> N.of_nat (length ts) < 2 ^ 53 ->
  NoDup (map render (ids_of ts)).
Proof.
  intros S F L.
  assert (F' : Forall fits ts) by (eapply Forall_impl; [|exact F]; intros; apply small_fits; auto).
  rewrite (ids_are_abstract ts F').
  destruct (a_run_sorted ts (None, 0) S) as [ND _]; [intros pt H; discriminate|].
  rewrite map_map. apply NoDup_map_inj_in; [|exact ND].
  intros x y Hx Hy E.
  apply render_inj in E; try apply rend_a_syms.
  apply rend_a_inj in E; auto.
  - rewrite Forall_forall in F'. apply F'. eapply a_run_time; eauto.
  - rewrite Forall_forall in F'. apply F'. eapply a_run_time; eauto.
  - intros k Hk. apply small_fits. unfold small.
    pose proof (a_run_seed_bound ts (None, 0) x k Hx Hk) as B. cbn [snd] in B. lia.
  - intros k Hk. apply small_fits. unfold small.
    pose proof (a_run_seed_bound ts (None, 0) y k Hy Hk) as B. cbn [snd] in B. lia.
Qed.

Corollary ids_distinct_numbered (num : list N -> N) ts :
  (forall a b, num a = num b -> a = b) ->
  nondecreasing ts -> Forall small ts -> N.of_nat (length ts) < 2 ^ 53 ->
  NoDup (map num (map render (ids_of ts))).
Proof.
  intros Inj S F L. apply NoDup_map_inj_in; [intros; auto|apply ids_distinct; auto].
Qed.

(** The clock hypothesis is necessary: a clock that steps back one second repeats an id. *)
Lemma backwards_clock_repeats :
  exists ts, Forall small ts /\ ~ NoDup (map render (ids_of ts)).
Proof.
  exists [5; 5; 4; 5]. split.
  - repeat constructor.
  - vm_compute. intros H. inversion H as [|? ? Hn _]; subst. apply Hn. right; right; left; reflexivity.
Qed.

Example ids_example :
  map render (ids_of [1700000000; 1700000000; 1700000000; 1700000001]) =
  [[49;98;75;95;52;48]; [49;98;75;95;52;48;46;48]; [49;98;75;95;52;48;46;49]; [49;98;75;95;52;49]].
Proof. vm_compute. reflexivity. Qed.
