(** The finite cross-check: every membership matrix of 3 sockets x 3 rooms, every subset of known
    sockets, every (T,E) of room subsets - evaluated on the model by the kernel (vm_compute) and
    compared with the property read directly off the matrix (BroadcastCheck.table_expect). *)
From SioV Require Import Adapter.Rooms Adapter.Broadcast Adapter.BroadcastCheck.
Local Open Scope positive_scope.

Definition table_ok (m kb te : N) : bool :=
  let out := table_model m kb te in
  forallb (λ x, bool_decide (x ∈ [1; 2; 3])) out &&
  Nat.eqb (count_pos 1 out) (table_expect m kb te 0) &&
  Nat.eqb (count_pos 2 out) (table_expect m kb te 1) &&
  Nat.eqb (count_pos 3 out) (table_expect m kb te 2).

Definition nlist (n : nat) : list N := map N.of_nat (seq 0 n).

Lemma in_nlist n x : (x < N.of_nat n)%N → In x (nlist n).
Proof.
  intros H. unfold nlist. apply in_map_iff. exists (N.to_nat x). split; [apply N2Nat.id|].
  apply in_seq. lia.
Qed.

Lemma all_3x3_b :
  forallb (λ m, forallb (λ kb, forallb (table_ok m kb) (nlist 64)) (nlist 8)) (nlist 512) = true.
Proof. vm_compute. reflexivity. Qed.

Theorem all_3x3 m kb te : (m < 512)%N → (kb < 8)%N → (te < 64)%N → table_ok m kb te = true.
Proof.
  intros Hm Hk Ht. pose proof all_3x3_b as H.
  rewrite forallb_forall in H. specialize (H m (in_nlist 512 m Hm)).
  rewrite forallb_forall in H. specialize (H kb (in_nlist 8 kb Hk)).
  rewrite forallb_forall in H. exact (H te (in_nlist 64 te Ht)).
Qed.
