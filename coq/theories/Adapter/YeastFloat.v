(** Go's [Yeaster.Encode] divides through float64:
      [num = int64(math.Floor(float64(num) / float64(length)))]   (length = 64)
    Adapter/Yeast.v models it with integer division.  Here the float computation is stated with
    Flocq's IEEE-754 binary64 format (radix 2, precision 53, emin -1074, round to nearest even) and
    proved equal to integer division for 0 <= num < 2^53: the conversion is exact (an integer below
    2^53 is representable) and so is the division (a power of two only changes the exponent, far from
    the subnormal range).  So the float-faithful encoder and the model's encoder coincide there.
    Uses the real numbers of the standard library (its axioms are listed by Print Assumptions). *)
From Coq Require Import Reals ZArith NArith List Lia.
From Flocq Require Import Core.
From SioV Require Import Adapter.Yeast.
Import ListNotations.

Definition fexp64 := FLT_exp (-1074) 53.
(** rounding of a real to binary64, ties to even *)
Definition rnd64 (x : R) : R := round radix2 fexp64 ZnearestE x.
(** int64(math.Floor(float64(n) / float64(64))) as a mathematical integer *)
Definition fdiv64 (n : Z) : Z := Zfloor (rnd64 (rnd64 (IZR n) / 64)%R).

Lemma scaled_int_in_format (n e : Z) :
  (Z.abs n < 2 ^ 53)%Z -> (-1074 <= e)%Z -> generic_format radix2 fexp64 (F2R (Float radix2 n e)).
Proof. intros Hn He. apply generic_format_FLT. exists (Float radix2 n e); auto. Qed.

Lemma izr_as_float n : IZR n = F2R (Float radix2 n 0).
Proof. unfold F2R; simpl. ring. Qed.

Lemma izr_div64_as_float n : (IZR n / 64)%R = F2R (Float radix2 n (-6)).
Proof. unfold F2R, Rdiv. cbn [Fnum Fexp]. f_equal. Qed.

Theorem float_division_exact (n : Z) : (0 <= n < 2 ^ 53)%Z -> fdiv64 n = (n / 64)%Z.
Proof.
  intros Hn. assert (A : (Z.abs n < 2 ^ 53)%Z) by lia.
  unfold fdiv64, rnd64.
  rewrite (round_generic radix2 fexp64 ZnearestE (IZR n)).
  2:{ rewrite izr_as_float. apply scaled_int_in_format; [exact A|lia]. }
  rewrite (round_generic radix2 fexp64 ZnearestE (IZR n / 64)%R).
  2:{ rewrite izr_div64_as_float. apply scaled_int_in_format; [exact A|lia]. }
  change 64%R with (IZR 64). apply Zfloor_div. lia.
Qed.

(** Encode with the float division, as the Go loop is written ([num % length] is an integer
    operation in Go). *)
Fixpoint enc_go_fuel (f : nat) (n : Z) : list sym :=
  match f with
  | O => []
  | S f' => let d := Z.to_N (n mod 64) in
            let q := fdiv64 n in
            if (q <=? 0)%Z then [d] else enc_go_fuel f' q ++ [d]
  end.

Theorem enc_go_is_enc : forall f (n : N),
  (n < 2 ^ 53)%N -> enc_go_fuel f (Z.of_N n) = enc_fuel f n.
Proof.
  induction f as [|f IH]; intros n Hn; [reflexivity|].
  cbn [enc_go_fuel enc_fuel].
  assert (Hz : (0 <= Z.of_N n < 2 ^ 53)%Z).
  { split; [lia|]. apply N2Z.inj_lt in Hn. exact Hn. }
  rewrite (float_division_exact _ Hz).
  assert (Eq : (Z.of_N n / 64)%Z = Z.of_N (n / 64)) by (rewrite N2Z.inj_div; reflexivity).
  assert (Em : Z.to_N (Z.of_N n mod 64) = (n mod 64)%N).
  { change 64%Z with (Z.of_N 64). rewrite <- N2Z.inj_mod. apply N2Z.id. }
  rewrite Em, Eq.
  destruct (N.eqb_spec (n / 64) 0) as [E0|E0].
  - rewrite E0. reflexivity.
  - destruct (Z.leb_spec (Z.of_N (n / 64)) 0) as [L|L];
      [exfalso; apply E0; destruct (n / 64)%N as [|p]; [reflexivity|cbn in L; lia]|].
    rewrite IH; [reflexivity|].
    apply N.le_lt_trans with n; [|exact Hn]. apply N.div_le_upper_bound; lia.
Qed.
