(** Interval semantics of a broadcast that runs concurrently with membership changes: proofs by
    invariants over ALL runs of the transition system of BroadcastConc.v. *)
From SioV Require Import Adapter.Rooms Adapter.RoomsProofs Adapter.Broadcast Adapter.BroadcastProofs
  Adapter.BroadcastConc.

Local Arguments astep : simpl never.

(** Generic: an invariant preserved by every enabled step, given a fact H that holds in every
    state of the run, holds at the end. *)
Lemma crun_inv (I H : cstate → Prop) :
  (∀ c e c', I c → H c → H c' → cstep c e = Some c' → I c') →
  ∀ evs c c', I c → always H c evs → crun c evs = Some c' → I c'.
Proof.
  intros Hstep. induction evs as [|e evs IH]; intros c c' Hi Ha Hr; simpl in *.
  - by injection Hr as <-.
  - destruct Ha as [Hc Ha]. destruct (cstep c e) as [c1|] eqn:Hs; [|done].
    apply (IH c1 c'); [|done|done]. eapply Hstep; eauto. by destruct evs, Ha.
Qed.

Lemma always_true c evs : always (λ _, True) c evs.
Proof. revert c. induction evs; simpl; intros; [done|]. split; [done|]. by destruct (cstep c a). Qed.

Lemma always_and P Q c evs : always P c evs → always Q c evs → always (λ c, P c ∧ Q c) c evs.
Proof.
  revert c. induction evs as [|e evs IH]; simpl; intros c [? HP] [? HQ]; [done|].
  split; [done|]. destruct (cstep c e); [by apply IH|done].
Qed.

Ltac step_cases Hs :=
  match type of Hs with cstep ?c ?e = Some ?c' =>
    unfold cstep in Hs; destruct e; destruct (c_cur c) as [it|] eqn:Hcur; simpl in Hs;
    try discriminate; repeat case_decide; try discriminate
  end.

(** ** Structural invariant, independent of any socket *)
Definition G (T : gset room) (c : cstate) : Prop :=
  c_todo c ⊆ T ∧
  (c_todo_all c = true → T = ∅) ∧
  (∀ it, c_cur c = Some it → match it_mode it with IRoom r => r ∈ T | IAll => T = ∅ end) ∧
  (T ≠ ∅ → NoDup (c_out c) ∧ ∀ s, s ∈ c_ids c ↔ s ∈ c_out c) ∧
  (∀ s, s ∈ c_out c → s ∉ c_ex c).

Lemma G_init ad store T E : G T (cinit ad store T E).
Proof.
  unfold G, cinit. simpl. split; [done|]. split; [by intros ?%bool_decide_eq_true|].
  split; [done|]. split; [|set_solver]. intros _. split; [constructor|set_solver].
Qed.

Lemma G_step T c e c' : G T c → cstep c e = Some c' → G T c'.
Proof.
  intros (G1 & G2 & G3 & G4 & G5) Hs. step_cases Hs.
  Local Ltac G_triv :=
    unfold G; simpl; repeat split; try done;
    try (match goal with G4 : _ ≠ ∅ → _ |- _ => apply G4; done end);
    try (match goal with G3 : ∀ it, _ = Some it → _ |- _ => intros it' [= <-]; simpl; by apply G3 end);
    try (match goal with G3 : ∀ it, _ = Some it → _ |- _ => intros it' ?; by apply G3 end).
  - (* EEnv, iterating *) injection Hs as <-. G_triv.
  - injection Hs as <-. G_triv.
  - (* EStore *) injection Hs as <-. G_triv.
  - injection Hs as <-. G_triv.
  - (* ENext *) injection Hs as <-. unfold G. simpl. destruct H as [Hr _].
    split; [set_solver|]. split; [done|]. split; [|split; [done|done]].
    intros it'. destruct (a_rooms (c_ad c) !! r); [|done]. intros [= <-]. simpl. set_solver.
  - (* EAll *) injection Hs as <-. unfold G. simpl. destruct H as [Ht _].
    split; [done|]. split; [done|]. split; [|split; [done|done]].
    intros it' [= <-]. simpl. by apply G2.
  - (* EProduce *) destruct (body (it_mode it) c s) as [ids' out'] eqn:Hb. injection Hs as <-.
    unfold G. simpl. split; [done|]. split; [done|]. split; [intros it' [= <-]; simpl; by apply G3|].
    unfold body in Hb. destruct (it_mode it) as [r|] eqn:Hm.
    + destruct (decide (s ∈ c_ids c ∨ s ∈ c_ex c)) as [Hd|Hd]; [injection Hb as <- <-; done|].
      destruct (decide (s ∈ c_store c)); injection Hb as <- <-; [|done].
      split.
      * intros Hne. destruct (G4 Hne) as [Hnd Hids]. split.
        -- apply NoDup_app. split; [done|]. split; [|apply NoDup_singleton].
           intros x Hx ->%elem_of_list_singleton. apply Hd. left. by apply Hids.
        -- intros x. rewrite elem_of_union, elem_of_app, elem_of_singleton, elem_of_list_singleton, Hids. done.
      * intros x [Hx| ->%elem_of_list_singleton]%elem_of_app; [by apply G5|]. tauto.
    + destruct (decide (s ∈ c_ex c)) as [Hd|Hd]; [injection Hb as <- <-; done|].
      destruct (decide (s ∈ c_store c)); injection Hb as <- <-; [|done].
      split.
      * intros Hne. exfalso. apply Hne. specialize (G3 it eq_refl). by rewrite Hm in G3.
      * intros x [Hx| ->%elem_of_list_singleton]%elem_of_app; [by apply G5|]. done.
  - (* EEndIter *) injection Hs as <-. G_triv.
  - (* EEnd *) injection Hs as <-. G_triv.
Qed.

Lemma G_run ad store T E evs c' : crun (cinit ad store T E) evs = Some c' → G T c'.
Proof.
  intros Hr. eapply (crun_inv (G T) (λ _, True)); [|apply G_init|apply always_true|done].
  intros c e c1 Hg _ _ Hs. by eapply G_step.
Qed.

(** ** At most once (rooms branch): unconditional *)
Theorem conc_rooms_at_most_once ad store T E evs c' :
  T ≠ ∅ → crun (cinit ad store T E) evs = Some c' → NoDup (c_out c').
Proof. intros Hne Hr. destruct (G_run _ _ _ _ _ _ Hr) as (_ & _ & _ & G4 & _). by apply G4. Qed.

(** ** Never: excluded at the start / unknown throughout / non-member throughout *)
Theorem conc_never_excluded ad store T E evs c' s :
  s ∈ except_sids E ad → crun (cinit ad store T E) evs = Some c' → s ∉ c_out c'.
Proof.
  intros Hex Hr Hin. destruct (G_run _ _ _ _ _ _ Hr) as (_ & _ & _ & _ & G5).
  apply (G5 s Hin).
  assert (Hc : c_ex c' = except_sids E ad); [|by rewrite Hc].
  eapply (crun_inv (λ c, c_ex c = except_sids E ad) (λ _, True)); [| |apply always_true|done]; [|done].
  intros c e c1 Hi _ _ Hs. step_cases Hs; try (injection Hs as <-; done).
  destruct (body _ _ _). by injection Hs as <-.
Qed.

Definition never_inv (T : gset room) (s : sid) (c : cstate) : Prop := G T c ∧ s ∉ c_out c.

Lemma never_step T s (H : cstate → Prop) :
  (∀ c it, H c → G T c → c_cur c = Some it → s ∈ ikeys (it_mode it) (c_ad c) → s ∈ c_store c → False) →
  ∀ c e c', never_inv T s c → H c → H c' → cstep c e = Some c' → never_inv T s c'.
Proof.
  intros Himp c e c' [Hg Hn] Hc Hc' Hs. split; [by eapply G_step|].
  step_cases Hs; try (injection Hs as <-; done).
  destruct (body (it_mode it) c s0) as [ids' out'] eqn:Hb. injection Hs as <-. simpl.
  destruct H0 as [Hk _].
  assert (Hgoal : s0 = s → s0 ∈ c_store c → False).
  { intros -> Hst. by eapply (Himp c it). }
  unfold body in Hb. destruct (it_mode it).
  - destruct (decide (s0 ∈ c_ids c ∨ s0 ∈ c_ex c)); [by injection Hb as <- <-|].
    destruct (decide (s0 ∈ c_store c)); injection Hb as <- <-; [|done].
    intros [?| ->%elem_of_list_singleton]%elem_of_app; [done|]. by apply Hgoal.
  - destruct (decide (s0 ∈ c_ex c)); [by injection Hb as <- <-|].
    destruct (decide (s0 ∈ c_store c)); injection Hb as <- <-; [|done].
    intros [?| ->%elem_of_list_singleton]%elem_of_app; [done|]. by apply Hgoal.
Qed.

Theorem conc_never_unknown ad store T E evs c' s :
  always (λ c, s ∉ c_store c) (cinit ad store T E) evs →
  crun (cinit ad store T E) evs = Some c' → s ∉ c_out c'.
Proof.
  intros Ha Hr.
  apply (crun_inv (never_inv T s) (λ c, s ∉ c_store c)) with (c' := c') in Ha; [by destruct Ha| | |done].
  - apply never_step. intros c it Hc _ _ _ Hst. done.
  - split; [apply G_init|]. simpl. set_solver.
Qed.

Theorem conc_never_nonmember_rooms ad store T E evs c' s :
  T ≠ ∅ →
  always (λ c, ∀ r, r ∈ T → s ∉ room_sids (c_ad c) r) (cinit ad store T E) evs →
  crun (cinit ad store T E) evs = Some c' → s ∉ c_out c'.
Proof.
  intros Hne Ha Hr.
  apply (crun_inv (never_inv T s) (λ c, ∀ r, r ∈ T → s ∉ room_sids (c_ad c) r)) with (c' := c') in Ha;
    [by destruct Ha| | |done].
  - apply never_step. intros c it Hc (_ & _ & G3 & _) Hcur Hk _.
    specialize (G3 it Hcur). destruct (it_mode it) as [r|]; simpl in Hk; [by apply (Hc r)|done].
  - split; [apply G_init|]. simpl. set_solver.
Qed.

Theorem conc_never_nonmember_all ad store E evs c' s :
  always (λ c, s ∉ dom (a_sids (c_ad c))) (cinit ad store ∅ E) evs →
  crun (cinit ad store ∅ E) evs = Some c' → s ∉ c_out c'.
Proof.
  intros Ha Hr.
  apply (crun_inv (never_inv ∅ s) (λ c, s ∉ dom (a_sids (c_ad c)))) with (c' := c') in Ha;
    [by destruct Ha| | |done].
  - apply never_step. intros c it Hc (_ & _ & G3 & _) Hcur Hk _.
    specialize (G3 it Hcur). destruct (it_mode it) as [r|]; simpl in Hk; [set_solver|done].
  - split; [apply G_init|]. simpl. set_solver.
Qed.

(** ** Must: a member throughout, known throughout, not excluded at the start *)
Lemma once_snoc_other s x l : x ≠ s → once s l → once s (l ++ [x]).
Proof.
  intros Hne (l1 & l2 & -> & H1 & H2). exists l1, (l2 ++ [x]). split; [by rewrite <- app_assoc|].
  split; [done|]. rewrite elem_of_app, elem_of_list_singleton. intros [?|?]; [done|congruence].
Qed.
Lemma once_snoc_new s l : s ∉ l → once s (l ++ [s]).
Proof. intros. exists l, []. split; [done|]. split; [done|]. apply not_elem_of_nil. Qed.
Lemma once_NoDup s l : NoDup l → s ∈ l → once s l.
Proof.
  intros Hnd (l1 & l2 & ->)%elem_of_list_split. exists l1, l2. split; [done|].
  apply NoDup_app in Hnd as (_ & Hd & Hnd2). split.
  - intros Hin. apply (Hd s Hin). apply elem_of_list_here.
  - by apply NoDup_cons in Hnd2 as [? _].
Qed.

Definition must_rooms_inv (T : gset room) (r : room) (s : sid) (c : cstate) : Prop :=
  G T c ∧
  (s ∈ c_ids c ∨ r ∈ c_todo c ∨
   ∃ it, c_cur c = Some it ∧ it_mode it = IRoom r ∧ s ∈ it_pending it).

Theorem conc_must_rooms ad store T E evs c' r s :
  r ∈ T → s ∉ except_sids E ad →
  always (λ c, s ∈ c_store c ∧ s ∈ room_sids (c_ad c) r) (cinit ad store T E) evs →
  crun (cinit ad store T E) evs = Some c' → c_fin c' = true →
  once s (c_out c').
Proof.
  intros HrT Hex Ha Hr Hfin.
  assert (Hne : T ≠ ∅) by set_solver.
  assert (Hexc : ∀ c, (c_ex c = except_sids E ad ∧ must_rooms_inv T r s c) → s ∉ c_ex c).
  { intros c [-> _]. done. }
  apply (crun_inv (λ c, c_ex c = except_sids E ad ∧ (c_fin c = true → c_cur c = None ∧ c_todo c = ∅) ∧ must_rooms_inv T r s c)
                  (λ c, s ∈ c_store c ∧ s ∈ room_sids (c_ad c) r)) with (c' := c') in Ha; [| | |done].
  - destruct Ha as (_ & Hf & (_ & _ & _ & G4 & _) & Hi). destruct (Hf Hfin) as [Hcur Htodo].
    destruct (G4 Hne) as [Hnd Hids]. apply once_NoDup; [done|]. apply Hids.
    destruct Hi as [?|[?|(it & ? & _)]]; [done|set_solver|congruence].
  - intros c e c1 (Hexeq & Hf & Hg & Hi) [Hst Hmem] [Hst1 Hmem1] Hs.
    assert (Hg1 : G T c1) by (by eapply G_step).
    assert (Hsex : s ∉ c_ex c) by (by rewrite Hexeq).
    step_cases Hs.
    + (* EEnv, iterating *) injection Hs as <-. simpl in *. split; [done|]. split; [intros Hfi; by destruct (Hf Hfi)|].
      split; [done|]. destruct Hi as [?|[?|(it' & [= <-] & Hm & Hp)]]; [by left|by right; left|].
      right; right. eexists. split; [done|]. simpl. split; [done|]. rewrite Hm. simpl. set_solver.
    + injection Hs as <-. simpl in *. split; [done|]. split; [done|]. split; [done|].
      destruct Hi as [?|[?|(it' & ? & _)]]; [by left|by right; left|congruence].
    + (* EStore *) injection Hs as <-. simpl in *. split; [done|]. split; [done|]. split; [done|].
      destruct Hi as [?|[?|(it' & [= <-] & Hm & Hp)]]; [by left|by right; left|]. right; right. eauto.
    + injection Hs as <-. simpl in *. split; [done|]. split; [done|]. split; [done|].
      destruct Hi as [?|[?|(it' & ? & _)]]; [by left|by right; left|congruence].
    + (* ENext *) injection Hs as <-. simpl in *. destruct H as [Hr0 Hnf].
      split; [done|]. split; [intros ?; congruence|]. split; [done|].
      destruct Hi as [?|[Hin|(it' & ? & _)]]; [by left| |congruence].
      destruct (decide (r0 = r)) as [->|Hne0].
      * right; right. apply room_sids_lookup in Hmem as (x & Hx & Hsx). rewrite Hx.
        eexists. split; [done|]. simpl. done.
      * right; left. set_solver.
    + (* EAll *) injection Hs as <-. simpl in *. destruct H as [Hta _].
      destruct Hg as (_ & G2 & _). exfalso. apply Hne. by apply G2.
    + (* EProduce *) destruct (body (it_mode it) c s0) as [ids' out'] eqn:Hb. injection Hs as <-. simpl in *.
      split; [done|]. split; [intros Hfi; by destruct (Hf Hfi)|]. split; [done|].
      destruct Hi as [Hin|[?|(it' & [= <-] & Hm & Hp)]].
      * left. unfold body in Hb. destruct (it_mode it).
        -- destruct (decide (s0 ∈ c_ids c ∨ s0 ∈ c_ex c)); [by injection Hb as <- <-|].
           destruct (decide (s0 ∈ c_store c)); injection Hb as <- <-; set_solver.
        -- destruct (decide (s0 ∈ c_ex c)); [by injection Hb as <- <-|].
           destruct (decide (s0 ∈ c_store c)); by injection Hb as <- <-.
      * by right; left.
      * destruct (decide (s0 = s)) as [->|Hne0].
        -- left. unfold body in Hb. rewrite Hm in Hb.
           destruct (decide (s ∈ c_ids c ∨ s ∈ c_ex c)) as [[?|?]|Hd]; [by injection Hb as <- <-|done|].
           rewrite decide_True in Hb by done. injection Hb as <- <-. set_solver.
        -- right; right. eexists. split; [done|]. simpl. split; [done|]. set_solver.
    + (* EEndIter *) injection Hs as <-. simpl in *. split; [done|]. split; [intros Hfi; by destruct (Hf Hfi)|]. split; [done|].
      destruct Hi as [?|[?|(it' & [= <-] & Hm & Hp)]]; [by left|by right; left|]. set_solver.
    + (* EEnd *) injection Hs as <-. simpl in *. destruct H as (Ht & _ & _).
      split; [done|]. split; [done|]. split; [done|].
      destruct Hi as [?|[?|(it' & ? & _)]]; [by left|by right; left|congruence].
  - split; [done|]. split; [done|]. split; [apply G_init|]. right; left. done.
Qed.

Definition must_all_inv (s : sid) (c : cstate) : Prop :=
  G ∅ c ∧
  ((c_todo_all c = true ∧ c_cur c = None ∧ s ∉ c_out c) ∨
   (∃ it, c_cur c = Some it ∧ it_mode it = IAll ∧ c_todo_all c = false ∧
          ((s ∈ it_pending it ∧ s ∉ it_done it ∧ s ∉ c_out c) ∨ (s ∈ it_done it ∧ once s (c_out c)))) ∨
   (c_todo_all c = false ∧ c_cur c = None ∧ once s (c_out c))).

Theorem conc_must_all ad store E evs c' s :
  s ∉ except_sids E ad →
  always (λ c, s ∈ c_store c ∧ s ∈ dom (a_sids (c_ad c))) (cinit ad store ∅ E) evs →
  crun (cinit ad store ∅ E) evs = Some c' → c_fin c' = true →
  once s (c_out c').
Proof.
  intros Hex Ha Hr Hfin.
  apply (crun_inv (λ c, c_ex c = except_sids E ad ∧ (c_fin c = true → c_cur c = None ∧ c_todo_all c = false) ∧ must_all_inv s c)
                  (λ c, s ∈ c_store c ∧ s ∈ dom (a_sids (c_ad c)))) with (c' := c') in Ha; [| | |done].
  - destruct Ha as (_ & Hf & _ & Hi). destruct (Hf Hfin) as [Hcur Hta].
    destruct Hi as [(? & _)|[(it & ? & _)|(_ & _ & ?)]]; [congruence|congruence|done].
  - intros c e c1 (Hexeq & Hf & Hg & Hi) [Hst Hmem] [Hst1 Hmem1] Hs.
    assert (Hg1 : G ∅ c1) by (by eapply G_step).
    assert (Hsex : s ∉ c_ex c) by (by rewrite Hexeq).
    step_cases Hs.
    + (* EEnv, iterating *) injection Hs as <-. simpl in *. split; [done|]. split; [intros Hfi; by destruct (Hf Hfi)|].
      split; [done|]. destruct Hi as [(? & ? & _)|[(it' & [= <-] & Hm & Hta & Hcase)|(_ & ? & _)]]; [congruence| |congruence].
      right; left. eexists. split; [done|]. simpl. split; [done|]. split; [done|]. rewrite Hm. simpl.
      destruct Hcase as [(? & ? & ?)|(? & ?)]; [left|right]; set_solver.
    + injection Hs as <-. simpl in *. split; [done|]. split; [done|]. split; [done|].
      destruct Hi as [?|[(it' & ? & _)|?]]; [by left|congruence|by right; right].
    + (* EStore *) injection Hs as <-. simpl in *. split; [done|]. split; [done|]. split; [done|].
      destruct Hi as [(? & ? & _)|[?|(_ & ? & _)]]; [congruence|by right; left|congruence].
    + injection Hs as <-. simpl in *. split; [done|]. split; [done|]. split; [done|].
      destruct Hi as [?|[(it' & ? & _)|?]]; [by left|congruence|by right; right].
    + (* ENext: impossible, T is empty *) destruct H as [Hr0 _]. destruct Hg as (G1 & _). set_solver.
    + (* EAll *) injection Hs as <-. simpl in *. destruct H as [Hta Hnf].
      split; [done|]. split; [intros ?; congruence|]. split; [done|].
      destruct Hi as [(_ & _ & Hno)|[(it' & ? & _)|(? & _)]]; [|congruence|congruence].
      right; left. eexists. split; [done|]. simpl. split; [done|]. split; [done|]. left. set_solver.
    + (* EProduce *) destruct (body (it_mode it) c s0) as [ids' out'] eqn:Hb. injection Hs as <-. simpl in *.
      split; [done|]. split; [intros Hfi; by destruct (Hf Hfi)|]. split; [done|].
      destruct Hi as [(_ & ? & _)|[(it' & [= <-] & Hm & Hta & Hcase)|(_ & ? & _)]]; [congruence| |congruence].
      right; left. eexists. split; [done|]. simpl. split; [done|]. split; [done|].
      destruct H as [Hk Hnd]. unfold body in Hb. rewrite Hm in Hb.
      destruct (decide (s0 = s)) as [->|Hne0].
      * destruct Hcase as [(Hp & Hd & Hno)|(Hd & _)]; [|done].
        rewrite decide_False in Hb by done. rewrite decide_True in Hb by done. injection Hb as <- <-.
        right. split; [set_solver|]. by apply once_snoc_new.
      * destruct (decide (s0 ∈ c_ex c)); [injection Hb as <- <-|destruct (decide (s0 ∈ c_store c)); injection Hb as <- <-].
        -- destruct Hcase as [(? & ? & ?)|(? & ?)]; [left|right]; set_solver.
        -- destruct Hcase as [(? & ? & Hno)|(? & ?)]; [left|right].
           ++ split; [set_solver|]. split; [set_solver|]. rewrite elem_of_app, elem_of_list_singleton. intros [?|?]; [done|congruence].
           ++ split; [set_solver|]. by apply once_snoc_other.
        -- destruct Hcase as [(? & ? & ?)|(? & ?)]; [left|right]; set_solver.
    + (* EEndIter *) injection Hs as <-. simpl in *. split; [done|]. split; [intros Hfi; by destruct (Hf Hfi)|]. split; [done|].
      destruct Hi as [(_ & ? & _)|[(it' & [= <-] & Hm & Hta & Hcase)|(_ & ? & _)]]; [congruence| |congruence].
      right; right. split; [done|]. split; [done|]. destruct Hcase as [(? & _)|(_ & ?)]; [set_solver|done].
    + (* EEnd *) injection Hs as <-. simpl in *. destruct H as (_ & Hta & _).
      split; [done|]. split; [done|]. split; [done|].
      destruct Hi as [(? & _)|[(it' & ? & _)|?]]; [congruence|congruence|by right; right].
  - split; [done|]. split; [done|]. split; [apply G_init|]. left. simpl. split; [by apply bool_decide_eq_true|].
    split; [done|]. apply not_elem_of_nil.
Qed.

(** Non-vacuity: a complete run exists in which a socket leaves and another joins while the
    broadcast is under way. *)
Example conc_run_example :
  let ad := add_all 2%positive [5%positive] (add_all 1%positive [5%positive] empty_adapter) in
  ∃ c', crun (cinit ad {[1%positive; 2%positive; 3%positive]} {[5%positive]} ∅)
          [ENext 5%positive; EProduce 1%positive; EEnv (Delete 2%positive 5%positive);
           EEnv (AddAll 3%positive [5%positive]); EEndIter; EEnd] = Some c'
        ∧ c_fin c' = true ∧ c_out c' = [1%positive].
Proof. eexists. vm_compute. done. Qed.
