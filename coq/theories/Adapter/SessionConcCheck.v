(** agree / oracle for the concurrency rig of C08 (one broadcast in flight, one reconnecting
    session, steps issued from inside the broadcast). *)
From SioV Require Import Base.GoSem Adapter.Session Adapter.SessionCheck Adapter.SessionConc.
Open Scope Z_scope.

(** configuration, history that builds the initial adapter state, schedule reconstructed from the
    implementation's event order, observations: restore ok, occurrences of P among the missed
    packets, ids of the other missed packets, live deliveries of P, P logged at the end *)
Definition ccase := (cfg * list (Z * op) * list cstep * (bool * N * list N * N * bool))%type.

Definition mkCC (W : Z) (pid off id : N) (rooms except : list N) (h : list (Z * op)) (sched : list cstep)
           (ok : bool) (missedp : N) (missed_other : list N) (livep : N) (logged : bool) : ccase :=
  (mkCfg true W pid off id (mkOpts rooms except), h, sched, (ok, missedp, missed_other, livep, logged)).

Definition count_n (x : N) (l : list N) : N := N.of_nat (length (filter (N.eqb x) l)).

Definition agree_conc (c : ccase) : bool :=
  let '(g, h, sched, (ok, missedp, missed_other, livep, logged)) := c in
  match crun g sched (cinit (final (g_W g) h)) with
  | None => false
  | Some r =>
      Bool.eqb ok (negb (c_fb r) && negb (Nat.eqb (c_phase r) 0))
      && N.eqb (count_n (g_id g) (c_missed r)) missedp
      && nlist_eqb (filter (fun x => negb (N.eqb x (g_id g))) (c_missed r)) missed_other
      && N.eqb (N.of_nat (c_live r)) livep
      && Bool.eqb (c_app r) logged
  end.

(** The property across the reconnection instant, on the observations alone: a recovered session
    gets every packet addressed to it exactly once - replayed or live, never neither, never both -
    and no packet that is not addressed to it.  (The session's rooms are those of the last persist.) *)
Definition oracle_conc (c : ccase) : bool :=
  let '(g, h, sched, (ok, missedp, missed_other, livep, logged)) := c in
  logged &&
  match last_persist (g_pid g) h None with
  | None => negb ok
  | Some (s, _) =>
      if ok then N.eqb (missedp + livep) (if should_include (s_rooms s) (g_opts g) then 1 else 0)%N
      else negb (mem (g_off g) (map p_id (emitted h))) && N.eqb livep 0
  end.

Definition both_conc (c : ccase) : bool := agree_conc c && oracle_conc c.

(** finding classes (decidable on the schedule): the reconnection is not one atomic step, or it
    lands while the broadcast is in flight (appended, iteration not over) *)
Fixpoint split_reconnect (sched : list cstep) : bool :=
  match sched with
  | SRestore :: SJoin :: SVisible :: sched' => split_reconnect sched'
  | SRestore :: _ => true
  | _ :: sched' => split_reconnect sched'
  | [] => false
  end.

Fixpoint inflight_at_restore (sched : list cstep) (app ended : bool) : bool :=
  match sched with
  | [] => false
  | SAppend :: s' => inflight_at_restore s' true ended
  | SEnd :: s' => inflight_at_restore s' app true
  | SRestore :: _ | SReconnect :: _ => app && negb ended
  | _ :: s' => inflight_at_restore s' app ended
  end.

Definition key_not_atomic (c : ccase) : bool := let '(_, _, sched, _) := c in split_reconnect sched.
Definition key_in_flight (c : ccase) : bool := let '(_, _, sched, _) := c in inflight_at_restore sched false false.
