(** Proofs about the concurrent view (C08): one broadcast in flight against one reconnection. *)
From SioV Require Import Base.GoSem Adapter.Session Adapter.SessionProofs Adapter.SessionConc.
Open Scope Z_scope.

Definition fresh_log (W : Z) (l : list ppacket) : Prop :=
  Forall (fun p => pkt_expired W 0 p = false) l.

Lemma last_index_all_false {A} (f : A -> bool) l :
  (forall b, In b l -> f b = false) -> last_index f l = None.
Proof.
  induction l as [|a l IH]; simpl; intros H; auto.
  rewrite IH by auto. rewrite (H a) by auto. reflexivity.
Qed.

Lemma clean_fresh W l : fresh_log W l -> clean_packets W 0 l = l.
Proof.
  intros F. unfold clean_packets. rewrite last_index_all_false; auto.
  intros b Hb. unfold fresh_log in F. rewrite Forall_forall in F. auto.
Qed.

Lemma after_offset_app off l x rest :
  after_offset off l = Some rest -> after_offset off (l ++ x) = Some (rest ++ x).
Proof.
  induction l as [|p l IH]; simpl; try discriminate.
  destruct (N.eqb (p_id p) off); intros H; auto. now inversion H.
Qed.

(** what any adapter operation at time 0 does to a log in which nothing has expired *)
Lemma step_log W o st :
  0 <= W -> fresh_log W (st_packets st) ->
  exists x, st_packets (fst (step W 0 o st)) = st_packets st ++ x /\ fresh_log W x.
Proof.
  intros HW F. destruct o as [k id opts | s | | q off].
  - unfold step. simpl. destruct (loggable k); simpl.
    + exists [mkPkt id 0 opts]. split; auto. constructor; [|constructor].
      unfold pkt_expired. simpl. apply Z.ltb_ge. lia.
    + exists []. rewrite app_nil_r. split; auto. constructor.
  - unfold step. simpl. exists []. rewrite app_nil_r. split; auto. constructor.
  - unfold step. simpl. rewrite clean_fresh by auto. exists []. rewrite app_nil_r. split; auto. constructor.
  - rewrite step_restore_fst. destruct (restore_state W 0 q off st) as [-> _].
    exists []. rewrite app_nil_r. split; auto. constructor.
Qed.

Definition P (g : cfg) : ppacket := mkPkt (g_id g) 0 (g_opts g).

(** invariant of runs in which the reconnection is atomic and the log append comes first *)
Record CI (g : cfg) (c : cst) : Prop := {
  ci_phase : c_phase c = 0%nat \/ c_phase c = 3%nat;
  ci_fresh : fresh_log (g_W g) (st_packets (c_st c));
  ci_off : exists rest, after_offset (g_off g) (st_packets (c_st c)) = Some rest /\
                        (c_app c = true -> In (P g) rest);
  ci_late : c_late c = true -> c_app c = true /\ c_phase c = 3%nat;
  ci_nl : c_app c = true -> c_late c = false -> c_phase c = 3%nat -> addressed g c = true ->
          In (g_id g) (c_missed c);
  ci_beg : c_begun c = true -> c_app c = true;
  ci_must : c_late c = true -> c_begun c = true -> addressed g c = true -> c_must c = true;
  ci_vb : c_vis c = true -> c_begun c = true;
  ci_vis : c_late c = true -> c_vis c = true -> (1 <= c_live c)%nat;
  ci_end : c_ended c = true -> c_begun c = true /\ (c_must c = true -> c_vis c = true)
}.

Ltac psimpl :=
  cbn [c_st c_app c_begun c_must c_exc c_vis c_ended c_late c_quiet c_phase c_rooms c_missed c_fb c_live
       set_st set_phase addressed] in *.

Ltac bool_hyps :=
  repeat match goal with
  | H : _ && _ = true |- _ => apply andb_true_iff in H; destruct H
  | H : negb _ = true |- _ => apply negb_true_iff in H
  | H : _ || _ = true |- _ => apply orb_true_iff in H
  | H : Nat.eqb _ _ = true |- _ => apply Nat.eqb_eq in H
  | H : Nat.eqb _ _ = false |- _ => apply Nat.eqb_neq in H
  end.

Lemma do_restore_packets g c n : st_packets (c_st (do_restore g c n)) = st_packets (c_st c).
Proof.
  unfold do_restore.
  pose proof (restore_state (g_W g) 0 (g_pid g) (g_off g) (c_st c)) as [E _].
  destruct (restore (g_W g) 0 (g_pid g) (g_off g) (c_st c)) as [st' [[s ms]|]]; simpl in *; auto.
Qed.

Lemma do_restore_cases g c n :
  (exists st' s ms, restore (g_W g) 0 (g_pid g) (g_off g) (c_st c) = (st', Some (s, ms)) /\
     do_restore g c n =
     mkC st' (c_app c) (c_begun c) (c_must c) (c_exc c) (c_vis c) (c_ended c) (c_late c)
         (negb (c_app c) || c_ended c) n (s_rooms s) (map p_id ms) false (c_live c))
  \/ (exists st', do_restore g c n =
     mkC st' (c_app c) (c_begun c) (c_must c) (c_exc c) (c_vis c) (c_ended c) (c_late c) (c_quiet c)
         0 [] [] true (c_live c)).
Proof.
  unfold do_restore.
  destruct (restore (g_W g) 0 (g_pid g) (g_off g) (c_st c)) as [st' [[s ms]|]]; [left|right]; eauto.
Qed.

Lemma cstep_inv g s c c' :
  g_lf g = true -> 0 <= g_W g ->
  match s with SRestore | SJoin | SVisible => False | _ => True end ->
  CI g c -> cstep_run g s c = Some c' -> CI g c'.
Proof.
  intros LF HW NS I H. destruct I as [IP IF [rest [IO IO']] IL INL IB IM IVB IV IE].
  destruct s; try contradiction; unfold cstep_run in H; rewrite ?LF in H.
  - (* SAppend *)
    destruct (negb (c_app c) && negb (c_begun c)) eqn:G; try discriminate. inversion H; subst c'; clear H.
    bool_hyps.
    constructor; psimpl; auto.
    + simpl. apply Forall_app. split; auto. constructor; [|constructor].
      unfold pkt_expired. simpl. apply Z.ltb_ge. lia.
    + exists (rest ++ [P g]). simpl. split; [now apply after_offset_app|].
      intros _. apply in_or_app. right. now left.
    + intros HL. bool_hyps. split; auto. destruct IP; [congruence|auto].
    + intros _ HL HP. apply negb_false_iff in HL. apply Nat.eqb_eq in HL. congruence.
    + intros _ HB. congruence.
    + intros _ HV. apply IVB in HV. congruence.
  - (* SBegin *)
    destruct (negb (c_begun c) && c_app c) eqn:G; try discriminate. inversion H; subst c'; clear H.
    bool_hyps. constructor; psimpl; auto.
    + exists rest. auto.
    + intros HL _ HA. destruct (IL HL) as [_ HP]. rewrite HP. simpl. exact HA.
    + intros HE. apply IE in HE as [HE _]. congruence.
  - (* SVisit *)
    destruct (c_begun c && negb (c_ended c) && negb (c_vis c) && Nat.leb 2 (c_phase c)
              && included (c_rooms c) (g_opts g) && negb (c_exc c)) eqn:G; try discriminate.
    inversion H; subst c'; clear H. bool_hyps. constructor; psimpl; auto.
    + exists rest. auto.
    + intros HL _. destruct (IL HL) as [_ HP]. rewrite HP. simpl. lia.
  - (* SEnd *)
    destruct (c_begun c && negb (c_ended c) && (negb (c_must c) || c_vis c)) eqn:G; try discriminate.
    inversion H; subst c'; clear H. bool_hyps. constructor; psimpl; auto.
    + exists rest. auto.
    + intros _. split; auto. intros HM.
      match goal with HH : negb _ = true \/ _ |- _ => destruct HH as [HH|HH]; auto;
        apply negb_true_iff in HH; congruence end.
  - (* SReconnect *)
    destruct (Nat.eqb (c_phase c) 0 && negb (c_fb c)) eqn:G; try discriminate.
    inversion H; subst c'; clear H. bool_hyps.
    assert (c_late c = false) as NL.
    { destruct (c_late c) eqn:E; auto. destruct (IL eq_refl) as [_ HP]. congruence. }
    destruct (do_restore_cases g c 3) as [[st' [s [ms [R E]]]] | [st' E]].
    + pose proof (do_restore_packets g c 3) as EP. rewrite E in *. simpl in EP.
      constructor; psimpl; auto.
      * rewrite EP. auto.
      * exists rest. rewrite EP. auto.
      * intros HL. congruence.
      * intros HA _ _ HAd.
        assert (snd (restore (g_W g) 0 (g_pid g) (g_off g) (c_st c)) = Some (s, ms)) as RS by now rewrite R.
        destruct (restore_some _ _ _ _ _ _ _ RS) as [td [rest1 [_ [_ [A ->]]]]].
        rewrite IO in A. inversion A; subst rest1.
        change (g_id g) with (p_id (P g)). apply in_map. apply filter_In. split; auto.
      * intros HL. congruence.
    + pose proof (do_restore_packets g c 3) as EP. rewrite E in *. simpl in EP.
      constructor; psimpl; auto.
      * rewrite EP. auto.
      * exists rest. rewrite EP. auto.
      * intros HL. congruence.
      * intros _ _ HP. discriminate.
      * intros HL. congruence.
  - (* SEnv *)
    destruct (env_ok g o) eqn:G; try discriminate. inversion H; subst c'; clear H.
    destruct (step_log (g_W g) o (c_st c) HW IF) as [x [EX FX]].
    constructor; psimpl; auto.
    + rewrite EX. apply Forall_app. split; auto.
    + exists (rest ++ x). rewrite EX. split; [now apply after_offset_app|].
      intros HA. apply in_or_app. left. auto.
Qed.

Lemma crun_inv g sched : forall c c',
  g_lf g = true -> 0 <= g_W g -> no_split sched ->
  CI g c -> crun g sched c = Some c' -> CI g c'.
Proof.
  induction sched as [|s sched IH]; simpl; intros c c' LF HW NS I H.
  - inversion H; subst. exact I.
  - inversion NS as [|? ? Hs NS']; subst.
    destruct (cstep_run g s c) as [c1|] eqn:E; try discriminate.
    apply (IH c1 c' LF HW NS'); auto. eapply cstep_inv; eauto.
Qed.

Lemma CI_init g st0 rest0 :
  fresh_log (g_W g) (st_packets st0) ->
  after_offset (g_off g) (st_packets st0) = Some rest0 ->
  CI g (cinit st0).
Proof.
  intros F A. constructor; simpl; auto; try discriminate.
  exists rest0. split; auto. discriminate.
Qed.

(** Never neither: with the log append first and an atomic reconnection, a packet addressed to the
    recovered session, whose broadcast has completed, was replayed or delivered live - wherever
    the reconnection fell with respect to the steps of the broadcast, and whatever else (clean-up
    passes, other sessions' persists / restores, other broadcasts) ran in between. *)
Theorem concurrent_no_gap g sched st0 rest0 c :
  g_lf g = true -> 0 <= g_W g ->
  fresh_log (g_W g) (st_packets st0) ->
  after_offset (g_off g) (st_packets st0) = Some rest0 ->
  no_split sched -> crun g sched (cinit st0) = Some c ->
  c_phase c = 3%nat -> c_app c = true -> c_ended c = true -> addressed g c = true ->
  replayed g c = true \/ (1 <= c_live c)%nat.
Proof.
  intros LF HW F A NS R HP HA HE HAd.
  pose proof (crun_inv g sched _ _ LF HW NS (CI_init g st0 rest0 F A) R) as I.
  destruct I as [IP IF IO IL INL IB IM IVB IV IE].
  destruct (c_late c) eqn:L.
  - right. destruct (IE HE) as [HB HM]. apply IV; auto.
  - left. unfold replayed. apply mem_in. auto.
Qed.

(** * Never both - when the reconnection does not land inside the broadcast *)

Lemma skipn_in {A} n (l : list A) x : In x (skipn n l) -> In x l.
Proof.
  revert l. induction n as [|n IH]; intros l H; simpl in H; auto.
  destruct l; auto. right. auto.
Qed.

Lemma env_keeps_id g o st :
  env_ok g o = true ->
  In (g_id g) (map p_id (st_packets (fst (step (g_W g) 0 o st)))) ->
  In (g_id g) (map p_id (st_packets st)).
Proof.
  intros E. destruct o as [k id opts | s | | q off].
  - unfold step. simpl. destruct (loggable k); simpl; auto.
    rewrite map_app. intros H. apply in_app_or in H as [H|H]; auto.
    simpl in H. destruct H as [H|[]]. simpl in E. subst id. rewrite N.eqb_refl in E. discriminate.
  - unfold step. simpl. auto.
  - unfold step. simpl. destruct (clean_packets_skipn (g_W g) 0 (st_packets st)) as [n ->].
    intros H. apply in_map_iff in H as [p [Hp HI]]. apply skipn_in in HI.
    apply in_map_iff. eauto.
  - rewrite step_restore_fst. destruct (restore_state (g_W g) 0 q off st) as [-> _]. auto.
Qed.

Record DI (g : cfg) (c : cst) : Prop := {
  di_phase : c_phase c = 0%nat \/ c_phase c = 3%nat;
  di_live0 : c_phase c = 0%nat -> c_live c = 0%nat;
  di_live : (c_live c <= 1)%nat /\ ((1 <= c_live c)%nat -> c_vis c = true);
  di_log : In (g_id g) (map p_id (st_packets (c_st c))) -> c_app c = true;
  di_q : c_phase c = 3%nat -> c_quiet c = true -> In (g_id g) (c_missed c) ->
         c_ended c = true /\ c_live c = 0%nat
}.

Lemma cstep_dinv g s c c' :
  g_lf g = true ->
  match s with SRestore | SJoin | SVisible => False | _ => True end ->
  DI g c -> cstep_run g s c = Some c' -> DI g c'.
Proof.
  intros LF NS I H. destruct I as [DP D0 [DL DV] DG DQ].
  destruct s; try contradiction; unfold cstep_run in H; rewrite ?LF in H.
  - destruct (negb (c_app c) && negb (c_begun c)) eqn:G; try discriminate. inversion H; subst c'; clear H.
    constructor; psimpl; auto.
  - destruct (negb (c_begun c) && c_app c) eqn:G; try discriminate. inversion H; subst c'; clear H.
    constructor; psimpl; auto.
  - destruct (c_begun c && negb (c_ended c) && negb (c_vis c) && Nat.leb 2 (c_phase c)
              && included (c_rooms c) (g_opts g) && negb (c_exc c)) eqn:G; try discriminate.
    inversion H; subst c'; clear H. bool_hyps.
    assert (c_live c = 0%nat) as L0.
    { destruct (c_live c) eqn:E; auto. assert (c_vis c = true) by (apply DV; lia). congruence. }
    constructor; psimpl; auto.
    + intros HP. rewrite HP. simpl. auto.
    + rewrite L0. destruct (Nat.eqb (c_phase c) 3); split; auto; lia.
    + intros HP HQ HM. destruct (DQ HP HQ HM) as [HE _]. congruence.
  - destruct (c_begun c && negb (c_ended c) && (negb (c_must c) || c_vis c)) eqn:G; try discriminate.
    inversion H; subst c'; clear H. bool_hyps.
    constructor; psimpl; auto.
    intros HP HQ HM. destruct (DQ HP HQ HM) as [HE _]. congruence.
  - destruct (Nat.eqb (c_phase c) 0 && negb (c_fb c)) eqn:G; try discriminate.
    inversion H; subst c'; clear H. bool_hyps.
    destruct (do_restore_cases g c 3) as [[st' [s [ms [R E]]]] | [st' E]].
    + pose proof (do_restore_packets g c 3) as EP. rewrite E in *. simpl in EP.
      constructor; psimpl; auto.
      * rewrite EP. auto.
      * intros _ HQ HM.
        assert (snd (restore (g_W g) 0 (g_pid g) (g_off g) (c_st c)) = Some (s, ms)) as RS by now rewrite R.
        destruct (restore_some _ _ _ _ _ _ _ RS) as [td [rest1 [_ [_ [A ->]]]]].
        destruct (after_offset_split _ _ _ A) as [l1 [p [EL _]]].
        assert (c_app c = true) as HA.
        { apply DG. rewrite EL. apply in_map_iff in HM as [q [Hq HI]]. apply filter_In in HI as [HI _].
          apply in_map_iff. exists q. split; auto. apply in_or_app. right. right. auto. }
        rewrite HA in HQ. simpl in HQ. split; auto.
    + pose proof (do_restore_packets g c 3) as EP. rewrite E in *. simpl in EP.
      constructor; psimpl; auto; try (rewrite EP; auto); try (intros; discriminate).
  - destruct (env_ok g o) eqn:G; try discriminate. inversion H; subst c'; clear H.
    constructor; psimpl; auto.
    intros HI. apply DG. eapply env_keeps_id; eauto.
Qed.

Lemma crun_dinv g sched : forall c c',
  g_lf g = true -> no_split sched -> DI g c -> crun g sched c = Some c' -> DI g c'.
Proof.
  induction sched as [|s sched IH]; simpl; intros c c' LF NS I H.
  - inversion H; subst. exact I.
  - inversion NS as [|? ? Hs NS']; subst.
    destruct (cstep_run g s c) as [c1|] eqn:E; try discriminate.
    apply (IH c1 c' LF NS'); auto. eapply cstep_dinv; eauto.
Qed.

Lemma DI_init g st0 : ~ In (g_id g) (map p_id (st_packets st0)) -> DI g (cinit st0).
Proof.
  intros N. constructor; simpl; auto; try discriminate; try contradiction.
  split; auto. intros H. inversion H.
Qed.

(** the socket is visited at most once by the iteration *)
Theorem concurrent_live_once g sched st0 c :
  g_lf g = true -> ~ In (g_id g) (map p_id (st_packets st0)) ->
  no_split sched -> crun g sched (cinit st0) = Some c -> (c_live c <= 1)%nat.
Proof.
  intros LF N NS R. destruct (crun_dinv g sched _ _ LF NS (DI_init g st0 N) R) as [_ _ [L _] _ _]. exact L.
Qed.

(** Never both, provided the broadcast was not in flight (appended, iteration not over) at the
    instant of the reconnection. *)
Theorem concurrent_no_dup_partial g sched st0 c :
  g_lf g = true -> ~ In (g_id g) (map p_id (st_packets st0)) ->
  no_split sched -> crun g sched (cinit st0) = Some c ->
  c_phase c = 3%nat -> c_quiet c = true ->
  ~ (replayed g c = true /\ (1 <= c_live c)%nat).
Proof.
  intros LF N NS R HP HQ [HR HL].
  destruct (crun_dinv g sched _ _ LF NS (DI_init g st0 N) R) as [_ _ _ _ DQ].
  unfold replayed in HR. apply mem_in in HR. destruct (DQ HP HQ HR) as [_ L0]. lia.
Qed.
