(** Model of the offset-id generator used by the session-aware adapter
    (/repo/adapter/adapter_session_aware.go: [id := a.yeaster.Yeast()]; library
    github.com/karagenc/yeast v0.1.1, yeaster.go: [Yeaster.Yeast], [Encode], [Decode]).

    The wall clock is data: every call receives the value [time.Now().Unix()] returned ([N]; the Go
    value is a non-negative int64).  An id is a list of symbols: 0..63 = index into yeast.Alphabet,
    64 = the separator '.'.  [render] turns symbols into the ASCII codes of the Go string.

    Go's [Encode] divides through float64 ([math.Floor(float64(num)/64)]); that equals integer
    division while [num < 2^53] (float64 is exact there and a division by 64 only changes the
    exponent).  The model uses integer division; theorems carry the bound as a hypothesis and the
    correspondence run compares the two on both sides of it. *)
From Coq Require Import List NArith Bool Sorted.
Import ListNotations.
Open Scope N_scope.

Definition sym := N.
Definition sep : sym := 64.

(** yeast.Alphabet as ASCII codes: 0-9 A-Z a-z - _ *)
Definition alphabet : list N :=
  [48;49;50;51;52;53;54;55;56;57;
   65;66;67;68;69;70;71;72;73;74;75;76;77;78;79;80;81;82;83;84;85;86;87;88;89;90;
   97;98;99;100;101;102;103;104;105;106;107;108;109;110;111;112;113;114;115;116;117;118;119;120;121;122;
   45;95].
(** '.' = 46 *)
Definition symtab : list N := alphabet ++ [46].
Definition char (s : sym) : N := nth (N.to_nat s) symtab 0.
Definition render (id : list sym) : list N := map char id.

(** Encode: [for { encoded = Alphabet[num%64] + encoded; num = num/64; if num <= 0 {break} }]
    (fuel = loop iterations allowed; 11 digits cover every int64). *)
Fixpoint enc_fuel (f : nat) (n : N) : list sym :=
  match f with
  | O => []
  | S f' => let d := n mod 64 in
            let q := n / 64 in
            if q =? 0 then [d] else enc_fuel f' q ++ [d]
  end.
Definition enc (n : N) : list sym := enc_fuel 11 n.

(** Decode: [decoded = decoded*64 + m[c]] over the characters. *)
Definition dec (l : list sym) : N := fold_left (fun a d => a * 64 + d) l 0.

(** Yeaster{seed, prev}; [prev] is a string, "" initially (no encoding is empty). *)
Record yeaster := mkY { y_seed : N; y_prev : list sym }.
Definition y_init : yeaster := mkY 0 [].

Definition list_eqb (a b : list N) : bool :=
  (fix go a b := match a, b with
                 | [], [] => true
                 | x :: a', y :: b' => (x =? y) && go a' b'
                 | _, _ => false
                 end) a b.

(** Yeast(): [now := Encode(time.Now().Unix()); if now != prev { seed = 0; prev = now; return now };
    e := now + "." + Encode(seed); seed++; return e] *)
Definition yeast (y : yeaster) (t : N) : yeaster * list sym :=
  let now := enc t in
  if list_eqb now (y_prev y) then (mkY (y_seed y + 1) (y_prev y), now ++ sep :: enc (y_seed y))
  else (mkY 0 now, now).

(** The ids handed out for a sequence of clock readings, oldest first. *)
Fixpoint yeast_run (y : yeaster) (ts : list N) : list (list sym) :=
  match ts with
  | [] => []
  | t :: ts' => let '(y', id) := yeast y t in id :: yeast_run y' ts'
  end.

Definition ids_of (ts : list N) : list (list sym) := yeast_run y_init ts.

(** "the clock never goes backwards" *)
Definition nondecreasing (ts : list N) : Prop := StronglySorted N.le ts.

Definition small (n : N) : Prop := n < 2 ^ 53.
