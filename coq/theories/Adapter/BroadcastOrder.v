(** Go iterates maps (and mapset sets) in an unspecified order.  Broadcast.apply_targets fixes
    one order (key order); here apply is parameterised by ARBITRARY iteration orders - any list
    enumerating the target rooms, any list enumerating each room's sockets (repetitions allowed),
    any duplicate-free list enumerating the registered sockets - and the same exactness theorem is
    proved, so the result does not depend on the order Go picks. *)
From SioV Require Import Adapter.Rooms Adapter.RoomsProofs Adapter.Broadcast Adapter.BroadcastProofs.

Section ord.
  Context (known : sid → bool).

  Definition visit_target_ord (st : adapter) (ex : gset sid) (ord : room → list sid)
      (acc : gset sid * list sid) (r : room) :=
    match a_rooms st !! r with
    | None => acc
    | Some _ => foldl (visit_room known ex) acc (ord r)
    end.

  Definition apply_targets_ord (T E : gset room) (st : adapter)
      (Tl : list room) (ord : room → list sid) (all : list sid) : list sid :=
    let ex := except_sids E st in
    if decide (0 < size T) then (foldl (visit_target_ord st ex ord) (∅, []) Tl).2
    else foldl (visit_all known ex) [] all.

  Lemma visit_target_ord_fold st ex ord l acc :
    (∀ r x, a_rooms st !! r = Some x → ∀ s, s ∈ ord r ↔ s ∈ x) →
    acc_ok acc →
    let acc' := foldl (visit_target_ord st ex ord) acc l in
    acc_ok acc' ∧
    ∀ s, s ∈ acc'.2 ↔ s ∈ acc.2 ∨ ((∃ r, r ∈ l ∧ s ∈ room_sids st r) ∧ s ∉ ex ∧ known s = true).
  Proof.
    intros Hord. revert acc. induction l as [|r l IH]; intros acc Hok; simpl.
    - split; [done|]. intros s. split; [by left|]. intros [?|[(r & H & _) _]]; [done|]. by apply elem_of_nil in H.
    - assert (Hstep : acc_ok (visit_target_ord st ex ord acc r) ∧
              ∀ s, s ∈ (visit_target_ord st ex ord acc r).2 ↔ s ∈ acc.2 ∨ (s ∈ room_sids st r ∧ s ∉ ex ∧ known s = true)).
      { unfold visit_target_ord, room_sids. destruct (a_rooms st !! r) as [x|] eqn:Hx; simpl.
        - destruct (visit_room_fold known ex (ord r) acc Hok) as [H1 H2]. split; [done|].
          intros s. rewrite H2, (Hord r x Hx). done.
        - split; [done|]. intros s. set_solver. }
      destruct Hstep as [Hok' Hm]. destruct (IH _ Hok') as [Hok'' Hmem]. split; [done|].
      intros s. rewrite Hmem, Hm. split.
      + intros [[?|(?&?&?)]|((r'&?&?)&?&?)]; [by left|right|right]; (split; [|done]).
        * exists r. set_solver. * exists r'. set_solver.
      + intros [?|((r'&Hr&?)&?&?)]; [left; by left|]. apply elem_of_cons in Hr as [->|?].
        * left. right. done. * right. split; [|done]. eauto.
  Qed.

  Theorem apply_targets_ord_exact T E st Tl ord all :
    indexes_inverse st →
    (∀ r, r ∈ Tl ↔ r ∈ T) →
    (∀ r x, a_rooms st !! r = Some x → ∀ s, s ∈ ord r ↔ s ∈ x) →
    NoDup all → (∀ s, s ∈ all ↔ s ∈ dom (a_sids st)) →
    NoDup (apply_targets_ord T E st Tl ord all) ∧
    ∀ s, s ∈ apply_targets_ord T E st Tl ord all ↔ selected known T E st s.
  Proof.
    intros Hinv HTl Hord Hnd Hall. unfold apply_targets_ord, selected.
    destruct (decide (0 < size T)) as [Hsz|Hsz].
    - assert (Hne : T ≠ ∅) by (intros ->; rewrite size_empty in Hsz; lia).
      destruct (visit_target_ord_fold st (except_sids E st) ord Tl (∅, []) Hord) as [[Hnd' _] Hmem].
      { split; simpl; [constructor|]. intros s. set_solver. }
      split; [done|]. intros s. rewrite Hmem. simpl. split.
      + intros [H|((r & Hr & Hs) & Hex & Hk)]; [by apply elem_of_nil in H|].
        split; [done|]. split; [by eapply inverse_member_registered|].
        split; [right; exists r; by rewrite <- HTl|].
        intros r' Hr' Hs'. apply Hex. apply except_sids_spec. eauto.
      + intros (Hk & _ & [HT|(r & Hr & Hs)] & HE); [done|]. right.
        split; [exists r; by rewrite HTl|]. split; [|done].
        intros (r' & ? & ?)%except_sids_spec. by eapply HE.
    - assert (HT : T = ∅) by (apply leibniz_equiv, size_empty_inv; lia).
      rewrite visit_all_fold. simpl. split.
      + by apply NoDup_filter.
      + intros s. rewrite elem_of_list_filter, Hall. split.
        * intros [[Hex Hk] Hd]. split; [done|]. split; [done|]. split; [by left|].
          intros r Hr Hs. apply Hex. apply except_sids_spec. eauto.
        * intros (Hk & Hd & _ & HE). split; [|done]. split; [|done].
          intros (r & ? & ?)%except_sids_spec. by eapply HE.
  Qed.
End ord.
