(** Composition of the offset-id generator (Adapter/Yeast.v) with the session-aware adapter model
    (Adapter/Session.v): a history whose logged broadcasts take their ids, in order, from the
    generator - as [sessionAwareAdapter.Broadcast] does under its lock: one [Yeast()] call per logged
    packet and none otherwise - satisfies the distinct-ids hypothesis of the recovery theorems. *)
From Coq Require Import List NArith ZArith Lia.
From SioV Require Import Base.GoSem Adapter.Session Adapter.SessionProofs Adapter.Yeast Adapter.YeastProofs.
Import ListNotations.

(** The history with the ids of its logged broadcasts replaced, in order, by [ids] (a broadcast that
    is not logged draws no id; its id field is never read). *)
Fixpoint with_ids (ids : list N) (h : list (Z * op)) : list (Z * op) :=
  match h with
  | [] => []
  | (t, OBroadcast k i o) :: h' =>
      if loggable k then
        match ids with
        | j :: ids' => (t, OBroadcast k j o) :: with_ids ids' h'
        | [] => (t, OBroadcast k i o) :: with_ids [] h'
        end
      else (t, OBroadcast k i o) :: with_ids ids h'
  | x :: h' => x :: with_ids ids h'
  end.

(** number of [Yeast()] calls along a history *)
Fixpoint draws (h : list (Z * op)) : nat :=
  match h with
  | [] => O
  | (_, OBroadcast k _ _) :: h' => if loggable k then S (draws h') else draws h'
  | _ :: h' => draws h'
  end.

Lemma emitted_ids_prefix : forall h ids,
  (draws h <= length ids)%nat -> exists rest, ids = map p_id (emitted (with_ids ids h)) ++ rest.
Proof.
  induction h as [|[t o] h IH]; intros ids L; [exists ids; reflexivity|].
  destruct o as [k i o| | |]; cbn [with_ids draws] in *; try (cbn [emitted]; apply IH; exact L).
  destruct (loggable k) eqn:Lk.
  - destruct ids as [|j ids]; [cbn in L; lia|].
    cbn [emitted]. rewrite Lk. cbn [map p_id app]. cbn [length] in L.
    destruct (IH ids) as [rest E]; [lia|]. exists rest. cbn. f_equal. exact E.
  - cbn [emitted]. rewrite Lk. apply IH. exact L.
Qed.

Lemma NoDup_prefix {A} (a b : list A) : NoDup (a ++ b) -> NoDup a.
Proof.
  induction a as [|x a IH]; intros H; [constructor|].
  cbn in H. inversion H as [|? ? Hn Hd]; subst. constructor; [|apply IH; exact Hd].
  intros Hin. apply Hn. apply in_or_app. left. exact Hin.
Qed.

Theorem generated_ids_distinct (num : list N -> N) ts h :
  (forall a b, num a = num b -> a = b) ->
  nondecreasing ts -> Forall small ts -> (N.of_nat (length ts) < 2 ^ 53)%N ->
  (draws h <= length ts)%nat ->
  NoDup (map p_id (emitted (with_ids (map num (map render (ids_of ts))) h))).
Proof.
  intros Inj S F L D.
  pose proof (ids_distinct_numbered num ts Inj S F L) as ND.
  destruct (emitted_ids_prefix h (map num (map render (ids_of ts)))) as [rest E].
  - rewrite !map_length. unfold ids_of.
    assert (Hl : forall ts y, length (yeast_run y ts) = length ts).
    { induction ts0 as [|t ts0 IH]; intros y; [reflexivity|].
      cbn [yeast_run]. destruct (yeast y t) as [y' id]. cbn [length]. rewrite IH. reflexivity. }
    rewrite Hl. exact D.
  - rewrite E in ND. exact (NoDup_prefix _ _ ND).
Qed.

(** No gap, with nothing assumed about ids: ids come from the generator. *)
Theorem no_gap_generated (num : list N -> N) ts W h0 t pid off s ms :
  (forall a b, num a = num b -> a = b) ->
  nondecreasing ts -> Forall small ts -> (N.of_nat (length ts) < 2 ^ 53)%N ->
  (draws h0 <= length ts)%nat ->
  let h := with_ids (map num (map render (ids_of ts))) h0 in
  snd (step W t (ORestore pid off) (final W h)) = Some (Some (s, ms)) ->
  forall pre p post q, emitted h = pre ++ p :: post -> p_id p = off ->
    In q post -> selected s q = true -> In q ms.
Proof.
  intros Inj S F L D h. apply no_gap_in. apply generated_ids_distinct; assumption.
Qed.

Example generated_example :
  map p_id (emitted (with_ids [7%N; 8%N; 9%N]
     [(0%Z, OBroadcast KEvent 0 (mkOpts [] [])); (1%Z, OBroadcast KOther 0 (mkOpts [] []));
      (2%Z, OClean); (3%Z, OBroadcast KEvent 0 (mkOpts [] []))])) = [7%N; 8%N].
Proof. reflexivity. Qed.
