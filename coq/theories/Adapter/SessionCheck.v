(** Executable comparison ([agree]) and property oracle ([oracle]) used by the C08 correspondence
    check (kernel evaluation on histories recorded from the real session-aware adapter). *)
From SioV Require Import Base.GoSem Adapter.Session.
Open Scope Z_scope.

(** One recorded operation: inputs + what the implementation did.
    [log]/[pids]: packet-log ids and session keys after the operation. *)
Inductive cop :=
| CB (at_ : Z) (k : hkind) (rooms except : list N)
     (logged : bool) (id : N) (wit : N) (witid : option N) (witn : N) (log pids : list N)
| CP (at_ : Z) (sid pid : N) (rooms : list N) (log pids : list N)
| CC (at_ : Z) (log pids : list N)
| CR (at_ : Z) (pid off : N) (ok : bool) (rsid rpid : N) (rrooms : list N) (missed : list N)
     (log pids : list N).

(** window, rooms of the witness socket, operations *)
Definition scase := (Z * list N * list cop)%type.

Definition cop_time (c : cop) : Z :=
  match c with CB t _ _ _ _ _ _ _ _ _ _ => t | CP t _ _ _ _ _ => t | CC t _ _ => t
             | CR t _ _ _ _ _ _ _ _ _ => t end.

Definition cop_op (c : cop) : op :=
  match c with
  | CB _ k rooms except _ id _ _ _ _ _ => OBroadcast k id (mkOpts rooms except)
  | CP _ sid pid rooms _ _ => OPersist (mkSess sid pid rooms)
  | CC _ _ _ => OClean
  | CR _ pid off _ _ _ _ _ _ _ => ORestore pid off
  end.

Definition cop_log (c : cop) : list N :=
  match c with CB _ _ _ _ _ _ _ _ _ l _ => l | CP _ _ _ _ l _ => l | CC _ l _ => l
             | CR _ _ _ _ _ _ _ _ l _ => l end.

Definition cop_pids (c : cop) : list N :=
  match c with CB _ _ _ _ _ _ _ _ _ _ l => l | CP _ _ _ _ _ l => l | CC _ _ l => l
             | CR _ _ _ _ _ _ _ _ _ l => l end.

Definition nlist_eqb := list_eqb N.eqb.

Definition subset (a b : list N) : bool := forallb (fun x => mem x b) a.
Definition same_set (a b : list N) : bool := subset a b && subset b a.

Definition state_matches (st : state) (c : cop) : bool :=
  nlist_eqb (map p_id (st_packets st)) (cop_log c)
  && same_set (map fst (st_sessions st)) (cop_pids c)
  && Nat.eqb (length (st_sessions st)) (length (cop_pids c)).

(** Correspondence: after every operation the model's log and session keys are the
    implementation's, every restore returns the same thing, every broadcast is logged (or not)
    alike, and the witness socket is reached exactly when [should_include] says so. *)
Fixpoint agree_ops (W : Z) (wit : list N) (ops : list cop) (st : state) : bool :=
  match ops with
  | [] => true
  | c :: ops' =>
      let '(st', r) := step W (cop_time c) (cop_op c) st in
      state_matches st' c
      && match c, r with
         | CB _ k rooms except logged _ w _ _ _ _, None =>
             Bool.eqb (loggable k) logged
             && N.eqb w (if should_include wit (mkOpts rooms except) then 1 else 0)%N
         | CR _ _ _ ok rsid rpid rrooms missed _ _, Some None => negb ok
         | CR _ _ _ ok rsid rpid rrooms missed _ _, Some (Some (s, ms)) =>
             ok && N.eqb (s_sid s) rsid && N.eqb (s_pid s) rpid
             && nlist_eqb (s_rooms s) rrooms && nlist_eqb (map p_id ms) missed
         | CR _ _ _ _ _ _ _ _ _ _, None => false
         | _, _ => true
         end
      && agree_ops W wit ops' st'
  end.

Definition agree (c : scase) : bool :=
  let '(W, wit, ops) := c in agree_ops W wit ops st_empty.

(** Same comparison against the code as it was before the fix (used to show that the finding
    class is what the old code did, and by the seeded mutant). *)
Fixpoint agree_ops_legacy (W : Z) (ops : list cop) (st : state) : bool :=
  match ops with
  | [] => true
  | c :: ops' =>
      let '(st', r) := step_legacy W (cop_time c) (cop_op c) st in
      state_matches st' c && agree_ops_legacy W ops' st'
  end.

Definition agree_legacy (c : scase) : bool :=
  let '(W, _, ops) := c in agree_ops_legacy W ops st_empty.

(** ** The property, evaluated on the implementation's observations alone. *)

Fixpoint split_at_id (off : N) (l : list ppacket) : option (ppacket * list ppacket) :=
  match l with
  | [] => None
  | p :: l' => if N.eqb (p_id p) off then Some (p, l') else split_at_id off l'
  end.

Fixpoint nodup_n (l : list N) : bool :=
  match l with [] => true | x :: l' => negb (mem x l') && nodup_n l' end.

(** Some clean-up pass of the history ran after the packet had expired. *)
Definition cleaned_after_expiry (W : Z) (h : list (Z * op)) (p : ppacket) : bool :=
  existsb (fun e => match snd e with OClean => p_at p + W <? fst e | _ => false end) h.

(** [h] = the operations before the restore (in order), [t] = time of the restore. *)
Definition restore_ok (W : Z) (h : list (Z * op)) (t : Z) (pid off : N)
           (ok : bool) (rsid rpid : N) (rrooms missed : list N) : bool :=
  match last_persist pid h None, split_at_id off (emitted h) with
  | Some (s, td), Some (p, post) =>
      if ok then
        (* within the window, same sid / pid / rooms, exactly the selected packets after the offset *)
        negb (sess_expired W t td)
        && N.eqb rsid (s_sid s) && N.eqb rpid pid && nlist_eqb rrooms (s_rooms s)
        && nlist_eqb missed (map p_id (filter (selected s) post))
      else
        (* falling back needs a reason: session expired, or the offset packet expired and collected *)
        sess_expired W t td || cleaned_after_expiry W h p
  | _, _ => negb ok   (* unknown session or unknown offset: must fall back *)
  end.

Fixpoint oracle_ops (W : Z) (ops : list cop) (hrev : list (Z * op)) : bool :=
  match ops with
  | [] => true
  | c :: ops' =>
      match c with
      | CB _ k _ _ logged id w witid witn _ _ =>
          (* an event without ack id gets an offset: logged, and the offset is the last argument
             of what is delivered; other packets are delivered unchanged *)
          Bool.eqb (loggable k) logged
          && (if (0 <? w)%N
              then if logged then match witid with Some i => N.eqb i id | None => false end
                                  && N.eqb witn 3
                   else N.eqb witn 2
              else true)
      | CR t pid off ok rsid rpid rrooms missed _ _ =>
          restore_ok W (rev hrev) t pid off ok rsid rpid rrooms missed
      | _ => true
      end
      && oracle_ops W ops' ((cop_time c, cop_op c) :: hrev)
  end.

Definition case_history (ops : list cop) : list (Z * op) := map (fun c => (cop_time c, cop_op c)) ops.

Definition oracle (c : scase) : bool :=
  let '(W, _, ops) := c in
  nodup_n (map p_id (emitted (case_history ops)))     (* yeast ids distinct (assumption, checked) *)
  && times_sorted 0 (case_history ops)
  && oracle_ops W ops [].

(** One pass for the common case (everything agrees and the property holds). *)
Definition both (c : scase) : bool := agree c && oracle c.

(** ** Live end-to-end cases: a real server with connection state recovery and a protocol-level
    client that reconnects with pid + offset.  The history is what the server was asked to emit
    (offset ids = the tags 1.. of the events), the session persisted when the connection dropped,
    and the clean-up passes; the observation is what the reconnecting client and the server's
    new socket report.  Frames: tag of a replayed event, 0 for the CONNECT packet. *)
Definition lcase :=
  (Z * list (Z * op) * (Z * N * N) * (bool * N * N * list N * list N * bool))%type.

Definition frame_code (f : frame) : N :=
  match f with FReplay p => p_id p | FConnect _ _ => 0%N end.

(** the fresh ids are whatever the implementation generated (oracle inputs) *)
Definition agree_live (c : lcase) : bool :=
  let '(W, h, (t, pid, off), (rec, sid, pid', rooms, frames, wf)) := c in
  let k := snd (connect W t pid off sid pid' (final W h)) in
  Bool.eqb (k_recovered k) rec && N.eqb (k_sid k) sid && N.eqb (k_pid k) pid'
  && same_set (k_rooms k) rooms && nlist_eqb (map frame_code (k_sent k)) frames.

Definition oracle_live (c : lcase) : bool :=
  let '(W, h, (t, pid, off), (rec, sid, pid', rooms, frames, wf)) := c in
  let replayed := filter (fun x => negb (N.eqb x 0)) frames in
  let fresh old := negb (N.eqb sid old) && negb (N.eqb pid' pid)
                   && is_nil replayed && same_set rooms [sid] in
  wf && nodup_n (map p_id (emitted h))
  && match last_persist pid h None, split_at_id off (emitted h) with
     | Some (s, td), Some (p, post) =>
         if rec then
           negb (sess_expired W t td)
           && N.eqb sid (s_sid s) && N.eqb pid' pid && same_set rooms (s_sid s :: s_rooms s)
           && nlist_eqb replayed (map p_id (filter (selected s) post))
         else (sess_expired W t td || cleaned_after_expiry W h p) && fresh (s_sid s)
     | Some (s, _), None => negb rec && fresh (s_sid s)
     | None, _ => negb rec && fresh 0%N
     end.

Definition both_live (c : lcase) : bool := agree_live c && oracle_live c.

(** Typed builders for the generated case files (a bare nested tuple literal makes coqc spend its
    time inferring the types of the empty lists). *)
Definition mkS (W : Z) (wit : list N) (ops : list cop) : scase := (W, wit, ops).
Definition mkL (W : Z) (h : list (Z * op)) (t : Z) (pid off : N)
           (rec : bool) (sid pid' : N) (rooms frames : list N) (wf : bool) : lcase :=
  (W, h, (t, pid, off), (rec, sid, pid', rooms, frames, wf)).
Definition ev (t : Z) (o : op) : Z * op := (t, o).
