(** Correspondence checks for Adapter/Yeast.v, evaluated by vm_compute on observations of the real
    generator (harness: vh yeast). *)
From Coq Require Import List NArith Bool.
From SioV Require Import Adapter.Yeast.
Import ListNotations.
Open Scope N_scope.

Definition lleqb (a b : list (list N)) : bool :=
  (fix go a b := match a, b with
                 | [], [] => true
                 | x :: a', y :: b' => list_eqb x y && go a' b'
                 | _, _ => false
                 end) a b.

(** Encode(n) = observed string and Decode(observed string) = observed number = n *)
Record ycase_enc := mkYE { ye_n : N; ye_s : list N; ye_dec : N; ye_err : bool }.
Definition unchar (c : N) : N :=
  (fix go (i : N) (l : list N) := match l with [] => 65 | x :: l' => if x =? c then i else go (i + 1) l' end) 0 symtab.
Definition agree_enc (c : ycase_enc) : bool :=
  list_eqb (render (enc (ye_n c))) (ye_s c) && negb (ye_err c) &&
  (dec (map unchar (ye_s c)) =? ye_dec c) && (ye_dec c =? ye_n c).

(** a burst: clock readings and the ids the real generator returned *)
Record ycase_run := mkYR { yr_ts : list N; yr_ids : list (list N) }.
Definition agree_run (c : ycase_run) : bool := lleqb (map render (ids_of (yr_ts c))) (yr_ids c).

Fixpoint nodupb_l (l : list (list N)) : bool :=
  match l with [] => true | x :: l' => negb (existsb (list_eqb x) l') && nodupb_l l' end.
Fixpoint sortedb (l : list N) : bool :=
  match l with
  | [] => true
  | t :: l' => match l' with [] => true | u :: _ => (t <=? u) end && sortedb l'
  end.
(** oracle, on the implementation's ids alone: clock readings non-decreasing => ids pairwise distinct *)
Definition oracle_run (c : ycase_run) : bool := negb (sortedb (yr_ts c)) || nodupb_l (yr_ids c).
