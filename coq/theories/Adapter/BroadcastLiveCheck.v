(** Check functions for the live-namespace suite and the concurrent suite of C04
    (kernel evaluation of harness rows; see checks/C04.py, harness/cmd/vh/rooms.go). *)
From SioV Require Import Adapter.Rooms Adapter.Broadcast Adapter.BroadcastSpec Adapter.BroadcastCheck.
Local Open Scope positive_scope.

(** * Live: 3 real clients; sockets 1..3 (own-id rooms 1..3), rooms 4..6.
    case = (matrix, T+8E, sender (0 = namespace), own-room bits, delivery count per client) *)
Definition lcase := (N * N * N * N * list nat)%type.

Definition live_state (m own : N) : adapter :=
  foldl (λ st i, add_all (Pos.of_nat (S i))
                   ((if N.testbit own (N.of_nat i) then [Pos.of_nat (S i)] else []) ++
                    bits (N.shiftr m (3 * N.of_nat i)) 4) st)
        empty_adapter [0; 1; 2]%nat.

Definition live_from (from : N) : option positive :=
  match from with 0%N => None | N.pos p => Some p end.

Definition live_model (c : lcase) : list nat :=
  let '(m, te, from, own, _) := c in
  let out := apply_targets (λ _, true) (list_to_set (bits (N.land te 7) 4))
               (sender_except (live_from from) (list_to_set (bits (N.shiftr te 3) 4))) (live_state m own) in
  map (λ s, count_pos s out) [1; 2; 3].

Definition live_agree (c : lcase) : bool :=
  bool_decide (live_model c = c.2).

(** The property read off the matrix: every client other than the sender gets the event once iff
    its row meets T (or T is empty) and misses E ... *)
Definition live_oracle (c : lcase) : bool :=
  let '(m, te, from, own, counts) := c in
  Nat.eqb (length counts) 3 &&
  forallb (λ i, (N.succ i =? from)%N ||
                Nat.eqb (nth (N.to_nat i) counts 99%nat) (table_expect m 7 te i)) [0; 1; 2]%N.
(** ... and the sender never gets it. *)
Definition live_sender_oracle (c : lcase) : bool :=
  let '(m, te, from, own, counts) := c in
  match from with 0%N => true | _ => Nat.eqb (nth (N.to_nat (N.pred from)) counts 0%nat) 0 end.
(** finding class sender-left-own-room *)
Definition live_sender_known (c : lcase) : bool :=
  let '(m, te, from, own, counts) := c in
  live_sender_oracle c || negb (N.testbit own (N.pred from)).

(** * Concurrent: per broadcast (T, E) and per socket
    (sid, status per room of T, status per room of E, registered, known, deliveries) with status
    1 = throughout the broadcast, 0 = at no moment of it, 2 = indeterminate. *)
Definition csock := (positive * list N * list N * N * N * nat)%type.
Definition ccase := (list positive * list positive * list csock)%type.

Definition is1 (x : N) : bool := (x =? 1)%N.
Definition is0 (x : N) : bool := (x =? 0)%N.

(** hypotheses of C04_interval_member_receives_once(_all) *)
Definition conc_must (tne : bool) (k : csock) : bool :=
  let '(_, inT, inE, reg, known, _) := k in
  (if tne then existsb is1 inT else is1 reg) && forallb is0 inE && is1 known.
(** hypotheses of C04_interval_nonmember_never / unregistered / excluded / unknown *)
Definition conc_never (tne : bool) (k : csock) : bool :=
  let '(_, inT, inE, reg, known, _) := k in
  (if tne then forallb is0 inT else is0 reg) || existsb is1 inE || is0 known.

Definition conc_sock_ok (tne : bool) (k : csock) : bool :=
  let '(_, _, _, _, _, count) := k in
  (if conc_must tne k then Nat.eqb count 1 else true) &&
  (if conc_never tne k then Nat.eqb count 0 else true) &&
  (if tne then Nat.leb count 1 else true).

Definition conc_ok (c : ccase) : bool :=
  let '(T, E, socks) := c in
  forallb (conc_sock_ok (negb (Nat.eqb (length T) 0))) socks.

(** * Join racing Disconnect (forced schedule through the public Debugger hook).
    case = (forced, Adapter.SocketRooms(id) ok, its rooms, ServerSocket.Rooms() size), observed
    after both calls returned.  Join holds joinMu for the whole call and onClose takes joinMu to
    swap in the no-op, so the two are atomic with respect to each other: the model outcomes are
    the two linearisations. *)
Definition jcase := (bool * bool * list positive * nat)%type.

Definition joinrace_outcome (h : list nop) : bool * list positive :=
  let n := nrun h in
  (bool_decide (1 ∈ dom (a_sids (n_ad n))), elements (sid_rooms (n_ad n) 1)).

Definition joinrace_agree (c : jcase) : bool :=
  let '(forced, ok, rooms, k) := c in
  let o1 := joinrace_outcome [NConnect 1; NJoin 1 [9]; NDisconnect 1] in
  let o2 := joinrace_outcome [NConnect 1; NDisconnect 1; NJoin 1 [9]] in
  (bool_decide ((ok, rooms) = o1) || bool_decide ((ok, rooms) = o2)) && Nat.eqb k (length rooms).

(** the property: a disconnected socket belongs to no room *)
Definition joinrace_oracle (c : jcase) : bool :=
  let '(forced, ok, rooms, k) := c in negb ok && Nat.eqb (length rooms) 0 && Nat.eqb k 0.

(** Localisation of a failing history (for the violation message / replay file only): index of
    the first step whose observation violates the oracle, resp. differs from the model. *)
Fixpoint steps_oracle_idx (a : ansp) (l : list step) (i : nat) : option nat :=
  match l with
  | [] => None
  | o :: l' => let a' := ahstep a (s_op o) in
               if step_oracle a' o then steps_oracle_idx a' l' (S i) else Some i
  end.
Fixpoint steps_agree_idx (n : nsp) (l : list step) (i : nat) : option nat :=
  match l with
  | [] => None
  | o :: l' => let n' := hstep n (s_op o) in
               if step_agree n' o then steps_agree_idx n' l' (S i) else Some i
  end.
Definition hist_first_bad (c : hcase) : option nat * option nat :=
  (steps_oracle_idx (ANsp ∅ ∅ (list_to_set c.1) ∅) c.2 0, steps_agree_idx (Nsp empty_adapter (list_to_set c.1) ∅) c.2 0).
