(** apply() running concurrently with other goroutines.

    apply holds the adapter mutex except around each callback, so between two sockets any number
    of AddAll / Delete / DeleteAll calls of other goroutines, and socket-store changes, can take
    place.  The model is a transition system whose events are

      EEnv o       another goroutine completes an adapter operation (one critical section)
      EStore s b   the socket store gains (b = true) or loses socket s
      ENext r      rooms branch: opts.Rooms.Each reaches room r and looks it up in a.rooms
      EAll         all-sockets branch: `for sid := range a.sids` starts
      EProduce s   the running map iteration produces key s; the loop body runs on it
      EEndIter     the running map iteration ends
      EEnd         apply returns

    Go map iteration under mutation is over-approximated by the assumption of DESIGN 1.8: a key may
    be produced if it is in the map now and has not been produced since it was last (re)inserted;
    the iteration may end only when every key that has been in the map since the iteration
    started has been produced.  ([it_pending] = in the map since the start and not yet produced;
    [it_done] = produced and in the map ever since.)  Keys inserted during the iteration may be
    produced or skipped.  A room emptied and re-created during the iteration is a new set object
    in Go (the old one stays empty): the model lets the iteration see the new one, which only adds
    behaviours.  The except set is computed once, before the first event. *)
From SioV Require Export Adapter.Rooms Adapter.Broadcast.

Inductive imode := IRoom (r : room) | IAll.

Definition ikeys (m : imode) (ad : adapter) : gset sid :=
  match m with IRoom r => room_sids ad r | IAll => dom (a_sids ad) end.

Record iter := Iter { it_mode : imode; it_pending : gset sid; it_done : gset sid }.

Record cstate := CS {
  c_ad : adapter; c_store : gset sid;
  c_ex : gset sid;            (* exceptSids, computed at the start *)
  c_ids : gset sid;           (* the dedup set of the rooms branch *)
  c_out : list sid;           (* callbacks made so far *)
  c_todo : gset room;         (* rooms of T not reached yet *)
  c_todo_all : bool;          (* all-sockets branch not started yet *)
  c_cur : option iter;
  c_fin : bool
}.

Inductive cev :=
| EEnv (o : aop) | EStore (s : sid) (add : bool)
| ENext (r : room) | EAll | EProduce (s : sid) | EEndIter | EEnd.

Definition cinit (ad : adapter) (store : gset sid) (T E : gset room) : cstate :=
  CS ad store (except_sids E ad) ∅ [] T (bool_decide (T = ∅)) None false.

Definition iter_env (ad' : adapter) (it : iter) : iter :=
  Iter (it_mode it) (it_pending it ∩ ikeys (it_mode it) ad') (it_done it ∩ ikeys (it_mode it) ad').

(** the loop bodies of apply *)
Definition body (m : imode) (c : cstate) (s : sid) : gset sid * list sid :=
  match m with
  | IRoom _ => if decide (s ∈ c_ids c ∨ s ∈ c_ex c) then (c_ids c, c_out c)
               else if decide (s ∈ c_store c) then (c_ids c ∪ {[s]}, c_out c ++ [s]) else (c_ids c, c_out c)
  | IAll => if decide (s ∈ c_ex c) then (c_ids c, c_out c)
            else if decide (s ∈ c_store c) then (c_ids c, c_out c ++ [s]) else (c_ids c, c_out c)
  end.

Definition cstep (c : cstate) (e : cev) : option cstate :=
  match e with
  | EEnv o =>
      let ad' := astep (c_ad c) o in
      Some (CS ad' (c_store c) (c_ex c) (c_ids c) (c_out c) (c_todo c) (c_todo_all c)
               (iter_env ad' <$> c_cur c) (c_fin c))
  | EStore s b =>
      Some (CS (c_ad c) (if b then c_store c ∪ {[s]} else c_store c ∖ {[s]}) (c_ex c) (c_ids c) (c_out c)
               (c_todo c) (c_todo_all c) (c_cur c) (c_fin c))
  | ENext r =>
      match c_cur c with
      | None => if decide (r ∈ c_todo c ∧ c_fin c = false) then
          Some (CS (c_ad c) (c_store c) (c_ex c) (c_ids c) (c_out c) (c_todo c ∖ {[r]}) (c_todo_all c)
                   (match a_rooms (c_ad c) !! r with Some x => Some (Iter (IRoom r) x ∅) | None => None end)
                   (c_fin c))
          else None
      | Some _ => None
      end
  | EAll =>
      match c_cur c with
      | None => if decide (c_todo_all c = true ∧ c_fin c = false) then
          Some (CS (c_ad c) (c_store c) (c_ex c) (c_ids c) (c_out c) (c_todo c) false
                   (Some (Iter IAll (dom (a_sids (c_ad c))) ∅)) (c_fin c))
          else None
      | Some _ => None
      end
  | EProduce s =>
      match c_cur c with
      | Some it => if decide (s ∈ ikeys (it_mode it) (c_ad c) ∧ s ∉ it_done it) then
          let '(ids', out') := body (it_mode it) c s in
          Some (CS (c_ad c) (c_store c) (c_ex c) ids' out' (c_todo c) (c_todo_all c)
                   (Some (Iter (it_mode it) (it_pending it ∖ {[s]}) (it_done it ∪ {[s]}))) (c_fin c))
          else None
      | None => None
      end
  | EEndIter =>
      match c_cur c with
      | Some it => if decide (it_pending it = ∅) then
          Some (CS (c_ad c) (c_store c) (c_ex c) (c_ids c) (c_out c) (c_todo c) (c_todo_all c) None (c_fin c))
          else None
      | None => None
      end
  | EEnd =>
      match c_cur c with
      | None => if decide (c_todo c = ∅ ∧ c_todo_all c = false ∧ c_fin c = false) then
          Some (CS (c_ad c) (c_store c) (c_ex c) (c_ids c) (c_out c) (c_todo c) (c_todo_all c) None true)
          else None
      | Some _ => None
      end
  end.

(** A run: [Some c'] when every event was enabled. *)
Fixpoint crun (c : cstate) (evs : list cev) : option cstate :=
  match evs with
  | [] => Some c
  | e :: evs' => match cstep c e with Some c' => crun c' evs' | None => None end
  end.

(** P holds in every state the run goes through (the first and the last included). *)
Fixpoint always (P : cstate → Prop) (c : cstate) (evs : list cev) : Prop :=
  P c ∧ match evs with
        | [] => True
        | e :: evs' => match cstep c e with Some c' => always P c' evs' | None => True end
        end.

(** s occurs exactly once in l *)
Definition once (s : sid) (l : list sid) : Prop := ∃ l1 l2, l = l1 ++ s :: l2 ∧ s ∉ l1 ∧ s ∉ l2.
