(** Proofs about the session-aware adapter model (C08). *)
From SioV Require Import Base.GoSem Adapter.Session.
Open Scope Z_scope.

(** * The session map *)

Lemma sess_get_del_same p m : sess_get p (sess_del p m) = None.
Proof.
  induction m as [|[k v] m IH]; simpl; auto.
  destruct (N.eqb k p) eqn:E; simpl; auto. rewrite E. auto.
Qed.

Lemma sess_get_del_other p k m : k <> p -> sess_get p (sess_del k m) = sess_get p m.
Proof.
  intros NE. induction m as [|[k' v] m IH]; simpl; auto.
  destruct (N.eqb k' k) eqn:E1; simpl.
  - apply N.eqb_eq in E1; subst k'. destruct (N.eqb k p) eqn:E2; auto.
    apply N.eqb_eq in E2. congruence.
  - destruct (N.eqb k' p); auto.
Qed.

Lemma sess_get_set_same p v m : sess_get p (sess_set p v m) = Some v.
Proof. unfold sess_set. simpl. now rewrite N.eqb_refl. Qed.

Lemma sess_get_set_other p k v m : k <> p -> sess_get p (sess_set k v m) = sess_get p m.
Proof.
  intros NE. unfold sess_set. simpl. destruct (N.eqb k p) eqn:E.
  - apply N.eqb_eq in E. congruence.
  - now apply sess_get_del_other.
Qed.

Lemma sess_get_in p m v : sess_get p m = Some v -> In p (map fst m).
Proof.
  induction m as [|[k w] m IH]; simpl; try discriminate.
  destruct (N.eqb k p) eqn:E; intros H.
  - apply N.eqb_eq in E. now left.
  - right. auto.
Qed.

Lemma sess_get_notin p m : ~ In p (map fst m) -> sess_get p m = None.
Proof.
  intros H. destruct (sess_get p m) eqn:E; auto. apply sess_get_in in E. contradiction.
Qed.

Lemma NoDup_map_filter {A B} (f : A -> B) (g : A -> bool) l :
  NoDup (map f l) -> NoDup (map f (filter g l)).
Proof.
  induction l as [|a l IH]; simpl; intros ND; auto.
  inversion ND; subst. destruct (g a); simpl; auto.
  constructor; auto. intros HI. apply H1.
  apply in_map_iff in HI as [x [E HI]]. apply filter_In in HI as [HI _].
  apply in_map_iff. eauto.
Qed.

Lemma sess_get_filter (g : N * (session * Z) -> bool) p m :
  NoDup (map fst m) ->
  sess_get p (filter g m) =
  match sess_get p m with Some v => if g (p, v) then Some v else None | None => None end.
Proof.
  induction m as [|[k v] m IH]; simpl; intros ND; auto.
  inversion ND; subst. destruct (N.eqb k p) eqn:E.
  - apply N.eqb_eq in E; subst k. destruct (g (p, v)) eqn:G; simpl.
    + now rewrite N.eqb_refl.
    + rewrite IH by auto. rewrite (sess_get_notin p m) by auto. reflexivity.
  - destruct (g (k, v)); simpl; rewrite ?E; apply IH; auto.
Qed.

Lemma keys_del_nodup k m : NoDup (map fst m) -> NoDup (map fst (sess_del k m)).
Proof. apply NoDup_map_filter. Qed.

Lemma key_notin_del k m : ~ In k (map fst (sess_del k m)).
Proof.
  intros H. apply in_map_iff in H as [[k' v] [E H]]. simpl in E; subst k'.
  apply filter_In in H as [_ H]. simpl in H. rewrite N.eqb_refl in H. discriminate.
Qed.

Lemma keys_set_nodup k v m : NoDup (map fst m) -> NoDup (map fst (sess_set k v m)).
Proof.
  intros ND. unfold sess_set. simpl. constructor.
  - apply key_notin_del.
  - now apply keys_del_nodup.
Qed.

(** * The clean-up pass over the packet log *)

Lemma last_index_some {A} (f : A -> bool) l i :
  last_index f l = Some i -> exists b, nth_error l i = Some b /\ f b = true.
Proof.
  revert i. induction l as [|a l IH]; simpl; intros i H; try discriminate.
  destruct (last_index f l) as [j|] eqn:L.
  - inversion H; subst. simpl. apply IH. reflexivity.
  - destruct (f a) eqn:F; try discriminate. inversion H; subst. simpl. eauto.
Qed.

Lemma last_index_none {A} (f : A -> bool) l :
  last_index f l = None -> forall b, In b l -> f b = false.
Proof.
  induction l as [|a l IH]; simpl; intros H b HI; try contradiction.
  destruct (last_index f l) eqn:L; try discriminate.
  destruct (f a) eqn:F; try discriminate.
  destruct HI as [<-|HI]; auto.
Qed.

(** the loop stops at the LAST matching index: nothing after it matches *)
Lemma last_index_after {A} (f : A -> bool) l i :
  last_index f l = Some i -> forall b, In b (skipn (S i) l) -> f b = false.
Proof.
  revert i. induction l as [|a l IH]; simpl; intros i H b HI; try discriminate.
  destruct (last_index f l) as [j|] eqn:L.
  - inversion H; subst. apply (IH j); auto.
  - destruct (f a); try discriminate. inversion H; subst. simpl in HI.
    eapply last_index_none; eauto.
Qed.

Lemma clean_packets_skipn W now l : exists k, clean_packets W now l = skipn k l.
Proof.
  unfold clean_packets. destruct (last_index _ l) as [i|].
  - now exists (S i).
  - now exists O.
Qed.

(** Nothing that is still fresh... is lost only if an expired packet sits behind it; with the log in
    emission-time order this cannot happen and a pass is exactly "drop the expired packets". *)
Fixpoint at_sorted (l : list ppacket) : Prop :=
  match l with
  | [] => True
  | a :: l' => (forall b, In b l' -> p_at a <= p_at b) /\ at_sorted l'
  end.

Lemma filter_all {A} (g : A -> bool) l : (forall b, In b l -> g b = true) -> filter g l = l.
Proof.
  induction l as [|a l IH]; simpl; intros H; auto.
  rewrite (H a) by auto. f_equal. apply IH. auto.
Qed.

Lemma clean_packets_filter W now l :
  at_sorted l ->
  clean_packets W now l = filter (fun p => negb (pkt_expired W now p)) l.
Proof.
  induction l as [|a l IH]; intros S; auto.
  destruct S as [Sa Sl]. specialize (IH Sl).
  unfold clean_packets in *. simpl.
  destruct (last_index (pkt_expired W now) l) as [i|] eqn:L.
  - (* an expired packet sits after a: a is expired too *)
    destruct (last_index_some _ _ _ L) as [b [Hn Hb]].
    assert (In b l) by (eapply nth_error_In; eauto).
    assert (pkt_expired W now a = true) as ->.
    { unfold pkt_expired in *. apply Z.ltb_lt in Hb. apply Z.ltb_lt. specialize (Sa b H). lia. }
    simpl. exact IH.
  - assert (filter (fun p => negb (pkt_expired W now p)) l = l) as E.
    { apply filter_all. intros b Hb. rewrite (last_index_none _ _ L b Hb). reflexivity. }
    destruct (pkt_expired W now a); simpl; rewrite E; reflexivity.
Qed.

(** Without any assumption on time: an expired packet never survives a pass. *)
Lemma clean_packets_drops_expired W now l p :
  In p (clean_packets W now l) -> pkt_expired W now p = false.
Proof.
  unfold clean_packets. destruct (last_index _ l) as [i|] eqn:L; intros H.
  - eapply last_index_after; eauto.
  - eapply last_index_none; eauto.
Qed.

(** * Histories *)

Lemma emitted_app h1 h2 : emitted (h1 ++ h2) = emitted h1 ++ emitted h2.
Proof.
  induction h1 as [|[t o] h1 IH]; simpl; auto.
  destruct o; auto. destruct (loggable k); simpl; now rewrite IH.
Qed.

Lemma last_persist_app pid h1 h2 acc :
  last_persist pid (h1 ++ h2) acc = last_persist pid h2 (last_persist pid h1 acc).
Proof.
  revert acc. induction h1 as [|[t o] h1 IH]; simpl; intros acc; auto.
  destruct o; auto.
Qed.

Lemma last_persist_pid pid h acc s td :
  (forall s' td', acc = Some (s', td') -> s_pid s' = pid) ->
  last_persist pid h acc = Some (s, td) -> s_pid s = pid.
Proof.
  revert acc. induction h as [|[t o] h IH]; simpl; intros acc Ha H.
  - eauto.
  - destruct o; eauto.
    eapply IH; [|exact H]. intros s' td' E.
    destruct (N.eqb (s_pid s0) pid) eqn:Q; eauto.
    inversion E; subst. now apply N.eqb_eq.
Qed.

Lemma run_app W h1 h2 st :
  run W (h1 ++ h2) st =
  let '(st1, r1) := run W h1 st in
  let '(st2, r2) := run W h2 st1 in (st2, r1 ++ r2).
Proof.
  revert st. induction h1 as [|[t o] h1 IH]; intros st; simpl.
  - destruct (run W h2 st); reflexivity.
  - unfold run in *. simpl.
    destruct (step_with clean_packets W t o st) as [st1 r].
    rewrite IH.
    destruct (run_with clean_packets W h1 st1) as [st2 rs].
    destruct (run_with clean_packets W h2 st2) as [st3 rs']. reflexivity.
Qed.

Lemma final_snoc W h t o : final W (h ++ [(t, o)]) = fst (step W t o (final W h)).
Proof.
  unfold final. rewrite run_app.
  destruct (run W h st_empty) as [st1 r1]. simpl.
  unfold run, step. simpl.
  destruct (step_with clean_packets W t o st1) as [st2 r]. reflexivity.
Qed.

(** * The invariant of reachable states *)

Record Inv (h : list (Z * op)) (st : state) : Prop := {
  inv_keys : NoDup (map fst (st_sessions st));
  inv_log : exists dropped, emitted h = dropped ++ st_packets st;
  inv_sess : forall pid v, sess_get pid (st_sessions st) = Some v -> last_persist pid h None = Some v
}.

Lemma restore_state W now pid off st :
  st_packets (fst (restore W now pid off st)) = st_packets st /\
  (st_sessions (fst (restore W now pid off st)) = st_sessions st \/
   (st_sessions (fst (restore W now pid off st)) = sess_del pid (st_sessions st) /\
    exists s td, sess_get pid (st_sessions st) = Some (s, td) /\ sess_expired W now td = true)).
Proof.
  unfold restore. destruct (sess_get pid (st_sessions st)) as [[s td]|]; simpl; auto.
  destruct (sess_expired W now td) eqn:X; simpl; eauto 8.
  destruct (after_offset off (st_packets st)); simpl; auto.
Qed.

Lemma step_restore_fst W t pid off st :
  fst (step W t (ORestore pid off) st) = fst (restore W t pid off st).
Proof. unfold step. simpl. destruct (restore W t pid off st). reflexivity. Qed.

Lemma step_restore_snd W t pid off st :
  snd (step W t (ORestore pid off) st) = Some (snd (restore W t pid off st)).
Proof. unfold step. simpl. destruct (restore W t pid off st). reflexivity. Qed.

Lemma step_inv W h st t o : Inv h st -> Inv (h ++ [(t, o)]) (fst (step W t o st)).
Proof.
  intros [K [d L] S]. destruct o as [k id opts | s | | pid off].
  - (* broadcast *)
    unfold step. simpl. destruct (loggable k) eqn:LG; simpl; constructor; simpl; auto.
    + exists d. rewrite emitted_app, L. simpl. rewrite LG. now rewrite app_assoc.
    + intros pid v H. rewrite last_persist_app. simpl. auto.
    + exists d. rewrite emitted_app, L. simpl. rewrite LG. now rewrite app_nil_r.
    + intros pid v H. rewrite last_persist_app. simpl. auto.
  - (* persist *)
    unfold step. simpl. constructor; simpl.
    + exact (keys_set_nodup (s_pid s) (s, t) _ K).
    + exists d. rewrite emitted_app. simpl. now rewrite app_nil_r.
    + intros pid v H. rewrite last_persist_app. simpl.
      destruct (N.eqb (s_pid s) pid) eqn:E.
      * congruence.
      * rewrite sess_get_del_other in H by (intros Q; subst; rewrite N.eqb_refl in E; discriminate).
        auto.
  - (* clean-up pass *)
    unfold step. simpl. constructor; simpl.
    + unfold clean_sessions. now apply NoDup_map_filter.
    + destruct (clean_packets_skipn W t (st_packets st)) as [n E]. rewrite E.
      exists (d ++ firstn n (st_packets st)).
      rewrite emitted_app. simpl. rewrite app_nil_r, L, <- app_assoc. now rewrite firstn_skipn.
    + intros pid v H. rewrite last_persist_app. simpl.
      unfold clean_sessions in H. rewrite sess_get_filter in H by auto.
      destruct (sess_get pid (st_sessions st)) eqn:G; try discriminate.
      destruct (negb _); try discriminate. inversion H; subst. auto.
  - (* restore *)
    rewrite step_restore_fst.
    destruct (restore_state W t pid off st) as [EP ES].
    constructor.
    + destruct ES as [-> | [-> _]]; auto. now apply keys_del_nodup.
    + rewrite EP. exists d. rewrite emitted_app. simpl. now rewrite app_nil_r.
    + intros q v H. rewrite last_persist_app. simpl. apply S.
      destruct ES as [E | [E _]]; rewrite E in H; auto.
      destruct (N.eq_dec pid q) as [->|NE].
      * rewrite sess_get_del_same in H. discriminate.
      * now rewrite sess_get_del_other in H.
Qed.

Lemma inv_final W h : Inv h (final W h).
Proof.
  induction h as [|[t o] h IH] using rev_ind.
  - constructor; simpl.
    + constructor.
    + now exists [].
    + discriminate.
  - rewrite final_snoc. now apply step_inv.
Qed.

(** * RestoreSession *)

Lemma after_offset_split off l rest :
  after_offset off l = Some rest ->
  exists l1 p, l = l1 ++ p :: rest /\ p_id p = off.
Proof.
  revert rest. induction l as [|q l IH]; simpl; intros rest H; try discriminate.
  destruct (N.eqb (p_id q) off) eqn:E.
  - inversion H; subst. exists [], q. split; auto. now apply N.eqb_eq.
  - destruct (IH _ H) as [l1 [p [-> Hp]]]. exists (q :: l1), p. auto.
Qed.

Lemma after_offset_none off l :
  after_offset off l = None -> ~ In off (map p_id l).
Proof.
  induction l as [|q l IH]; simpl; intros H HI; auto.
  destruct (N.eqb (p_id q) off) eqn:E; try discriminate.
  destruct HI as [HI|HI]; [|now apply IH].
  rewrite HI, N.eqb_refl in E. discriminate.
Qed.

Lemma after_offset_in off l p :
  In p l -> p_id p = off -> exists rest, after_offset off l = Some rest.
Proof.
  induction l as [|q l IH]; simpl; intros HI Hp; try contradiction.
  destruct (N.eqb (p_id q) off) eqn:E; eauto.
  destruct HI as [->|HI]; eauto. rewrite Hp, N.eqb_refl in E. discriminate.
Qed.

Lemma restore_some W now pid off st s ms :
  snd (restore W now pid off st) = Some (s, ms) ->
  exists td rest,
    sess_get pid (st_sessions st) = Some (s, td) /\ sess_expired W now td = false /\
    after_offset off (st_packets st) = Some rest /\
    ms = filter (selected s) rest.
Proof.
  unfold restore. destruct (sess_get pid (st_sessions st)) as [[s' td]|]; simpl; try discriminate.
  destruct (sess_expired W now td) eqn:X; simpl; try discriminate.
  destruct (after_offset off (st_packets st)) as [rest|]; simpl; try discriminate.
  intros H. inversion H; subst. exists td, rest. auto.
Qed.

(** Splitting a list with distinct keys at a given key is unique. *)
Lemma split_unique {A} (f : A -> N) (a a' : list A) x x' b b' :
  NoDup (map f (a ++ x :: b)) ->
  a ++ x :: b = a' ++ x' :: b' -> f x = f x' ->
  a = a' /\ x = x' /\ b = b'.
Proof.
  revert a'. induction a as [|y a IH]; intros a' ND E F.
  - destruct a' as [|y' a']; simpl in *.
    + inversion E; auto.
    + inversion E; subst. inversion ND as [|? ? Hn Hd]; subst. exfalso. apply Hn.
      rewrite map_app. apply in_or_app. right. simpl. left. congruence.
  - destruct a' as [|y' a']; simpl in *.
    + inversion E; subst. inversion ND as [|? ? Hn Hd]; subst. exfalso. apply Hn.
      rewrite map_app. apply in_or_app. right. simpl. left. congruence.
    + inversion E as [[Ey E']]; subst. inversion ND as [|? ? Hn Hd]; subst.
      destruct (IH a' Hd E' F) as [-> [-> ->]]. auto.
Qed.

(** C08_restore_exact *)
Theorem restore_exact W h t pid off s ms :
  snd (step W t (ORestore pid off) (final W h)) = Some (Some (s, ms)) ->
  exists pre p post,
    emitted h = pre ++ p :: post /\ p_id p = off /\ ms = filter (selected s) post.
Proof.
  rewrite step_restore_snd. intros H. inversion H as [H'].
  destruct (restore_some _ _ _ _ _ _ _ H') as [td [rest [G [X [A M]]]]].
  destruct (inv_final W h) as [_ [d L] _].
  destruct (after_offset_split _ _ _ A) as [l1 [p [E Hp]]].
  exists (d ++ l1), p, rest. split; auto.
  rewrite L, E. now rewrite app_assoc.
Qed.

(** C08_no_gap: whatever was emitted after the offset packet and is selected by the session is
    replayed - for every history, with clean-up passes anywhere. *)
Theorem no_gap W h t pid off s ms :
  NoDup (map p_id (emitted h)) ->
  snd (step W t (ORestore pid off) (final W h)) = Some (Some (s, ms)) ->
  forall pre p post, emitted h = pre ++ p :: post -> p_id p = off ->
    ms = filter (selected s) post.
Proof.
  intros ND H pre p post E Hp.
  destruct (restore_exact _ _ _ _ _ _ _ H) as [pre' [p' [post' [E' [Hp' ->]]]]].
  rewrite E in ND. rewrite E in E'.
  destruct (split_unique p_id pre pre' p p' post post' ND E') as [_ [_ ->]]; congruence.
Qed.

Theorem no_gap_in W h t pid off s ms :
  NoDup (map p_id (emitted h)) ->
  snd (step W t (ORestore pid off) (final W h)) = Some (Some (s, ms)) ->
  forall pre p post q, emitted h = pre ++ p :: post -> p_id p = off ->
    In q post -> selected s q = true -> In q ms.
Proof.
  intros ND H pre p post q E Hp HI Hs.
  rewrite (no_gap _ _ _ _ _ _ _ ND H pre p post E Hp). apply filter_In. auto.
Qed.

Lemma NoDup_map_app_r {A B} (f : A -> B) l1 l2 : NoDup (map f (l1 ++ l2)) -> NoDup (map f l2).
Proof.
  induction l1; simpl; auto. intros H. inversion H; auto.
Qed.

(** nothing twice *)
Theorem restore_nodup W h t pid off s ms :
  NoDup (map p_id (emitted h)) ->
  snd (step W t (ORestore pid off) (final W h)) = Some (Some (s, ms)) ->
  NoDup (map p_id ms).
Proof.
  intros ND H.
  destruct (restore_exact _ _ _ _ _ _ _ H) as [pre [p [post [E [Hp ->]]]]].
  rewrite E in ND. apply NoDup_map_app_r in ND. simpl in ND. inversion ND; subst.
  now apply NoDup_map_filter.
Qed.

(** what the client has when it has received everything selected up to the offset packet,
    plus the replay, is everything selected - each once, in emission order *)
Theorem exactly_once W h t pid off s ms :
  NoDup (map p_id (emitted h)) ->
  snd (step W t (ORestore pid off) (final W h)) = Some (Some (s, ms)) ->
  forall pre p post, emitted h = pre ++ p :: post -> p_id p = off ->
    filter (selected s) (pre ++ [p]) ++ ms = filter (selected s) (emitted h).
Proof.
  intros ND H pre p post E Hp.
  rewrite (no_gap _ _ _ _ _ _ _ ND H pre p post E Hp), E.
  rewrite <- filter_app, <- app_assoc. reflexivity.
Qed.

(** C08_same_sid_rooms *)
Theorem same_sid_rooms W h t pid off s ms :
  snd (step W t (ORestore pid off) (final W h)) = Some (Some (s, ms)) ->
  exists td, last_persist pid h None = Some (s, td) /\ s_pid s = pid /\ t <= td + W.
Proof.
  rewrite step_restore_snd. intros H. inversion H as [H'].
  destruct (restore_some _ _ _ _ _ _ _ H') as [td [rest [G [X _]]]].
  destruct (inv_final W h) as [_ _ S].
  exists td. split; [now apply S|]. split.
  - eapply last_persist_pid; [|apply S; eauto]. discriminate.
  - unfold sess_expired in X. apply Z.ltb_ge in X. lia.
Qed.

(** C08_fallback *)
Theorem fallback_unknown_session W h t pid off :
  last_persist pid h None = None ->
  snd (step W t (ORestore pid off) (final W h)) = Some None.
Proof.
  intros H. rewrite step_restore_snd. f_equal.
  destruct (inv_final W h) as [_ _ S].
  unfold restore. destruct (sess_get pid (st_sessions (final W h))) as [[s td]|] eqn:G; auto.
  apply S in G. congruence.
Qed.

Theorem fallback_expired_session W h t pid off s td :
  last_persist pid h None = Some (s, td) -> td + W < t ->
  snd (step W t (ORestore pid off) (final W h)) = Some None.
Proof.
  intros H X. rewrite step_restore_snd. f_equal.
  destruct (inv_final W h) as [_ _ S].
  unfold restore. destruct (sess_get pid (st_sessions (final W h))) as [[s' td']|] eqn:G; auto.
  apply S in G. rewrite H in G. inversion G; subst.
  assert (sess_expired W t td' = true) as -> by (apply Z.ltb_lt; lia). reflexivity.
Qed.

Theorem fallback_unknown_offset W h t pid off :
  ~ In off (map p_id (emitted h)) ->
  snd (step W t (ORestore pid off) (final W h)) = Some None.
Proof.
  intros H. rewrite step_restore_snd. f_equal.
  destruct (inv_final W h) as [_ [d L] _].
  unfold restore. destruct (sess_get pid (st_sessions (final W h))) as [[s td]|]; auto.
  destruct (sess_expired W t td); auto.
  destruct (after_offset off (st_packets (final W h))) as [rest|] eqn:A; auto.
  exfalso. apply H. destruct (after_offset_split _ _ _ A) as [l1 [p [E Hp]]].
  rewrite L, E, !map_app. apply in_or_app. right. apply in_or_app. right. simpl. auto.
Qed.

(** * Liveness: within the window, with the offset packet not yet expired, the session is recovered *)

Lemma times_sorted_ge prev h : times_sorted prev h = true -> Forall (fun e => prev <= fst e) h.
Proof.
  revert prev. induction h as [|[t o] h IH]; simpl; intros prev H; constructor.
  - apply andb_true_iff in H as [H _]. apply Z.leb_le in H. exact H.
  - apply andb_true_iff in H as [H1 H2]. apply Z.leb_le in H1.
    eapply Forall_impl; [|apply (IH _ H2)]. simpl. intros. lia.
Qed.

Lemma times_sorted_snoc prev h t o :
  times_sorted prev (h ++ [(t, o)]) = true ->
  times_sorted prev h = true /\ Forall (fun e => fst e <= t) h.
Proof.
  revert prev. induction h as [|[t1 o1] h IH]; simpl; intros prev H; auto.
  apply andb_true_iff in H as [H1 H2].
  destruct (IH _ H2) as [S F]. rewrite H1, S. split; auto. constructor; auto. simpl.
  apply times_sorted_ge in H2. rewrite Forall_forall in H2.
  apply (H2 (t, o)). apply in_or_app. right. now left.
Qed.

Lemma at_sorted_app_r l1 l2 : at_sorted (l1 ++ l2) -> at_sorted l2.
Proof. induction l1; simpl; auto. intros [_ H]. auto. Qed.

Lemma at_sorted_app_l l1 l2 : at_sorted (l1 ++ l2) -> at_sorted l1.
Proof.
  induction l1 as [|a l1 IH]; simpl; auto. intros [H1 H2]. split; auto.
  intros b Hb. apply H1. apply in_or_app. auto.
Qed.

Lemma emitted_sorted prev h :
  times_sorted prev h = true ->
  (forall b, In b (emitted h) -> prev <= p_at b) /\ at_sorted (emitted h).
Proof.
  revert prev. induction h as [|[t o] h IH]; simpl; intros prev H.
  - split; [contradiction | exact I].
  - apply andb_true_iff in H as [H1 H2]. apply Z.leb_le in H1.
    destruct (IH _ H2) as [G S].
    assert (forall b, In b (emitted h) -> prev <= p_at b) as G' by (intros b Hb; specialize (G b Hb); lia).
    destruct o as [k id opts| | |]; auto.
    destruct (loggable k); auto. simpl. split.
    + intros b [<-|Hb]; simpl; auto.
    + split; auto.
Qed.

Lemma sess_retained W t h :
  Forall (fun e => fst e <= t) h ->
  forall pid s td, last_persist pid h None = Some (s, td) -> t <= td + W ->
    sess_get pid (st_sessions (final W h)) = Some (s, td).
Proof.
  induction h as [|[t0 o] h IH] using rev_ind; intros F pid s td LP X.
  - discriminate.
  - apply Forall_app in F as [F F0]. inversion F0 as [|? ? T0 _]; subst. simpl in T0.
    specialize (IH F). rewrite last_persist_app in LP. rewrite final_snoc.
    destruct (inv_final W h) as [K _ _].
    destruct o as [k id opts | s0 | | q off].
    + simpl in LP. unfold step. simpl. destruct (loggable k); simpl; auto.
    + simpl in LP. unfold step. cbn [step_with fst st_sessions].
      destruct (N.eqb (s_pid s0) pid) eqn:E.
      * apply N.eqb_eq in E. inversion LP; subst. apply sess_get_set_same.
      * rewrite sess_get_set_other by (intros Q; rewrite Q, N.eqb_refl in E; discriminate). auto.
    + simpl in LP. unfold step. cbn [step_with fst st_sessions]. unfold clean_sessions.
      rewrite sess_get_filter by auto. rewrite (IH _ _ _ LP X). simpl.
      assert (sess_expired W t0 td = false) as -> by (apply Z.ltb_ge; lia). reflexivity.
    + simpl in LP. rewrite step_restore_fst.
      destruct (restore_state W t0 q off (final W h)) as [_ [E | [E [s' [td' [G X']]]]]]; rewrite E; auto.
      destruct (N.eq_dec q pid) as [->|NE].
      * rewrite (IH _ _ _ LP X) in G. inversion G; subst.
        apply Z.ltb_lt in X'. lia.
      * rewrite sess_get_del_other; auto.
Qed.

Lemma pkt_retained W t h :
  Forall (fun e => fst e <= t) h -> at_sorted (emitted h) ->
  forall p, In p (emitted h) -> t <= p_at p + W -> In p (st_packets (final W h)).
Proof.
  induction h as [|[t0 o] h IH] using rev_ind; intros F S p HI X.
  - contradiction.
  - apply Forall_app in F as [F F0]. inversion F0 as [|? ? T0 _]; subst. simpl in T0.
    rewrite emitted_app in S, HI. specialize (IH F (at_sorted_app_l _ _ S)).
    rewrite final_snoc.
    destruct (inv_final W h) as [_ [d L] _].
    destruct o as [k id opts | s0 | | q off].
    + unfold step. simpl in *. destruct (loggable k); simpl in *.
      * apply in_app_or in HI as [HI|HI]; apply in_or_app; auto.
      * rewrite app_nil_r in HI. auto.
    + unfold step. simpl in *. rewrite app_nil_r in HI. auto.
    + unfold step. simpl in *. rewrite app_nil_r in HI.
      rewrite clean_packets_filter.
      * apply filter_In. split; auto. unfold pkt_expired.
        assert (p_at p + W <? t0 = false) as -> by (apply Z.ltb_ge; lia). reflexivity.
      * apply at_sorted_app_l in S. rewrite L in S. eapply at_sorted_app_r; eauto.
    + rewrite step_restore_fst.
      destruct (restore_state W t0 q off (final W h)) as [-> _].
      simpl in HI. rewrite app_nil_r in HI. auto.
Qed.

Theorem recovers_in_window W h t t0 pid off s td p :
  times_sorted t0 (h ++ [(t, ORestore pid off)]) = true ->
  last_persist pid h None = Some (s, td) -> t <= td + W ->
  In p (emitted h) -> p_id p = off -> t <= p_at p + W ->
  exists ms, snd (step W t (ORestore pid off) (final W h)) = Some (Some (s, ms)).
Proof.
  intros TS LP X HI Hp Xp.
  apply times_sorted_snoc in TS as [TS F].
  pose proof (sess_retained W t h F _ _ _ LP X) as G.
  pose proof (pkt_retained W t h F (proj2 (emitted_sorted _ _ TS)) p HI Xp) as HP.
  destruct (after_offset_in off _ p HP Hp) as [rest A].
  rewrite step_restore_snd. unfold restore. rewrite G.
  assert (sess_expired W t td = false) as -> by (apply Z.ltb_ge; lia).
  rewrite A. simpl. eauto.
Qed.

(** * Which packets a session selects (shouldIncludePacket, declaratively) *)

Lemma mem_in r l : mem r l = true <-> In r l.
Proof.
  unfold mem. rewrite existsb_exists. split.
  - intros [x [H E]]. apply N.eqb_eq in E. now subst.
  - intros H. exists r. split; auto. apply N.eqb_refl.
Qed.

Theorem should_include_spec rooms o :
  should_include rooms o = true <->
  (o_rooms o = [] \/ exists r, In r rooms /\ In r (o_rooms o)) /\
  (forall r, In r rooms -> ~ In r (o_except o)).
Proof.
  unfold should_include. rewrite andb_true_iff, orb_true_iff, negb_true_iff. split.
  - intros [[H|H] NX]; split.
    + left. destruct (o_rooms o); auto; discriminate.
    + intros r Hr HI. assert (existsb (fun r => mem r (o_except o)) rooms = true); [|congruence].
      apply existsb_exists. exists r. split; auto. now apply mem_in.
    + right. apply existsb_exists in H as [r [Hr M]]. exists r. split; auto. now apply mem_in.
    + intros r Hr HI. assert (existsb (fun r => mem r (o_except o)) rooms = true); [|congruence].
      apply existsb_exists. exists r. split; auto. now apply mem_in.
  - intros [H NX]. split.
    + destruct H as [->|[r [Hr HI]]]; [now left|]. right. apply existsb_exists. exists r.
      split; auto. now apply mem_in.
    + destruct (existsb (fun r => mem r (o_except o)) rooms) eqn:E; auto. apply existsb_exists in E as [r [Hr M]].
      apply mem_in in M. exfalso. eapply NX; eauto.
Qed.

(** * Several sessions recovering from the same log are independent *)

Definition concerns (p : N) (o : op) : bool :=
  match o with
  | OPersist s => N.eqb (s_pid s) p
  | ORestore q _ => N.eqb q p
  | _ => true
  end.

(** the history with every persist / restore of the other sessions removed *)
Definition proj (p : N) (h : list (Z * op)) : list (Z * op) := filter (fun e => concerns p (snd e)) h.

(** results of the restores of session [p], in order *)
Fixpoint results_for (p : N) (h : list (Z * op)) (rs : list (option rresult)) : list rresult :=
  match h, rs with
  | (_, ORestore q _) :: h', Some r :: rs' =>
      if N.eqb q p then r :: results_for p h' rs' else results_for p h' rs'
  | _ :: h', _ :: rs' => results_for p h' rs'
  | _, _ => []
  end.

Definition same_view (p : N) (a b : state) : Prop :=
  st_packets a = st_packets b /\ sess_get p (st_sessions a) = sess_get p (st_sessions b) /\
  NoDup (map fst (st_sessions a)) /\ NoDup (map fst (st_sessions b)).

Lemma step_keys W t o st :
  NoDup (map fst (st_sessions st)) -> NoDup (map fst (st_sessions (fst (step W t o st)))).
Proof.
  intros K. destruct o as [k id opts | s | | q off].
  - unfold step. simpl. destruct (loggable k); auto.
  - unfold step. simpl. exact (keys_set_nodup (s_pid s) (s, t) _ K).
  - unfold step. simpl. unfold clean_sessions. now apply NoDup_map_filter.
  - rewrite step_restore_fst.
    destruct (restore_state W t q off st) as [_ [-> | [-> _]]]; auto. now apply keys_del_nodup.
Qed.

Lemma step_other W t o p st :
  concerns p o = false ->
  st_packets (fst (step W t o st)) = st_packets st /\
  sess_get p (st_sessions (fst (step W t o st))) = sess_get p (st_sessions st).
Proof.
  destruct o as [k id opts | s | | q off]; cbn [concerns]; try discriminate; intros C.
  - unfold step. simpl. split; auto.
    apply sess_get_set_other. intros Q. rewrite Q, N.eqb_refl in C. discriminate.
  - rewrite step_restore_fst.
    assert (q <> p) as NE by (intros Q; rewrite Q, N.eqb_refl in C; discriminate).
    destruct (restore_state W t q off st) as [-> [-> | [-> _]]]; auto.
    split; auto. now apply sess_get_del_other.
Qed.

Lemma restore_same_view W t p off a b :
  same_view p a b ->
  snd (restore W t p off a) = snd (restore W t p off b) /\
  same_view p (fst (restore W t p off a)) (fst (restore W t p off b)).
Proof.
  intros [P [G [Ka Kb]]]. unfold restore. rewrite <- G, <- P.
  destruct (sess_get p (st_sessions a)) as [[s td]|] eqn:GA; simpl.
  - destruct (sess_expired W t td); simpl.
    + split; auto. repeat split; simpl; auto.
      * now rewrite !sess_get_del_same.
      * now apply keys_del_nodup.
      * now apply keys_del_nodup.
    + destruct (after_offset off (st_packets a)); simpl; split; auto; repeat split; auto; congruence.
  - split; auto. repeat split; auto; congruence.
Qed.

Lemma step_same_view W t o p a b :
  concerns p o = true -> same_view p a b ->
  snd (step W t o a) = snd (step W t o b) /\
  same_view p (fst (step W t o a)) (fst (step W t o b)).
Proof.
  intros C V. destruct o as [k id opts | s | | q off].
  - destruct V as [P [G [Ka Kb]]]. unfold step. simpl. destruct (loggable k); simpl; split; auto;
      repeat split; simpl; auto. now rewrite P.
  - destruct V as [P [G [Ka Kb]]]. simpl in C. apply N.eqb_eq in C. subst p.
    unfold step. cbn [step_with fst snd st_sessions st_packets]. split; auto.
    repeat split; cbn [st_sessions st_packets]; auto.
    + now rewrite !sess_get_set_same.
    + now apply keys_set_nodup.
    + now apply keys_set_nodup.
  - destruct V as [P [G [Ka Kb]]].
    unfold step. cbn [step_with fst snd st_sessions st_packets]. split; auto.
    repeat split; cbn [st_sessions st_packets].
    + now rewrite P.
    + unfold clean_sessions. rewrite !sess_get_filter by auto. now rewrite G.
    + unfold clean_sessions. now apply NoDup_map_filter.
    + unfold clean_sessions. now apply NoDup_map_filter.
  - simpl in C. apply N.eqb_eq in C. subst q.
    rewrite !step_restore_fst, !step_restore_snd.
    destruct (restore_same_view W t p off a b V) as [R V']. split; auto. now rewrite R.
Qed.

Lemma many_sessions_gen W p h : forall a b,
  same_view p a b ->
  results_for p h (snd (run W h a)) = results_for p (proj p h) (snd (run W (proj p h) b)).
Proof.
  induction h as [|[t o] h IH]; intros a b V; auto.
  unfold proj. simpl. destruct (concerns p o) eqn:C.
  - fold (proj p h). unfold run. simpl. fold (run W h) (run W (proj p h)).
    destruct (step_same_view W t o p a b C V) as [R V'].
    unfold step in R, V'.
    destruct (step_with clean_packets W t o a) as [a1 ra].
    destruct (step_with clean_packets W t o b) as [b1 rb]. simpl in R, V'. subst rb.
    specialize (IH a1 b1 V').
    destruct (run W h a1) as [a2 rsa]. destruct (run W (proj p h) b1) as [b2 rsb]. simpl in *.
    destruct o as [k id opts | s | | q off]; auto.
    destruct ra as [r|]; auto. destruct (N.eqb q p); auto. now rewrite IH.
  - fold (proj p h). unfold run at 1. simpl. fold (run W h).
    destruct (step_other W t o p a C) as [P G].
    pose proof (step_keys W t o a) as K.
    unfold step in P, G, K.
    destruct (step_with clean_packets W t o a) as [a1 ra]. simpl in P, G, K.
    assert (same_view p a1 b) as V'.
    { destruct V as [P' [G' [Ka Kb]]]. repeat split; auto; congruence. }
    specialize (IH a1 b V').
    destruct (run W h a1) as [a2 rsa]. simpl in *.
    destruct o as [k id opts | s | | q off]; simpl in C; try discriminate; auto.
    destruct ra; auto. rewrite C. auto.
Qed.

(** C08_many_sessions: what session [p] gets back does not depend on the persists and restores
    of the other sessions sharing the log. *)
Theorem many_sessions W p h :
  results_for p h (snd (run W h st_empty)) =
  results_for p (proj p h) (snd (run W (proj p h) st_empty)).
Proof.
  apply many_sessions_gen. repeat split; simpl; auto; constructor.
Qed.

(** * An offset whose packet has expired and been collected is unknown for good *)

Definition is_suffix {A} (l e : list A) : Prop := exists d, e = d ++ l.

Lemma is_suffix_skipn {A} n (l e : list A) : is_suffix l e -> is_suffix (skipn n l) e.
Proof.
  intros [d ->]. exists (d ++ firstn n l). now rewrite <- app_assoc, firstn_skipn.
Qed.

Lemma step_suffix W t o st e :
  is_suffix (st_packets st) e ->
  is_suffix (st_packets (fst (step W t o st))) (e ++ emitted [(t, o)]).
Proof.
  intros S. destruct o as [k id opts | s | | q off].
  - unfold step. simpl. destruct (loggable k); simpl.
    + destruct S as [d ->]. exists d. now rewrite app_assoc.
    + now rewrite app_nil_r.
  - unfold step. simpl. now rewrite app_nil_r.
  - unfold step. simpl. rewrite app_nil_r.
    destruct (clean_packets_skipn W t (st_packets st)) as [n ->]. now apply is_suffix_skipn.
  - rewrite step_restore_fst. simpl. rewrite app_nil_r.
    destruct (restore_state W t q off st) as [-> _]. exact S.
Qed.

Lemma run_cons_fst W t o h st :
  fst (run W ((t, o) :: h) st) = fst (run W h (fst (step W t o st))).
Proof.
  unfold run, step. simpl. destruct (step_with clean_packets W t o st) as [st1 r]. simpl.
  destruct (run_with clean_packets W h st1) as [st2 rs]. reflexivity.
Qed.

Lemma run_suffix W h : forall st e,
  is_suffix (st_packets st) e -> is_suffix (st_packets (fst (run W h st))) (e ++ emitted h).
Proof.
  induction h as [|[t o] h IH]; intros st e S.
  - simpl. now rewrite app_nil_r.
  - rewrite run_cons_fst.
    change ((t, o) :: h) with ([(t, o)] ++ h). rewrite emitted_app, app_assoc.
    apply IH. now apply step_suffix.
Qed.

Lemma last_index_ge {A} (f : A -> bool) l1 x l2 :
  f x = true -> exists i, last_index f (l1 ++ x :: l2) = Some i /\ (length l1 <= i)%nat.
Proof.
  intros F. induction l1 as [|a l1 IH]; simpl.
  - destruct (last_index f l2) as [j|]; [exists (S j) | exists O]; rewrite ?F; split; auto; lia.
  - destruct IH as [i [-> L]]. exists (S i). split; auto. lia.
Qed.

Lemma clean_after_expired W tc l pre p post e :
  is_suffix l e -> e = pre ++ p :: post -> pkt_expired W tc p = true ->
  is_suffix (clean_packets W tc l) post.
Proof.
  intros [d E] E' X. rewrite E' in E. symmetry in E.
  apply app_eq_app in E as [x [[Ed El] | [Ep El]]].
  - (* l = x ++ p :: post with ... no: here d = pre ++ x and p :: post = x ++ l *)
    destruct x as [|y x]; simpl in El.
    + (* l = p :: post *)
      subst l. unfold clean_packets.
      destruct (last_index_ge (pkt_expired W tc) [] p post X) as [i [LI _]].
      simpl app in LI. rewrite LI.
      simpl. apply is_suffix_skipn. now exists [].
    + inversion El; subst. destruct (clean_packets_skipn W tc l) as [n ->].
      apply is_suffix_skipn. now exists x.
  - (* l = x ++ p :: post *)
    subst l. unfold clean_packets.
    destruct (last_index_ge (pkt_expired W tc) x p post X) as [i [-> L]].
    rewrite skipn_app.
    replace (S i - length x)%nat with (S (i - length x)) by lia.
    rewrite (skipn_all2 (n:=S i) x) by lia. cbn [app skipn].
    apply is_suffix_skipn. now exists [].
Qed.

Lemma final_app W h1 h2 : final W (h1 ++ h2) = fst (run W h2 (final W h1)).
Proof.
  unfold final. rewrite run_app. destruct (run W h1 st_empty) as [st1 r1]. simpl.
  destruct (run W h2 st1) as [st2 r2]. reflexivity.
Qed.

Theorem fallback_collected_offset W h1 tc h2 t pid pre p post :
  NoDup (map p_id (emitted (h1 ++ (tc, OClean) :: h2))) ->
  emitted h1 = pre ++ p :: post -> p_at p + W < tc ->
  snd (step W t (ORestore pid (p_id p)) (final W (h1 ++ (tc, OClean) :: h2))) = Some None.
Proof.
  intros ND E X. rewrite step_restore_snd. f_equal.
  replace (h1 ++ (tc, OClean) :: h2) with ((h1 ++ [(tc, OClean)]) ++ h2) in * by now rewrite <- app_assoc.
  rewrite final_app, final_snoc.
  destruct (inv_final W h1) as [_ [d L] _].
  assert (is_suffix (st_packets (fst (step W tc OClean (final W h1)))) post) as S1.
  { unfold step. simpl. eapply clean_after_expired; eauto.
    - exists d. exact L.
    - apply Z.ltb_lt. exact X. }
  pose proof (run_suffix W h2 _ _ S1) as [d2 S2].
  unfold restore.
  destruct (sess_get pid _) as [[s td]|]; auto.
  destruct (sess_expired W t td); auto.
  destruct (after_offset (p_id p) _) as [rest|] eqn:A; auto.
  exfalso. apply after_offset_split in A as [l1 [q [EQ Hq]]].
  rewrite !emitted_app in ND. simpl in ND. rewrite app_nil_r, E in ND.
  rewrite <- app_assoc in ND. simpl in ND.
  apply NoDup_map_app_r in ND. simpl in ND. inversion ND as [|? ? Hn _]; subst.
  apply Hn. rewrite S2, EQ, !map_app. apply in_or_app. right. apply in_or_app. right.
  simpl. left. exact Hq.
Qed.

(** * The socket layer on top: same sid / rooms + replay, or a fresh session *)

Lemma connect_fresh W t pid off fs fp st :
  snd (restore W t pid off st) = None ->
  snd (connect W t pid off fs fp st) = mkSock fs fp false [fs] [FConnect fs fp].
Proof.
  unfold connect. destruct (restore W t pid off st) as [st' r]. simpl. intros ->. reflexivity.
Qed.

Lemma connect_recovered W t pid off fs fp st s ms :
  snd (restore W t pid off st) = Some (s, ms) ->
  snd (connect W t pid off fs fp st) =
  mkSock (s_sid s) (s_pid s) true (s_rooms s ++ [s_sid s]) (map FReplay ms ++ [FConnect (s_sid s) (s_pid s)]).
Proof.
  unfold connect. destruct (restore W t pid off st) as [st' r]. simpl. intros ->. reflexivity.
Qed.

Lemma step_restore_unwrap W t pid off st r :
  snd (step W t (ORestore pid off) st) = Some r -> snd (restore W t pid off st) = r.
Proof. rewrite step_restore_snd. congruence. Qed.

(** never reported recovered unless the restore succeeded, and then with the persisted identity
    and exactly the missed packets in front of the CONNECT packet *)
Theorem recovered_socket W h t pid off fs fp :
  k_recovered (snd (connect W t pid off fs fp (final W h))) = true ->
  exists s td pre p post,
    last_persist pid h None = Some (s, td) /\ t <= td + W /\
    emitted h = pre ++ p :: post /\ p_id p = off /\
    snd (connect W t pid off fs fp (final W h)) =
    mkSock (s_sid s) pid true (s_rooms s ++ [s_sid s])
           (map FReplay (filter (selected s) post) ++ [FConnect (s_sid s) pid]).
Proof.
  intros R.
  destruct (snd (restore W t pid off (final W h))) as [[s ms]|] eqn:RS.
  - assert (snd (step W t (ORestore pid off) (final W h)) = Some (Some (s, ms))) as ST
        by (rewrite step_restore_snd; now rewrite RS).
    destruct (same_sid_rooms _ _ _ _ _ _ _ ST) as [td [LP [PID X]]].
    destruct (restore_exact _ _ _ _ _ _ _ ST) as [pre [p [post [E [Hp ->]]]]].
    exists s, td, pre, p, post. repeat split; auto.
    rewrite (connect_recovered _ _ _ _ _ _ _ _ _ RS). now rewrite PID.
  - rewrite (connect_fresh _ _ _ _ _ _ _ RS) in R. discriminate.
Qed.

Theorem fresh_socket W h t pid off fs fp :
  snd (step W t (ORestore pid off) (final W h)) = Some None ->
  snd (connect W t pid off fs fp (final W h)) = mkSock fs fp false [fs] [FConnect fs fp].
Proof.
  intros H. apply connect_fresh. now apply step_restore_unwrap.
Qed.

(** * The adapter falls back only with a reason *)

(** retention under the weaker hypothesis: no clean-up pass of the history ran after the packet expired *)
Lemma pkt_retained_passes W h :
  at_sorted (emitted h) ->
  forall p, In p (emitted h) ->
  (forall tc, In (tc, OClean) h -> tc <= p_at p + W) ->
  In p (st_packets (final W h)).
Proof.
  induction h as [|[t0 o] h IH] using rev_ind; intros S p HI X.
  - contradiction.
  - rewrite emitted_app in S, HI. specialize (IH (at_sorted_app_l _ _ S)).
    assert (forall tc, In (tc, OClean) h -> tc <= p_at p + W) as X'
        by (intros tc Hc; apply X; apply in_or_app; auto).
    rewrite final_snoc.
    destruct (inv_final W h) as [_ [d L] _].
    destruct o as [k id opts | s0 | | q off].
    + unfold step. simpl in *. destruct (loggable k); simpl in *.
      * apply in_app_or in HI as [HI|HI]; apply in_or_app; auto.
      * rewrite app_nil_r in HI. auto.
    + unfold step. simpl in *. rewrite app_nil_r in HI. auto.
    + unfold step. simpl in *. rewrite app_nil_r in HI.
      rewrite clean_packets_filter.
      * apply filter_In. split; auto. unfold pkt_expired.
        assert (t0 <= p_at p + W) by (apply X; apply in_or_app; right; now left).
        assert (p_at p + W <? t0 = false) as -> by (apply Z.ltb_ge; lia). reflexivity.
      * apply at_sorted_app_l in S. rewrite L in S. eapply at_sorted_app_r; eauto.
    + rewrite step_restore_fst.
      destruct (restore_state W t0 q off (final W h)) as [-> _].
      simpl in HI. rewrite app_nil_r in HI. auto.
Qed.

Lemma in_ids_packet off l : In off (map p_id l) -> exists p, In p l /\ p_id p = off.
Proof. intros H. apply in_map_iff in H as [p [E HI]]. eauto. Qed.

(** The adapter falls back ONLY for one of the four reasons. *)
Theorem fallback_reason W h t t0 pid off :
  times_sorted t0 (h ++ [(t, ORestore pid off)]) = true ->
  snd (step W t (ORestore pid off) (final W h)) = Some None ->
  last_persist pid h None = None
  \/ (exists s td, last_persist pid h None = Some (s, td) /\ td + W < t)
  \/ ~ In off (map p_id (emitted h))
  \/ (exists p tc, In p (emitted h) /\ p_id p = off /\ In (tc, OClean) h /\ p_at p + W < tc).
Proof.
  intros TS H. apply times_sorted_snoc in TS as [TS F].
  destruct (last_persist pid h None) as [[s td]|] eqn:LP; [|now left]. right.
  destruct (Z_lt_dec (td + W) t) as [X|X]; [left; eauto|]. right.
  destruct (in_dec N.eq_dec off (map p_id (emitted h))) as [HI|HI]; [|now left]. right.
  destruct (in_ids_packet _ _ HI) as [p [Hp Ho]].
  destruct (existsb (fun e => match snd e with OClean => p_at p + W <? fst e | _ => false end) h) eqn:EX.
  - apply existsb_exists in EX as [[tc o] [Hc C]]. simpl in C. destruct o; try discriminate.
    apply Z.ltb_lt in C. exists p, tc. auto.
  - exfalso.
    assert (forall tc, In (tc, OClean) h -> tc <= p_at p + W) as NC.
    { intros tc Hc. destruct (Z_le_dec tc (p_at p + W)); auto. exfalso.
      assert (existsb (fun e => match snd e with OClean => p_at p + W <? fst e | _ => false end) h = true);
        [|congruence].
      apply existsb_exists. exists (tc, OClean). split; auto. simpl. apply Z.ltb_lt. lia. }
    pose proof (sess_retained W t h F _ _ _ LP ltac:(lia)) as G.
    pose proof (pkt_retained_passes W h (proj2 (emitted_sorted _ _ TS)) p Hp NC) as HP.
    destruct (after_offset_in off _ p HP Ho) as [rest A].
    rewrite step_restore_snd in H. unfold restore in H. rewrite G in H.
    assert (sess_expired W t td = false) as E by (apply Z.ltb_ge; lia).
    rewrite E, A in H. simpl in H. discriminate.
Qed.
