(** The specification side of C04: an abstract namespace is a membership *relation* (a set of
    (socket, room) pairs), the set of registered sockets, the connected sockets and the closed ones;
    operations act on it set-wise, with no indexes, no iteration and no adapter.  The theorems of
    BroadcastProofs.v show the model of the code refines it; the oracle of the correspondence
    check evaluates it on the implementation's observations. *)
From SioV Require Export Adapter.Rooms Adapter.Broadcast.

Record ansp := ANsp {
  an_pairs : gset (positive * positive);
  an_present : gset positive;
  an_store : gset positive;
  an_closed : gset positive
}.

(** The sockets a broadcast to rooms T except rooms E must reach. *)
Definition an_selected (a : ansp) (T E : gset room) : gset sid :=
  filter (λ s, s ∈ an_store a ∧
               (T = ∅ ∨ set_Exists (λ r, (s, r) ∈ an_pairs a) T) ∧
               set_Forall (λ r, (s, r) ∉ an_pairs a) E) (an_present a).

Definition an_rooms_of (a : ansp) (s : sid) : gset room :=
  set_map snd (filter (λ p, p.1 = s) (an_pairs a)).

Definition cross (X : gset sid) (rs : list room) : gset (positive * positive) :=
  list_to_set (s ← elements X; r ← rs; [(s, r)]).

Definition an_join (rs : list room) (X : gset sid) (a : ansp) : ansp :=
  let X' := X ∖ an_closed a in
  ANsp (an_pairs a ∪ cross X' rs) (an_present a ∪ X') (an_store a) (an_closed a).
Definition an_leave (rs : list room) (X : gset sid) (a : ansp) : ansp :=
  ANsp (an_pairs a ∖ cross X rs) (an_present a) (an_store a) (an_closed a).
Definition an_disconnect (X : gset sid) (a : ansp) : ansp :=
  let X' := X ∩ an_store a in
  ANsp (filter (λ p, p.1 ∉ X') (an_pairs a)) (an_present a ∖ X') (an_store a ∖ X') (an_closed a ∪ X').
Definition an_connect (s : sid) (a : ansp) : ansp :=
  if decide (s ∈ an_store a ∨ s ∈ an_closed a) then a
  else ANsp (an_pairs a ∪ {[(s, s)]}) (an_present a ∪ {[s]}) (an_store a ∪ {[s]}) (an_closed a).

Definition an_op_selected (a : ansp) (from : option sid) (T E : list room) : gset sid :=
  an_selected a (list_to_set T) (sender_except from (list_to_set E)).

Definition anstep (a : ansp) (o : nop) : ansp :=
  match o with
  | NConnect s => an_connect s a
  | NJoin s rs => an_join rs {[s]} a
  | NLeave s r => an_leave [r] {[s]} a
  | NDisconnect s => an_disconnect {[s]} a
  | NSocketsJoin from T E rs => an_join rs (an_op_selected a from T E) a
  | NSocketsLeave from T E rs => an_leave rs (an_op_selected a from T E) a
  | NDisconnectSockets from T E => an_disconnect (an_op_selected a from T E) a
  end.

Definition anrun (h : list nop) : ansp := foldl anstep (ANsp ∅ ∅ ∅ ∅) h.
