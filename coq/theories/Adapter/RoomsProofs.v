(** Proofs about the two indexes: pointwise characterisation of every operation, the invariant
    "mutually inverse, no empty room" over all histories, and the refinement to the abstract
    membership relation (net effect of joins and leaves). *)
From SioV Require Import Adapter.Rooms.

Definition rlook (rm : gmap positive (gset positive)) (k : positive) : gset positive := default ∅ (rm !! k).
Definition sets_ne (rm : gmap positive (gset positive)) : Prop := ∀ k x, rm !! k = Some x → x ≠ ∅.

Lemma room_sids_rlook st r : room_sids st r = rlook (a_rooms st) r. Proof. done. Qed.
Lemma sid_rooms_rlook st s : sid_rooms st s = rlook (a_sids st) s. Proof. done. Qed.

(** ** del_room *)
Lemma del_room_look s rm r r' :
  rlook (del_room s rm r) r' = if decide (r' = r) then rlook rm r ∖ {[s]} else rlook rm r'.
Proof.
  unfold del_room, rlook. destruct (rm !! r) as [x|] eqn:Hx.
  - simpl. destruct (decide (size (x ∖ {[s]}) = 0)) as [Hz|Hz]; destruct (decide (r' = r)) as [->|Hne].
    + rewrite lookup_delete. simpl. apply size_empty_inv in Hz. apply leibniz_equiv in Hz. by rewrite Hz.
    + by rewrite lookup_delete_ne.
    + by rewrite lookup_insert.
    + by rewrite lookup_insert_ne.
  - destruct (decide (r' = r)) as [->|Hne]; [|done]. rewrite ?Hx. simpl. set_solver.
Qed.

Lemma del_room_ne s rm r : sets_ne rm → sets_ne (del_room s rm r).
Proof.
  intros Hne k x. unfold del_room. destruct (rm !! r) as [y|] eqn:Hy; [|apply Hne].
  simpl. destruct (decide (size (y ∖ {[s]}) = 0)) as [Hz|Hz].
  - destruct (decide (k = r)) as [->|?]; [by rewrite lookup_delete|rewrite lookup_delete_ne by done; apply Hne].
  - destruct (decide (k = r)) as [->|?].
    + rewrite lookup_insert. intros [= <-] He. apply Hz. rewrite He. apply size_empty.
    + rewrite lookup_insert_ne by done. apply Hne.
Qed.

Lemma foldl_del_room_look s rm l r' :
  rlook (foldl (del_room s) rm l) r' = if decide (r' ∈ l) then rlook rm r' ∖ {[s]} else rlook rm r'.
Proof.
  revert rm. induction l as [|r l IH]; intros rm; simpl.
  - destruct (decide (r' ∈ [])) as [H|]; [by apply elem_of_nil in H|done].
  - rewrite IH, !del_room_look.
    destruct (decide (r' = r)) as [->|Hne].
    + destruct (decide (r ∈ l)), (decide (r ∈ r :: l)) as [|Hn]; try set_solver.
    + destruct (decide (r' ∈ l)), (decide (r' ∈ r :: l)); set_solver.
Qed.

Lemma foldl_del_room_ne s rm l : sets_ne rm → sets_ne (foldl (del_room s) rm l).
Proof. revert rm. induction l; simpl; intros; [done|]. apply IHl. by apply del_room_ne. Qed.

(** ** add_one / add_all *)
Lemma add_one_rooms_look s st r r' :
  room_sids (add_one s st r) r' = if decide (r' = r) then {[s]} ∪ room_sids st r else room_sids st r'.
Proof.
  unfold room_sids, add_one. simpl. destruct (decide (r' = r)) as [->|?].
  - by rewrite lookup_insert. - by rewrite lookup_insert_ne.
Qed.

Lemma add_one_sids_look s st r s' :
  sid_rooms (add_one s st r) s' =
  if decide (s' = s ∧ s ∈ dom (a_sids st)) then {[r]} ∪ sid_rooms st s else sid_rooms st s'.
Proof.
  unfold sid_rooms, add_one. simpl. destruct (decide (s' = s)) as [->|Hne].
  - rewrite lookup_alter. destruct (a_sids st !! s) as [x|] eqn:Hx; simpl.
    + rewrite decide_True; [done|]. split; [done|]. by apply elem_of_dom.
    + rewrite decide_False; [done|]. intros [_ H]. apply elem_of_dom in H as [? ?]. congruence.
  - rewrite lookup_alter_ne by done. rewrite decide_False; [done|]. by intros [? _].
Qed.

Lemma add_one_dom s st r : dom (a_sids (add_one s st r)) = dom (a_sids st).
Proof. unfold add_one. simpl. apply leibniz_equiv. apply dom_alter. Qed.

Lemma add_one_ne s st r : sets_ne (a_rooms st) → sets_ne (a_rooms (add_one s st r)).
Proof.
  intros Hne k x. unfold add_one. simpl. destruct (decide (k = r)) as [->|?].
  - rewrite lookup_insert. intros [= <-]. set_solver.
  - rewrite lookup_insert_ne by done. apply Hne.
Qed.

Lemma foldl_add_one s rs st :
  s ∈ dom (a_sids st) →
  let st' := foldl (add_one s) st rs in
  (∀ r s', s' ∈ room_sids st' r ↔ s' ∈ room_sids st r ∨ (s' = s ∧ r ∈ rs)) ∧
  (∀ r s', r ∈ sid_rooms st' s' ↔ r ∈ sid_rooms st s' ∨ (s' = s ∧ r ∈ rs)) ∧
  dom (a_sids st') = dom (a_sids st) ∧
  (sets_ne (a_rooms st) → sets_ne (a_rooms st')).
Proof.
  revert st. induction rs as [|r0 rs IH]; intros st Hs; simpl.
  - repeat split; try tauto; set_solver.
  - specialize (IH (add_one s st r0)). rewrite add_one_dom in IH. specialize (IH Hs).
    destruct IH as (IH1 & IH2 & IH3 & IH4). repeat split.
    + intros H. apply IH1 in H. rewrite add_one_rooms_look in H.
      destruct (decide (r = r0)) as [->|?]; set_solver.
    + intros H. apply IH1. rewrite add_one_rooms_look.
      destruct (decide (r = r0)) as [->|?]; set_solver.
    + intros H. apply IH2 in H. rewrite add_one_sids_look in H.
      destruct (decide (s' = s ∧ s ∈ dom (a_sids st))) as [[-> _]|?]; set_solver.
    + intros H. apply IH2. rewrite add_one_sids_look.
      destruct (decide (s' = s ∧ s ∈ dom (a_sids st))) as [[-> _]|Hn]; [set_solver|].
      destruct H as [H|[-> H]]; [set_solver|]. exfalso. apply Hn. done.
    + exact IH3.
    + intros H. apply IH4. by apply add_one_ne.
Qed.

Lemma add_all_spec s rs st :
  let st' := add_all s rs st in
  (∀ r s', s' ∈ room_sids st' r ↔ s' ∈ room_sids st r ∨ (s' = s ∧ r ∈ rs)) ∧
  (∀ r s', r ∈ sid_rooms st' s' ↔ r ∈ sid_rooms st s' ∨ (s' = s ∧ r ∈ rs)) ∧
  dom (a_sids st') = dom (a_sids st) ∪ {[s]} ∧
  (sets_ne (a_rooms st) → sets_ne (a_rooms st')).
Proof.
  unfold add_all. destruct (a_sids st !! s) as [x|] eqn:Hx.
  - assert (Hd : s ∈ dom (a_sids st)) by (apply elem_of_dom; eauto).
    destruct (foldl_add_one s rs st Hd) as (H1 & H2 & H3 & H4). repeat split; try apply H1; try apply H2; [|done].
    rewrite H3. set_solver.
  - set (st0 := Adapter (a_rooms st) (<[s:=∅]> (a_sids st))).
    assert (Hd : s ∈ dom (a_sids st0)) by (simpl; set_solver).
    destruct (foldl_add_one s rs st0 Hd) as (H1 & H2 & H3 & H4).
    assert (Hsr : ∀ s', sid_rooms st0 s' = sid_rooms st s').
    { intros s'. unfold sid_rooms, st0. simpl. destruct (decide (s' = s)) as [->|?].
      - by rewrite lookup_insert, Hx. - by rewrite lookup_insert_ne. }
    repeat split.
    + intros H. by apply H1 in H. + intros H. by apply H1.
    + intros H. apply H2 in H. by rewrite Hsr in H. + intros H. apply H2. by rewrite Hsr.
    + rewrite H3. unfold st0. simpl. rewrite dom_insert_L. set_solver.
    + done.
Qed.

(** ** delete_room *)
Lemma delete_room_spec s r st :
  let st' := delete_room s r st in
  (∀ r' s', s' ∈ room_sids st' r' ↔ s' ∈ room_sids st r' ∧ ¬ (s' = s ∧ r' = r)) ∧
  (∀ r' s', r' ∈ sid_rooms st' s' ↔ r' ∈ sid_rooms st s' ∧ ¬ (s' = s ∧ r' = r)) ∧
  dom (a_sids st') = dom (a_sids st) ∧
  (sets_ne (a_rooms st) → sets_ne (a_rooms st')).
Proof.
  simpl. repeat split.
  - rewrite !room_sids_rlook in *. simpl in *. rewrite del_room_look in H.
    destruct (decide (r' = r)) as [->|?]; set_solver.
  - rewrite !room_sids_rlook in *. simpl in *. rewrite del_room_look in H.
    destruct (decide (r' = r)) as [->|?]; set_solver.
  - intros [H Hn]. rewrite !room_sids_rlook in *. simpl. rewrite del_room_look.
    destruct (decide (r' = r)) as [->|?]; [|done]. apply elem_of_difference. split; [done|].
    intros ?%elem_of_singleton. tauto.
  - unfold sid_rooms in *. simpl in *. destruct (decide (s' = s)) as [->|?].
    + rewrite lookup_alter in H. destruct (a_sids st !! s); simpl in *; set_solver.
    + by rewrite lookup_alter_ne in H.
  - unfold sid_rooms in *. simpl in *. destruct (decide (s' = s)) as [->|?].
    + rewrite lookup_alter in H. destruct (a_sids st !! s); simpl in *; set_solver.
    + tauto.
  - intros [H Hn]. unfold sid_rooms in *. simpl. destruct (decide (s' = s)) as [->|?].
    + rewrite lookup_alter. destruct (a_sids st !! s); simpl in *; [|done].
      apply elem_of_difference. split; [done|]. intros ?%elem_of_singleton. tauto.
    + by rewrite lookup_alter_ne.
  - apply leibniz_equiv. apply dom_alter.
  - apply del_room_ne.
Qed.

(** ** delete_all *)
Lemma delete_all_spec s st :
  let st' := delete_all s st in
  (∀ r' s', s' ∈ room_sids st' r' ↔ s' ∈ room_sids st r' ∧ ¬ (s' = s ∧ r' ∈ sid_rooms st s)) ∧
  (∀ r' s', r' ∈ sid_rooms st' s' ↔ r' ∈ sid_rooms st s' ∧ s' ≠ s) ∧
  dom (a_sids st') = dom (a_sids st) ∖ {[s]} ∧
  (sets_ne (a_rooms st) → sets_ne (a_rooms st')).
Proof.
  unfold delete_all. destruct (a_sids st !! s) as [x|] eqn:Hx; simpl.
  - assert (Hsx : sid_rooms st s = x) by (unfold sid_rooms; by rewrite Hx).
    repeat split.
    + rewrite !room_sids_rlook in *. simpl in *. rewrite foldl_del_room_look in H.
      destruct (decide (r' ∈ elements x)); set_solver.
    + rewrite !room_sids_rlook in *. simpl in *. rewrite foldl_del_room_look in H.
      destruct (decide (r' ∈ elements x)) as [Hin|Hin]; [set_solver|].
      intros [-> Hr]. apply Hin. apply elem_of_elements. by rewrite <- Hsx.
    + intros [H Hn]. rewrite !room_sids_rlook in *. simpl. rewrite foldl_del_room_look.
      destruct (decide (r' ∈ elements x)) as [Hin|Hin]; [|done].
      apply elem_of_difference. split; [done|]. intros ->%elem_of_singleton. apply Hn. split; [done|].
      rewrite Hsx. by apply elem_of_elements.
    + unfold sid_rooms in *. simpl in *. destruct (decide (s' = s)) as [->|?].
      * rewrite lookup_delete in H. set_solver. * by rewrite lookup_delete_ne in H.
    + unfold sid_rooms in *. simpl in *. intros ->. rewrite lookup_delete in H. set_solver.
    + intros [H Hn]. unfold sid_rooms in *. simpl. by rewrite lookup_delete_ne.
    + by rewrite dom_delete_L.
    + apply foldl_del_room_ne.
  - assert (Hsx : sid_rooms st s = ∅) by (unfold sid_rooms; by rewrite Hx).
    assert (Hnd : s ∉ dom (a_sids st)) by (by apply not_elem_of_dom).
    repeat split; try tauto.
    + rewrite Hsx. set_solver.
    + intros ->. rewrite Hsx in H. set_solver.
    + set_solver.
Qed.

(** ** The invariant over all histories *)
Lemma indexes_inverse_alt st :
  indexes_inverse st ↔ (∀ s r, s ∈ room_sids st r ↔ r ∈ sid_rooms st s) ∧ sets_ne (a_rooms st).
Proof. done. Qed.

Lemma empty_inverse : indexes_inverse empty_adapter.
Proof. split; [|intros r x; simpl; by rewrite lookup_empty]. intros s r. unfold room_sids, sid_rooms. simpl. rewrite !lookup_empty. done. Qed.

Lemma astep_inverse st o : indexes_inverse st → indexes_inverse (astep st o).
Proof.
  intros [Hinv Hne]. destruct o as [s rs|s r|s]; simpl.
  - destruct (add_all_spec s rs st) as (H1 & H2 & _ & H4). split; [|by apply H4].
    intros s' r'. rewrite H1, H2, Hinv. done.
  - destruct (delete_room_spec s r st) as (H1 & H2 & _ & H4). split; [|by apply H4].
    intros s' r'. rewrite H1, H2, Hinv. done.
  - destruct (delete_all_spec s st) as (H1 & H2 & _ & H4). split; [|by apply H4].
    intros s' r'. rewrite H1, H2, Hinv. split.
    + intros [H Hn]. split; [done|]. intros ->. apply Hn. split; [done|]. done.
    + intros [H Hn]. split; [done|]. intros [-> _]. done.
Qed.

Lemma foldl_astep_inverse h st : indexes_inverse st → indexes_inverse (foldl astep st h).
Proof. revert st. induction h; simpl; intros; [done|]. apply IHh. by apply astep_inverse. Qed.

Theorem arun_inverse h : indexes_inverse (arun h).
Proof. apply foldl_astep_inverse, empty_inverse. Qed.

(** A room that exists has a member, and a socket in a room is registered. *)
Lemma inverse_member_registered st s r :
  indexes_inverse st → s ∈ room_sids st r → s ∈ dom (a_sids st).
Proof.
  intros [Hinv _] H. apply Hinv in H. unfold sid_rooms in H. apply elem_of_dom.
  destruct (a_sids st !! s); [eauto|set_solver].
Qed.

(** ** Refinement to the abstract membership relation *)
Definition refines (st : adapter) (m : amem) : Prop :=
  (∀ s r, (s, r) ∈ m_pairs m ↔ r ∈ sid_rooms st s) ∧ dom (a_sids st) = m_present m.

Lemma elem_of_pairs_list s rs (p : positive * positive) :
  p ∈ (list_to_set (map (λ r, (s, r)) rs) : gset (positive * positive)) ↔ p.1 = s ∧ p.2 ∈ rs.
Proof.
  rewrite elem_of_list_to_set, elem_of_list_fmap. split.
  - intros (r & -> & H). done.
  - intros [<- H]. exists p.2. by destruct p.
Qed.

Lemma astep_refines st m o : refines st m → refines (astep st o) (mstep m o).
Proof.
  intros [Hp Hd]. destruct o as [s rs|s r|s]; cbn [astep mstep].
  - destruct (add_all_spec s rs st) as (_ & H2 & H3 & _). split; cbn [m_pairs m_present].
    + intros s' r'. rewrite H2, elem_of_union, Hp, elem_of_pairs_list. simpl. done.
    + by rewrite H3, Hd.
  - destruct (delete_room_spec s r st) as (_ & H2 & H3 & _). split; cbn [m_pairs m_present].
    + intros s' r'. rewrite H2, elem_of_difference, Hp, elem_of_singleton. split.
      * intros [? Hn]. split; [done|]. intros [-> ->]. done.
      * intros [? Hn]. split; [done|]. intros [= -> ->]. tauto.
    + by rewrite H3.
  - destruct (delete_all_spec s st) as (_ & H2 & H3 & _). split; cbn [m_pairs m_present].
    + intros s' r'. rewrite H2, elem_of_filter, Hp. simpl. tauto.
    + by rewrite H3, Hd.
Qed.

Lemma foldl_refines h st m : refines st m → refines (foldl astep st h) (foldl mstep m h).
Proof. revert st m. induction h; simpl; intros; [done|]. apply IHh. by apply astep_refines. Qed.

Theorem arun_refines h : refines (arun h) (mrun h).
Proof.
  apply foldl_refines. split; simpl; [|set_solver].
  intros s r. unfold sid_rooms. simpl. rewrite lookup_empty. set_solver.
Qed.

(** Both indexes and the registered set, read against the abstract relation. *)
Theorem arun_net_effect h s r :
  (s ∈ room_sids (arun h) r ↔ (s, r) ∈ m_pairs (mrun h)) ∧
  (r ∈ sid_rooms (arun h) s ↔ (s, r) ∈ m_pairs (mrun h)) ∧
  (s ∈ dom (a_sids (arun h)) ↔ s ∈ m_present (mrun h)).
Proof.
  destruct (arun_refines h) as [Hp Hd]. destruct (arun_inverse h) as [Hinv _].
  rewrite Hinv, Hp, Hd. done.
Qed.

(** ** The abstract relation is the declarative net effect *)
Lemma member_after_snoc h o s r :
  member_after (h ++ [o]) s r ↔ joins s r o ∨ (member_after h s r ∧ ¬ leaves s r o).
Proof.
  split.
  - intros (h1 & o' & h2 & Heq & Hj & Hl).
    induction h2 as [|o2 h2' _] using rev_ind.
    + apply app_inj_tail in Heq as [-> ->]. by left.
    + rewrite app_comm_cons, app_assoc in Heq. apply app_inj_tail in Heq as [-> ->].
      apply Forall_app in Hl as [Hl1 Hl2]. right. split.
      * by exists h1, o', h2'.
      * rewrite Forall_singleton in Hl2. exact Hl2.
  - intros [Hj|[(h1 & o' & h2 & -> & Hj & Hl) Hn]].
    + exists h, o, []. rewrite Forall_nil. done.
    + exists h1, o', (h2 ++ [o]). split; [by rewrite <- app_assoc|]. split; [done|].
      apply Forall_app. split; [done|]. by apply Forall_singleton.
Qed.

Lemma member_after_nil s r : ¬ member_after [] s r.
Proof. intros (h1 & o & h2 & Heq & _). by destruct h1. Qed.

Lemma mrun_snoc h o : mrun (h ++ [o]) = mstep (mrun h) o.
Proof. unfold mrun. by rewrite foldl_app. Qed.

Theorem mrun_member_after h s r : (s, r) ∈ m_pairs (mrun h) ↔ member_after h s r.
Proof.
  induction h as [|o h IH] using rev_ind.
  - split; [set_solver|]. intros H. by apply member_after_nil in H.
  - rewrite mrun_snoc, member_after_snoc, <- IH. destruct o as [s' rs|s' r'|s']; simpl.
    + rewrite elem_of_union, elem_of_pairs_list. simpl. split; [intros [?|[-> ?]]|intros [[-> ?]|[? _]]]; tauto.
    + rewrite elem_of_difference, elem_of_singleton. split.
      * intros [? Hn]. right. split; [done|]. intros [-> ->]. done.
      * intros [[]|[? Hn]]. split; [done|]. intros [= -> ->]. tauto.
    + rewrite elem_of_filter. simpl. split; [intros [? ?]; right; split; [done|congruence]|].
      intros [[]|[? ?]]. split; [congruence|done].
Qed.
