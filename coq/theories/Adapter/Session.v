(** Model of the session-aware adapter (connection state recovery):
    /repo/adapter/adapter_session_aware.go (Broadcast, PersistSession, RestoreSession,
    shouldIncludePacket, cleaner), adapter/adapter.go (PersistedPacket.HasExpired), and the part of
    server_socket.go / namespace.go that turns a restore result into a socket (same sid/rooms +
    replay, or a fresh session).

    Time is data: every operation receives [now : Z] (any unit; the harness uses half ticks).
    Offset ids come from the yeast generator: the id a broadcast would receive is an input of the
    operation (oracle); theorems assume the ids handed out along a history are pairwise distinct.
    Rooms, socket ids and private session ids are numbers ([N]); a socket's own room is the room
    with the socket's number (Go: [Room(sid)]). *)
From SioV Require Import Base.GoSem.
Open Scope Z_scope.

Definition room := N.

(** adapter.BroadcastOptions (the flags play no role in recovery). Sets are lists; only membership
    and emptiness are ever asked. *)
Record bopts := mkOpts { o_rooms : list room; o_except : list room }.

(** adapter.PersistedPacket: offset id, emission time, options (header and data travel with the
    packet but no decision depends on them; see [hkind] for what decides logging). *)
Record ppacket := mkPkt { p_id : N; p_at : Z; p_opts : bopts }.

(** adapter.SessionToPersist without MissedPackets. *)
Record session := mkSess { s_sid : N; s_pid : N; s_rooms : list room }.

(** map[PrivateSessionID]*sessionWithTimestamp as an association list (first match wins;
    [sess_set] removes older entries of the key, so reachable maps have distinct keys). *)
Definition smap := list (N * (session * Z)).

Record state := mkSt { st_sessions : smap; st_packets : list ppacket }.

Definition st_empty : state := mkSt [] [].

Definition mem (r : N) (l : list N) : bool := existsb (N.eqb r) l.

Definition is_nil {A} (l : list A) : bool := match l with [] => true | _ => false end.

(** shouldIncludePacket(sessionRooms, opts). *)
Definition should_include (srooms : list room) (o : bopts) : bool :=
  let included := existsb (fun r => mem r (o_rooms o)) srooms in
  let included := is_nil (o_rooms o) || included in
  let not_excluded := negb (existsb (fun r => mem r (o_except o)) srooms) in
  included && not_excluded.

(** sessionWithTimestamp.hasExpired: time.Now().After(DisconnectedAt.Add(max)). *)
Definition sess_expired (W now td : Z) : bool := td + W <? now.

(** PersistedPacket.HasExpired (after the fix): time.Now().After(EmittedAt.Add(max)). *)
Definition pkt_expired (W now : Z) (p : ppacket) : bool := p_at p + W <? now.

(** PersistedPacket.HasExpired as it was before the fix: time.Now().Before(EmittedAt.Add(max)). *)
Definition pkt_expired_legacy (W now : Z) (p : ppacket) : bool := now <? p_at p + W.

Fixpoint sess_get (p : N) (m : smap) : option (session * Z) :=
  match m with
  | [] => None
  | (k, v) :: m' => if N.eqb k p then Some v else sess_get p m'
  end.

Definition sess_del (p : N) (m : smap) : smap := filter (fun e => negb (N.eqb (fst e) p)) m.

Definition sess_set (p : N) (v : session * Z) (m : smap) : smap := (p, v) :: sess_del p m.

(** `for i := len-1; i >= 0; i--  { if f(l[i]) {...; break} }`: the index the loop stops at. *)
Fixpoint last_index {A} (f : A -> bool) (l : list A) : option nat :=
  match l with
  | [] => None
  | x :: l' =>
      match last_index f l' with
      | Some i => Some (S i)
      | None => if f x then Some O else None
      end
  end.

(** Packet part of a cleaner pass (after the fix): slices.Delete(packets, 0, i+1) at the newest
    expired packet. *)
Definition clean_packets (W now : Z) (l : list ppacket) : list ppacket :=
  match last_index (pkt_expired W now) l with
  | Some i => skipn (S i) l
  | None => l
  end.

(** Packet part of a cleaner pass before the fix: the inverted predicate, and
    append(packets[:i], packets[i+1:]...) removes that single entry. *)
Definition clean_packets_legacy (W now : Z) (l : list ppacket) : list ppacket :=
  match last_index (pkt_expired_legacy W now) l with
  | Some i => firstn i l ++ skipn (S i) l
  | None => l
  end.

(** Session part of a cleaner pass: delete every expired session. *)
Definition clean_sessions (W now : Z) (m : smap) : smap :=
  filter (fun e => negb (sess_expired W now (snd (snd e)))) m.

(** What decides whether Broadcast logs the packet: header.Type == EVENT && header.ID == nil. *)
Inductive hkind := KEvent | KEventAck | KOther.

Definition loggable (k : hkind) : bool := match k with KEvent => true | _ => false end.

Inductive op :=
| OBroadcast (k : hkind) (id : N) (o : bopts)   (* id: what yeast returns if the packet is logged *)
| OPersist (s : session)
| OClean
| ORestore (pid off : N).

(** Result of RestoreSession: (session copy, missed packets) or not ok. *)
Definition rresult := option (session * list ppacket).

(** Index scan `for i, packet := range packets { if packet.ID == offset {index = i; break} }`
    followed by the collection loop from index+1: returned as the list after the offset. *)
Fixpoint after_offset (off : N) (l : list ppacket) : option (list ppacket) :=
  match l with
  | [] => None
  | p :: l' => if N.eqb (p_id p) off then Some l' else after_offset off l'
  end.

Definition restore (W now : Z) (pid off : N) (st : state) : state * rresult :=
  match sess_get pid (st_sessions st) with
  | None => (st, None)
  | Some (s, td) =>
      if sess_expired W now td
      then (mkSt (sess_del pid (st_sessions st)) (st_packets st), None)
      else match after_offset off (st_packets st) with
           | None => (st, None)
           | Some rest => (st, Some (s, filter (fun p => should_include (s_rooms s) (p_opts p)) rest))
           end
  end.

Section Step.
  (** The packet part of the cleaner is a parameter so that the code before the fix can be run
      through the same machine ([step_legacy]). *)
  Variable cleanp : Z -> Z -> list ppacket -> list ppacket.

  Definition step_with (W now : Z) (o : op) (st : state) : state * option rresult :=
    match o with
    | OBroadcast k id opts =>
        if loggable k
        then (mkSt (st_sessions st) (st_packets st ++ [mkPkt id now opts]), None)
        else (st, None)
    | OPersist s => (mkSt (sess_set (s_pid s) (s, now) (st_sessions st)) (st_packets st), None)
    | OClean => (mkSt (clean_sessions W now (st_sessions st)) (cleanp W now (st_packets st)), None)
    | ORestore pid off => let '(st', r) := restore W now pid off st in (st', Some r)
    end.

  (** A history is a list of timed operations; [run_with] returns the final state and, per
      operation, the result (None for operations that return nothing). *)
  Fixpoint run_with (W : Z) (h : list (Z * op)) (st : state) : state * list (option rresult) :=
    match h with
    | [] => (st, [])
    | (t, o) :: h' =>
        let '(st1, r) := step_with W t o st in
        let '(st2, rs) := run_with W h' st1 in
        (st2, r :: rs)
    end.
End Step.

Definition step := step_with clean_packets.
Definition run := run_with clean_packets.
Definition step_legacy := step_with clean_packets_legacy.
Definition run_legacy := run_with clean_packets_legacy.

Definition final (W : Z) (h : list (Z * op)) : state := fst (run W h st_empty).

(** Ground truth, independent of the log: the packets a history has emitted with an offset. *)
Fixpoint emitted (h : list (Z * op)) : list ppacket :=
  match h with
  | [] => []
  | (t, OBroadcast k id o) :: h' => if loggable k then mkPkt id t o :: emitted h' else emitted h'
  | _ :: h' => emitted h'
  end.

(** The session last persisted under [pid] along a history. *)
Fixpoint last_persist (pid : N) (h : list (Z * op)) (acc : option (session * Z)) : option (session * Z) :=
  match h with
  | [] => acc
  | (t, OPersist s) :: h' => last_persist pid h' (if N.eqb (s_pid s) pid then Some (s, t) else acc)
  | _ :: h' => last_persist pid h' acc
  end.

Fixpoint times_sorted (prev : Z) (h : list (Z * op)) : bool :=
  match h with
  | [] => true
  | (t, _) :: h' => (prev <=? t) && times_sorted t h'
  end.

Definition selected (s : session) (p : ppacket) : bool := should_include (s_rooms s) (p_opts p).

(** ** Socket layer (namespace.add + newServerSocket + onConnect), reduced to what recovery decides.
    [fresh_sid]/[fresh_pid] are the ids GenerateBase64ID would return. Frames handed to the
    connection, in order: the replayed packets, then the CONNECT packet carrying sid and pid. *)
Inductive frame :=
| FReplay (p : ppacket)
| FConnect (sid pid : N).

Record sock := mkSock {
  k_sid : N; k_pid : N; k_recovered : bool;
  k_rooms : list room;          (* rooms joined, in join order: session rooms, then own room *)
  k_sent : list frame }.

Definition connect (W now : Z) (auth_pid auth_off fresh_sid fresh_pid : N) (st : state) : state * sock :=
  let '(st', r) := restore W now auth_pid auth_off st in
  match r with
  | Some (s, missed) =>
      (st', mkSock (s_sid s) (s_pid s) true (s_rooms s ++ [s_sid s])
                   (map FReplay missed ++ [FConnect (s_sid s) (s_pid s)]))
  | None =>
      (st', mkSock fresh_sid fresh_pid false [fresh_sid] [FConnect fresh_sid fresh_pid])
  end.
