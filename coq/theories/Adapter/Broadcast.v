(** Model of target selection (adapter/adapter_memory.go: computeExceptSids, apply), of the
    BroadcastOperator algebra (adapter/broadcast_operator.go) and of the namespace-level operations
    that go through them (server_socket.go Join/Leave/Broadcast/onClose, namespace.go
    SocketsJoin/SocketsLeave/DisconnectSockets). *)
From SioV Require Export Adapter.Rooms.

(** computeExceptSids: union of the sets of the excluded rooms that exist. *)
Definition except_sids (E : gset room) (st : adapter) : gset sid :=
  foldl (λ acc r, match a_rooms st !! r with Some x => acc ∪ x | None => acc end) ∅ (elements E).

Section apply.
  (** [known s] = the socket store's Get(sid) succeeds. *)
  Context (known : sid → bool).

  (** Body of r.Each in the rooms branch; acc = (ids, callbacks made so far, oldest first). *)
  Definition visit_room (ex : gset sid) (acc : gset sid * list sid) (s : sid) : gset sid * list sid :=
    if decide (s ∈ acc.1) then acc
    else if decide (s ∈ ex) then acc
    else if known s then (acc.1 ∪ {[s]}, acc.2 ++ [s]) else acc.

  (** Body of opts.Rooms.Each. *)
  Definition visit_target (st : adapter) (ex : gset sid) (acc : gset sid * list sid) (r : room) :=
    match a_rooms st !! r with
    | None => acc
    | Some x => foldl (visit_room ex) acc (elements x)
    end.

  (** Body of `for sid := range a.sids` in the all-sockets branch: no dedup set. *)
  Definition visit_all (ex : gset sid) (out : list sid) (s : sid) : list sid :=
    if decide (s ∈ ex) then out else if known s then out ++ [s] else out.

  (** apply: the sequence of sockets the callback is invoked on.  Go iterates maps in an unspecified
      order; the model iterates in key order, and only the multiset of callbacks is compared. *)
  Definition apply_targets (T E : gset room) (st : adapter) : list sid :=
    let ex := except_sids E st in
    if decide (0 < size T) then (foldl (visit_target st ex) (∅, []) (elements T)).2
    else foldl (visit_all ex) [] (elements (dom (a_sids st))).
End apply.

(** The set the property statement selects. *)
Definition selected (known : sid → bool) (T E : gset room) (st : adapter) (s : sid) : Prop :=
  known s = true ∧ s ∈ dom (a_sids st) ∧
  (T = ∅ ∨ ∃ r, r ∈ T ∧ s ∈ room_sids st r) ∧
  (∀ r, r ∈ E → s ∉ room_sids st r).

(** * BroadcastOperator.  The Go struct holds two pointers to mutable sets; To/In/Except copy the
    struct and replace one pointer by a modified Clone().  The heap makes the sharing explicit. *)
Record bop := Bop { b_rooms : nat; b_except : nat }.       (* indexes into the heap *)
Notation heap := (list (gset positive)) (only parsing).
Definition deref (h : heap) (i : nat) : gset room := default ∅ (h !! i).

(** NewBroadcastOperator: two fresh empty sets. *)
Definition bop_new (h : heap) : heap * bop := (h ++ [∅; ∅], Bop (length h) (S (length h))).
(** To / In: n := *b; n.rooms = b.rooms.Clone(); n.rooms.Add(r...) *)
Definition bop_to (rs : list room) (hb : heap * bop) : heap * bop :=
  let '(h, b) := hb in (h ++ [deref h (b_rooms b) ∪ list_to_set rs], Bop (length h) (b_except b)).
(** Except: n := *b; n.exceptRooms = b.exceptRooms.Clone(); n.exceptRooms.Add(r...) *)
Definition bop_except (rs : list room) (hb : heap * bop) : heap * bop :=
  let '(h, b) := hb in (h ++ [deref h (b_except b) ∪ list_to_set rs], Bop (b_rooms b) (length h)).
(** What Emit / FetchSockets / SocketsJoin ... hand to the adapter as (Rooms, Except). *)
Definition bop_opts (h : heap) (b : bop) : gset room * gset room := (deref h (b_rooms b), deref h (b_except b)).

(** A program over operators: every instruction derives a new operator from an existing one
    (by position) and appends it to the list of live operators. *)
Inductive binstr := BNew | BTo (i : nat) (rs : list room) | BExcept (i : nat) (rs : list room).
Definition bexec (st : heap * list bop) (ins : binstr) : heap * list bop :=
  let '(h, ops) := st in
  match ins with
  | BNew => let '(h', b) := bop_new h in (h', ops ++ [b])
  | BTo i rs => match ops !! i with
                | Some b => let '(h', b') := bop_to rs (h, b) in (h', ops ++ [b'])
                | None => st end
  | BExcept i rs => match ops !! i with
                    | Some b => let '(h', b') := bop_except rs (h, b) in (h', ops ++ [b'])
                    | None => st end
  end.
(** Value semantics of the same program: what each operator *should* denote. *)
Definition bdenote (vals : list (gset room * gset room)) (ins : binstr) : list (gset room * gset room) :=
  match ins with
  | BNew => vals ++ [(∅, ∅)]
  | BTo i rs => match vals !! i with Some (t, e) => vals ++ [(t ∪ list_to_set rs, e)] | None => vals end
  | BExcept i rs => match vals !! i with Some (t, e) => vals ++ [(t, e ∪ list_to_set rs)] | None => vals end
  end.

(** * Namespace level: sockets with a life cycle on top of the adapter.
    n_store  = nspSocketStore (connected sockets, what adapterSocketStore.Get finds)
    n_closed = sockets whose onClose ran (their `join` is the no-op closure from then on). *)
Record nsp := Nsp { n_ad : adapter; n_store : gset sid; n_closed : gset sid }.
Definition empty_nsp : nsp := Nsp empty_adapter ∅ ∅.

Definition n_known (n : nsp) (s : sid) : bool := bool_decide (s ∈ n_store n).
Definition n_targets (n : nsp) (T E : gset room) : list sid := apply_targets (n_known n) T E (n_ad n).

(** doConnect: n.sockets.set(socket); socket.onConnect() joins Room(id).  Ids are generated
    fresh; connecting an id that is connected or was closed is not a behaviour of the server. *)
Definition n_connect (s : sid) (n : nsp) : nsp :=
  if decide (s ∈ n_store n ∨ s ∈ n_closed n) then n
  else Nsp (add_all s [s] (n_ad n)) (n_store n ∪ {[s]}) (n_closed n).
(** serverSocket.Join -> s.join -> adapter.AddAll, or the no-op after onClose. *)
Definition n_join (rs : list room) (n : nsp) (s : sid) : nsp :=
  if decide (s ∈ n_closed n) then n else Nsp (add_all s rs (n_ad n)) (n_store n) (n_closed n).
(** serverSocket.Leave -> adapter.Delete (unconditional). *)
Definition n_leave (r : room) (n : nsp) (s : sid) : nsp :=
  Nsp (delete_room s r (n_ad n)) (n_store n) (n_closed n).
(** Disconnect(false) -> onClose: only if connected; join := no-op; leaveAll; nsp.remove. *)
Definition n_disconnect (n : nsp) (s : sid) : nsp :=
  if decide (s ∈ n_store n) then Nsp (delete_all s (n_ad n)) (n_store n ∖ {[s]}) (n_closed n ∪ {[s]})
  else n.

(** The sender's operator: NewBroadcastOperator(...).Except(Room(s.ID())) (newBroadcastOperator). *)
Definition sender_except (from : option sid) (E : gset room) : gset room :=
  match from with Some s => E ∪ {[s]} | None => E end.

Inductive nop :=
| NConnect (s : sid)
| NJoin (s : sid) (rs : list room)
| NLeave (s : sid) (r : room)
| NDisconnect (s : sid)
| NSocketsJoin (from : option sid) (T E : list room) (rs : list room)
| NSocketsLeave (from : option sid) (T E : list room) (rs : list room)
| NDisconnectSockets (from : option sid) (T E : list room).

Definition op_targets (n : nsp) (from : option sid) (T E : list room) : list sid :=
  n_targets n (list_to_set T) (sender_except from (list_to_set E)).

(** AddSockets / DelSockets / DisconnectSockets: apply(opts, callback).  The callback for a socket
    changes only that socket's own membership, the except set is computed before the first
    callback and a visited socket is never visited again, so the sockets visited are those
    selected in the state before the call.  (Proved: BroadcastInterleaved.v models the callback
    running inside apply's loops and shows both refine the same abstract operation.) *)
Definition nstep (n : nsp) (o : nop) : nsp :=
  match o with
  | NConnect s => n_connect s n
  | NJoin s rs => n_join rs n s
  | NLeave s r => n_leave r n s
  | NDisconnect s => n_disconnect n s
  | NSocketsJoin from T E rs => foldl (n_join rs) n (op_targets n from T E)
  | NSocketsLeave from T E rs => foldl (λ n' s, foldl (λ n'' r, n_leave r n'' s) n' rs) n (op_targets n from T E)
  | NDisconnectSockets from T E => foldl n_disconnect n (op_targets n from T E)
  end.

Definition nrun (h : list nop) : nsp := foldl nstep empty_nsp h.
