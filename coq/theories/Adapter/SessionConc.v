(** Concurrent view of one broadcast against one reconnecting session (C08).

    [sessionAwareAdapter.Broadcast] is not atomic: (1) under the adapter mutex the packet gets its
    offset id and is appended to the log; (2) the in-memory adapter encodes it; (3) [apply] takes
    the in-memory mutex, computes the excluded sockets, and iterates over the members of the target
    rooms, RELEASING the mutex around every delivery.  A reconnection is not atomic either:
    [RestoreSession] (under the adapter mutex), then [newServerSocket] joins the persisted rooms
    ([AddAll]), then [doConnect] makes the socket visible to [sockets.Get] (only a visible socket
    is delivered to).  Everything else that touches the adapter (clean-up passes, persists and
    restores of other sessions, the log appends of OTHER broadcasts) is an environment step.

    This file tracks ONE broadcast [P] (id [g_id], options [g_opts]) and ONE session
    ([g_pid], presenting offset [g_off]); the other broadcasts of a run are environment steps
    (their deliveries touch neither the log, nor the session, nor P's flags), so for n concurrent
    broadcasts every packet's story is an instance of this system.

    [g_lf] = the log append comes first (the code as it is); [false] = the append is done after
    the delivery (the class of changes "log after delivery"), kept to show what breaks.
    Go map iteration: a member present when the iteration starts is visited exactly once
    ([c_must]); one that joins during the iteration may or may not be visited ([SVisit] optional). *)
From SioV Require Import Base.GoSem Adapter.Session.
Open Scope Z_scope.

Record cfg := mkCfg {
  g_lf : bool; g_W : Z; g_pid : N; g_off : N; g_id : N; g_opts : bopts }.

Record cst := mkC {
  c_st : state;
  c_app : bool;      (* P is in the log (was appended) *)
  c_begun : bool;    (* apply has computed the excluded sockets and started iterating *)
  c_must : bool;     (* the session's socket was a selected member when the iteration started *)
  c_exc : bool;      (* ... was among the excluded sockets computed at that moment *)
  c_vis : bool;      (* the iteration has visited the session's socket *)
  c_ended : bool;    (* the iteration is over *)
  c_late : bool;     (* ghost: P was appended after the session had restored *)
  c_quiet : bool;    (* ghost: P was not in flight (appended, not ended) when the session restored *)
  c_phase : nat;     (* 0 disconnected, 1 restored, 2 rooms joined, 3 visible *)
  c_rooms : list room;   (* rooms of the restored session *)
  c_missed : list N;     (* ids replayed *)
  c_fb : bool;           (* the restore failed: fresh session *)
  c_live : nat           (* live deliveries of P to the session's socket *)
}.

Inductive cstep :=
| SAppend | SBegin | SVisit | SEnd          (* the tracked broadcast *)
| SRestore | SJoin | SVisible               (* the reconnection, step by step *)
| SReconnect                                (* the reconnection as one atomic step *)
| SEnv (o : op).                            (* anything else on the adapter *)

Definition included (rooms : list room) (o : bopts) : bool :=
  is_nil (o_rooms o) || existsb (fun r => mem r (o_rooms o)) rooms.
Definition excluded (rooms : list room) (o : bopts) : bool :=
  existsb (fun r => mem r (o_except o)) rooms.

Definition env_ok (g : cfg) (o : op) : bool :=
  match o with
  | OBroadcast _ id _ => negb (N.eqb id (g_id g))
  | OPersist s => negb (N.eqb (s_pid s) (g_pid g))
  | ORestore q _ => negb (N.eqb q (g_pid g))
  | OClean => true
  end.

Definition set_st (c : cst) (st : state) : cst :=
  mkC st (c_app c) (c_begun c) (c_must c) (c_exc c) (c_vis c) (c_ended c) (c_late c) (c_quiet c)
      (c_phase c) (c_rooms c) (c_missed c) (c_fb c) (c_live c).

Definition do_restore (g : cfg) (c : cst) (target : nat) : cst :=
  let '(st', r) := restore (g_W g) 0 (g_pid g) (g_off g) (c_st c) in
  match r with
  | Some (s, ms) =>
      mkC st' (c_app c) (c_begun c) (c_must c) (c_exc c) (c_vis c) (c_ended c) (c_late c)
          (negb (c_app c) || c_ended c)
          target (s_rooms s) (map p_id ms) false (c_live c)
  | None =>
      mkC st' (c_app c) (c_begun c) (c_must c) (c_exc c) (c_vis c) (c_ended c) (c_late c) (c_quiet c)
          0 [] [] true (c_live c)
  end.

Definition set_phase (c : cst) (n : nat) : cst :=
  mkC (c_st c) (c_app c) (c_begun c) (c_must c) (c_exc c) (c_vis c) (c_ended c) (c_late c) (c_quiet c)
      n (c_rooms c) (c_missed c) (c_fb c) (c_live c).

Definition cstep_run (g : cfg) (s : cstep) (c : cst) : option cst :=
  let joined := Nat.leb 2 (c_phase c) in
  match s with
  | SAppend =>
      if negb (c_app c) && (if g_lf g then negb (c_begun c) else c_ended c) then
        Some (mkC (fst (step (g_W g) 0 (OBroadcast KEvent (g_id g) (g_opts g)) (c_st c)))
                  true (c_begun c) (c_must c) (c_exc c) (c_vis c) (c_ended c)
                  (negb (Nat.eqb (c_phase c) 0)) (c_quiet c)
                  (c_phase c) (c_rooms c) (c_missed c) (c_fb c) (c_live c))
      else None
  | SBegin =>
      if negb (c_begun c) && (if g_lf g then c_app c else true) then
        Some (mkC (c_st c) (c_app c) true
                  (joined && should_include (c_rooms c) (g_opts g))
                  (joined && excluded (c_rooms c) (g_opts g))
                  (c_vis c) (c_ended c) (c_late c) (c_quiet c)
                  (c_phase c) (c_rooms c) (c_missed c) (c_fb c) (c_live c))
      else None
  | SVisit =>
      if c_begun c && negb (c_ended c) && negb (c_vis c) && joined
         && included (c_rooms c) (g_opts g) && negb (c_exc c) then
        Some (mkC (c_st c) (c_app c) (c_begun c) (c_must c) (c_exc c) true (c_ended c) (c_late c)
                  (c_quiet c) (c_phase c) (c_rooms c) (c_missed c) (c_fb c)
                  (if Nat.eqb (c_phase c) 3 then S (c_live c) else c_live c))
      else None
  | SEnd =>
      if c_begun c && negb (c_ended c) && (negb (c_must c) || c_vis c) then
        Some (mkC (c_st c) (c_app c) (c_begun c) (c_must c) (c_exc c) (c_vis c) true (c_late c)
                  (c_quiet c) (c_phase c) (c_rooms c) (c_missed c) (c_fb c) (c_live c))
      else None
  | SRestore =>
      if Nat.eqb (c_phase c) 0 && negb (c_fb c) then Some (do_restore g c 1) else None
  | SJoin => if Nat.eqb (c_phase c) 1 then Some (set_phase c 2) else None
  | SVisible => if Nat.eqb (c_phase c) 2 then Some (set_phase c 3) else None
  | SReconnect =>
      if Nat.eqb (c_phase c) 0 && negb (c_fb c) then Some (do_restore g c 3) else None
  | SEnv o =>
      if env_ok g o then Some (set_st c (fst (step (g_W g) 0 o (c_st c)))) else None
  end.

Fixpoint crun (g : cfg) (sched : list cstep) (c : cst) : option cst :=
  match sched with
  | [] => Some c
  | s :: sched' => match cstep_run g s c with Some c' => crun g sched' c' | None => None end
  end.

Definition cinit (st : state) : cst :=
  mkC st false false false false false false false false 0 [] [] false 0.

(** schedules in which the reconnection is atomic *)
Definition no_split (sched : list cstep) : Prop :=
  Forall (fun s => match s with SRestore | SJoin | SVisible => False | _ => True end) sched.

(** P is addressed to the session: selected by the rooms it had when it disconnected *)
Definition addressed (g : cfg) (c : cst) : bool := should_include (c_rooms c) (g_opts g).

Definition replayed (g : cfg) (c : cst) : bool := mem (g_id g) (c_missed c).
