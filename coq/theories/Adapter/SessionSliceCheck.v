(** agree / oracle for the race rig of C08: clean-up passes that really trim and broadcasts fired
    from inside RestoreSession's filter loop. *)
From SioV Require Import Base.GoSem Adapter.Session Adapter.SessionCheck Adapter.SessionSlice.
Open Scope Z_scope.

(** mode the implementation was observed in (Locked: the disturbance only completed after the
    restore; Copy: it completed inside), window, session rooms, offset, log before the restore,
    number of filter steps before the disturbance, the disturbance, number of filter steps after
    it; observed: ok, panicked, ids replayed, ids in the log at the end *)
Definition racecase :=
  (bool * Z * list N * N * list ppacket * nat * list rstep * nat * (bool * bool * list N * list N))%type.

Definition mkRace (inside : bool) (W : Z) (rooms : list N) (off : N) (l0 : list ppacket)
           (before : nat) (acts : list rstep) (after : nat)
           (ok panicked : bool) (replay logafter : list N) : racecase :=
  (inside, W, rooms, off, l0, before, acts, after, (ok, panicked, replay, logafter)).

Definition pk (id : N) (t : Z) (r : N) : ppacket := mkPkt id t (mkOpts [r] []).

Definition race_sched (inside : bool) (before : nat) (acts : list rstep) (after : nat) : list rstep :=
  if inside then TFind :: repeat TFilter before ++ acts ++ repeat TFilter after ++ [TEnd]
  else TFind :: repeat TFilter (before + after) ++ TEnd :: acts.

Definition agree_race (c : racecase) : bool :=
  let '(inside, W, rooms, off, l0, before, acts, after, (ok, panicked, replay, logafter)) := c in
  match rrun (if inside then Copy else Locked) W rooms off (race_sched inside before acts after) (rinit l0) with
  | None => false
  | Some s =>
      nlist_eqb (map p_id (sl_abs (rs_log s))) logafter
      && match rs_res s with
         | Some (Ok l) => ok && negb panicked && nlist_eqb (map p_id l) replay
         | Some Err => negb ok && negb panicked
         | Some Panic => panicked
         | None => false
         end
  end.

(** the abstract logs the restore may legitimately have seen: before the disturbance, or after any
    prefix of it (computed with the sequential operations of Adapter/Session.v) *)
Fixpoint logs_seen (W : Z) (acts : list rstep) (l : list ppacket) : list (list ppacket) :=
  l :: match acts with
       | [] => []
       | TClean now :: acts' => logs_seen W acts' (clean_packets W now l)
       | TBroadcast p :: acts' => logs_seen W acts' (l ++ [p])
       | _ :: acts' => logs_seen W acts' l
       end.

(** The property: never a panic; the answer is the sequential RestoreSession's answer on ONE of
    those logs (every missed packet, in order, none foreign - or a clean fall-back). *)
Definition oracle_race (c : racecase) : bool :=
  let '(inside, W, rooms, off, l0, before, acts, after, (ok, panicked, replay, logafter)) := c in
  negb panicked
  && existsb (fun l => match snapshot_answer rooms off l with
                       | Ok ms => ok && nlist_eqb (map p_id ms) replay
                       | _ => negb ok
                       end) (logs_seen W acts l0).

Definition both_race (c : racecase) : bool := agree_race c && oracle_race c.
