(** Proofs about target selection (apply), the namespace-level operations, sender exclusion and
    the operator algebra. *)
From SioV Require Import Adapter.Rooms Adapter.RoomsProofs Adapter.Broadcast Adapter.BroadcastSpec.

Lemma room_sids_lookup st r s :
  s ∈ room_sids st r ↔ ∃ x, a_rooms st !! r = Some x ∧ s ∈ x.
Proof.
  unfold room_sids. destruct (a_rooms st !! r) as [x|]; simpl.
  - split; [eauto|]. by intros (? & [= <-] & ?).
  - split; [set_solver|]. by intros (? & ? & ?).
Qed.

(** ** computeExceptSids *)
Lemma except_fold st l acc s :
  s ∈ foldl (λ acc r, match a_rooms st !! r with Some x => acc ∪ x | None => acc end) acc l
  ↔ s ∈ acc ∨ ∃ r, r ∈ l ∧ s ∈ room_sids st r.
Proof.
  revert acc. induction l as [|r l IH]; intros acc; simpl.
  - split; [by left|]. intros [?|(r & H & _)]; [done|]. by apply elem_of_nil in H.
  - rewrite IH. split.
    + intros [H|(r' & H1 & H2)].
      * destruct (a_rooms st !! r) as [x|] eqn:Hx; [|by left].
        apply elem_of_union in H as [?|?]; [by left|]. right. exists r. split; [set_solver|].
        apply room_sids_lookup. eauto.
      * right. exists r'. split; [set_solver|done].
    + intros [H|(r' & H1 & H2)].
      * left. destruct (a_rooms st !! r); set_solver.
      * apply elem_of_cons in H1 as [->|H1].
        -- left. apply room_sids_lookup in H2 as (x & -> & ?). set_solver.
        -- right. eauto.
Qed.

Lemma except_sids_spec E st s :
  s ∈ except_sids E st ↔ ∃ r, r ∈ E ∧ s ∈ room_sids st r.
Proof.
  unfold except_sids. rewrite except_fold. split.
  - intros [?|(r & H1 & H2)]; [set_solver|]. exists r. split; [|done]. by apply elem_of_elements in H1.
  - intros (r & H1 & H2). right. exists r. split; [|done]. by apply elem_of_elements.
Qed.

Section apply_proofs.
  Context (known : sid → bool).

  (** ** rooms branch *)
  Definition acc_ok (acc : gset sid * list sid) : Prop :=
    NoDup acc.2 ∧ ∀ s, s ∈ acc.1 ↔ s ∈ acc.2.

  Lemma visit_room_fold ex l acc :
    acc_ok acc →
    let acc' := foldl (visit_room known ex) acc l in
    acc_ok acc' ∧ ∀ s, s ∈ acc'.2 ↔ s ∈ acc.2 ∨ (s ∈ l ∧ s ∉ ex ∧ known s = true).
  Proof.
    revert acc. induction l as [|x l IH]; intros acc Hok; simpl.
    - split; [done|]. intros s. split; [by left|]. intros [?|[H _]]; [done|]. by apply elem_of_nil in H.
    - assert (Hok' : acc_ok (visit_room known ex acc x)).
      { unfold visit_room. destruct Hok as [Hnd Hids].
        destruct (decide (x ∈ acc.1)); [done|]. destruct (decide (x ∈ ex)); [done|].
        destruct (known x); [|done]. split; simpl.
        - apply NoDup_app. split; [done|]. split; [|apply NoDup_singleton].
          intros y Hy ->%elem_of_list_singleton. apply n. by apply Hids.
        - intros s. rewrite elem_of_union, elem_of_app, elem_of_singleton, elem_of_list_singleton, Hids. done. }
      destruct (IH _ Hok') as [Hok'' Hmem]. split; [done|].
      intros s. rewrite Hmem. unfold visit_room. destruct Hok as [Hnd Hids].
      destruct (decide (x ∈ acc.1)) as [Hin|Hin].
      + split; [intros [?|(?&?&?)]; [by left|right; set_solver]|].
        intros [?|(Hs&?&?)]; [by left|]. apply elem_of_cons in Hs as [->|?]; [left; by apply Hids|right; done].
      + destruct (decide (x ∈ ex)) as [Hex|Hex].
        * split; [intros [?|(?&?&?)]; [by left|right; set_solver]|].
          intros [?|(Hs&?&?)]; [by left|]. apply elem_of_cons in Hs as [->|?]; [done|right; done].
        * destruct (known x) eqn:Hk; simpl.
          -- rewrite elem_of_app, elem_of_list_singleton. split.
             ++ intros [[?| ->]|(?&?&?)]; [by left|right; set_solver|right; set_solver].
             ++ intros [?|(Hs&?&?)]; [left; by left|]. apply elem_of_cons in Hs as [->|?]; [left; by right|right; done].
          -- split; [intros [?|(?&?&?)]; [by left|right; set_solver]|].
             intros [?|(Hs&?&Hk')]; [by left|]. apply elem_of_cons in Hs as [->|?]; [congruence|right; done].
  Qed.

  Lemma visit_target_fold st ex l acc :
    acc_ok acc →
    let acc' := foldl (visit_target known st ex) acc l in
    acc_ok acc' ∧
    ∀ s, s ∈ acc'.2 ↔ s ∈ acc.2 ∨ ((∃ r, r ∈ l ∧ s ∈ room_sids st r) ∧ s ∉ ex ∧ known s = true).
  Proof.
    revert acc. induction l as [|r l IH]; intros acc Hok; simpl.
    - split; [done|]. intros s. split; [by left|]. intros [?|[(r & H & _) _]]; [done|]. by apply elem_of_nil in H.
    - assert (Hstep : acc_ok (visit_target known st ex acc r) ∧
              ∀ s, s ∈ (visit_target known st ex acc r).2 ↔ s ∈ acc.2 ∨ (s ∈ room_sids st r ∧ s ∉ ex ∧ known s = true)).
      { unfold visit_target, room_sids. destruct (a_rooms st !! r) as [x|]; simpl.
        - destruct (visit_room_fold ex (elements x) acc Hok) as [H1 H2]. split; [done|].
          intros s. rewrite H2, elem_of_elements. done.
        - split; [done|]. intros s. set_solver. }
      destruct Hstep as [Hok' Hm]. destruct (IH _ Hok') as [Hok'' Hmem]. split; [done|].
      intros s. rewrite Hmem, Hm. split.
      + intros [[?|(?&?&?)]|((r'&?&?)&?&?)]; [by left|right|right]; (split; [|done]).
        * exists r. set_solver. * exists r'. set_solver.
      + intros [?|((r'&Hr&?)&?&?)]; [left; by left|]. apply elem_of_cons in Hr as [->|?].
        * left. right. done. * right. split; [|done]. eauto.
  Qed.

  (** ** all-sockets branch *)
  Lemma visit_all_fold ex l out :
    foldl (visit_all known ex) out l = out ++ filter (λ s, s ∉ ex ∧ known s = true) l.
  Proof.
    revert out. induction l as [|x l IH]; intros out; simpl.
    - by rewrite app_nil_r.
    - rewrite IH. unfold visit_all. rewrite filter_cons.
      destruct (decide (x ∈ ex)) as [Hex|Hex].
      + rewrite decide_False by tauto. done.
      + destruct (known x) eqn:Hk.
        * rewrite decide_True by done. by rewrite <- app_assoc.
        * rewrite decide_False; [done|]. intros [_ ?]. congruence.
  Qed.

  (** ** The broadcast theorem *)
  Theorem apply_targets_exact T E st :
    indexes_inverse st →
    NoDup (apply_targets known T E st) ∧
    ∀ s, s ∈ apply_targets known T E st ↔ selected known T E st s.
  Proof.
    intros Hinv. unfold apply_targets, selected.
    destruct (decide (0 < size T)) as [Hsz|Hsz].
    - assert (Hne : T ≠ ∅) by (intros ->; rewrite size_empty in Hsz; lia).
      destruct (visit_target_fold st (except_sids E st) (elements T) (∅, [])) as [[Hnd _] Hmem].
      { split; simpl; [constructor|]. intros s. set_solver. }
      split; [done|]. intros s. rewrite Hmem. simpl. split.
      + intros [H|((r & Hr & Hs) & Hex & Hk)]; [by apply elem_of_nil in H|].
        split; [done|]. split; [by eapply inverse_member_registered|].
        split; [right; exists r; by rewrite <- elem_of_elements|].
        intros r' Hr' Hs'. apply Hex. apply except_sids_spec. eauto.
      + intros (Hk & _ & [HT|(r & Hr & Hs)] & HE); [done|]. right.
        split; [exists r; by rewrite elem_of_elements|]. split; [|done].
        intros (r' & ? & ?)%except_sids_spec. by eapply HE.
    - assert (HT : T = ∅) by (apply leibniz_equiv, size_empty_inv; lia).
      rewrite visit_all_fold. simpl. split.
      + apply NoDup_filter, NoDup_elements.
      + intros s. rewrite elem_of_list_filter, elem_of_elements. split.
        * intros [[Hex Hk] Hd]. split; [done|]. split; [done|]. split; [by left|].
          intros r Hr Hs. apply Hex. apply except_sids_spec. eauto.
        * intros (Hk & Hd & _ & HE). split; [|done]. split; [|done].
          intros (r & ? & ?)%except_sids_spec. by eapply HE.
  Qed.
End apply_proofs.

(** Every broadcast issued with the sender's own-id room among the exclusions misses the sender
    as long as the sender is in that room. *)
Lemma sender_excluded_if_in_own_room known T E st s :
  indexes_inverse st → s ∈ room_sids st s →
  s ∉ apply_targets known T (sender_except (Some s) E) st.
Proof.
  intros Hinv Hown Hin. apply (apply_targets_exact known) in Hin; [|done].
  destruct Hin as (_ & _ & _ & HE). apply (HE s); [|done]. simpl. set_solver.
Qed.

(** ** BroadcastOperator: an operator denotes its own derivation, whatever is derived later *)
Lemma deref_app_l h h' i : i < length h → deref (h ++ h') i = deref h i.
Proof. intros. unfold deref. by rewrite lookup_app_l. Qed.
Lemma deref_app_new h x : deref (h ++ [x]) (length h) = x.
Proof. unfold deref. rewrite lookup_app_r by lia. by rewrite Nat.sub_diag. Qed.

Definition bop_wf (h : heap) (b : bop) : Prop := b_rooms b < length h ∧ b_except b < length h.

Lemma bexec_sim prog :
  ∀ h ops, Forall (bop_wf h) ops →
  let '(h', ops') := foldl bexec (h, ops) prog in
  Forall (bop_wf h') ops' ∧
  map (bop_opts h') ops' = foldl bdenote (map (bop_opts h) ops) prog.
Proof.
  induction prog as [|ins prog IH]; intros h ops Hwf; simpl; [done|].
  assert (Hext : ∀ h', Forall (bop_wf (h ++ h')) ops ∧ map (bop_opts (h ++ h')) ops = map (bop_opts h) ops).
  { intros h'. split.
    - eapply Forall_impl; [done|]. intros b [? ?]. split; rewrite app_length; lia.
    - apply map_ext_Forall. eapply Forall_impl; [done|]. intros b [? ?]. unfold bop_opts.
      by rewrite !deref_app_l. }
  destruct ins as [|i rs|i rs]; simpl.
  - specialize (IH (h ++ [∅; ∅]) (ops ++ [Bop (length h) (S (length h))])).
    destruct (Hext [∅; ∅]) as [Hw He]. simpl in IH.
    assert (Hwf' : Forall (bop_wf (h ++ [∅; ∅])) (ops ++ [Bop (length h) (S (length h))])).
    { apply Forall_app. split; [done|]. apply Forall_singleton. split; simpl; rewrite app_length; simpl; lia. }
    specialize (IH Hwf'). rewrite map_app, He in IH. simpl in IH.
    replace (bop_opts (h ++ [∅; ∅]) (Bop (length h) (S (length h)))) with ((∅, ∅) : gset room * gset room) in IH; [done|].
    unfold bop_opts, deref. simpl. rewrite !lookup_app_r by lia.
    replace (length h - length h) with 0 by lia. replace (S (length h) - length h) with 1 by lia. done.
  - rewrite list_lookup_fmap. destruct (ops !! i) as [b|] eqn:Hb; simpl; [|by apply IH].
    assert (Hbw : bop_wf h b) by (eapply Forall_lookup_1; eauto).
    set (x := deref h (b_rooms b) ∪ list_to_set rs).
    specialize (IH (h ++ [x]) (ops ++ [Bop (length h) (b_except b)])).
    destruct (Hext [x]) as [Hw He].
    assert (Hwf' : Forall (bop_wf (h ++ [x])) (ops ++ [Bop (length h) (b_except b)])).
    { apply Forall_app. split; [done|]. apply Forall_singleton. destruct Hbw. split; simpl; rewrite app_length; simpl; lia. }
    specialize (IH Hwf'). rewrite map_app, He in IH. simpl in IH.
    replace (bop_opts (h ++ [x]) (Bop (length h) (b_except b))) with (x, deref h (b_except b)) in IH; [done|].
    unfold bop_opts. simpl. rewrite deref_app_new. destruct Hbw. by rewrite deref_app_l.
  - rewrite list_lookup_fmap. destruct (ops !! i) as [b|] eqn:Hb; simpl; [|by apply IH].
    assert (Hbw : bop_wf h b) by (eapply Forall_lookup_1; eauto).
    set (x := deref h (b_except b) ∪ list_to_set rs).
    specialize (IH (h ++ [x]) (ops ++ [Bop (b_rooms b) (length h)])).
    destruct (Hext [x]) as [Hw He].
    assert (Hwf' : Forall (bop_wf (h ++ [x])) (ops ++ [Bop (b_rooms b) (length h)])).
    { apply Forall_app. split; [done|]. apply Forall_singleton. destruct Hbw. split; simpl; rewrite app_length; simpl; lia. }
    specialize (IH Hwf'). rewrite map_app, He in IH. simpl in IH.
    replace (bop_opts (h ++ [x]) (Bop (b_rooms b) (length h))) with (deref h (b_rooms b), x) in IH; [done|].
    unfold bop_opts. simpl. rewrite deref_app_new. destruct Hbw. by rewrite deref_app_l.
Qed.

Theorem operator_immutable prog :
  let '(h, ops) := foldl bexec ([], []) prog in
  map (bop_opts h) ops = foldl bdenote [] prog.
Proof.
  pose proof (bexec_sim prog [] [] (Forall_nil_2 _)) as H.
  destruct (foldl bexec ([], []) prog) as [h ops]. by destruct H.
Qed.
