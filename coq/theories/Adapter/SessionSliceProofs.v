(** Proofs about the slice model of the packet log (C08). *)
From SioV Require Import Base.GoSem Adapter.Session Adapter.SessionProofs.
From SioV Require Import Adapter.SessionSlice.
Open Scope Z_scope.

(** * list facts *)
Lemma set_nth_length {A} n (x : A) l : length (set_nth n x l) = length l.
Proof. revert n. induction l; destruct n; simpl; auto. Qed.

Lemma nth_set_nth_same {A} n (x d : A) l : (n < length l)%nat -> nth n (set_nth n x l) d = x.
Proof. revert n. induction l; destruct n; simpl; intros; try lia; auto. apply IHl. lia. Qed.

Lemma nth_set_nth_other {A} n m (x d : A) l : n <> m -> nth m (set_nth n x l) d = nth m l d.
Proof. revert n m. induction l; destruct n, m; simpl; intros; auto; try congruence. Qed.

Lemma firstn_set_nth {A} n (x : A) l :
  (n < length l)%nat -> firstn (S n) (set_nth n x l) = firstn n l ++ [x].
Proof.
  revert n. induction l; destruct n; simpl; intros; try lia; auto.
  f_equal. apply IHl. lia.
Qed.

Lemma skipn_set_nth {A} n m (x : A) l : (n < m)%nat -> skipn m (set_nth n x l) = skipn m l.
Proof.
  revert n m. induction l; destruct n, m; simpl; intros; try lia; auto. apply IHl. lia.
Qed.

Lemma firstn_len_app {A} (l r : list A) : firstn (length l) (l ++ r) = l.
Proof. rewrite firstn_app, firstn_all, Nat.sub_diag. simpl. apply app_nil_r. Qed.

Lemma cells_get_app a b : cells_get (a ++ b) = cells_get a ++ cells_get b.
Proof. induction a as [|[p|] a IH]; simpl; auto. now rewrite IH. Qed.

Lemma cells_get_map l : cells_get (map Some l) = l.
Proof. induction l; simpl; auto. now rewrite IHl. Qed.

(** * well-formed logs and the refinement of the abstract operations *)
Record wf (s : slog) : Prop := {
  wf_aid : (sl_aid s < length (sl_heap s))%nat;
  wf_len : (sl_len s <= length (sl_arr s))%nat;
  wf_some : sl_view s = map Some (sl_abs s)
}.

Lemma view_length s : wf s -> length (sl_view s) = sl_len s.
Proof. intros [_ L _]. unfold sl_view. rewrite firstn_length. lia. Qed.

Lemma abs_length s : wf s -> length (sl_abs s) = sl_len s.
Proof. intros W. rewrite <- (view_length s W). rewrite (wf_some s W). now rewrite map_length. Qed.

Lemma arr_nth s j : wf s -> (j < sl_len s)%nat ->
  nth j (sl_arr s) None = Some (nth j (sl_abs s) (mkPkt 0 0 (mkOpts [] []))).
Proof.
  intros W Hj. pose proof (wf_some s W) as E. pose proof (wf_len s W) as L.
  assert (nth j (sl_view s) None = nth j (sl_arr s) None) as <-.
  { unfold sl_view. rewrite <- (firstn_skipn (sl_len s) (sl_arr s)) at 2.
    rewrite app_nth1; auto. rewrite firstn_length. lia. }
  rewrite E. rewrite (nth_indep _ None (Some (mkPkt 0 0 (mkOpts [] [])))).
  - now rewrite map_nth.
  - rewrite map_length, (abs_length s W). exact Hj.
Qed.

Lemma append_spec p s : wf s ->
  wf (sl_append p s) /\ sl_abs (sl_append p s) = sl_abs s ++ [p] /\
  (length (sl_heap s) <= length (sl_heap (sl_append p s)))%nat /\
  (forall a, a <> sl_aid s -> (a < length (sl_heap s))%nat ->
     arr_of (sl_heap (sl_append p s)) a = arr_of (sl_heap s) a) /\
  (sl_aid (sl_append p s) = sl_aid s \/ sl_aid (sl_append p s) = length (sl_heap s)).
Proof.
  intros W. pose proof (wf_aid s W) as A. pose proof (wf_len s W) as L. pose proof (wf_some s W) as E.
  unfold sl_append. destruct (Nat.ltb (sl_len s) (length (sl_arr s))) eqn:C.
  - apply Nat.ltb_lt in C.
    assert (sl_view (mkSlog (set_nth (sl_aid s) (set_nth (sl_len s) (Some p) (sl_arr s)) (sl_heap s))
                            (sl_aid s) (S (sl_len s))) = sl_view s ++ [Some p]) as V.
    { unfold sl_view, sl_arr, arr_of. simpl. rewrite nth_set_nth_same by auto.
      apply firstn_set_nth. exact C. }
    repeat split.
    + simpl. now rewrite set_nth_length.
    + unfold sl_arr, arr_of in *. simpl. rewrite nth_set_nth_same by auto. rewrite set_nth_length. lia.
    + unfold sl_abs in *. rewrite V. rewrite cells_get_app, map_app. simpl. now rewrite <- E.
    + unfold sl_abs. rewrite V. now rewrite cells_get_app.
    + simpl. rewrite set_nth_length. lia.
    + intros a NA _. unfold arr_of. simpl. apply nth_set_nth_other. congruence.
    + left. reflexivity.
  - apply Nat.ltb_ge in C.
    assert (length (sl_view s) = sl_len s) as VL by now apply view_length.
    assert (sl_view (mkSlog (sl_heap s ++ [sl_view s ++ Some p :: repeat None (grow (length (sl_arr s)) - S (sl_len s))])
                            (length (sl_heap s)) (S (sl_len s))) = sl_view s ++ [Some p]) as V.
    { unfold sl_view at 1. unfold sl_arr, arr_of. cbn [sl_heap sl_aid sl_len].
      rewrite app_nth2 by lia. rewrite Nat.sub_diag. cbn [nth].
      set (R := repeat None _).
      replace (sl_view s ++ Some p :: R) with ((sl_view s ++ [Some p]) ++ R)
        by (rewrite <- app_assoc; reflexivity).
      replace (S (sl_len s)) with (length (sl_view s ++ [Some p])) by (rewrite app_length; simpl; lia).
      apply firstn_len_app. }
    repeat split.
    + simpl. rewrite app_length. simpl. lia.
    + unfold sl_arr, arr_of. simpl. rewrite app_nth2 by lia. rewrite Nat.sub_diag. simpl.
      rewrite app_length. simpl. lia.
    + unfold sl_abs in *. rewrite V. rewrite cells_get_app, map_app. simpl. now rewrite <- E.
    + unfold sl_abs. rewrite V. now rewrite cells_get_app.
    + simpl. rewrite app_length. lia.
    + intros a _ HA. unfold arr_of. simpl. now rewrite app_nth1.
    + right. reflexivity.
Qed.

Lemma delete_spec k s : wf s ->
  wf (sl_delete_prefix k s) /\ sl_abs (sl_delete_prefix k s) = skipn k (sl_abs s) /\
  length (sl_heap (sl_delete_prefix k s)) = length (sl_heap s) /\
  (forall a, a <> sl_aid s -> arr_of (sl_heap (sl_delete_prefix k s)) a = arr_of (sl_heap s) a) /\
  sl_aid (sl_delete_prefix k s) = sl_aid s.
Proof.
  intros W. pose proof (wf_aid s W) as A. pose proof (wf_len s W) as L. pose proof (wf_some s W) as E.
  assert (length (sl_view s) = sl_len s) as VL by now apply view_length.
  assert (sl_view (sl_delete_prefix k s) = skipn k (sl_view s)) as V.
  { unfold sl_view at 1. unfold sl_delete_prefix, sl_arr, arr_of. simpl. rewrite nth_set_nth_same by auto.
    fold (arr_of (sl_heap s) (sl_aid s)). fold (sl_arr s).
    replace (sl_len s - k)%nat with (length (skipn k (sl_view s))) by (rewrite skipn_length; lia).
    apply firstn_len_app. }
  repeat split.
  - simpl. now rewrite set_nth_length.
  - unfold sl_arr, arr_of. simpl. rewrite nth_set_nth_same by auto.
    rewrite !app_length, skipn_length, repeat_length, skipn_length. fold (sl_arr s). lia.
  - unfold sl_abs. rewrite V, E. rewrite skipn_map. now rewrite cells_get_map.
  - unfold sl_abs. rewrite V, E. rewrite skipn_map. now rewrite !cells_get_map.
  - simpl. now rewrite set_nth_length.
  - intros a NA. unfold arr_of. simpl. apply nth_set_nth_other. congruence.
Qed.

(** the slice-level clean-up pass refines the abstract one of Adapter/Session.v *)
Lemma clean_spec W now s : wf s ->
  wf (sl_clean W now s) /\ sl_abs (sl_clean W now s) = clean_packets W now (sl_abs s) /\
  length (sl_heap (sl_clean W now s)) = length (sl_heap s) /\
  (forall a, a <> sl_aid s -> arr_of (sl_heap (sl_clean W now s)) a = arr_of (sl_heap s) a) /\
  sl_aid (sl_clean W now s) = sl_aid s.
Proof.
  intros Wf. unfold sl_clean, clean_packets.
  destruct (last_index (pkt_expired W now) (sl_abs s)) as [i|].
  - apply delete_spec. exact Wf.
  - repeat split; auto; apply Wf.
Qed.

Lemma wf_empty : wf sl_empty.
Proof. constructor; simpl; auto. Qed.

Lemma wf_of l : wf (sl_of l) /\ sl_abs (sl_of l) = l.
Proof.
  unfold sl_of.
  assert (forall s, wf s -> wf (fold_left (fun s p => sl_append p s) l s) /\
                    sl_abs (fold_left (fun s p => sl_append p s) l s) = sl_abs s ++ l) as G.
  { induction l as [|p l IH]; intros s W; simpl.
    - now rewrite app_nil_r.
    - destruct (append_spec p s W) as [W' [E _]]. destruct (IH _ W') as [W2 E2].
      split; auto. rewrite E2, E. now rewrite <- app_assoc. }
  apply (G sl_empty wf_empty).
Qed.

(** * RestoreSession reads a consistent snapshot when it filters under the lock (or on a copy) *)

Definition dp : ppacket := mkPkt 0 0 (mkOpts [] []).

Lemma nth_firstn_lt {A} j n (l : list A) d : (j < n)%nat -> nth j (firstn n l) d = nth j l d.
Proof.
  revert j l. induction n; intros j l H; try lia. destruct l, j; simpl; auto. apply IHn. lia.
Qed.

Lemma nth_skipn_add {A} k j (l : list A) d : nth j (skipn k l) d = nth (k + j) l d.
Proof.
  revert l. induction k; intros l; simpl; auto. destruct l; simpl; auto. destruct j; auto.
Qed.

Lemma firstn_S_nth {A} j (l : list A) d : (j < length l)%nat -> firstn (S j) l = firstn j l ++ [nth j l d].
Proof.
  revert l. induction j; intros l H; destruct l; simpl in *; try lia; auto.
  f_equal. apply IHj. lia.
Qed.

Lemma index_after off l i :
  index_of off l = Some i -> after_offset off l = Some (skipn (S i) l) /\ (i < length l)%nat.
Proof.
  revert i. induction l as [|p l IH]; simpl; intros i H; try discriminate.
  destruct (N.eqb (p_id p) off).
  - inversion H; subst. split; auto. lia.
  - destruct (index_of off l) as [k|]; try discriminate. inversion H; subst.
    destruct (IH k eq_refl) as [E L]. split; auto. lia.
Qed.

Lemma index_none off l : index_of off l = None -> after_offset off l = None.
Proof.
  induction l as [|p l IH]; simpl; auto.
  destruct (N.eqb (p_id p) off); try discriminate.
  destruct (index_of off l); try discriminate. auto.
Qed.

Lemma wf_heap_ext s x : wf s -> wf (mkSlog (sl_heap s ++ [x]) (sl_aid s) (sl_len s)) /\
  sl_abs (mkSlog (sl_heap s ++ [x]) (sl_aid s) (sl_len s)) = sl_abs s.
Proof.
  intros W. pose proof (wf_aid s W) as A.
  assert (sl_arr (mkSlog (sl_heap s ++ [x]) (sl_aid s) (sl_len s)) = sl_arr s) as EA.
  { unfold sl_arr, arr_of. simpl. now rewrite app_nth1. }
  assert (sl_view (mkSlog (sl_heap s ++ [x]) (sl_aid s) (sl_len s)) = sl_view s) as EV.
  { unfold sl_view. rewrite EA. reflexivity. }
  split.
  - constructor.
    + simpl. rewrite app_length. lia.
    + rewrite EA. simpl. apply W.
    + unfold sl_abs. rewrite EV. apply W.
  - unfold sl_abs. now rewrite EV.
Qed.

Section Consistent.
  Variable W : Z.
  Variable rooms : list room.
  Variable off : N.

  Let sel := fun p => should_include rooms (p_opts p).

  Definition RI (m : mode) (s : rstate) : Prop :=
    wf (rs_log s) /\
    match rs_rd s with
    | Some r =>
        rs_res s = None /\ (r_aid r < length (sl_heap (rs_log s)))%nat /\
        match m with
        | Locked => rs_lock s = true /\ r_aid r = sl_aid (rs_log s)
        | Copy => rs_lock s = false /\ r_aid r <> sl_aid (rs_log s)
        | Alias => False
        end /\
        exists l' rest, rs_snap s = Some l' /\ after_offset off l' = Some rest /\
          r_n r = length rest /\ (r_j r <= r_n r)%nat /\
          (forall j, (j < r_n r)%nat ->
             nth (r_start r + j) (arr_of (sl_heap (rs_log s)) (r_aid r)) None = Some (nth j rest dp)) /\
          r_acc r = filter sel (firstn (r_j r) rest)
    | None =>
        rs_lock s = false /\
        forall r, rs_res s = Some r -> exists l', rs_snap s = Some l' /\ r = snapshot_answer rooms off l'
    end.

  Lemma rstep_inv m t s s' : m <> Alias -> RI m s -> rstep_run m W rooms off t s = Some s' -> RI m s'.
  Proof.
    intros not_alias [Wf I] H. destruct t; unfold rstep_run in H.
    - (* TFind *)
      destruct (rs_rd s); try discriminate. destruct (rs_res s); try discriminate.
      destruct (rs_lock s); try discriminate.
      destruct (index_of off (sl_abs (rs_log s))) as [i|] eqn:IX.
      + destruct (index_after _ _ _ IX) as [AO IL].
        pose proof (abs_length _ Wf) as AL.
        assert (forall j, (j < sl_len (rs_log s) - S i)%nat ->
                  nth (S i + j) (sl_arr (rs_log s)) None = Some (nth j (skipn (S i) (sl_abs (rs_log s))) dp)) as RD.
        { intros j Hj. rewrite arr_nth by (auto; lia). now rewrite nth_skipn_add. }
        assert (length (skipn (S i) (sl_abs (rs_log s))) = (sl_len (rs_log s) - S i)%nat) as RL
            by (rewrite skipn_length; lia).
        destruct m; try congruence; inversion H; subst s'; clear H; split; simpl; auto.
        * split; auto. split; [apply Wf|]. split; auto.
          exists (sl_abs (rs_log s)), (skipn (S i) (sl_abs (rs_log s))). repeat split; auto; lia.
        * apply wf_heap_ext. exact Wf.
        * split; auto. split; [rewrite app_length; simpl; lia|]. split.
          { split; auto. pose proof (wf_aid _ Wf). lia. }
          exists (sl_abs (rs_log s)), (skipn (S i) (sl_abs (rs_log s))). repeat split; auto; try lia.
          intros j Hj. unfold arr_of. rewrite app_nth2 by lia. rewrite Nat.sub_diag. simpl.
          rewrite nth_firstn_lt by auto.
          change (match sl_arr (rs_log s) with [] => [] | _ :: l => skipn i l end)
            with (skipn (S i) (sl_arr (rs_log s))).
          rewrite nth_skipn_add. apply RD. exact Hj.
      + inversion H; subst s'; clear H. split; simpl; auto. split; auto.
        intros r E. inversion E; subst. exists (sl_abs (rs_log s)). split; auto.
        unfold snapshot_answer. now rewrite (index_none _ _ IX).
    - (* TFilter *)
      destruct (rs_rd s) as [r|] eqn:RD; try discriminate.
      destruct I as [RN [RA [MD [l' [rest [SN [AO [NL [JL [CE AC]]]]]]]]]].
      destruct (Nat.ltb (r_j r) (r_n r)) eqn:LT; try discriminate. apply Nat.ltb_lt in LT.
      rewrite (CE _ LT) in H. inversion H; subst s'; clear H.
      split; cbn [rs_log rs_lock rs_rd rs_res rs_snap r_aid r_start r_n r_j r_acc]; auto.
      split; auto. split; auto. split; auto.
      exists l', rest. repeat split; auto; try lia.
      rewrite (firstn_S_nth _ _ dp) by lia. rewrite filter_app. simpl. fold (sel (nth (r_j r) rest dp)).
      destruct (sel (nth (r_j r) rest dp)); rewrite AC; auto. now rewrite app_nil_r.
    - (* TEnd *)
      destruct (rs_rd s) as [r|] eqn:RD; try discriminate.
      destruct I as [RN [RA [MD [l' [rest [SN [AO [NL [JL [CE AC]]]]]]]]]].
      destruct (Nat.eqb (r_j r) (r_n r)) eqn:EQ; try discriminate. apply Nat.eqb_eq in EQ.
      inversion H; subst s'; clear H. split; simpl; auto. split; auto.
      intros r0 E. inversion E; subst. exists l'. split; auto.
      unfold snapshot_answer. rewrite AO. rewrite AC, EQ, NL, firstn_all. reflexivity.
    - (* TClean *)
      destruct (rs_lock s) eqn:LK; try discriminate. inversion H; subst s'; clear H.
      destruct (clean_spec W now _ Wf) as [W' [_ [HL [HO HA]]]].
      split; simpl; auto. destruct (rs_rd s) as [r|]; auto.
      destruct I as [RN [RA [MD I]]]. split; auto. split; [rewrite HL; auto|].
      destruct m; try contradiction.
      + destruct MD. congruence.
      + destruct MD as [_ NE]. split; [split; auto; congruence|].
        rewrite HO by auto. exact I.
    - (* TBroadcast *)
      destruct (rs_lock s) eqn:LK; try discriminate. inversion H; subst s'; clear H.
      destruct (append_spec p _ Wf) as [W' [_ [HL [HO HA]]]].
      split; simpl; auto. destruct (rs_rd s) as [r|]; auto.
      destruct I as [RN [RA [MD I]]]. split; auto. split; [lia|].
      destruct m; try contradiction.
      + destruct MD. congruence.
      + destruct MD as [_ NE]. split; [split; auto; destruct HA as [-> | ->]; auto; lia|].
        rewrite HO by auto. exact I.
  Qed.

  Lemma rrun_inv m sched : m <> Alias -> forall s s', RI m s -> rrun m W rooms off sched s = Some s' -> RI m s'.
  Proof.
    intros NA. induction sched as [|t sched IH]; simpl; intros s s' I H.
    - inversion H; subst. exact I.
    - destruct (rstep_run m W rooms off t s) as [s1|] eqn:E; try discriminate.
      apply (IH s1 s'); auto. eapply rstep_inv; eauto.
  Qed.

  (** For every interleaving of the restore's sub-steps with clean-up passes (that really trim) and
      broadcasts: the answer is the sequential answer on the log as it was at the lookup - never a
      nil dereference, never a skipped or foreign packet. *)
  Theorem restore_consistent m l sched s r :
    m <> Alias ->
    rrun m W rooms off sched (rinit l) = Some s -> rs_res s = Some r ->
    exists l', rs_snap s = Some l' /\ r = snapshot_answer rooms off l'.
  Proof.
    intros NA H R.
    assert (RI m (rinit l)) as I0.
    { split; simpl; [apply wf_of|]. split; auto. discriminate. }
    destruct (rrun_inv m sched NA _ _ I0 H) as [_ I].
    destruct (rs_rd s); [destruct I as [RN _]; congruence|]. destruct I as [_ I]. auto.
  Qed.
End Consistent.
