(** The packet log as a Go slice over a backing array, and RestoreSession against concurrent
    clean-up passes and broadcasts (C08).

    [a.packets] is a slice: [append] writes in place while len < cap and otherwise allocates a
    doubled array; the cleaner's [slices.Delete(a.packets, 0, k)] copies the survivors to the
    front of the SAME array and nils the vacated tail.  RestoreSession finds the offset and then
    filters the packets after it.  Three disciplines for that filter loop:
      [Locked] - the code as it is: the adapter mutex is held from the lookup to the end of the loop;
      [Copy]   - the loop runs unlocked on a private copy of the sub-slice taken under the lock;
      [Alias]  - the loop runs unlocked on the sub-slice [a.packets[index+1:]] itself.
    A heap of arrays gives arrays identity, so "the restore still holds a sub-slice of an array the
    cleaner is shifting" is expressible. *)
From SioV Require Import Base.GoSem Adapter.Session.
Open Scope Z_scope.

Definition cell := option ppacket.

Record slog := mkSlog { sl_heap : list (list cell); sl_aid : nat; sl_len : nat }.

Definition arr_of (h : list (list cell)) (a : nat) : list cell := nth a h [].
Definition sl_arr (s : slog) : list cell := arr_of (sl_heap s) (sl_aid s).
Definition sl_view (s : slog) : list cell := firstn (sl_len s) (sl_arr s).

Fixpoint cells_get (l : list cell) : list ppacket :=
  match l with [] => [] | Some p :: l' => p :: cells_get l' | None :: l' => cells_get l' end.

(** the abstract log (what Adapter/Session.v calls [st_packets]) *)
Definition sl_abs (s : slog) : list ppacket := cells_get (sl_view s).

Fixpoint set_nth {A} (n : nat) (x : A) (l : list A) : list A :=
  match l, n with
  | [], _ => []
  | _ :: l', O => x :: l'
  | y :: l', S n' => y :: set_nth n' x l'
  end.

Definition grow (cap : nat) : nat := match cap with O => 1%nat | _ => (2 * cap)%nat end.

(** a.packets = append(a.packets, p) *)
Definition sl_append (p : ppacket) (s : slog) : slog :=
  let a := sl_arr s in
  if Nat.ltb (sl_len s) (length a)
  then mkSlog (set_nth (sl_aid s) (set_nth (sl_len s) (Some p) a) (sl_heap s)) (sl_aid s) (S (sl_len s))
  else let a' := sl_view s ++ Some p :: repeat None (grow (length a) - S (sl_len s)) in
       mkSlog (sl_heap s ++ [a']) (length (sl_heap s)) (S (sl_len s)).

(** a.packets = slices.Delete(a.packets, 0, k) *)
Definition sl_delete_prefix (k : nat) (s : slog) : slog :=
  let a := sl_arr s in
  let a' := skipn k (sl_view s) ++ repeat None (Nat.min k (sl_len s)) ++ skipn (sl_len s) a in
  mkSlog (set_nth (sl_aid s) a' (sl_heap s)) (sl_aid s) (sl_len s - k).

Definition sl_clean (W now : Z) (s : slog) : slog :=
  match last_index (pkt_expired W now) (sl_abs s) with
  | Some i => sl_delete_prefix (S i) s
  | None => s
  end.

Inductive mode := Locked | Copy | Alias.

(** the restore in progress: array it reads, first index, number of cells, next cell, result so far *)
Record reader := mkRd { r_aid : nat; r_start : nat; r_n : nat; r_j : nat; r_acc : list ppacket }.

Record rstate := mkRS {
  rs_log : slog;
  rs_lock : bool;
  rs_rd : option reader;
  rs_res : option (res (list ppacket));  (* Ok missed / Err = not ok (unknown offset) / Panic = nil dereference *)
  rs_snap : option (list ppacket)        (* ghost: the abstract log at the moment of the lookup *)
}.

Inductive rstep :=
| TFind | TFilter | TEnd
| TClean (now : Z)
| TBroadcast (p : ppacket).

Fixpoint index_of (off : N) (l : list ppacket) : option nat :=
  match l with
  | [] => None
  | p :: l' => if N.eqb (p_id p) off then Some O
               else match index_of off l' with Some i => Some (S i) | None => None end
  end.

Definition rstep_run (m : mode) (W : Z) (rooms : list room) (off : N) (t : rstep) (s : rstate) : option rstate :=
  match t with
  | TFind =>
      match rs_rd s, rs_res s, rs_lock s with
      | None, None, false =>
          match index_of off (sl_abs (rs_log s)) with
          | None => Some (mkRS (rs_log s) false None (Some Err) (Some (sl_abs (rs_log s))))
          | Some i =>
              let lg := rs_log s in
              let n := (sl_len lg - S i)%nat in
              match m with
              | Locked => Some (mkRS lg true (Some (mkRd (sl_aid lg) (S i) n 0 [])) None (Some (sl_abs lg)))
              | Alias => Some (mkRS lg false (Some (mkRd (sl_aid lg) (S i) n 0 [])) None (Some (sl_abs lg)))
              | Copy =>
                  let cp := firstn n (skipn (S i) (sl_arr lg)) in
                  Some (mkRS (mkSlog (sl_heap lg ++ [cp]) (sl_aid lg) (sl_len lg)) false
                             (Some (mkRd (length (sl_heap lg)) 0 n 0 [])) None (Some (sl_abs lg)))
              end
          end
      | _, _, _ => None
      end
  | TFilter =>
      match rs_rd s with
      | Some r =>
          if Nat.ltb (r_j r) (r_n r) then
            match nth (r_start r + r_j r) (arr_of (sl_heap (rs_log s)) (r_aid r)) None with
            | None => Some (mkRS (rs_log s) false None (Some Panic) (rs_snap s))
            | Some p =>
                let acc := if should_include rooms (p_opts p) then r_acc r ++ [p] else r_acc r in
                Some (mkRS (rs_log s) (rs_lock s)
                           (Some (mkRd (r_aid r) (r_start r) (r_n r) (S (r_j r)) acc)) None (rs_snap s))
            end
          else None
      | None => None
      end
  | TEnd =>
      match rs_rd s with
      | Some r => if Nat.eqb (r_j r) (r_n r)
                  then Some (mkRS (rs_log s) false None (Some (Ok (r_acc r))) (rs_snap s)) else None
      | None => None
      end
  | TClean now =>
      if rs_lock s then None else Some (mkRS (sl_clean W now (rs_log s)) false (rs_rd s) (rs_res s) (rs_snap s))
  | TBroadcast p =>
      if rs_lock s then None else Some (mkRS (sl_append p (rs_log s)) false (rs_rd s) (rs_res s) (rs_snap s))
  end.

Fixpoint rrun (m : mode) (W : Z) (rooms : list room) (off : N) (sched : list rstep) (s : rstate) : option rstate :=
  match sched with
  | [] => Some s
  | t :: sched' =>
      match rstep_run m W rooms off t s with Some s' => rrun m W rooms off sched' s' | None => None end
  end.

(** a log built by appends *)
Definition sl_empty : slog := mkSlog [[]] 0 0.
Definition sl_of (l : list ppacket) : slog := fold_left (fun s p => sl_append p s) l sl_empty.
Definition rinit (l : list ppacket) : rstate := mkRS (sl_of l) false None None None.

(** "a consistent snapshot": the answer the sequential RestoreSession gives on a log [l] *)
Definition snapshot_answer (rooms : list room) (off : N) (l : list ppacket) : res (list ppacket) :=
  match after_offset off l with
  | Some rest => Ok (filter (fun p => should_include rooms (p_opts p)) rest)
  | None => Err
  end.

Definition logs_at_lookup (s : rstate) : list (list ppacket) :=
  match rs_snap s with Some l => [l] | None => [] end.
