(** reconstruct after deconstruct: feeding the JSON that [extract] produced, together with the
    attachments, to [recon] gives the shape back (as a handler of the given type sees it). *)
From Coq Require Import ZifyN ZifyNat ZifyBool.
From SioV Require Import Base.GoSem Sio.Json Sio.Header Sio.Binary Sio.BinaryProofs Sio.Codec
  Sio.RoundtripProofs.
Local Open Scope N_scope.

(** * Side conditions *)
(** An object a user could send that reads like a placeholder: {"_placeholder":true,"num":<int>}. *)
Definition fakeb (b : jb) : bool :=
  match b with
  | BObj [(k1, BBool true); (k2, BInt _)] => bytes_eqb k1 k_ph && bytes_eqb k2 k_num
  | BObj [(k1, BInt _); (k2, BBool true)] => bytes_eqb k1 k_num && bytes_eqb k2 k_ph
  | _ => false
  end.
Fixpoint nofake (b : jb) : bool :=
  match b with
  | BArr l => forallb nofake l
  | BObj kvs => negb (fakeb b) && forallb (fun kv => nofake (snd kv)) kvs
  | _ => true
  end.

Fixpoint nodupb (l : list bytes) : bool :=
  match l with
  | [] => true
  | x :: l' => negb (existsb (bytes_eqb x) l') && nodupb l'
  end.

(** The shape [b] is one a value of type [t] can have. *)
Fixpoint wtb (t : ty) (b : jb) : bool :=
  match t with
  | TAny => true
  | TBool => match b with BBool _ => true | _ => false end
  | TInt => match b with BInt _ => true | _ => false end
  | TStr => match b with BStr _ => true | _ => false end
  | TBin => match b with BBin _ => true | _ => false end
  | TPtr t' => match b with BNull => true | _ => wtb t' b end
  | TSlice t' => match b with BNull => true | BArr l => forallb (wtb t') l | _ => false end
  | TStruct fs =>
    match b with
    | BObj kvs =>
      nodupb (map fst fs) &&
      (fix go (fs : list (bytes * ty)) (kvs : list (bytes * jb)) : bool :=
         match fs, kvs with
         | [], [] => true
         | (k, t') :: fs', (k2, x) :: kvs' => bytes_eqb k k2 && wtb t' x && go fs' kvs'
         | _, _ => false
         end) fs kvs
    | _ => false
    end
  | TMapAny => match b with BNull | BObj _ => true | _ => false end
  end.

(** * Small facts *)
Lemma bytes_eqb_eq a b : bytes_eqb a b = true <-> a = b.
Proof. unfold bytes_eqb. apply list_eqb_eq. intros; apply N.eqb_eq. Qed.
Lemma bytes_eqb_refl a : bytes_eqb a a = true.
Proof. now apply bytes_eqb_eq. Qed.

Lemma att_hit pre (x : bytes) post n :
  length pre = N.to_nat n -> attachment (pre ++ x :: post) (Z.of_N n) = Ok x.
Proof.
  intros L. unfold attachment. assert ((Z.of_N n <? 0)%Z = false) by lia. rewrite H.
  replace (Z.to_nat (Z.of_N n)) with (length pre) by lia.
  rewrite nth_error_app2 by lia. now rewrite Nat.sub_diag.
Qed.

Lemma extract_count b n : snd (extract b n) = n + N.of_nat (length (snd (fst (extract b n)))).
Proof. destruct (extract_leaves b n) as [A B]. now rewrite A. Qed.

(** The JSON of a shape tells scalars apart. *)
Lemma extract_head b n :
  match fst (fst (extract b n)) with
  | JNull => b = BNull
  | JBool x => b = BBool x
  | JInt z => b = BInt z
  | JStr s => b = BStr s
  | JArr _ => exists l, b = BArr l
  | JObj _ => (exists x, b = BBin x) \/ (exists kvs, b = BObj kvs)
  end.
Proof.
  destruct b; try reflexivity.
  - simpl. left. eauto.
  - rewrite extract_arr. destruct (ex_list l n) as [[js bs] n']. simpl. eauto.
  - rewrite extract_obj. destruct (ex_obj kvs n) as [[m bs] n']. simpl. eauto.
Qed.

Lemma is_ph_ph n : is_ph (ph_jv n) = Some (Z.of_N n).
Proof. reflexivity. Qed.

Lemma ex_obj_keys kvs n : map fst (fst (fst (ex_obj kvs n))) = map fst kvs.
Proof.
  revert n. induction kvs as [|[k x] l IH]; intros n; simpl; [reflexivity|].
  destruct (extract x n) as [[j b1] n1]. specialize (IH n1). destruct (ex_obj l n1) as [[t b2] n2].
  simpl in *. now rewrite IH.
Qed.

(** An object that is not placeholder-shaped is not taken for a placeholder after extraction. *)
Lemma is_ph_extract kvs n :
  fakeb (BObj kvs) = false -> is_ph (JObj (fst (fst (ex_obj kvs n)))) = None.
Proof.
  intros F. destruct kvs as [|[k1 x1] [|[k2 x2] [|kv3 r]]]; try reflexivity.
  - simpl. destruct (extract x1 n) as [[j1 b1] n1]. reflexivity.
  - simpl ex_obj.
    pose proof (extract_head x1 n) as E1. destruct (extract x1 n) as [[j1 b1] n1].
    pose proof (extract_head x2 n1) as E2. destruct (extract x2 n1) as [[j2 b2] n2].
    simpl in E1, E2 |- *.
    destruct (bytes_eqb k1 k_ph && bytes_eqb k2 k_num) eqn:K1.
    + destruct j1 as [|[|]| | | |]; try reflexivity. destruct j2; try reflexivity. subst.
      simpl in F. rewrite K1 in F. discriminate.
    + destruct (bytes_eqb k1 k_num && bytes_eqb k2 k_ph) eqn:K2; [|reflexivity].
      destruct j2 as [|[|]| | | |]; try reflexivity. destruct j1; try reflexivity. subst.
      simpl in F. rewrite K2 in F. discriminate.
  - simpl. destruct (extract x1 n) as [[j1 b1] n1]. destruct (extract x2 n1) as [[j2 b2] n2].
    destruct kv3 as [k3 x3]. destruct (extract x3 n2) as [[j3 b3] n3].
    destruct (ex_obj r n3) as [[t b4] n4]. reflexivity.
Qed.

(** * Values received into [any] cells *)
Definition entry_f (B : list bytes) (kx : bytes * jv) : res (bytes * jb) :=
  let '(k, x) := kx in
  match is_ph x with
  | Some n => rbind (attachment B n) (fun b => Ok (k, BBin b))
  | None =>
    match x with
    | JObj _ => rbind (rgen B x) (fun r => Ok (k, r))
    | _ => Ok (k, plain x)
    end
  end.
Lemma rgen_obj B kvs :
  rgen B (JObj kvs) = rbind (res_all (map (entry_f B) kvs)) (fun m => Ok (BObj (sort_keys m))).
Proof. reflexivity. Qed.
Lemma rgen_arr B l : rgen B (JArr l) = rbind (res_all (map (rgen B) l)) (fun r => Ok (BArr r)).
Proof. reflexivity. Qed.

Definition nentry (kx : bytes * jb) : bytes * jb := let '(k, x) := kx in (k, norm_b x).
Lemma norm_obj kvs : norm_b (BObj kvs) = BObj (sort_keys (map nentry kvs)).
Proof. reflexivity. Qed.
Definition pentry (kx : bytes * jv) : bytes * jb := let '(k, x) := kx in (k, plain x).
Lemma plain_obj kvs : plain (JObj kvs) = BObj (sort_keys (map pentry kvs)).
Proof. reflexivity. Qed.

Definition A3 (b : jb) : Prop :=
  count_bin b = 0%nat -> forall n, exists j, extract b n = (j, [], n) /\ plain j = norm_b b.
Definition G1 (b : jb) : Prop :=
  any_ok b = true -> nofake b = true ->
  forall n pre post, length pre = N.to_nat n ->
  forall j bs n', extract b n = (j, bs, n') -> rgen (pre ++ bs ++ post) j = Ok (norm_b b).
Definition G2 (b : jb) : Prop :=
  any_ok_map b = true -> nofake b = true ->
  forall n pre post k, length pre = N.to_nat n ->
  forall j bs n', extract b n = (j, bs, n') -> entry_f (pre ++ bs ++ post) (k, j) = Ok (k, norm_b b).

Lemma plus_zero a b : (a + b = 0 -> a = 0 /\ b = 0)%nat.
Proof. lia. Qed.

Lemma any_all : forall b, A3 b /\ G1 b /\ G2 b.
Proof.
  induction b using jb_ind'.
  1-4: (split; [|split]); [intros _ n; eexists; split; reflexivity
                          | intros _ _ n pre post L j bs n' E; inversion E; subst; reflexivity
                          | intros _ _ n pre post k L j bs n' E; inversion E; subst; reflexivity].
  - (* BBin *)
    split; [|split].
    + intros C. discriminate.
    + intros C. discriminate.
    + intros _ _ n pre post k L j bs n' E. simpl in E. inversion E; subst.
      unfold entry_f. rewrite is_ph_ph. simpl app. rewrite att_hit by exact L. reflexivity.
  - (* BArr *)
    assert (HA : A3 (BArr l)).
    { intros C n. rewrite extract_arr. cbn [norm_b].
      assert (G : exists js, ex_list l n = (js, [], n) /\ map plain js = map norm_b l).
      { revert n. induction H as [|x l Hx Hl IH]; intros n; simpl in *; [eexists; split; reflexivity|].
        apply plus_zero in C as [C1 C2].
        destruct (proj1 Hx C1 n) as (j & E1 & E2). destruct (IH C2 n) as (js & F1 & F2).
        exists (j :: js). rewrite E1, F1. simpl. rewrite E2, F2. auto. }
      destruct G as (js & F1 & F2). exists (JArr js). rewrite F1. simpl. rewrite F2. auto. }
    split; [exact HA|split].
    + intros C F n pre post L j bs n' E. rewrite extract_arr in E.
      destruct (ex_list l n) as [[js bs0] n0] eqn:EL. inversion E; subst; clear E.
      rewrite rgen_arr. cbn [norm_b]. cbn [any_ok nofake] in C, F.
      assert (G : res_all (map (rgen (pre ++ bs ++ post)) js) = Ok (map norm_b l)).
      { clear HA. revert n pre post L js bs n' EL. induction H as [|x l Hx Hl IH]; intros n pre post L js bs n' EL.
        - inversion EL; subst. reflexivity.
        - simpl in C, F, EL. apply andb_true_iff in C as [C1 C2]. apply andb_true_iff in F as [F1 F2].
          pose proof (extract_count x n) as CN.
          destruct (extract x n) as [[j b1] n1] eqn:EX. destruct (ex_list l n1) as [[t b2] n2] eqn:ET.
          inversion EL; subst; clear EL. simpl in CN. cbn [map].
          replace (pre ++ (b1 ++ b2) ++ post) with (pre ++ b1 ++ (b2 ++ post)) by (now rewrite <- !app_assoc).
          rewrite (proj1 (proj2 Hx) C1 F1 n pre (b2 ++ post) L j b1 n1 EX). simpl.
          replace (pre ++ b1 ++ b2 ++ post) with ((pre ++ b1) ++ b2 ++ post) by (now rewrite <- !app_assoc).
          assert (L' : length (pre ++ b1) = N.to_nat n1) by (rewrite app_length; lia).
          erewrite IH; eauto. }
      rewrite G. reflexivity.
    + intros C F n pre post k L j bs n' E. cbn [any_ok_map] in C. apply Nat.eqb_eq in C.
      destruct (HA C n) as (j0 & E0 & P0). rewrite E in E0. inversion E0; subst.
      unfold entry_f. rewrite extract_arr in E. destruct (ex_list l n) as [[js b0] n0]. inversion E; subst.
      simpl is_ph. cbv iota. rewrite P0. reflexivity.
  - (* BObj *)
    assert (HA : A3 (BObj kvs)).
    { intros C n. rewrite extract_obj. rewrite norm_obj.
      assert (G : exists m, ex_obj kvs n = (m, [], n) /\ map pentry m = map nentry kvs).
      { revert n. induction H as [|[k x] l Hx Hl IH]; intros n; simpl in *; [eexists; split; reflexivity|].
        apply plus_zero in C as [C1 C2].
        destruct (proj1 Hx C1 n) as (j & E1 & E2). destruct (IH C2 n) as (js & F1 & F2).
        exists ((k, j) :: js). rewrite E1, F1. simpl. rewrite E2, F2. auto. }
      destruct G as (m & F1 & F2). exists (JObj m). rewrite F1. rewrite plain_obj, F2. auto. }
    (* the entries of a map, whichever way we got to the map *)
    assert (HM : forallb (fun kv => any_ok_map (snd kv)) kvs = true -> nofake (BObj kvs) = true ->
                 forall n pre post, length pre = N.to_nat n ->
                 forall j bs n', extract (BObj kvs) n = (j, bs, n') ->
                 rgen (pre ++ bs ++ post) j = Ok (norm_b (BObj kvs))).
    { intros C F n pre post L j bs n' E. rewrite extract_obj in E.
      destruct (ex_obj kvs n) as [[m bs0] n0] eqn:EL. inversion E; subst; clear E.
      rewrite rgen_obj, norm_obj. cbn [nofake] in F. apply andb_true_iff in F as [_ F].
      assert (G : res_all (map (entry_f (pre ++ bs ++ post)) m) = Ok (map nentry kvs)).
      { clear HA. revert n pre post L m bs n' EL. induction H as [|[k x] l Hx Hl IH]; intros n pre post L m bs n' EL.
        - inversion EL; subst. reflexivity.
        - simpl in C, F, EL, Hx. apply andb_true_iff in C as [C1 C2]. apply andb_true_iff in F as [F1 F2].
          pose proof (extract_count x n) as CN.
          destruct (extract x n) as [[j b1] n1] eqn:EX. destruct (ex_obj l n1) as [[t b2] n2] eqn:ET.
          inversion EL; subst; clear EL. simpl in CN. cbn [map].
          replace (pre ++ (b1 ++ b2) ++ post) with (pre ++ b1 ++ (b2 ++ post)) by (now rewrite <- !app_assoc).
          rewrite (proj2 (proj2 Hx) C1 F1 n pre (b2 ++ post) k L j b1 n1 EX). simpl.
          replace (pre ++ b1 ++ b2 ++ post) with ((pre ++ b1) ++ b2 ++ post) by (now rewrite <- !app_assoc).
          assert (L' : length (pre ++ b1) = N.to_nat n1) by (rewrite app_length; lia).
          erewrite IH; eauto. }
      rewrite G. reflexivity. }
    split; [exact HA|split].
    + intros C F. cbn [any_ok] in C. now apply HM.
    + intros C F n pre post k L j bs n' E. cbn [any_ok_map] in C.
      unfold entry_f.
      assert (IP : is_ph j = None).
      { rewrite extract_obj in E. pose proof (is_ph_extract kvs n) as IP.
        destruct (ex_obj kvs n) as [[m b0] n0]. inversion E; subst. apply IP.
        cbn [nofake] in F. apply andb_true_iff in F as [F _]. now apply negb_true_iff in F. }
      rewrite IP.
      assert (JO : exists m, j = JObj m).
      { rewrite extract_obj in E. destruct (ex_obj kvs n) as [[m b0] n0]. inversion E; subst. eauto. }
      destruct JO as (m & ->). rewrite (HM C F n pre post L _ _ _ E). reflexivity.
Qed.

(** * Typed parameters *)
Section TyInd.
  Variable P : ty -> Prop.
  Hypothesis Hany : P TAny.
  Hypothesis Hbool : P TBool.
  Hypothesis Hint : P TInt.
  Hypothesis Hstr : P TStr.
  Hypothesis Hbin : P TBin.
  Hypothesis Hptr : forall t, P t -> P (TPtr t).
  Hypothesis Hslice : forall t, P t -> P (TSlice t).
  Hypothesis Hstruct : forall fs, Forall (fun kt => P (snd kt)) fs -> P (TStruct fs).
  Hypothesis Hmap : P TMapAny.
  Fixpoint ty_ind' (t : ty) : P t :=
    match t with
    | TAny => Hany | TBool => Hbool | TInt => Hint | TStr => Hstr | TBin => Hbin
    | TPtr t' => Hptr t' (ty_ind' t')
    | TSlice t' => Hslice t' (ty_ind' t')
    | TStruct fs =>
      Hstruct fs ((fix go (l : list (bytes * ty)) : Forall (fun kt => P (snd kt)) l :=
                     match l with [] => Forall_nil _ | kt :: l' => Forall_cons _ (ty_ind' (snd kt)) (go l') end) fs)
    | TMapAny => Hmap
    end.
End TyInd.

Lemma view_null : forall t, view_ty t BNull = BNull.
Proof. induction t using ty_ind'; simpl; auto. Qed.

Lemma lookup_cons {A} k k1 (v1 : A) l :
  lookup k ((k1, v1) :: l) = if bytes_eqb k1 k then Some v1 else lookup k l.
Proof. unfold lookup. simpl. destruct (bytes_eqb k1 k); reflexivity. Qed.

Lemma lookup_in {A} (l : list (bytes * A)) k v :
  nodupb (map fst l) = true -> In (k, v) l -> lookup k l = Some v.
Proof.
  induction l as [|[k1 v1] l IH]; simpl; intros N I; [contradiction|].
  apply andb_true_iff in N as [N1 N2]. rewrite lookup_cons. destruct I as [I|I].
  - inversion I; subst. now rewrite bytes_eqb_refl.
  - destruct (bytes_eqb k1 k) eqn:E.
    + apply negb_true_iff in N1. exfalso.
      assert (X : existsb (bytes_eqb k1) (map fst l) = true).
      { apply existsb_exists. exists k. split; [|exact E]. apply in_map_iff. exists (k, v). auto. }
      rewrite X in N1. discriminate.
    + now apply IH.
Qed.

Section Typed.
  Variable marshal : jv -> bytes.

  Definition PT (t : ty) : Prop :=
    forall b, wtb t b = true -> ty_ok t b = true -> nofake b = true ->
    forall n pre post, length pre = N.to_nat n ->
    forall j bs n', extract b n = (j, bs, n') ->
    recon marshal (Some (pre ++ bs ++ post)) t j = Ok (view_ty t b).

  Definition fieldf (B : list bytes) (m : list (bytes * jv)) (kt : bytes * ty) : res (bytes * jb) :=
    let '(k, t') := kt in
    match lookup k m with
    | Some x => rbind (recon marshal (Some B) t' x) (fun r => Ok (k, r))
    | None => rbind (zero true t') (fun z => Ok (k, z))
    end.
  Lemma recon_struct B fs m :
    recon marshal (Some B) (TStruct fs) (JObj m) =
    rbind (res_all (map (fieldf B m) fs)) (fun r => Ok (BObj r)).
  Proof. reflexivity. Qed.
  Definition viewf (kvs : list (bytes * jb)) (kt : bytes * ty) : bytes * jb :=
    let '(k, t') := kt in (k, match lookup k kvs with Some x => view_ty t' x | None => BNull end).
  Lemma view_struct fs kvs : view_ty (TStruct fs) (BObj kvs) = BObj (map (viewf kvs) fs).
  Proof. reflexivity. Qed.

  Fixpoint wtgo (fs : list (bytes * ty)) (kvs : list (bytes * jb)) : bool :=
    match fs, kvs with
    | [], [] => true
    | (k, t') :: fs', (k2, x) :: kvs' => bytes_eqb k k2 && wtb t' x && wtgo fs' kvs'
    | _, _ => false
    end.
  Lemma wtb_struct fs kvs : wtb (TStruct fs) (BObj kvs) = nodupb (map fst fs) && wtgo fs kvs.
  Proof.
    reflexivity.
  Qed.
  Lemma wtgo_keys fs kvs : wtgo fs kvs = true -> map fst fs = map fst kvs.
  Proof.
    revert kvs. induction fs as [|[k t] fs IH]; intros [|[k2 x] kvs]; simpl; intros H; try discriminate; auto.
    apply andb_true_iff in H as [H H3]. apply andb_true_iff in H as [H H2].
    apply bytes_eqb_eq in H. subst. f_equal. auto.
  Qed.

  Lemma recon_all : forall t, PT t.
  Proof.
    induction t using ty_ind'; intros b Wt To Nf n pre post L j bs n' E.
    - (* TAny *) exact (proj1 (proj2 (any_all b)) To Nf n pre post L j bs n' E).
    - destruct b; try discriminate. inversion E; subst. reflexivity.
    - destruct b; try discriminate. inversion E; subst. reflexivity.
    - destruct b; try discriminate. inversion E; subst. reflexivity.
    - (* TBin *)
      destruct b; try discriminate. simpl in E. inversion E; subst.
      cbn [recon]. change (ph_num (ph_jv n)) with (Ok (A:=Z) (Z.of_N n)). cbn [rbind].
      cbn [app]. rewrite att_hit by exact L. reflexivity.
    - (* TPtr *)
      cbn [recon view_ty]. pose proof (extract_head b n) as EH. rewrite E in EH. simpl in EH.
      destruct b.
      1: { inversion E; subst. now rewrite view_null. }
      all: cbn [wtb ty_ok] in Wt, To;
        destruct j; try (eapply IHt; eauto; fail); discriminate EH.
    - (* TSlice *)
      destruct b; try discriminate.
      + inversion E; subst. reflexivity.
      + rewrite extract_arr in E. destruct (ex_list l n) as [[js bs0] n0] eqn:EL. inversion E; subst; clear E.
        cbn [recon view_ty]. cbn [wtb ty_ok nofake] in Wt, To, Nf.
        assert (G : res_all (map (recon marshal (Some (pre ++ bs ++ post)) t) js) = Ok (map (view_ty t) l)).
        { revert n pre post L js bs n' EL. induction l as [|x l IH]; intros n pre post L js bs n' EL.
          - inversion EL; subst. reflexivity.
          - simpl in Wt, To, Nf, EL. apply andb_true_iff in Wt as [W1 W2]. apply andb_true_iff in To as [T1 T2].
            apply andb_true_iff in Nf as [N1 N2].
            pose proof (extract_count x n) as CN.
            destruct (extract x n) as [[j b1] n1] eqn:EX. destruct (ex_list l n1) as [[tl b2] n2] eqn:ET.
            inversion EL; subst; clear EL. simpl in CN. cbn [map].
            replace (pre ++ (b1 ++ b2) ++ post) with (pre ++ b1 ++ (b2 ++ post)) by (now rewrite <- !app_assoc).
            rewrite (IHt x W1 T1 N1 n pre (b2 ++ post) L j b1 n1 EX). simpl.
            replace (pre ++ b1 ++ b2 ++ post) with ((pre ++ b1) ++ b2 ++ post) by (now rewrite <- !app_assoc).
            assert (L' : length (pre ++ b1) = N.to_nat n1) by (rewrite app_length; lia).
            erewrite IH; eauto. }
        rewrite G. reflexivity.
    - (* TStruct *)
      destruct b; try discriminate. rewrite wtb_struct in Wt. apply andb_true_iff in Wt as [ND WG].
      rewrite extract_obj in E. destruct (ex_obj kvs n) as [[m bs0] n0] eqn:EL. inversion E; subst; clear E.
      rewrite recon_struct, view_struct.
      pose proof (wtgo_keys _ _ WG) as KE.
      assert (NDk : nodupb (map fst kvs) = true) by now rewrite <- KE.
      assert (NDm : nodupb (map fst m) = true).
      { pose proof (ex_obj_keys kvs n) as K. rewrite EL in K. simpl in K. now rewrite K. }
      cbn [ty_ok] in To. cbn [nofake] in Nf. apply andb_true_iff in Nf as [_ Nf].
      assert (G : forall fs' kvs' n pre post m' bs n',
                 (exists fs0, fs = fs0 ++ fs') ->
                 wtgo fs' kvs' = true ->
                 (forall k x, In (k, x) kvs' -> lookup k kvs = Some x /\ nofake x = true) ->
                 length pre = N.to_nat n ->
                 ex_obj kvs' n = (m', bs, n') ->
                 (forall k j, In (k, j) m' -> lookup k m = Some j) ->
                 res_all (map (fieldf (pre ++ bs ++ post) m) fs') = Ok (map (viewf kvs) fs')).
      { clear n pre post L bs n' EL. induction fs' as [|[k t'] fs' IH];
          intros [|[k2 x] kvs'] n pre post m' bs n' Sfx WG' HK L EL HM; simpl in WG'; try discriminate.
        - reflexivity.
        - apply andb_true_iff in WG' as [WG' W3]. apply andb_true_iff in WG' as [W1 W2].
          apply bytes_eqb_eq in W1. subst k2. simpl in EL.
          pose proof (extract_count x n) as CN.
          destruct (extract x n) as [[j b1] n1] eqn:EX. destruct (ex_obj kvs' n1) as [[tl b2] n2] eqn:ET.
          inversion EL; subst; clear EL. simpl in CN. cbn [map].
          destruct (HK k x (or_introl eq_refl)) as [LK NX].
          unfold fieldf at 1, viewf at 1. rewrite (HM k j (or_introl eq_refl)), LK.
          destruct Sfx as (fs0 & Sfx).
          assert (PTt : PT t').
          { rewrite Forall_forall in H. apply (H (k, t')). rewrite Sfx. apply in_or_app. right. left. reflexivity. }
          assert (TOx : ty_ok t' x = true).
          { rewrite forallb_forall in To. specialize (To (k, t')). simpl in To. rewrite LK in To. apply To.
            rewrite Sfx. apply in_or_app. right. left. reflexivity. }
          replace (pre ++ (b1 ++ b2) ++ post) with (pre ++ b1 ++ (b2 ++ post)) by (now rewrite <- !app_assoc).
          rewrite (PTt x W2 TOx NX n pre (b2 ++ post) L j b1 n1 EX). cbn [rbind].
          replace (pre ++ b1 ++ b2 ++ post) with ((pre ++ b1) ++ b2 ++ post) by (now rewrite <- !app_assoc).
          assert (L' : length (pre ++ b1) = N.to_nat n1) by (rewrite app_length; lia).
          cbn [res_all rbind]. erewrite IH; eauto.
          + exists (fs0 ++ [(k, t')]). rewrite Sfx, <- app_assoc. reflexivity.
          + intros; apply HK; right; auto.
          + intros; apply HM; right; auto. }
      rewrite (G fs kvs n pre post m bs n'); auto.
      + exists []. reflexivity.
      + intros k x I. split; [apply lookup_in; auto|].
        rewrite forallb_forall in Nf. apply (Nf (k, x) I).
      + intros k j I. apply lookup_in; auto.
    - (* TMapAny *)
      destruct b; try discriminate.
      + inversion E; subst. reflexivity.
      + cbn [ty_ok] in To.
        assert (JO : exists m, j = JObj m).
        { rewrite extract_obj in E. destruct (ex_obj kvs n) as [[m b0] n0]. inversion E; subst. eauto. }
        destruct JO as (m & ->). cbn [recon view_ty].
        exact (proj1 (proj2 (any_all (BObj kvs))) To Nf n pre post L _ bs n' E).
  Qed.
End Typed.

(** * reconstruct after deconstruct *)
Section RD.
  Variable marshal : jv -> bytes.
  Variable unmarshal : bytes -> option jv.
  Hypothesis H1 : forall j, unmarshal (marshal j) = Some j.

  Theorem reconstruct_deconstruct st v n m bs n' t pre post :
    cleanb v = true -> msorted v = true -> wokp false 2 v = true ->
    dv marshal st v n = Ok (m, bs, n') ->
    wtb t (shape v) = true -> ty_ok t (shape v) = true -> nofake (shape v) = true ->
    length pre = N.to_nat n ->
    exists j, to_jv unmarshal (cur m) = Ok j /\
              recon marshal (Some (pre ++ bs ++ post)) t j = Ok (view_ty t (shape v)) /\
              bs = leaves (shape v) /\ n' = n + N.of_nat (length bs).
  Proof.
    intros C S W D Wt To Nf L.
    destruct (dv_spec marshal unmarshal H1 st v n m bs n' C S W D) as (j & J1 & J2 & J3 & J4).
    exists j. repeat split; auto. eapply recon_all; eauto.
  Qed.
End RD.

(** Without the side condition [ty_ok] the statement is false: a Binary received into a
    parameter of type [any] stays a placeholder map (finding any-handler-binary). *)
Lemma reconstruct_any_refuted :
  exists v m bs n', dv jprint true v 0 = Ok (m, bs, n') /\
    exists j, to_jv jparse (cur m) = Ok j /\
              recon jprint (Some bs) TAny j <> Ok (view_ty TAny (shape v)).
Proof.
  exists (VAny (VBin [1; 2])). eexists. eexists. eexists. split; [vm_compute; reflexivity|].
  eexists. split; [vm_compute; reflexivity|]. vm_compute. discriminate.
Qed.
