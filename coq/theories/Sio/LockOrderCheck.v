(** C16 - executable checks evaluated on every run on (a) the facts regenerated from the source
    tree by tools/lockclass and (b) what the instrumented mutexes observed while the generated
    concurrent programs ran against the real library. *)
From Coq Require Import List NArith Bool Lia.
Import ListNotations.
From SioV Require Import Sio.LockOrder Sio.LockOrderProofs.
Local Open Scope N_scope.

Definition edge_in (es : list (N * N)) (e : N * N) : bool :=
  existsb (fun x => (fst x =? fst e) && (snd x =? snd e)) es.

(** an observed nested acquisition respects the rank table *)
Definition edge_oracle (rk : list N) (e : N * N) : bool :=
  rank_of rk (fst e) <? rank_of rk (snd e).

(** ... and was predicted by the static may-hold graph *)
Definition edge_agree (es : list (N * N)) (e : N * N) : bool := edge_in es e.

(** A goroutine trace (cut at a point where it held nothing) is a thread of the model:
    the property evaluated on it = rank-respecting, user code entered with nothing held,
    nothing held at the end. *)
Definition trace := list (op ilock).

Definition trace_oracle (rk : list N) (t : trace) : bool :=
  ranked ilock ilock_eqb (irank rk) [] t && user_outside ilock ilock_eqb [] t.

Definition trace_agree (es : list (N * N)) (t : trace) : bool := conforms es [] t.

(** compact encoding used by the driver: (kind, class, instance); kind 0 = Lock, 1 = RLock / Once,
    2 = release, 3 = user code entered *)
Definition dec_op (x : N * N * N) : op ilock :=
  match x with
  | (0, c, i) => Acquire (c, i) Excl
  | (1, c, i) => Acquire (c, i) Shared
  | (2, c, i) => Release (c, i)
  | _ => CallUser
  end.
Definition dec_trace (l : list (N * N * N)) : trace := map dec_op l.

Lemma trace_agree_sound rk es t :
  edges_ranked rk es = true -> trace_agree es t = true ->
  ranked ilock ilock_eqb (irank rk) [] t = true.
Proof. intros E A. eapply conforms_ranked; eauto. Qed.

(** What the generated file LockFacts.v proves about its facts, packaged. *)
Definition facts_ok (f : facts) : bool := check_ranked f && check_no_leak f.

Theorem facts_ok_deadlock_free (f : facts) :
  facts_ok f = true ->
  forall grant, grants_free ilock ilock_eqb grant ->
  forall s0, (forall t, In t s0 -> held t = [] /\ conforms (f_edges f) [] (prog t) = true) ->
  forall s, reachable ilock ilock_eqb grant s0 s ->
  all_done ilock s = true \/ exists s', step ilock ilock_eqb grant s s'.
Proof.
  intros F grant GF. apply andb_prop in F. destruct F as [F _].
  now apply graph_no_deadlock.
Qed.
