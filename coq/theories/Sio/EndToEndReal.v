(** C01 composition over the REAL component models where their theorems exist today:

    - frames are Engine.IO packets (Eio/Packet.v); the websocket framing of a transport send is
      the real encoder/decoder of Eio/Codec.v, and its round trip is C11's theorems
      [packet_roundtrip_text] / [packet_roundtrip_binary] (not an assumption);
    - the cutting of the frame stream into transport sends is the real client batcher
      [write_writable] of Eio/Batcher.v; that it keeps the sequence is C13's [write_concat];
    - the Socket.IO codec and the handler registry stay section hypotheses (C09/C10's byte-level
      round trip and C18's registry theorem are stated over their own types). *)
From Coq Require Import List Bool Arith Lia Permutation NArith ZArith.
Import ListNotations.
From SioV Require Import Base.GoSem Eio.Packet Eio.Codec Eio.CodecProofs Eio.Payload Eio.PayloadProofs Eio.Batcher Eio.BatcherProofs.
From SioV Require Eio.Limits Eio.LimitsProofs.
From SioV Require Import Sio.EndToEnd.

(** a Socket.IO frame travels as an Engine.IO MESSAGE packet: text for the header frame, binary
    for an attachment (server_conn.go sendBuffers / client_socket.go _sendBuffers) *)
Definition msg_ok (p : packet) : Prop := p_type p = type_message.

(** one websocket message per packet: (is-binary-message, bytes) *)
Definition ws_pack (b : list packet) : list (bool * bytes) :=
  map (fun p => (p_binary p, encode_packet true p)) b.
Definition ws_unpack (u : list (bool * bytes)) : list packet :=
  flat_map (fun m => match decode_packet (fst m) (snd m) with Ok p => [p] | _ => [] end) u.

Lemma ws_roundtrip : forall b, Forall msg_ok b -> ws_unpack (ws_pack b) = b.
Proof.
  induction 1 as [|p b Hp _ IH]; [reflexivity|].
  unfold ws_pack, ws_unpack in *. simpl. rewrite IH. unfold msg_ok in Hp.
  destruct (p_binary p) eqn:Eb.
  - rewrite packet_roundtrip_binary by assumption. reflexivity.
  - rewrite packet_roundtrip_text; [reflexivity | assumption |].
    rewrite Hp. unfold type_message, type_max. lia.
Qed.

(** the receiver's decision on one send: every message within the read limit ([max <= 0]: none) *)
Definition ws_accepts (max : Z) (u : list (bool * bytes)) : bool :=
  forallb (fun m => (max <=? 0)%Z || (zlen (snd m) <=? max)%Z) u.

(** long-polling: one HTTP body per transport send, packets joined by the record separator,
    binary packets as 'b' + base64 (Eio/Payload.v) *)
Definition poll_pack (b : list packet) : bytes := encode_payload b.
Definition poll_unpack (u : bytes) : list packet :=
  match decode_payload u with Ok ps => ps | _ => [] end.
(** C11's precondition: data are bytes, and a text frame does not contain the separator 0x1e
    (encoding/json writes U+001E as an escape; a namespace containing the raw byte would break
    the payload format itself) *)
Definition poll_frame_ok (p : packet) : Prop :=
  packet_ok p = true /\ (p_binary p = false -> ~ In delim (p_data p)).

Lemma poll_roundtrip : forall b, Forall poll_frame_ok b -> poll_unpack (poll_pack b) = b.
Proof.
  intros b Hb. unfold poll_unpack, poll_pack. destruct b as [|p b].
  - destruct empty_payload_is_error as [-> ->]. reflexivity.
  - rewrite payload_roundtrip; [reflexivity | discriminate |].
    intros q Hq. rewrite Forall_forall in Hb. exact (Hb q Hq).
Qed.


(** ... and the same decision taken by C13's model of the code (Eio/Limits.v [decide], websocket,
    either direction): the server reads with its MaxBufferSize, the client with the maxPayload the
    handshake announced. *)
Definition ws_accepts_c13 (lc : Limits.cfg) (d : Limits.direction) (u : list (bool * bytes)) : bool :=
  forallb (fun m => Limits.o_accept (Limits.decide lc d Limits.WS (zlen (snd m)))) u.

(** every frame, as encoded for a websocket message, is within the limit announced in the handshake *)
Definition frames_within_announced (lc : Limits.cfg) (fs : list packet) : Prop :=
  Forall (fun p => LimitsProofs.within_announced lc (encoded_len true p)) fs.

Lemma ws_announced_accepted : forall lc d (b : list packet),
  frames_within_announced lc b -> ws_accepts_c13 lc d (ws_pack b) = true.
Proof.
  intros lc d b H. unfold ws_accepts_c13, ws_pack. rewrite forallb_forall. intros m Hm.
  apply in_map_iff in Hm as [p [<- Hp]]. simpl.
  unfold frames_within_announced in H. rewrite Forall_forall in H. specialize (H p Hp).
  rewrite encoded_len_exact.
  apply (LimitsProofs.within_limit_accepted lc d Limits.WS (encoded_len true p)); [|exact H].
  rewrite <- encoded_len_exact. apply zlen_nonneg.
Qed.

Lemma Forall_concat_parts : forall {X} (P : X -> Prop) (bs : list (list X)),
  Forall P (concat bs) -> Forall (Forall P) bs.
Proof.
  induction bs as [|b bs IH]; intros H; [constructor|].
  simpl in H. apply Forall_app in H as [H1 H2]. constructor; auto.
Qed.

Section RealTransport.
  Variables (name arg offset dstate : Type).
  Variable name_eqb : name -> name -> bool.
  Hypothesis name_eqb_eq : forall a b, name_eqb a b = true <-> a = b.
  Variable off_arg : offset -> arg.
  Variable enc : event name arg -> list packet.
  Variable d0 : dstate.
  Variable dec_step : dstate -> packet -> dstate * option (event name arg).
  Hypothesis codec_roundtrip : forall e, feed name arg packet dstate dec_step d0 (enc e) = (d0, [e]).
  Hypothesis enc_message_packets : forall e, Forall msg_ok (enc e).
  Variable hs : list (handler name).
  Hypothesis hids_distinct : NoDup (map (hid name) hs).

  Definition real_get_all (n : name) := filter (fun h => name_eqb (hname name h) n) hs.

  Definition real_deliveries (rmax : Z) :=
    deliveries name arg packet dstate d0 dec_step (list (bool * bytes)) ws_pack ws_unpack
               (ws_accepts rmax) (fun us => us) real_get_all.

  (** Websocket transport, real framing, real batcher: with the sends cut by [write_writable]
      (any maxPayload, either mode) nothing is lost, duplicated, altered or misrouted. *)
  Theorem real_ws_exactly_once :
    forall (c : cfg) (ems : list (list (event name arg * offset))) tr (maxp rmax : Z) polling,
      client_strips_offset c = false ->
      Interleave ems tr ->
      let frames := wire name arg offset off_arg packet enc c tr in
      let batches := write_writable maxp polling frames in
      within_limits packet (list (bool * bytes)) ws_pack (ws_accepts rmax) batches ->
      sig_matches name arg hs (map fst (concat ems)) ->
      forall h, In h hs ->
        Permutation (handed arg (hid name h) (real_deliveries rmax c batches))
                    (args_named name name_eqb arg (hname name h) (map fst (concat ems))).
  Proof.
    intros c ems tr maxp rmax polling Hs Hil frames batches Hl Hsig h Hh.
    pose proof (exactly_once_intact name name_eqb name_eqb_eq arg offset off_arg packet enc dstate d0
                  dec_step codec_roundtrip msg_ok enc_message_packets (list (bool * bytes)) ws_pack
                  ws_unpack ws_roundtrip (ws_accepts rmax) (fun us => us) (fun us => eq_refl)
                  hs real_get_all (fun n => eq_refl) hids_distinct c ems tr batches Hil
                  (write_concat maxp polling frames) Hl Hsig (handlers_ok_fixed name hs c Hs))
      as [_ [H _]].
    exact (proj2 (H h Hh)).
  Qed.
  (** Long-polling transport, real payload framing (C11_payload_roundtrip: several packets per
      HTTP body, base64 for binary), real batcher: same conclusion.  [enc_poll_frames_ok] is C11's
      precondition on what the Socket.IO codec emits (bytes; no raw 0x1e in text frames). *)
  Hypothesis enc_poll_frames_ok : forall e, Forall poll_frame_ok (enc e).

  Definition real_poll_deliveries (accepts : bytes -> bool) :=
    deliveries name arg packet dstate d0 dec_step bytes poll_pack poll_unpack
               accepts (fun us => us) real_get_all.

  Theorem real_polling_exactly_once :
    forall (c : cfg) (ems : list (list (event name arg * offset))) tr (maxp : Z) polling
           (accepts : bytes -> bool),
      client_strips_offset c = false ->
      Interleave ems tr ->
      let frames := wire name arg offset off_arg packet enc c tr in
      let batches := write_writable maxp polling frames in
      within_limits packet bytes poll_pack accepts batches ->
      sig_matches name arg hs (map fst (concat ems)) ->
      forall h, In h hs ->
        Permutation (handed arg (hid name h) (real_poll_deliveries accepts c batches))
                    (args_named name name_eqb arg (hname name h) (map fst (concat ems))).
  Proof.
    intros c ems tr maxp polling accepts Hs Hil frames batches Hl Hsig h Hh.
    pose proof (exactly_once_intact name name_eqb name_eqb_eq arg offset off_arg packet enc dstate d0
                  dec_step codec_roundtrip poll_frame_ok enc_poll_frames_ok bytes poll_pack
                  poll_unpack poll_roundtrip accepts (fun us => us) (fun us => eq_refl)
                  hs real_get_all (fun n => eq_refl) hids_distinct c ems tr batches Hil
                  (write_concat maxp polling frames) Hl Hsig (handlers_ok_fixed name hs c Hs))
      as [_ [H _]].
    exact (proj2 (H h Hh)).
  Qed.

  Definition real_deliveries_c13 (lc : Limits.cfg) (d : Limits.direction) :=
    deliveries name arg packet dstate d0 dec_step (list (bool * bytes)) ws_pack ws_unpack
               (ws_accepts_c13 lc d) (fun us => us) real_get_all.

  (** "Any size up to the limit announced in the handshake", websocket, both directions: if every
      frame of every emitted event fits the announced maxPayload (or the limit is disabled), the
      receiver's decision as modelled by C13 accepts every send the real batcher cuts, and every
      handler gets the events of its name exactly once, intact. *)
  Theorem real_ws_announced_limit :
    forall (lc : Limits.cfg) (d : Limits.direction) (c : cfg)
           (ems : list (list (event name arg * offset))) tr (maxp : Z) polling,
      client_strips_offset c = false ->
      Interleave ems tr ->
      let frames := wire name arg offset off_arg packet enc c tr in
      let batches := write_writable maxp polling frames in
      frames_within_announced lc frames ->
      sig_matches name arg hs (map fst (concat ems)) ->
      forall h, In h hs ->
        Permutation (handed arg (hid name h) (real_deliveries_c13 lc d c batches))
                    (args_named name name_eqb arg (hname name h) (map fst (concat ems))).
  Proof.
    intros lc d c ems tr maxp polling Hs Hil frames batches Hfr Hsig h Hh.
    assert (Hl : within_limits packet (list (bool * bytes)) ws_pack (ws_accepts_c13 lc d) batches).
    { unfold within_limits. apply Forall_forall. intros b Hb.
      apply ws_announced_accepted.
      assert (Hall : Forall (Forall (fun p => LimitsProofs.within_announced lc (encoded_len true p))) batches).
      { apply Forall_concat_parts. unfold batches. rewrite write_concat. exact Hfr. }
      rewrite Forall_forall in Hall. now apply Hall. }
    pose proof (exactly_once_intact name name_eqb name_eqb_eq arg offset off_arg packet enc dstate d0
                  dec_step codec_roundtrip msg_ok enc_message_packets (list (bool * bytes)) ws_pack
                  ws_unpack ws_roundtrip (ws_accepts_c13 lc d) (fun us => us) (fun us => eq_refl)
                  hs real_get_all (fun n => eq_refl) hids_distinct c ems tr batches Hil
                  (write_concat maxp polling frames) Hl Hsig (handlers_ok_fixed name hs c Hs))
      as [_ [H _]].
    exact (proj2 (H h Hh)).
  Qed.
End RealTransport.
