(** Executable comparison and oracle for the back-off correspondence (kernel evaluation).
    The jitter's float pipeline is replayed bit-exactly with Coq's primitive binary64 floats
    (computation only: no float lemma is used, nothing here enters the theorems). *)
From Coq Require Import Floats.
From SioV Require Import Base.GoSem Sio.Backoff.
Local Open Scope Z_scope.

(** float64(z) for an int64 z (round to nearest even). *)
Definition f_of_Z (z : Z) : float :=
  if z =? - two63 then PrimFloat.opp (PrimFloat.mul (PrimFloat.of_uint63 (Uint63.of_Z (2 ^ 62))) 2%float)
  else if z <? 0 then PrimFloat.opp (PrimFloat.of_uint63 (Uint63.of_Z (- z)))
  else PrimFloat.of_uint63 (Uint63.of_Z z).

(** math.Floor, then int64(...) of a finite float whose floor fits (always the case here). *)
Definition floor_Z (f : float) : Z :=
  match Prim2SF f with
  | S754_finite s m e =>
      let v := if s then Z.neg m else Z.pos m in
      if 0 <=? e then v * 2 ^ e else v / 2 ^ (- e)
  | _ => 0
  end.

Fixpoint halve (n : nat) (f : float) : float :=
  match n with O => f | S n' => halve n' (PrimFloat.mul f 0.5%float) end.

(** jitter as stored by newBackoff: float64(float32 jm/2^je) unless outside (0,1]. *)
Definition jitter_on (jm je : Z) : bool := (0 <? jm) && (jm <=? 2 ^ je).

(** Sign and deviation as computed by duration() for draw r = k/2^ke on the value ms. *)
Definition jitter_of (jm je k ke ms : Z) : option (bool * Z) :=
  if jitter_on jm je then
    let r := halve (Z.to_nat ke) (f_of_Z k) in
    let j := halve (Z.to_nat je) (f_of_Z jm) in
    let dev := floor_Z (PrimFloat.mul (PrimFloat.mul r j) (f_of_Z ms)) in
    let t := Z.land (floor_Z (PrimFloat.mul r 10%float)) 1 in
    Some (negb (t =? 0), dev)
  else None.

(** case: min max jm je attempts k ke conv, observed delay, observed counter afterwards *)
Definition bocase := (Z * Z * Z * Z * Z * Z * Z * Z * Z * Z)%type.

Definition model_delay (c : bocase) : Z :=
  let '(bmin, bmax, jm, je, att, k, ke, conv, _, _) := c in
  let ms := wrap64 (bmin * pow2_i64 conv att) in
  duration bmin bmax att conv (jitter_of jm je k ke ms).

Definition agree (c : bocase) : bool :=
  let '(_, _, _, _, att, _, _, _, d, after) := c in
  (model_delay c =? d) && (next_attempts att =? after).

(** The property on the implementation's observation alone. *)
Definition oracle (c : bocase) : bool :=
  let '(bmin, bmax, jm, je, att, k, ke, conv, d, after) := c in
  (* delays stay within (0, max] *)
  (if 0 <? bmax then (0 <? d) && (d <=? bmax) else true)
  (* and start from the configured delay *)
  && (if (att =? 0) && (0 <? bmin) && (0 <? bmax) then
        if jitter_on jm je then
          let slack := 2 + bmin / 2 ^ 50 in
          let lo := (bmin * (2 ^ je - jm)) / 2 ^ je - slack in
          let hi := (bmin * (2 ^ je + jm)) / 2 ^ je + slack in
          ((Z.min lo bmax <=? d) && (d <=? Z.min hi bmax)) || (d =? bmax)
        else d =? Z.min bmin bmax
      else true)
  (* without jitter: delay * 2^n capped, while that fits int64
     (nested ifs: vm_compute is call-by-value, 2^att must not be computed for a huge att) *)
  && (if negb (jitter_on jm je) && (0 <? bmin) && (0 <=? att) && (att <? 63)
      then (if bmin * 2 ^ att <? two63 then d =? Z.min (bmin * 2 ^ att) bmax else true)
      else true).

(** sequence case: min max conv, observed delays of attempts 0.., observed delay after reset *)
Definition seqcase := (Z * Z * Z * list Z * Z)%type.
Definition seq_agree (c : seqcase) : bool :=
  let '(bmin, bmax, conv, ds, r) := c in
  list_eqb Z.eqb (delays_from bmin bmax conv 0 (length ds)) ds
  && (duration bmin bmax bo_reset conv None =? r).
Fixpoint nondecreasing_until_cap (bmax : Z) (ds : list Z) : bool :=
  match ds with
  | a :: ((b :: _) as t) => ((a <=? b) || (a =? bmax)) && nondecreasing_until_cap bmax t
  | _ => true
  end.
Definition seq_oracle (c : seqcase) : bool :=
  let '(bmin, bmax, conv, ds, r) := c in
  forallb (fun d => (0 <? d) && (d <=? bmax)) ds
  && (match ds with d0 :: _ => (d0 =? Z.min bmin bmax) && (r =? d0) | [] => true end).
