(** Proofs about Sio/PacketQueuePark.v: over ALL schedules of the repaired client (any number of
    emitters, the CONNECT reply and its single flush anywhere, everything downstream interleaved),
    a packet is parked only while the flush is still to come; the stale-read variant is refuted. *)
From Coq Require Import List Bool Arith Lia.
From SioV Require Import Base.Conc Sio.Pipeline Sio.PipelineConn Sio.PacketQueuePark.
Import ListNotations.

Section ParkProofs.
  Context {data : Type}.
  Variable declared : data -> option nat.
  Variable max_atts : nat.
  Variable split : list (frame data) -> list (list (frame data)).
  Variable tr : transport.

  Notation fixstep := (kstep (cfix declared max_atts split tr)).
  Notation kreach := (kreachable (cfix declared max_atts split tr)).

  (** parked packets and buffered frames go together; after the flush nothing is parked. *)
  Record park_inv (k : kstate (data := data)) : Prop := {
    pi_frames : c_sendbuf (k_c k) = flat_map frames_of (map snd (c_parked (k_c k)));
    pi_flushed : k_flushed k = true -> c_connected (k_c k) = true /\ c_parked (k_c k) = []
  }.

  Lemma frames_nil (l : list (nat * spacket data)) :
    flat_map frames_of (map snd l) = [] -> l = [].
  Proof. destruct l as [|[i p] l]; [reflexivity|]. simpl. discriminate. Qed.

  Lemma sendbuf_nil_iff k : park_inv k -> (c_sendbuf (k_c k) = [] <-> c_parked (k_c k) = []).
  Proof.
    intros [F _]. split; intros H.
    - rewrite F in H. now apply frames_nil in H.
    - rewrite F, H. reflexivity.
  Qed.

  Lemma park_inv_inductive progs : inductive fixstep (fun k => k = kinit progs) park_inv.
  Proof.
    split.
    - intros k ->. constructor; simpl; [reflexivity | discriminate].
    - intros [c fl] a k' I St. pose proof (sendbuf_nil_iff _ I) as NI. destruct I as [F FL]. simpl in *.
      destruct a as [a|]; simpl in St.
      + destruct a as [i|i| | |b]; simpl in St; try discriminate.
        * (* CEmit *)
          destruct (nth_error (st_em (c_base c)) i) as [[|p rest]|]; try discriminate.
          destruct (c_connected c && match c_sendbuf c with [] => true | _ :: _ => false end) eqn:G;
            inversion St; subst; clear St; constructor; simpl; auto.
          -- intros FT. destruct (FL FT) as [_ Pk]. auto.
          -- rewrite map_app, flat_map_app, <- F. simpl. now rewrite app_nil_r.
          -- intros FT. destruct (FL FT) as [Cn Pk]. apply NI in Pk. rewrite Cn, Pk in G. discriminate.
        * (* CConnected *)
          destruct (c_connected c) eqn:Cn; [discriminate|]. inversion St; subst; clear St.
          constructor; simpl; auto. intros FT. destruct (FL FT) as [X _]. congruence.
        * (* CBase *)
          destruct b; try discriminate;
            match type of St with context [step ?d ?m ?s ?t ?x ?y] => destruct (step d m s t x y) end;
            try discriminate; inversion St; subst; clear St; constructor; simpl; auto.
      + (* KFlush *)
        destruct (c_connected c) eqn:Cn; [|discriminate]. destruct fl; [discriminate|]. simpl in St.
        inversion St; subst; clear St. unfold cfix, cstep_fix, cstep; simpl; rewrite ?Cn.
        destruct (c_parked c) eqn:P; constructor; simpl; auto.
        rewrite P. exact F.
  Qed.

  Theorem park_invariant progs k : kreach progs k -> park_inv k.
  Proof. apply invariant_reachable, park_inv_inductive. Qed.

  (** C19 over the park stage: a packet sits in sendBuffer of a CONNECTED socket only while the
      flush of onConnect is still to come; that flush is enabled and hands every parked packet,
      in order, to the connection's packet queue in one step. *)
  Theorem park_flush_pending progs k :
    kreach progs k -> c_connected (k_c k) = true -> c_parked (k_c k) <> [] ->
    k_flushed k = false /\
    exists k', fixstep KFlush k = Some k' /\
      c_parked (k_c k') = [] /\ c_sendbuf (k_c k') = [] /\
      st_log (c_base (k_c k')) = st_log (c_base (k_c k)) ++ c_parked (k_c k).
  Proof.
    intros R Cn NE. pose proof (park_invariant _ _ R) as [F FL].
    assert (k_flushed k = false) as NF.
    { destruct (k_flushed k) eqn:X; [|reflexivity]. destruct (FL eq_refl) as [_ P]. contradiction. }
    split; [exact NF|]. destruct k as [c fl]; simpl in *. subst fl. rewrite Cn. simpl.
    unfold cfix, cstep_fix, cstep; simpl; rewrite ?Cn.
    destruct (c_parked c) eqn:P; [contradiction|].
    eexists. split; [reflexivity|]. simpl. auto.
  Qed.

  (** Once the flush has happened nothing is parked, ever: no packet is stranded behind it. *)
  Theorem park_none_stranded progs k :
    kreach progs k -> k_flushed k = true -> c_parked (k_c k) = [] /\ c_sendbuf (k_c k) = [].
  Proof.
    intros R FT. pose proof (park_invariant _ _ R) as I. destruct (pi_flushed _ I FT) as [_ P].
    split; [exact P | now apply (sendbuf_nil_iff _ I)].
  Qed.

  (** ... and every emit after the flush goes straight to the packet queue. *)
  Theorem park_emit_after_flush_is_sent progs k i k' :
    kreach progs k -> k_flushed k = true -> fixstep (KAct (CEmit i)) k = Some k' ->
    exists p, st_log (c_base (k_c k')) = st_log (c_base (k_c k)) ++ [(i, p)] /\ c_parked (k_c k') = [].
  Proof.
    intros R FT St. pose proof (park_invariant _ _ R) as I.
    destruct (pi_flushed _ I FT) as [Cn P]. pose proof (proj2 (sendbuf_nil_iff _ I) P) as SB.
    destruct k as [c fl]; simpl in *.
    destruct (nth_error (st_em (c_base c)) i) as [[|p rest]|]; try discriminate.
    rewrite Cn, SB in St. simpl in St. inversion St; subst; clear St. simpl. eauto.
  Qed.
End ParkProofs.

(** * The stale-read variant strands a packet *)

(** One emitter with two packets.  The emit of packet 1 samples "not connected"; the CONNECT
    reply arrives and its flush runs (nothing parked); the emit then parks packet 1: connected,
    flush over, packet parked - no step of the system flushes it, and the next emit parks behind
    it instead of being sent. *)
Definition p1 : spacket nat := mkSP 1 [].
Definition p2 : spacket nat := mkSP 2 [].
Definition stale_progs : list (list (spacket nat)) := [[p1; p2]].
Definition stale_schedule : list kaction :=
  [KAct CConnected; KFlush; KAct (CParkStale 0)].

Definition kstale := kstep (cstale (fun _ : nat => Some 0) 0 (fun b => [b]) WS).

Theorem stale_read_strands_packet :
  exists k, exec_opt kstale stale_schedule (kinit stale_progs) = Some k /\
    c_connected (k_c k) = true /\ k_flushed k = true /\ map snd (c_parked (k_c k)) = [p1] /\
    kstale KFlush k = None /\
    exists k', kstale (KAct (CEmit 0)) k = Some k' /\ map snd (c_parked (k_c k')) = [p1; p2] /\
               st_log (c_base (k_c k')) = [].
Proof.
  eexists. split; [vm_compute; reflexivity|]. repeat split.
  eexists. split; [vm_compute; reflexivity|]. split; reflexivity.
Qed.
