(** C16 - lock discipline of the library as a transition system.

    A lock is an *instance* (one mutex of one object); its *class* is the struct field / local
    variable / sync.Once it is declared as (what [tools/lockclass] and the instrumented go-deadlock
    copy report).  A rank is given per class; several instances of one class share the rank, so
    holding one while requesting another of the same class does NOT respect the ranks (it is the
    classical AB/BA hazard between two sockets).

    A [sync.Once] is a lock: it is held for the whole body of [Do], a second [Do] blocks until the
    first returns, and re-entering it from the body is a self-deadlock.  An [RWMutex] is a lock
    with two acquisition modes; the theorems hold for *every* grant policy that grants a free lock
    (plain mutex, reader/writer with or without writer preference), because the proof only uses:
    "a request that is not granted is for a lock somebody holds".

    Threads are straight-line programs (one per goroutine *path*: the theorems quantify over all
    programs, hence over all paths): [Acquire l m | Release l | CallUser].  Operations issued from
    inside a handler are simply the continuation of the program after [CallUser]. *)
From Coq Require Import List NArith Bool Lia.
Import ListNotations.
Local Open Scope N_scope.

Inductive mode := Excl | Shared.

Section Model.
  Variable lock : Type.
  Variable lock_eqb : lock -> lock -> bool.

  Inductive op :=
  | Acquire (l : lock) (m : mode)
  | Release (l : lock)
  | CallUser.

  Record thread := mkThread { held : list lock; prog : list op }.
  Definition state := list thread.

  Definition mem (l : lock) (h : list lock) : bool := existsb (lock_eqb l) h.

  Fixpoint remove1 (l : lock) (h : list lock) : list lock :=
    match h with
    | [] => []
    | x :: h' => if lock_eqb l x then h' else x :: remove1 l h'
    end.

  (** Grant policy: may a request for [l] in mode [m] be granted in state [s]? *)
  Variable grant : state -> lock -> mode -> bool.

  Definition nobody_holds (s : state) (l : lock) : bool :=
    forallb (fun t => negb (mem l (held t))) s.

  Definition can_step (s : state) (t : thread) : bool :=
    match prog t with
    | [] => false
    | Acquire l m :: _ => grant s l m
    | Release l :: _ => mem l (held t)
    | CallUser :: _ => true
    end.

  Definition next (t : thread) : thread :=
    match prog t with
    | [] => t
    | Acquire l _ :: p => mkThread (l :: held t) p
    | Release l :: p => mkThread (remove1 l (held t)) p
    | CallUser :: p => mkThread (held t) p
    end.

  (** One thread takes one step; the others are untouched. *)
  Inductive step : state -> state -> Prop :=
  | step_intro s1 t s2 :
      can_step (s1 ++ t :: s2) t = true ->
      step (s1 ++ t :: s2) (s1 ++ next t :: s2).

  Inductive reachable (s0 : state) : state -> Prop :=
  | reach_refl : reachable s0 s0
  | reach_step s s' : reachable s0 s -> step s s' -> reachable s0 s'.

  Definition finished (t : thread) : bool := match prog t with [] => true | _ => false end.
  Definition all_done (s : state) : bool := forallb finished s.

  (** A deadlock: somebody is not finished and nobody can move. *)
  Definition deadlocked (s : state) : Prop :=
    all_done s = false /\ forall s', ~ step s s'.

  (** ** The discipline (all executable) *)
  Variable rank : lock -> N.

  (** [ranked h p]: running [p] with [h] held, every acquisition is for a lock ranked strictly
      above everything held, only held locks are released, and nothing is held at the end. *)
  Fixpoint ranked (h : list lock) (p : list op) : bool :=
    match p with
    | [] => match h with [] => true | _ => false end
    | Acquire l _ :: p' => forallb (fun x => rank x <? rank l) h && ranked (l :: h) p'
    | Release l :: p' => mem l h && ranked (remove1 l h) p'
    | CallUser :: p' => ranked h p'
    end.

  (** [user_outside h p]: every call into user code happens with nothing held. *)
  Fixpoint user_outside (h : list lock) (p : list op) : bool :=
    match p with
    | [] => true
    | Acquire l _ :: p' => user_outside (l :: h) p'
    | Release l :: p' => user_outside (remove1 l h) p'
    | CallUser :: p' => match h with [] => user_outside h p' | _ => false end
    end.

  (** held set after running a program alone *)
  Fixpoint run_held (h : list lock) (p : list op) : list lock :=
    match p with
    | [] => h
    | Acquire l _ :: p' => run_held (l :: h) p'
    | Release l :: p' => run_held (remove1 l h) p'
    | CallUser :: p' => run_held h p'
    end.

  Definition initial (s : state) : Prop :=
    forall t, In t s -> held t = [] /\ ranked [] (prog t) = true.

  Definition inv (s : state) : Prop :=
    forall t, In t s -> ranked (held t) (prog t) = true.
End Model.

Arguments Acquire {lock}.
Arguments Release {lock}.
Arguments CallUser {lock}.
Arguments mkThread {lock}.
Arguments held {lock}.
Arguments prog {lock}.

(** ** Concrete grant policies *)
Section Policies.
  Variable lock : Type.
  Variable lock_eqb : lock -> lock -> bool.

  (** plain mutex / Once / RWMutex treated as exclusive: granted iff nobody holds it *)
  Definition grant_excl (s : state lock) (l : lock) (_ : mode) : bool :=
    nobody_holds lock lock_eqb s l.

  (** Reader/writer locks: the theorems are stated for an arbitrary [grant] that grants every
      free lock ([grants_free] in LockOrderProofs), which covers sync.RWMutex under any
      reader/writer arbitration, including Go's writer preference (a reader refused because a
      writer waits: that writer waits because somebody holds the lock). *)
End Policies.

(** ** Facts regenerated from the source tree ([tools/lockclass]) and from traced runs

    Classes are numbered; [f_rank] is a certificate (any numbering under which every edge goes
    strictly upwards) produced outside Coq and *checked* here. *)
Inductive ucat := UHandler | UMiddleware | UConfig | UInternal.

Record facts := mkFacts {
  f_nclasses : N;
  f_rank : list N;                        (* class id -> rank (position = class id) *)
  f_edges : list (N * N);                 (* static may-hold-while-acquiring: held class, acquired class *)
  f_user : list (ucat * list N);          (* user-call sites: category, classes possibly held *)
  f_leaks : list (bool * list N)          (* function: exported?, classes possibly held at return *)
}.

Definition rank_of (rk : list N) (c : N) : N := nth (N.to_nat c) rk 0.

Definition edges_ranked (rk : list N) (es : list (N * N)) : bool :=
  forallb (fun e => rank_of rk (fst e) <? rank_of rk (snd e)) es.

Definition check_ranked (f : facts) : bool :=
  (N.of_nat (length (f_rank f)) =? f_nclasses f) &&
  forallb (fun e => (fst e <? f_nclasses f) && (snd e <? f_nclasses f)) (f_edges f) &&
  edges_ranked (f_rank f) (f_edges f).

Definition is_nil {A} (l : list A) : bool := match l with [] => true | _ => false end.

(** user handlers (event, ack, lifecycle) are entered with nothing held *)
Definition check_user_outside (f : facts) : bool :=
  forallb (fun u => match fst u with UHandler => is_nil (snd u) | _ => true end) (f_user f).

(** stricter: middlewares too *)
Definition check_user_outside_strict (f : facts) : bool :=
  forallb (fun u => match fst u with UHandler | UMiddleware => is_nil (snd u) | _ => true end) (f_user f).

(** no exported function returns with a lock it took *)
Definition check_no_leak (f : facts) : bool :=
  forallb (fun x => negb (fst x) || is_nil (snd x)) (f_leaks f).

(** Instances are pairs (class, object number). *)
Definition ilock := (N * N)%type.
Definition ilock_eqb (a b : ilock) : bool := (fst a =? fst b) && (snd a =? snd b).
Definition irank (rk : list N) (l : ilock) : N := rank_of rk (fst l).

(** A program conforms to an edge set when every nested acquisition it makes is an edge. *)
Fixpoint conforms (es : list (N * N)) (h : list ilock) (p : list (op ilock)) : bool :=
  match p with
  | [] => is_nil h
  | Acquire l _ :: p' =>
      forallb (fun x => existsb (fun e => (fst e =? fst x) && (snd e =? fst l)) es) h
      && conforms es (l :: h) p'
  | Release l :: p' => mem ilock ilock_eqb l h && conforms es (remove1 ilock ilock_eqb l h) p'
  | CallUser :: p' => conforms es h p'
  end.
