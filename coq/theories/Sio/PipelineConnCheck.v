(** Checkers for the connect-race histories (client -> raw server, emits before / across / right
    after the CONNECT reply), evaluated by the kernel on what the live rig records.

    [ccase] = (transport, complete, per-emitter packets, observed wire, observed finished, K) where K
    is how many packets the harness knows were emitted before it released the CONNECT reply.

    [conn_class]  0: the full property holds on the observation (frames of whole packets, per-emitter
                     order, reference decoder finished exactly those packets with their own attachments);
                  1: frames contiguous, every packet exactly once, decoder fine - ONLY the per-emitter
                     order is broken (finding class connect-window-order, see Props/C02.v);
                  2: anything else (frames interleaved, lost, duplicated, decoder mismatch).
    [agree_conn]  the observation is a behaviour of Sio/PipelineConn.v: a schedule is guessed
                  (park a block, connect, window emits, ONE flush, drain; the rest directly), run
                  strictly, and the model's wire / finished / parser are compared. *)
From SioV Require Import Base.Conc Sio.Pipeline Sio.PipelineCheck Sio.PipelineConn.

Section ConnCheck.
  Context {data : Type}.
  Variable deqb : data -> data -> bool.
  Variable declared : data -> option nat.

  Definition ccase := (@gcase data * nat)%type.

  (** every packet as a sequence of its own: decomposition into whole packets in ANY order *)
  Definition singletons (progs : list (list (spacket data))) : list (list (spacket data)) :=
    map (fun p => [p]) (concat progs).

  Fixpoint tags_from (e : nat) (progs : list (list (spacket data))) : list (nat * nat) :=
    match progs with
    | [] => []
    | l :: progs' => map (fun s => (e, s)) (seq 0 (length l)) ++ tags_from (S e) progs'
    end.

  (** the packets on the wire as (emitter, seq), if the MESSAGE frames are whole packets, each of
      the emitted packets at most once *)
  Definition wire_packets (progs : list (list (spacket data))) (w : list (epkt data))
    : option (list (nat * nat) * bool) :=
    let fr := msgs w in
    match check_wire deqb (length fr) (singletons progs) fr with
    | Some (order, rem) =>
        let tg := tags_from 0 progs in
        Some (map (fun k => nth k tg (0, 0)) order, all_nil rem)
    | None => None
    end.

  Definition fin_of (progs : list (list (spacket data))) (t : nat * nat) : nat * nat * list data :=
    (fst t, snd t, match nth_error (nth (fst t) progs []) (snd t) with
                   | Some p => sp_atts p | None => [] end).

  Definition conn_class (c : ccase) : N :=
    let '((tr, complete, progs, w, fin), _) := c in
    if oracle_wire_g deqb (tr, complete, progs, w, fin) then 0%N
    else match wire_packets progs w with
         | Some (pk, allthere) =>
             if (if complete then allthere else true)
                && list_eqb (fin_eqb deqb) fin (map (fin_of progs) pk)
             then 1%N else 2%N
         | None => 2%N
         end.

  (** is there, before position of this packet, a packet of the same emitter with a larger seq? *)
  Fixpoint overtaken_flags (seen : list (nat * nat)) (pk : list (nat * nat)) : list bool :=
    match pk with
    | [] => []
    | (e, s) :: pk' =>
        existsb (fun t => Nat.eqb (fst t) e && Nat.ltb s (snd t)) seen
          :: overtaken_flags ((e, s) :: seen) pk'
    end.

  Fixpoint first_true (l : list bool) : option nat :=
    match l with
    | [] => None
    | true :: _ => Some 0
    | false :: l' => match first_true l' with Some k => Some (S k) | None => None end
    end.

  Definition last_true_end (l : list bool) : nat :=
    match first_true (rev l) with Some k => length l - k | None => 0 end.

  Definition nframes (progs : list (list (spacket data))) (t : nat * nat) : nat :=
    match nth_error (nth (fst t) progs []) (snd t) with
    | Some p => S (length (sp_atts p)) | None => 1 end.

  Definition sends (tr : transport) (progs : list (list (spacket data))) (pk : list (nat * nat))
    : list caction :=
    match tr with
    | WS => repeat (CBase DrSend) (fold_right (fun t a => nframes progs t + a) 0 pk)
    | _ => [CBase DrSend]
    end.

  Definition explain_conn (c : ccase) : option (list caction) :=
    let '((tr, complete, progs, w, fin), k) := c in
    match wire_packets progs w with
    | None => None
    | Some (pk, _) =>
        let fl := overtaken_flags [] pk in
        let '(f, g) := match first_true fl with
                       | Some f => (f, last_true_end fl)
                       | None => (0, Nat.min k (length pk))
                       end in
        let window := firstn f pk in
        let parked := firstn (g - f) (skipn f pk) in
        let rest := skipn g pk in
        let em l := map (fun t => CEmit (fst t)) l in
        Some (em parked ++ [CConnected] ++ em window
                 ++ (match parked with [] => [] | _ => [CFlush] end)
                 ++ (match window ++ parked with
                     | [] => []
                     | _ => CBase DrGet :: sends tr progs (window ++ parked)
                     end)
                 ++ flat_map (fun t => CEmit (fst t) :: CBase DrGet :: sends tr progs [t]) rest
                 ++ repeat (CBase Recv) (length w))
    end.

  Definition agree_conn (c : ccase) : bool :=
    let '((tr, complete, progs, w, fin), k) := c in
    match explain_conn c with
    | Some sched =>
        match crun_fix_opt declared 0 no_split tr sched progs with
        | Some cs =>
            let s := c_base cs in
            list_eqb (epkt_eqb deqb) (st_wire s) w
            && negb (st_rerr s)
            && fin_matches deqb progs fin (st_finished s)
            && (if complete
                then all_nil (st_em s) && match st_parser s with None => true | _ => false end
                     && match c_sendbuf cs with [] => true | _ => false end
                else true)
        | None => false
        end
    | None => false
    end.

  Definition conn_verdict (c : ccase) : N * bool :=
    let k := conn_class c in (k, if (k =? 2)%N then true else agree_conn c).
End ConnCheck.

(** on interned frames *)
Definition iccase := @ccase N.
Definition conn_verdict_i (c : iccase) : N * bool :=
  let '((_, _, progs, _, _), _) := c in conn_verdict N.eqb (declared_tbl (concat progs)) c.
