(** Executable comparison and oracle for the offline-buffer rig (kernel evaluation). *)
From SioV Require Import Base.GoSem Sio.OfflineBuffer.

(** wire item as the raw server saw it: kind (0 CONNECT, 1 event frame, 2 ACK, other = unexpected),
    label, frame index, ack id *)
Definition witem := (N * N * nat * option N)%type.
(** per operation: wire items in arrival order, handler calls in invocation order *)
Definition opobs := (list witem * list (N * nat))%type.
Definition ocase := (list op * list opobs)%type.

Definition wire_of (o : out) : list witem :=
  match o with
  | OConnect => [(0, 0, 0%nat, None)]
  | OFrame l i a => [(1, l, i, a)]
  | OAck a => [(2, 0, 0%nat, Some a)]
  | OCall _ _ => []
  end%N.

Definition optN_eqb (a b : option N) : bool :=
  match a, b with Some x, Some y => N.eqb x y | None, None => true | _, _ => false end.
Definition witem_eqb (a b : witem) : bool :=
  let '(k1, l1, i1, a1) := a in let '(k2, l2, i2, a2) := b in
  N.eqb k1 k2 && N.eqb l1 l2 && Nat.eqb i1 i2 && optN_eqb a1 a2.
Definition call_eqb (a b : N * nat) : bool := N.eqb (fst a) (fst b) && Nat.eqb (snd a) (snd b).

(** the rig stops at the first operation whose effect did not show up: compare what was recorded *)
Fixpoint agree_ops (outs : list (list out)) (obs : list opobs) : bool :=
  match obs, outs with
  | [], _ => true
  | (w, c) :: obs', o :: outs' =>
      list_eqb witem_eqb (flat_map wire_of o) w && list_eqb call_eqb (calls o) c && agree_ops outs' obs'
  | _ :: _, [] => false
  end.

Definition agree (c : ocase) : bool :=
  let '(h, obs) := c in
  Nat.eqb (length obs) (length h) && agree_ops (run_per_op init h) obs.

(** The property on the observation alone. *)
Definition obs_frames (obs : list opobs) : list (N * nat) :=
  flat_map (fun '(w, _) => flat_map (fun '(k, l, i, _) => if N.eqb k 1 then [(l, i)] else []) w) obs.
Definition obs_calls (obs : list opobs) : list (N * nat) := flat_map snd obs.

Fixpoint is_prefix (a b : list (N * nat)) : bool :=
  match a, b with
  | [], _ => true
  | x :: a', y :: b' => call_eqb x y && is_prefix a' b'
  | _, [] => false
  end.

Definition final_state (h : list op) : cstate := fold_left lifecycle h Disconnected.

(** frames handed over while an emit is made in a state other than Connected *)
Fixpoint silent_offline (c : cstate) (h : list op) (obs : list opobs) : bool :=
  match h, obs with
  | o :: h', (w, _) :: obs' =>
      (match o with
       | Emit _ _ _ _ => if is_conn c then true else Nat.eqb (length w) 0
       | _ => true
       end) && silent_offline (lifecycle c o) h' obs'
  | _, _ => true
  end.

Definition oracle (c : ocase) : bool :=
  let '(h, obs) := c in
  let fr := obs_frames obs in
  let want := entitled Disconnected 0 h in
  let cl := obs_calls obs in
  let wantc := entitled_calls h in
  Nat.eqb (length obs) (length h)
  (* whole packets only: nothing reaches the server that is not a CONNECT, a frame of an event packet
     that follows its header, or an ACK (kind 8 = attachment without a header, 9 = unknown) *)
  && forallb (fun '(w, _) => forallb (fun '(k, _, _, _) => (k <=? 2)%N) w) obs
  (* exactly once, in order, contiguous: the delivered frames are the entitled ones, all of them once
     the history ends connected, a prefix of them (the rest is parked) otherwise; volatile emits made
     while not connected are not among the entitled ones *)
  && (if is_conn (final_state h) then list_eqb call_eqb fr want else is_prefix fr want)
  (* nothing leaves the client for an emit made while not connected *)
  && silent_offline Disconnected h obs
  (* events received before the reply: every handler once, in order *)
  && (if is_conn (final_state h) then list_eqb call_eqb cl wantc else is_prefix cl wantc).
