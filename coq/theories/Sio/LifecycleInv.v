(** Sio/LifecycleInv.v - the exhaustive exploration of the control system of Sio/Lifecycle.v (C06).

    Control theorems: the control system [cstep] is finite-state.  [reach_tree] (an untrusted
    search) computes a set of control states; [reach_ok] checks BY KERNEL EVALUATION that it contains
    the initial state, is closed under every action, and that a conjunction of boolean properties
    holds on each of its states.  [LifecycleReach.closed_exec] then gives the properties after EVERY
    schedule, i.e. for every subset of causes and every interleaving.
    Reason theorems: by induction over the schedule, using per-step facts that are also checked on
    every reachable control state. *)
From SioV Require Import Base.GoSem Base.Conc Sio.Lifecycle Sio.LifecycleReach.
Local Open Scope N_scope.

(** ** Keys of control states *)
Definition b2n (b : bool) : N := if b then 1 else 0.
Definition key (s : ctl) : list N :=
  [e_once s; e_pc s; b2n (in_store s);
   c_once s; c_pc s; b2n (c_closed s); b2n (c_snap s); b2n (in_csock s); b2n (c_nsps s);
   s_once s; s_pc s; b2n (connected s); b2n (in_nsp s); b2n (own_room s);
   a_pc s; h_pc s; p_sd1 s; b2n (sd1_snap s); p_srv s; b2n (cc_pending s);
   n_discing s; n_disc s; b2n (discing_first s); nh_disc s; b2n (ever_conn s); b2n (g_burnt s)].
Definition hash (l : list N) : N := fold_left (fun h x => h * 5 + x) l 7.
Definition hkey (s : ctl) : list N := let k := key s in hash k :: k.

Fixpoint lcmp (a b : list N) : comparison :=
  match a, b with
  | [], [] => Eq | [], _ => Lt | _, [] => Gt
  | x :: a', y :: b' => match N.compare x y with Eq => lcmp a' b' | c => c end
  end.
Definition leqb (a b : list N) : bool := match lcmp a b with Eq => true | _ => false end.

Lemma lcmp_eq : forall a b, lcmp a b = Eq -> a = b.
Proof.
  induction a as [|x a IH]; intros [|y b]; simpl; try discriminate; auto.
  destruct (N.compare x y) eqn:E; try discriminate.
  apply N.compare_eq in E. subst. intros H. f_equal. now apply IH.
Qed.
Lemma leqb_eq : forall a b, leqb a b = true -> a = b.
Proof. unfold leqb. intros a b H. apply lcmp_eq. destruct (lcmp a b); [reflexivity|discriminate|discriminate]. Qed.

Lemma b2n_inj : forall a b, b2n a = b2n b -> a = b.
Proof. intros [] []; simpl; intros H; try reflexivity; discriminate. Qed.

Lemma key_inj : forall x y, key x = key y -> x = y.
Proof.
  intros x y H. unfold key in H. destruct x, y; simpl in H.
  repeat match goal with
         | H : _ :: _ = _ :: _ |- _ =>
             let E := fresh "E" in
             assert (E := f_equal (@hd N 0) H); simpl in E;
             apply (f_equal (@tl N)) in H; simpl in H;
             try apply b2n_inj in E; subst
         end.
  reflexivity.
Qed.

Lemma hkey_inj : forall x y, hkey x = hkey y -> x = y.
Proof.
  intros x y H. apply key_inj. apply (f_equal (@tl N)) in H. exact H.
Qed.

(** ** The control system and its reachable set *)
Definition cstep' (k : cfg) (a : act) (c : ctl) : option ctl := option_map fst (cstep k a c).

Definition reach_tree (k : cfg) : tree ctl (list N) :=
  bfs (cstep' k) all_acts hkey lcmp 400 [cinit] (tins hkey lcmp cinit Leaf).

(** control projection of a run of the full system = run of the control system, by construction *)
Lemma apply_rops_ctl ops : forall s, ctl_of (fold_left apply_rop ops s) = ctl_of s.
Proof. induction ops as [|o ops IH]; intros s; simpl; [reflexivity|]. rewrite IH. now destruct o. Qed.

Lemma ctl_step_skip k s a :
  ctl_of (step_skip (step k) s a) = step_skip (cstep' k) (ctl_of s) a.
Proof.
  unfold step_skip, step, cstep'. destruct (cstep k a (ctl_of s)) as [[c' ops]|]; simpl; [|reflexivity].
  now rewrite apply_rops_ctl.
Qed.

Lemma ctl_exec k sched : forall s, ctl_of (exec (step k) sched s) = exec (cstep' k) sched (ctl_of s).
Proof.
  induction sched as [|a sched IH]; intros s; [reflexivity|].
  rewrite !exec_cons, IH, ctl_step_skip. reflexivity.
Qed.

(** ** The properties checked on every reachable control state *)
Definition implb' (a b : bool) : bool := negb a || b.

(** at most once, never for a socket that did not connect, disconnecting before disconnect *)
Definition p_once (c : ctl) : bool :=
  (n_disc c <=? 1) && (n_discing c <=? 1) && (nh_disc c <=? n_disc c)
  && implb' (negb (ever_conn c)) ((n_disc c =? 0) && (n_discing c =? 0))
  && implb' (n_disc c =? 1) (discing_first c && (n_discing c =? 1) && (s_once c =? Done) && negb (connected c))
  && implb' (s_once c =? Fresh) ((n_disc c =? 0) && (n_discing c =? 0)).

(** the socket's end has begun: some once of the chain eio -> conn -> socket was taken *)
Definition end_begun (c : ctl) : bool :=
  negb (s_once c =? Fresh) || negb (e_once c =? Fresh).

(** exactly once at quiescence, for a socket that connected *)
Definition p_exactly (k : cfg) (c : ctl) : bool :=
  implb' (quiescentb k c && ever_conn c && end_begun c)
         ((n_disc c =? 1) && (n_discing c =? 1)).

(** nothing left at quiescence *)
Definition p_no_trace (k : cfg) (c : ctl) : bool :=
  implb' (quiescentb k c && (e_once c =? Done)) (no_trace c)
  && implb' (quiescentb k c && (s_once c =? Done)) (no_trace_nsp c).

(** the socket's once is never consumed while the socket is not connected *)
Definition p_never_burnt (c : ctl) : bool := negb (g_burnt c).

(** c.close()'s "forced server close" never wins: when eio.Close() has returned, the connection's
    once is already done *)
Definition p_fsc (c : ctl) : bool := implb' (e_once c =? Done) (c_once c =? Done).

(** per-step facts used by the reason proofs: shape of the reason operations of a step *)
Definition is_cclose_cause (a : act) : bool :=
  match a with
  | ACause CClientDisconnect | ACause CServerDisconnect1 | ACause CInvalidState | ACause CConnectTimeout => true
  | _ => false
  end.
Definition act_gives (a : act) (r : N) : bool :=
  match a with ACause c => existsb (N.eqb r) (cause_reasons c) | _ => false end.

Definition step_fact (k : cfg) (c : ctl) (a : act) : bool :=
  match cstep k a c with
  | None => true
  | Some (c', ops) =>
      (* cc_pending only appears in a c.close() cause *)
      implb' (cc_pending c' && negb (cc_pending c)) (is_cclose_cause a)
      && match ops with
         | [] => Bool.eqb (e_once c' =? Fresh) (e_once c =? Fresh) && Bool.eqb (c_once c' =? Fresh) (c_once c =? Fresh)
                 && Bool.eqb (s_once c' =? Fresh) (s_once c =? Fresh) && Bool.eqb (n_disc c' =? 0) (n_disc c =? 0)
         | [SetE r] => (e_once c =? Fresh) && act_gives a r && negb (r =? RNone)
                 && Bool.eqb (c_once c' =? Fresh) (c_once c =? Fresh)
                 && Bool.eqb (s_once c' =? Fresh) (s_once c =? Fresh) && Bool.eqb (n_disc c' =? 0) (n_disc c =? 0)
         | [CopyEC] => (c_once c =? Fresh) && negb (e_once c =? Fresh) && negb (e_once c' =? Fresh)
                 && Bool.eqb (s_once c' =? Fresh) (s_once c =? Fresh) && Bool.eqb (n_disc c' =? 0) (n_disc c =? 0)
         | [SetC r] => false   (* never happens on a reachable state: see p_fsc *)
         | [CopyCS] => (s_once c =? Fresh) && negb (c_once c =? Fresh) && negb (c_once c' =? Fresh) && (n_disc c =? 0) && (n_disc c' =? 0)
                 && Bool.eqb (e_once c' =? Fresh) (e_once c =? Fresh)
         | [SetS r] => (s_once c =? Fresh) && act_gives a r && negb (r =? RNone) && (n_disc c =? 0) && (n_disc c' =? 0)
                 && Bool.eqb (e_once c' =? Fresh) (e_once c =? Fresh) && Bool.eqb (c_once c' =? Fresh) (c_once c =? Fresh)
         | [Report] => negb (s_once c =? Fresh) && negb (s_once c' =? Fresh) && (n_disc c =? 0) && negb (n_disc c' =? 0)
                 && Bool.eqb (e_once c' =? Fresh) (e_once c =? Fresh) && Bool.eqb (c_once c' =? Fresh) (c_once c =? Fresh)
         | _ => false
         end
  end.
Definition p_step_facts (k : cfg) (c : ctl) : bool := forallb (step_fact k c) all_acts.

Definition p_all (k : cfg) (c : ctl) : bool :=
  p_once c && p_exactly k c && p_no_trace k c && p_fsc c && p_never_burnt c && p_step_facts k c.

Definition reach_ok_of (k : cfg) (t : tree ctl (list N)) : bool :=
  closedb (cstep' k) all_acts hkey lcmp leqb t && tmem hkey lcmp cinit t && forallb (p_all k) (telems t).

Lemma reach_ok_of_split k t :
  reach_ok_of k t = true ->
  closedb (cstep' k) all_acts hkey lcmp leqb t = true /\ tmem hkey lcmp cinit t = true
  /\ forallb (p_all k) (telems t) = true.
Proof.
  unfold reach_ok_of. intros H. apply andb_true_iff in H as [H HP]. apply andb_true_iff in H as [HC H0]. auto.
Qed.

(** The one expensive step: search, closure check and property check, evaluated by the kernel's VM. *)
Lemma reach_ok_code : reach_ok_of code_cfg (reach_tree code_cfg) = true.
Proof. vm_compute. reflexivity. Qed.

(** never unfold the search in a proof *)
Global Opaque reach_tree.
