(** C01 at BYTE level: the Socket.IO codec of Sio/Codec.v (C09: [encode], [add]/[feed], [decode]),
    the Engine.IO framings of Eio/Codec.v and Eio/Payload.v (C11), composed with the transport part
    of Sio/EndToEnd.v.  The only remaining assumptions are the three JSON-library hypotheses H1-H3
    of C09_decode_encode and the reliability of the link.

    Covered (= what C09_decode_encode covers): EVENT packets whose value has at least one binary
    leaf (they travel as BINARY_EVENT: a text frame + one binary frame per leaf), any namespace /
    ack id accepted by [header_ok], value trees of any depth, handler parameter types that fit the
    emitted argument shapes ([args_ok]: same number of parameters as arguments).
    NOT covered here (still the abstract hypothesis [codec_roundtrip] of Sio/EndToEnd.v): EVENT
    packets without any binary leaf (C09's theorem for them is not available yet), and events
    stamped with a recovery offset received by a handler that does not declare a parameter for it
    ([args_ok] wants equal lengths) - i.e. this file is for [recovery && s2c = false]. *)
From Coq Require Import List Bool Arith Lia Permutation NArith ZArith.
Import ListNotations.
From SioV Require Import Base.GoSem Sio.Json Sio.Header Sio.Binary.
From SioV Require Sio.Codec Sio.RoundtripProofs Sio.DecodeProofs.
From SioV Require Import Eio.Packet Eio.Codec Eio.CodecProofs Eio.Payload Eio.PayloadProofs
                         Eio.Batcher Eio.BatcherProofs.
From SioV Require Import Sio.EndToEnd.

(** * A finished packet as the parser hands it on: (header, event name), buffers (payload first) *)
Definition rawname := (header * bytes)%type.
Definition rawev := event rawname bytes.           (* = (header * bytes) * list bytes *)

(** sendBuffers / _sendBuffers: first buffer as a text MESSAGE packet, the others binary *)
Definition raw_frames (r : rawev) : list packet :=
  match snd r with
  | [] => []
  | p :: atts =>
      mkPacket false type_message (encode_header (fst (fst r)) ++ p)
      :: map (mkPacket true type_message) atts
  end.

Section Bytes.
  Variable marshal : jv -> bytes.
  Variable unmarshal : bytes -> option jv.
  Variable max_att : Z.
  Hypothesis H1 : forall j, unmarshal (marshal j) = Some j.
  Hypothesis H2 : forall name rest, exists tmp,
      prescan (marshal (JArr (JStr name :: rest))) = Ok tmp /\ unmarshal tmp = Some (JArr [JStr name]).
  Hypothesis H3 : forall l, exists r, marshal (JArr l) = 91%N :: r.

  (** ** The receiving parser: serverConn / Manager onEIOPacket -> Parser.Add, frame by frame.
      An error is fatal (the connection is closed): absorbing state. *)
  Inductive pstate := POk (st : option Sio.Codec.dstate) | PErr.

  Definition pstep (d : pstate) (f : packet) : pstate * option rawev :=
    match d with
    | PErr => (PErr, None)
    | POk st =>
        match Sio.Codec.add unmarshal st (p_data f) with
        | Ok (st', fin) =>
            (POk st', match fin with Some (h, name, bufs) => Some ((h, name), bufs) | None => None end)
        | _ => (PErr, None)
        end
    end.

  Notation pfeed := (feed rawname bytes packet pstate pstep).

  (** C09's [feed] (result monad, frame indexes) and the step function above agree *)
  Lemma pfeed_of_feed : forall pkts st i r stf,
    Sio.Codec.feed unmarshal st i (map p_data pkts) = Ok (r, stf) ->
    pfeed (POk st) pkts =
    (POk stf, map (fun x => let '(h, name, bufs) := snd x in ((h, name), bufs)) r).
  Proof.
    induction pkts as [|f pkts IH]; intros st i r stf H; simpl in H.
    - inversion H; subst. reflexivity.
    - simpl. destruct (Sio.Codec.add unmarshal st (p_data f)) as [[st' fin]| |]; simpl in H; try discriminate.
      destruct (Sio.Codec.feed unmarshal st' (S i) (map p_data pkts)) as [[r' stf']| |] eqn:E;
        simpl in H; try discriminate.
      inversion H; subst. rewrite (IH _ _ _ _ E).
      destruct fin as [[[h name] bufs]|]; reflexivity.
  Qed.

  (** ** What one Emit puts on the wire, with C09's side conditions *)
  Record emitted := mkEmitted {
    em_h : header;          (* header handed to Encode: type EVENT, namespace, optional ack id *)
    em_x : gv;              (* the Go value: pointer to [name, args...] *)
    em_e : Sio.Codec.enc_out;     (* what Encode returned *)
    em_name : bytes;
    em_args : list jb       (* the argument shapes (binary leaves included) *)
  }.

  Definition emitted_ok (it : emitted) : Prop :=
    Sio.RoundtripProofs.wfv (em_x it) = true /\ h_type (em_h it) = 2%N /\ hb 2 (em_x it) = true /\
    shape (em_x it) = BArr (BStr (em_name it) :: em_args it) /\
    header_ok (Sio.Codec.e_header (em_e it)) /\
    Sio.Codec.encode marshal unmarshal max_att (em_h it) (Some (em_x it)) = Ok (em_e it).

  (** the finished packet the peer's parser must produce for it *)
  Definition raw_of (it : emitted) : rawev :=
    let hdr := Sio.Codec.e_header (em_e it) in
    match Sio.Codec.e_frames (em_e it) with
    | f0 :: atts => ((hdr, em_name it), skipn (length (encode_header hdr)) f0 :: atts)
    | [] => ((hdr, em_name it), [])
    end.

  (** C09_decode_encode, in the vocabulary of this file *)
  Lemma emitted_roundtrip : forall it tys,
    emitted_ok it -> Sio.DecodeProofs.args_ok tys (em_args it) = true ->
    map p_data (raw_frames (raw_of it)) = Sio.Codec.e_frames (em_e it)
    /\ pfeed (POk None) (raw_frames (raw_of it)) = (POk None, [raw_of it])
    /\ Sio.Codec.decode marshal unmarshal (fst (fst (raw_of it))) (snd (raw_of it)) tys
       = Ok (Sio.DecodeProofs.views tys (em_args it)).
  Proof.
    intros it tys (Hwf & Ht & Hb & Hs & Hh & He) Ha.
    destruct (Sio.DecodeProofs.decode_encode_event marshal unmarshal max_att H1 H2 H3
                (em_h it) (em_x it) (em_e it) tys (em_name it) (em_args it)
                Hwf Ht Hb Hs Ha Hh He) as (p & atts & Hf & _ & _ & Hfeed & Hdec).
    assert (Hraw : raw_of it = ((Sio.Codec.e_header (em_e it), em_name it), p :: atts)).
    { unfold raw_of. rewrite Hf. rewrite skipn_app, skipn_all, Nat.sub_diag. reflexivity. }
    assert (Hdata : map p_data (raw_frames (raw_of it)) = Sio.Codec.e_frames (em_e it)).
    { rewrite Hraw, Hf. unfold raw_frames. simpl. rewrite map_map. simpl. now rewrite map_id. }
    split; [exact Hdata|]. split.
    - rewrite <- Hdata in Hfeed. rewrite (pfeed_of_feed _ _ _ _ _ Hfeed). simpl. now rewrite Hraw.
    - rewrite Hraw. simpl. exact Hdec.
  Qed.

  (** without handler types: the parser part needs no [args_ok] (take the empty-argument case
      apart: any [tys] with [args_ok] will do, and one always exists only when the arguments are
      themselves well-typed - so we ask for a witness) *)
  Definition typable (it : emitted) : Prop :=
    exists tys, Sio.DecodeProofs.args_ok tys (em_args it) = true.

  (** ** Transport: any framing that round-trips on the frames actually sent *)
  Variable frame_ok : packet -> Prop.
  Variable wunit : Type.
  Variable pack : list packet -> wunit.
  Variable unpack : wunit -> list packet.
  Hypothesis framing_roundtrip : forall b, Forall frame_ok b -> unpack (pack b) = b.
  Variable accepts : wunit -> bool.

  Notation bparsed :=
    (parsed rawname bytes packet pstate (POk None) pstep wunit pack unpack accepts (fun us => us)).

  Lemma pfeed_packets : forall its,
    Forall (fun it => emitted_ok it /\ typable it) its ->
    pfeed (POk None) (flat_map (fun it => raw_frames (raw_of it)) its) = (POk None, map raw_of its).
  Proof.
    induction 1 as [|it its [Hok [tys Hty]] _ IH]; [reflexivity|].
    simpl. rewrite (feed_app rawname bytes packet pstate pstep).
    destruct (emitted_roundtrip it tys Hok Hty) as (_ & Hf & _). rewrite Hf, IH. reflexivity.
  Qed.

  (** the peer's parser finishes exactly the emitted packets, in wire order, for every cutting of
      the frame stream into transport sends that the receiver accepts *)
  Lemma bparsed_in_wire_order : forall (tr : list (nat * emitted)) batches,
    Forall (fun p => emitted_ok (snd p) /\ typable (snd p)) tr ->
    concat batches = flat_map (fun p => raw_frames (raw_of (snd p))) tr ->
    Forall frame_ok (concat batches) ->
    Forall (fun b => accepts (pack b) = true) batches ->
    bparsed batches = map (fun p => raw_of (snd p)) tr.
  Proof.
    intros tr batches Hok Hw Hfr Hl. unfold parsed.
    rewrite accept_units_all by (now apply Forall_map).
    rewrite recv_units_flat.
    rewrite (unpack_pack_all packet frame_ok wunit pack unpack framing_roundtrip)
      by (now apply Forall_concat_inv).
    rewrite Hw.
    replace (flat_map (fun p : nat * emitted => raw_frames (raw_of (snd p))) tr)
      with (flat_map (fun it => raw_frames (raw_of it)) (map snd tr))
      by (rewrite flat_map_concat_map, map_map, <- flat_map_concat_map; reflexivity).
    rewrite pfeed_packets.
    - simpl. now rewrite map_map.
    - apply Forall_map. exact Hok.
  Qed.

  (** ** Dispatch: onPacket -> for every handler registered for the name, onEvent decodes the
      buffers with the handler's own parameter types and calls it.  What ONE registration is
      handed, as a function of the packets the parser finished (the registry returns every
      registration for the name exactly once: C18, C01_registry_hypothesis_discharged). *)
  Record bhandler := mkBHandler { bh_name : bytes; bh_tys : list ty }.

  Definition bytes_eqb : bytes -> bytes -> bool := list_eqb N.eqb.

  Definition handed_b (h : bhandler) (raws : list rawev) : list (list jb) :=
    flat_map (fun r =>
      if bytes_eqb (bh_name h) (snd (fst r)) then
        match Sio.Codec.decode marshal unmarshal (fst (fst r)) (snd r) (bh_tys h) with
        | Ok vs => [vs]
        | _ => []          (* decode error -> error handler, the event handler is not called *)
        end
      else []) raws.

  (** what the property asks it to be handed: the argument shapes of the events emitted under
      its name, each as the handler's parameter types show it ([views]) *)
  Definition expected_b (h : bhandler) (its : list emitted) : list (list jb) :=
    map (fun it => Sio.DecodeProofs.views (bh_tys h) (em_args it))
        (filter (fun it => bytes_eqb (bh_name h) (em_name it)) its).

  Lemma raw_of_name : forall it, snd (fst (raw_of it)) = em_name it.
  Proof. intros it. unfold raw_of. now destruct (Sio.Codec.e_frames (em_e it)). Qed.

  Lemma handed_b_stream : forall h its,
    Forall emitted_ok its ->
    (forall it, In it its -> em_name it = bh_name h ->
                Sio.DecodeProofs.args_ok (bh_tys h) (em_args it) = true) ->
    handed_b h (map raw_of its) = expected_b h its.
  Proof.
    intros h its Hok. induction Hok as [|it its Hit _ IH]; intros Hsig; [reflexivity|].
    unfold handed_b, expected_b in *. cbn [map flat_map filter]. rewrite raw_of_name.
    rewrite IH by (intros; apply Hsig; [now right | assumption]).
    destruct (bytes_eqb (bh_name h) (em_name it)) eqn:En; [|reflexivity].
    assert (Ha : Sio.DecodeProofs.args_ok (bh_tys h) (em_args it) = true).
    { apply Hsig; [now left|]. symmetry. apply (list_eqb_eq N.eqb); [intros; apply N.eqb_eq | exact En]. }
    destruct (emitted_roundtrip it (bh_tys h) Hit Ha) as (_ & _ & Hdec).
    match goal with |- context [match ?d with Ok _ => _ | _ => _ end] => change d with (Sio.Codec.decode marshal unmarshal (fst (fst (raw_of it))) (snd (raw_of it)) (bh_tys h)) end.
    rewrite Hdec. reflexivity.
  Qed.

  (** ** Byte-level end-to-end theorem (any framing satisfying [framing_roundtrip]) *)
  Theorem bytes_exactly_once :
    forall (ems : list (list emitted)) (tr : list (nat * emitted)) batches,
      Interleave ems tr ->
      Forall (fun it => emitted_ok it /\ typable it) (concat ems) ->
      concat batches = flat_map (fun p => raw_frames (raw_of (snd p))) tr ->
      Forall frame_ok (concat batches) ->
      Forall (fun b => accepts (pack b) = true) batches ->
      (* the parser: exactly the emitted packets, in wire order, each emitter's in its order *)
      (bparsed batches = map raw_of (map snd tr) /\ forall i, proj i tr = nth i ems [])
      /\ forall h,
          (forall it, In it (concat ems) -> em_name it = bh_name h ->
                      Sio.DecodeProofs.args_ok (bh_tys h) (em_args it) = true) ->
          handed_b h (bparsed batches) = expected_b h (map snd tr)
          /\ Permutation (handed_b h (bparsed batches)) (expected_b h (concat ems)).
  Proof.
    intros ems tr batches Hil Hok Hw Hfr Hl.
    pose proof (interleave_perm ems tr Hil) as Hperm.
    assert (Hok' : Forall (fun it => emitted_ok it /\ typable it) (map snd tr)).
    { apply Forall_forall. intros it Hin. rewrite Forall_forall in Hok. apply Hok.
      eapply Permutation_in; eassumption. }
    assert (Hparsed : bparsed batches = map raw_of (map snd tr)).
    { rewrite (bparsed_in_wire_order tr batches); auto.
      - now rewrite map_map.
      - apply Forall_forall. intros p Hp. rewrite Forall_forall in Hok'. apply Hok'. now apply in_map. }
    split; [split; [exact Hparsed | intros i; now apply interleave_proj] |].
    intros h Hsig. rewrite Hparsed.
    rewrite handed_b_stream.
    - split; [reflexivity|]. unfold expected_b. apply Permutation_map.
      apply (Permutation_filter' (fun it => bytes_eqb (bh_name h) (em_name it))). exact Hperm.
    - apply Forall_forall. intros it Hin. rewrite Forall_forall in Hok'. now apply Hok'.
    - intros it Hin. apply Hsig. eapply Permutation_in; eassumption.
  Qed.
End Bytes.

(** * The two real transports *)
From SioV Require Import Sio.EndToEndReal.

Lemma raw_frames_msg : forall r, Forall msg_ok (raw_frames r).
Proof.
  intros [[h n] bufs]. unfold raw_frames. simpl. destruct bufs as [|p atts]; [constructor|].
  constructor; [reflexivity|]. apply Forall_forall. intros f Hf.
  apply in_map_iff in Hf as [b [<- _]]. reflexivity.
Qed.

Section RealBytes.
  Variable marshal : jv -> bytes.
  Variable unmarshal : bytes -> option jv.
  Variable max_att : Z.
  Hypothesis H1 : forall j, unmarshal (marshal j) = Some j.
  Hypothesis H2 : forall name rest, exists tmp,
      prescan (marshal (JArr (JStr name :: rest))) = Ok tmp /\ unmarshal tmp = Some (JArr [JStr name]).
  Hypothesis H3 : forall l, exists r, marshal (JArr l) = 91%N :: r.

  Notation ok := (fun it => emitted_ok marshal unmarshal max_att it /\ typable it).
  Notation wire_of tr := (flat_map (fun p : nat * emitted => raw_frames (raw_of (snd p))) tr).

  Definition ws_parsed (rmax : Z) :=
    parsed rawname bytes packet (pstate) (POk None) (pstep unmarshal) (list (bool * bytes))
           ws_pack ws_unpack (ws_accepts rmax) (fun us => us).
  Definition poll_parsed (accepts : bytes -> bool) :=
    parsed rawname bytes packet (pstate) (POk None) (pstep unmarshal) bytes
           poll_pack poll_unpack accepts (fun us => us).

  (** websocket: real Socket.IO codec (C09), real Engine.IO message framing (C11), any cutting of
      the frame stream into sends (the real batcher included: [write_concat]) within the limit *)
  Theorem real_websocket_bytes :
    forall (ems : list (list emitted)) tr batches rmax,
      Interleave ems tr ->
      Forall ok (concat ems) ->
      concat batches = wire_of tr ->
      Forall (fun b => ws_accepts rmax (ws_pack b) = true) batches ->
      (ws_parsed rmax batches = map raw_of (map snd tr) /\ forall i, proj i tr = nth i ems [])
      /\ forall h,
          (forall it, In it (concat ems) -> em_name it = bh_name h ->
                      Sio.DecodeProofs.args_ok (bh_tys h) (em_args it) = true) ->
          handed_b marshal unmarshal h (ws_parsed rmax batches) = expected_b h (map snd tr)
          /\ Permutation (handed_b marshal unmarshal h (ws_parsed rmax batches))
                         (expected_b h (concat ems)).
  Proof.
    intros ems tr batches rmax Hil Hok Hw Hl.
    apply (bytes_exactly_once marshal unmarshal max_att H1 H2 H3 msg_ok (list (bool * bytes))
             ws_pack ws_unpack ws_roundtrip (ws_accepts rmax) ems tr batches Hil Hok Hw); [|exact Hl].
    rewrite Hw. clear. induction tr as [|p tr IH]; simpl; [constructor|].
    apply Forall_app. split; [apply raw_frames_msg | exact IH].
  Qed.

  (** long-polling: the same with payload framing (several packets per body, base64 for binary) *)
  Theorem real_polling_bytes :
    forall (ems : list (list emitted)) tr batches accepts,
      Interleave ems tr ->
      Forall ok (concat ems) ->
      concat batches = wire_of tr ->
      Forall poll_frame_ok (wire_of tr) ->
      Forall (fun b => accepts (poll_pack b) = true) batches ->
      (poll_parsed accepts batches = map raw_of (map snd tr) /\ forall i, proj i tr = nth i ems [])
      /\ forall h,
          (forall it, In it (concat ems) -> em_name it = bh_name h ->
                      Sio.DecodeProofs.args_ok (bh_tys h) (em_args it) = true) ->
          handed_b marshal unmarshal h (poll_parsed accepts batches) = expected_b h (map snd tr)
          /\ Permutation (handed_b marshal unmarshal h (poll_parsed accepts batches))
                         (expected_b h (concat ems)).
  Proof.
    intros ems tr batches accepts Hil Hok Hw Hfr Hl.
    apply (bytes_exactly_once marshal unmarshal max_att H1 H2 H3 poll_frame_ok bytes
             poll_pack poll_unpack poll_roundtrip accepts ems tr batches Hil Hok Hw); [|exact Hl].
    now rewrite Hw.
  Qed.
End RealBytes.

(** * Go's encoding/json as modelled by [jprint] / [jparse] (Sio/Json.v): H1 and H3 are C09's
    theorems ([jparse_jprint], [jprint_arr_head]) and are discharged here; H2 (the pre-scan cuts
    out the event name's literal) is still being proved by its owner (Sio/PrescanProofs.v did not
    build when this was written) and stays the one hypothesis. *)
From SioV Require Sio.JsonProofs.

Section GoJson.
  Variable max_att : Z.
  Hypothesis H2_go : forall name rest, exists tmp,
      prescan (jprint (JArr (JStr name :: rest))) = Ok tmp /\ jparse tmp = Some (JArr [JStr name]).

  Definition real_websocket_go :=
    real_websocket_bytes jprint jparse max_att Sio.JsonProofs.jparse_jprint H2_go
                         Sio.JsonProofs.jprint_arr_head.
  Definition real_polling_go :=
    real_polling_bytes jprint jparse max_att Sio.JsonProofs.jparse_jprint H2_go
                       Sio.JsonProofs.jprint_arr_head.
End GoJson.

(** * Non-vacuity: a concrete emitted item satisfies the side conditions (jprint / jparse):
    Emit("e", Binary{7,8}) in namespace "/" - frames  51-["e",{"_placeholder":true,"num":0}]  + <0x07 0x08>,
    handler func(sio.Binary). *)
Definition ex_x : gv := VPtr (VSlice [VAny (VStr [101%N]); VAny (VBin [7%N; 8%N])]).
Definition ex_h : header := mkHeader 2 [47%N] None 0.
Definition ex_e : Sio.Codec.enc_out :=
  match Sio.Codec.encode jprint jparse 0 ex_h (Some ex_x) with
  | Ok e => e
  | _ => Sio.Codec.mkEnc [] ex_h None
  end.
Definition ex_item : emitted := mkEmitted ex_h ex_x ex_e [101%N] [BBin [7%N; 8%N]].

Lemma ex_item_ok : emitted_ok jprint jparse 0 ex_item /\ typable ex_item.
Proof.
  split; [| exists [TBin]; vm_compute; reflexivity].
  unfold emitted_ok.
  split; [vm_compute; reflexivity|]. split; [vm_compute; reflexivity|].
  split; [vm_compute; reflexivity|]. split; [vm_compute; reflexivity|].
  split; [| vm_compute; reflexivity].
  change (Sio.Codec.e_header (em_e ex_item)) with (mkHeader 5 [47%N] None 1).
  unfold header_ok. simpl. split; [lia|]. split; [exists []; split; [reflexivity | intros []]|].
  split; [exact I|]. vm_compute. split; [discriminate | reflexivity].
Qed.

Lemma ex_item_handed :
  handed_b jprint jparse (mkBHandler [101%N] [TBin]) [raw_of ex_item] = [[BBin [7%N; 8%N]]].
Proof. vm_compute. reflexivity. Qed.

(** * Dispatch to SEVERAL handlers of one name: one finished packet, one [decode] call per handler

    onPacket: [for _, handler := range getAll(name) { onEvent(handler, header, decode, ...) }] -
    [decode] is a closure over the reconstructor (header + buffers) and is called once per
    registered handler, each time with that handler's parameter types.  The theorems above use
    [Sio.Codec.decode] as a function of (header, buffers, types); that is faithful only if a call
    leaves the reconstructor as it found it.  Here the reconstructor's buffers are threaded through
    the calls explicitly:
    - [dec_keep]: the code as it is ([reconstruct] reads [r.buffers], never writes them);
    - [dec_release]: a reconstructor that drops the attachments after a successful decode (what
      socket.io-parser's finishedReconstruction does for its single consumer) - a class of change. *)
Section MultiDispatch.
  Variable marshal : jv -> bytes.
  Variable unmarshal : bytes -> option jv.
  Variable hdr : header.

  Definition dec_fn := list bytes -> list ty -> res (list jb) * list bytes.

  Definition dec_keep : dec_fn :=
    fun bufs tys => (Sio.Codec.decode marshal unmarshal hdr bufs tys, bufs).
  Definition dec_release : dec_fn :=
    fun bufs tys =>
      match Sio.Codec.decode marshal unmarshal hdr bufs tys with
      | Ok v => (Ok v, firstn 1 bufs)
      | r => (r, bufs)
      end.

  (** the dispatch loop: handlers in registration order, each with its own types *)
  Fixpoint dispatch_all (dec : dec_fn) (bufs : list bytes) (hs : list (list ty)) : list (res (list jb)) :=
    match hs with
    | [] => []
    | tys :: hs' => let (r, bufs') := dec bufs tys in r :: dispatch_all dec bufs' hs'
    end.

  (** the code as it is: every handler - whatever its position, whatever the parameter types of
      the handlers called before it - gets the decode of the SAME finished packet *)
  Theorem dispatch_keep_independent : forall bufs hs,
    dispatch_all dec_keep bufs hs = map (Sio.Codec.decode marshal unmarshal hdr bufs) hs.
  Proof. intros bufs hs. induction hs as [|tys hs IH]; [reflexivity|]. simpl. now rewrite IH. Qed.
End MultiDispatch.

(** the releasing variant refuted: Emit("e", Binary{7,8}), two handlers [func(Binary)] - the first
    gets the two bytes, the second is handed the placeholder text instead (no error) *)
Lemma dispatch_release_refuted :
  let r := raw_of ex_item in
  dispatch_all (dec_keep jprint jparse (fst (fst r))) (snd r) [[TBin]; [TBin]]
    = [Ok [BBin [7%N; 8%N]]; Ok [BBin [7%N; 8%N]]]
  /\ exists other,
       dispatch_all (dec_release jprint jparse (fst (fst r))) (snd r) [[TBin]; [TBin]]
         = [Ok [BBin [7%N; 8%N]]; other]
       /\ other <> Ok [BBin [7%N; 8%N]].
Proof.
  split; [vm_compute; reflexivity|].
  eexists. split; [vm_compute; reflexivity|]. vm_compute. discriminate.
Qed.
