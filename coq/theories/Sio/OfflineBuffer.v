(** Model of the client socket's offline buffers, /repo/client_socket.go:
    [_sendBuffers] (send now / park in sendBuffer / discard), [onEvent] (run the handler now / park
    the event in receiveBuffer), [registerSubEvents.openFunc], [onConnect] + [emitBuffered] (replay
    receiveBuffer, then flush sendBuffer), [onClose].  Retries = 0 (no clientPacketQueue).  The ack
    time-out of a parked emit is the operation [Timeout] (purge of the frames tagged with the id; the
    timer and the callback themselves belong to C03).

    The model is the code AS REPAIRED by the two C15 fixes and the C02 fix of [_sendBuffers]
    (direct send only when Connected and nothing is parked, decided under sendBufferMu):
    - [_sendBuffers] sends immediately only in state Connected (before: also in ConnectPending, so an
      emit made between the CONNECT request and its reply overtook the buffer and reached the server
      before the namespace was joined; the server closes the connection on such a packet);
    - [emitBuffered] continues with the next buffered event when the ack id of a buffered event has
      already been answered (before: [return], which left receiveBuffer and sendBuffer unflushed). *)
From SioV Require Import Base.GoSem.

Inductive cstate := Connected | Pending | Disconnected.

Definition is_conn (c : cstate) : bool := match c with Connected => true | _ => false end.
Definition is_pending (c : cstate) : bool := match c with Pending => true | _ => false end.

(** What a registered event handler does with the acknowledgement:
    no ack parameter / ack parameter, called before the handler returns / ack parameter, not called. *)
Inductive hkind := HNoAck | HAckSync | HAckSilent.

Inductive op :=
| Emit (label : N) (volatile withAck : bool) (att : nat)
    (* socket.Emit / Volatile().Emit of event [label] with [att] binary attachments, optionally
       with an ack callback *)
| MgrOpen        (* the manager's open event reaches the socket (openFunc) *)
| ConnectReply   (* CONNECT packet from the server (onConnect) *)
| Close          (* the manager closed / server-side disconnect (socket.onClose) *)
| Recv (label : N) (id : option N) (hs : list hkind)
    (* EVENT from the server with optional ack id; [hs] = the handlers registered for it *)
| Timeout (id : N).
    (* the ack time-out of the emit that carries ack id [id] expires (timeoutFunc of
       registerAckHandler): every parked frame tagged with that id - the header frame and all of its
       attachments - is dropped from sendBuffer, the others keep their order *)

Inductive out :=
| OConnect                                   (* CONNECT request handed to the manager *)
| OFrame (label : N) (idx : nat) (ack : option N)  (* one Engine.IO message of an emitted event *)
| OAck (id : N)                              (* ACK packet handed to the manager *)
| OCall (label : N) (h : nat).               (* the h-th handler of received event [label] runs *)

Record st := mkSt {
  cs : cstate;
  sendBuf : list out;                            (* parked frames (only OFrame) *)
  recvBuf : list (N * option N * hkind * nat);   (* parked (event, ack id, handler kind, handler index) *)
  ackctr : N                                     (* clientSocket.ackID *)
}.

Definition init : st := mkSt Disconnected [] [] 0.

Definition frames (label : N) (ack : option N) (att : nat) : list out :=
  map (fun i => OFrame label i ack) (seq 0 (S att)).

Definition memN (a : N) (l : list N) : bool := existsb (N.eqb a) l.

(** [onPacket] in state Connected: every handler runs now; one [sent] flag per packet. *)
Fixpoint call_now (label : N) (id : option N) (hs : list hkind) (i : nat) (sent : bool) : list out :=
  match hs with
  | [] => []
  | h :: hs' =>
      match id, h with
      | Some a, HAckSync =>
          OCall label i :: (if sent then [] else [OAck a]) ++ call_now label id hs' (S i) true
      | _, _ => OCall label i :: call_now label id hs' (S i) sent
      end
  end.

(** [emitBuffered], first loop: replay of receiveBuffer.  [sent] = ids whose entry in the local map
    [ackIDs] is true. *)
Fixpoint replay (rb : list (N * option N * hkind * nat)) (sent : list N) : list out :=
  match rb with
  | [] => []
  | (label, id, h, i) :: rb' =>
      OCall label i ::
      match id with
      | None => replay rb' sent
      | Some a =>
          match h with
          | HAckSync =>   (* the handler calls sendAck: sends unless already sent, marks sent;
                             afterwards the id is marked, so: continue *)
              (if memN a sent then [] else [OAck a]) ++ replay rb' (a :: sent)
          | HAckSilent => (* hasAckFunc: nothing is sent here, the id is marked *)
              replay rb' (a :: sent)
          | HNoAck =>     (* no ack function: an empty ack is sent unless one went out already *)
              (if memN a sent then [] else [OAck a]) ++ replay rb' (a :: sent)
          end
      end
  end.

Definition nilb {A} (l : list A) : bool := match l with [] => true | _ => false end.
Definition is_ack (o : out) : bool := match o with OAck _ => true | _ => false end.
Definition acks_of (l : list out) : list out := filter is_ack l.
Definition noacks (l : list out) : list out := filter (fun o => negb (is_ack o)) l.

(** [_sendBuffers] (as of the C02 fix): under sendBufferMu, a packet is sent directly only when the
    socket is Connected AND nothing is parked; otherwise it is parked (non-volatile) or discarded
    (volatile).  In the histories of this model the buffer is empty whenever the socket is connected
    (invariant [wf] in the proofs), except inside the CONNECT reply itself. *)
Definition tagged (a : N) (o : out) : bool :=
  match o with OFrame _ _ (Some b) => N.eqb a b | _ => false end.
Definition purge (a : N) (sb : list out) : list out := filter (fun o => negb (tagged a o)) sb.

Definition step (s : st) (o : op) : list out * st :=
  match o with
  | Emit label vol withAck att =>
      let ack := if withAck then Some (ackctr s) else None in
      let ctr := if withAck then N.succ (ackctr s) else ackctr s in
      let fr := frames label ack att in
      if is_conn (cs s) && nilb (sendBuf s) then (fr, mkSt (cs s) (sendBuf s) (recvBuf s) ctr)
      else if negb vol then ([], mkSt (cs s) (sendBuf s ++ fr) (recvBuf s) ctr)
      else ([], mkSt (cs s) (sendBuf s) (recvBuf s) ctr)
  | MgrOpen =>
      if is_pending (cs s) then ([], s)
      else ([OConnect], mkSt Pending (sendBuf s) (recvBuf s) (ackctr s))
  | ConnectReply =>
      (* state = Connected, then emitBuffered: the handlers of the parked events run; an ack they send
         goes through _sendBuffers, i.e. directly if nothing is parked and behind the parked frames
         otherwise; then the buffer is flushed in one piece *)
      let r := replay (recvBuf s) [] in
      (if nilb (sendBuf s) then r else noacks r ++ sendBuf s ++ acks_of r,
       mkSt Connected [] [] (ackctr s))
  | Close => ([], mkSt Disconnected (sendBuf s) (recvBuf s) (ackctr s))
  | Recv label id hs =>
      if is_conn (cs s) then (call_now label id hs 0 false, s)
      else ([], mkSt (cs s) (sendBuf s)
                     (recvBuf s ++ map (fun '(h, i) => (label, id, h, i)) (combine hs (seq 0 (length hs))))
                     (ackctr s))
  | Timeout a => ([], mkSt (cs s) (purge a (sendBuf s)) (recvBuf s) (ackctr s))
  end.

Fixpoint run (s : st) (h : list op) : list out * st :=
  match h with
  | [] => ([], s)
  | o :: h' =>
      let '(o1, s1) := step s o in
      let '(o2, s2) := run s1 h' in
      (o1 ++ o2, s2)
  end.

(** Outputs per operation (the harness compares these). *)
Fixpoint run_per_op (s : st) (h : list op) : list (list out) :=
  match h with
  | [] => []
  | o :: h' => let '(o1, s1) := step s o in o1 :: run_per_op s1 h'
  end.

(** Projections. *)
Definition frame_id (o : out) : option (N * nat) :=
  match o with OFrame l i _ => Some (l, i) | _ => None end.
Fixpoint efr (l : list out) : list (N * nat) :=
  match l with
  | [] => []
  | o :: l' => match frame_id o with Some x => x :: efr l' | None => efr l' end
  end.
Fixpoint calls (l : list out) : list (N * nat) :=
  match l with
  | [] => []
  | OCall e i :: l' => (e, i) :: calls l'
  | _ :: l' => calls l'
  end.

(** Declarative side of the statements: the socket's connection state is decided by the last
    life-cycle operation alone. *)
Definition lifecycle (c : cstate) (o : op) : cstate :=
  match o with
  | MgrOpen => Pending
  | ConnectReply => Connected
  | Close => Disconnected
  | _ => c
  end.

Definition emit_ids (label : N) (att : nat) : list (N * nat) := map (fun i => (label, i)) (seq 0 (S att)).

(** [Timeout a] occurs in [h] before the next CONNECT reply (or the end of [h]). *)
Fixpoint times_out_before_reply (a : N) (h : list op) : bool :=
  match h with
  | [] => false
  | ConnectReply :: _ => false
  | Timeout b :: h' => N.eqb a b || times_out_before_reply a h'
  | _ :: h' => times_out_before_reply a h'
  end.

(** The frames the application is entitled to see delivered, in emission order: every emit made
    while connected, and every non-volatile emit made while not connected - unless its ack time-out
    expires while it is still parked, i.e. before the next CONNECT reply.  [ctr] = the ack id the
    next emit with an ack will get (ids are handed out in emission order). *)
Fixpoint entitled (c : cstate) (ctr : N) (h : list op) : list (N * nat) :=
  match h with
  | [] => []
  | o :: h' =>
      match o with
      | Emit l vol wa att =>
          (if is_conn c then emit_ids l att
           else if negb vol && negb (wa && times_out_before_reply ctr h') then emit_ids l att
           else [])
          ++ entitled c (if wa then N.succ ctr else ctr) h'
      | _ => entitled (lifecycle c o) ctr h'
      end
  end.

(** The frames parked at the end of [h]: non-volatile emits made since the last CONNECT reply while
    not connected, minus the packets whose time-out expired meanwhile. *)
Fixpoint offline_pending (c : cstate) (ctr : N) (acc : list out) (h : list op) : list out :=
  match h with
  | [] => acc
  | o :: h' =>
      match o with
      | Emit l vol wa att =>
          let ack := if wa then Some ctr else None in
          offline_pending c (if wa then N.succ ctr else ctr)
            (if negb (is_conn c) && negb vol then acc ++ frames l ack att else acc) h'
      | ConnectReply => offline_pending Connected ctr [] h'
      | Timeout a => offline_pending c ctr (purge a acc) h'
      | _ => offline_pending (lifecycle c o) ctr acc h'
      end
  end.

(** Handler invocations the application is entitled to: one per handler per received event. *)
Fixpoint entitled_calls (h : list op) : list (N * nat) :=
  match h with
  | [] => []
  | Recv l _ hs :: h' => map (fun i => (l, i)) (seq 0 (length hs)) ++ entitled_calls h'
  | _ :: h' => entitled_calls h'
  end.
