(** Sio/PipelineConn.v - the client side of a connection around the CONNECT reply: the SECOND
    producer path into the connection's packet queue.

    Ported from client_socket.go (pinned tree + the fix "emits are buffered until the CONNECT reply"):
      _sendBuffers : frames of the packet are built; then
                       stateMu.RLock; sendImmediately := state == Connected; RUnlock
                       sendImmediately -> manager.packet(all frames)      (one packetQueue.add)
                       else            -> sendBufferMu.Lock; sendBuffer = append(sendBuffer, all frames...); Unlock
                     NO lock covers both the read of the state and the append            => [CEmit], [CParkStale]
      onConnect    : stateMu.Lock; state = Connected; Unlock                              => [CConnected]
                     emitBuffered(): (handlers of buffered received events run first - user code)
                       sendBufferMu.Lock; ONE manager.packet(all parked frames...); sendBuffer = nil   => [CFlush]
    Everything downstream of the queue (drainer, transport, control packets, the peer's parser and
    dispatch) is Sio/Pipeline.v unchanged: [CBase a]. *)
From SioV Require Import Base.Conc Sio.Pipeline.

Section Conn.
  Context {data : Type}.
  Variable declared : data -> option nat.
  Variable max_atts : nat.
  Variable split : list (frame data) -> list (list (frame data)).

  Record cstate := mkC {
    c_connected : bool;                      (* clientSocket.state == Connected *)
    c_sendbuf   : list (frame data);         (* clientSocket.sendBuffer (the packets of its items) *)
    c_parked    : list (nat * spacket data); (* ghost: whose frames those are, in order *)
    c_hist      : list (nat * spacket data); (* ghost: every emit call, in the order the calls were made *)
    c_base      : state data
  }.

  Definition cinit (progs : list (list (spacket data))) : cstate :=
    mkC false [] [] [] (init progs).

  Inductive caction :=
  | CEmit (i : nat)        (* emit: state read and action in one step *)
  | CParkStale (i : nat)   (* emit whose state read happened before the CONNECT reply, append after it *)
  | CConnected
  | CFlush
  | CBase (a : action).

  (** packetQueue.add(frames of the packets [l]) by one call *)
  Definition enqueue (l : list (nat * spacket data)) (s : state data) : state data :=
    mkState (st_em s) (st_log s ++ l) (st_q s ++ flat_map frames_of (map snd l))
            (st_dr s) (st_pollq s) (st_done s) (st_inbox s) (st_parser s) (st_rerr s)
            (st_finished s) (st_pending s) (st_entered s).

  Definition set_em (em : list (list (spacket data))) (s : state data) : state data :=
    mkState em (st_log s) (st_q s) (st_dr s) (st_pollq s) (st_done s) (st_inbox s) (st_parser s)
            (st_rerr s) (st_finished s) (st_pending s) (st_entered s).

  Definition cstep (tr : transport) (a : caction) (c : cstate) : option cstate :=
    match a with
    | CEmit i =>
        match nth_error (st_em (c_base c)) i with
        | Some (p :: rest) =>
            let b := set_em (set_nth (st_em (c_base c)) i rest) (c_base c) in
            if c_connected c
            then Some (mkC true (c_sendbuf c) (c_parked c) (c_hist c ++ [(i, p)]) (enqueue [(i, p)] b))
            else Some (mkC false (c_sendbuf c ++ frames_of p) (c_parked c ++ [(i, p)])
                           (c_hist c ++ [(i, p)]) b)
        | _ => None
        end
    | CParkStale i =>
        if c_connected c then
          match nth_error (st_em (c_base c)) i with
          | Some (p :: rest) =>
              Some (mkC true (c_sendbuf c ++ frames_of p) (c_parked c ++ [(i, p)])
                        (c_hist c ++ [(i, p)]) (set_em (set_nth (st_em (c_base c)) i rest) (c_base c)))
          | _ => None
          end
        else None
    | CConnected =>
        if c_connected c then None
        else Some (mkC true (c_sendbuf c) (c_parked c) (c_hist c) (c_base c))
    | CFlush =>
        if c_connected c then
          match c_parked c with
          | [] => None
          | _ :: _ => Some (mkC true [] [] (c_hist c) (enqueue (c_parked c) (c_base c)))
          end
        else None
    | CBase (Emit _) => None
    | CBase a =>
        match step declared max_atts split tr a (c_base c) with
        | Some b => Some (mkC (c_connected c) (c_sendbuf c) (c_parked c) (c_hist c) b)
        | None => None
        end
    end.

  (** *** The repaired code (fix "client: an emit never overtakes the packets parked before it"):
      _sendBuffers takes sendBufferMu FIRST, reads the state under it and sends directly only when
      the socket is Connected AND nothing is parked; otherwise the packet is parked behind the older
      ones.  The flush (emitBuffered) runs under the same mutex, so decision and flush exclude each
      other: there is no stale read any more ([CParkStale] is not a step of the repaired system).
      [cstep] above stays as the model of the code before the repair. *)
  Definition cstep_fix (tr : transport) (a : caction) (c : cstate) : option cstate :=
    match a with
    | CEmit i =>
        match nth_error (st_em (c_base c)) i with
        | Some (p :: rest) =>
            let b := set_em (set_nth (st_em (c_base c)) i rest) (c_base c) in
            if c_connected c && (match c_sendbuf c with [] => true | _ => false end)
            then Some (mkC true (c_sendbuf c) (c_parked c) (c_hist c ++ [(i, p)]) (enqueue [(i, p)] b))
            else Some (mkC (c_connected c) (c_sendbuf c ++ frames_of p) (c_parked c ++ [(i, p)])
                           (c_hist c ++ [(i, p)]) b)
        | _ => None
        end
    | CParkStale _ => None
    | _ => cstep tr a c
    end.

  Definition crun_fix (tr : transport) (sched : list caction) (progs : list (list (spacket data)))
    : cstate :=
    exec (cstep_fix tr) sched (cinit progs).

  Definition crun_fix_opt (tr : transport) (sched : list caction) (progs : list (list (spacket data)))
    : option cstate :=
    exec_opt (cstep_fix tr) sched (cinit progs).

  Definition creachable_fix (tr : transport) (progs : list (list (spacket data))) : cstate -> Prop :=
    reachable (cstep_fix tr) (fun c => c = cinit progs).

  Definition crun (tr : transport) (sched : list caction) (progs : list (list (spacket data))) : cstate :=
    exec (cstep tr) sched (cinit progs).

  Definition crun_opt (tr : transport) (sched : list caction) (progs : list (list (spacket data)))
    : option cstate :=
    exec_opt (cstep tr) sched (cinit progs).

  Definition creachable (tr : transport) (progs : list (list (spacket data))) : cstate -> Prop :=
    reachable (cstep tr) (fun c => c = cinit progs).

  (** Everything that has entered the queue or is parked, in that order. *)
  Definition c_all (c : cstate) : list (nat * spacket data) := st_log (c_base c) ++ c_parked c.

  (** Side condition under which per-emitter order survives the connect instant: nobody emits
      between `state = Connected` and the flush, and no emit straddles the CONNECT reply.
      phase 0 = not connected, 1 = connected and not flushed, 2 = flushed. *)
  Fixpoint window_free (phase : nat) (sched : list caction) : bool :=
    match sched with
    | [] => true
    | a :: sched' =>
        match a, phase with
        | CParkStale _, _ => false
        | CEmit _, 1 => false
        | CConnected, 0 => window_free 1 sched'
        | CFlush, 1 => window_free 2 sched'
        | _, _ => window_free phase sched'
        end
    end.
End Conn.

Arguments cstate : clear implicits.
