(** Receiver with concurrent deliverers: if every OnPacket call carries whole packets, then for ALL
    interleavings of the deliverers the parser never fails, is idle between calls, and finishes
    exactly the packets of the calls, call after call - each packet intact, each deliverer's order kept. *)
From SioV Require Import Base.Conc Sio.Pipeline Sio.PipelineProofs Sio.PipelineRecv.

Lemma Forall_set_nth {A} (P : A -> Prop) (l : list A) i x :
  Forall P l -> P x -> Forall P (set_nth l i x).
Proof.
  intros H Hx. revert i; induction H as [|h t Hh Ht IH]; intros [|i]; simpl; auto.
Qed.

Section RecvProofs.
  Context {data : Type}.
  Variable declared : data -> option nat.
  Variable max_atts : nat.
  Variable streams : list (list (list (frame data))).
  Hypothesis streams_whole : Forall (Forall (whole declared max_atts)) streams.

  Notation rreach := (rreachable declared max_atts streams).

  Record RInv (s : rstate data) : Prop := {
    ri_err : r_err s = false;
    ri_idle : r_parser s = None;
    ri_whole : Forall (Forall (whole declared max_atts)) (r_streams s);
    ri_pops : pops streams (r_order s) = Some (r_fed s, r_streams s);
    ri_fin : exists pss, Forall2 (fun b ps => b = flat_map frames_of ps) (r_fed s) pss /\
                         r_finished s = concat pss
  }.

  Lemma rinv_reachable s : rreach s -> RInv s.
  Proof.
    revert s. apply (invariant_reachable (step := rstep declared max_atts) (P := RInv)). split.
    - intros s ->. constructor; simpl; auto. exists []. split; [constructor | reflexivity].
    - intros s d s' [E I W P (pss & F & Fin)] H. unfold rstep in H. rewrite E in H.
      destruct (nth_error (r_streams s) d) as [[|b rest]|] eqn:En; try discriminate.
      assert (Wb : Forall (whole declared max_atts) (b :: rest)).
      { rewrite Forall_forall in W. apply W. eapply nth_error_In; eauto. }
      inversion Wb as [|? ? (ps & Wps & Eb) Wrest]; subst.
      rewrite I in H. rewrite (pfrom_all declared max_atts _ Wps) in H.
      inversion H; subst; clear H. constructor; simpl; auto.
      + apply Forall_set_nth; assumption.
      + eapply pops_snoc; eauto.
      + exists (pss ++ [ps]). split.
        * apply Forall2_app; [exact F | constructor; [reflexivity | constructor]].
        * rewrite concat_app, Fin. simpl. now rewrite app_nil_r.
  Qed.

  Theorem recv_whole_calls s : rreach s ->
    r_err s = false /\ r_parser s = None /\
    pops streams (r_order s) = Some (r_fed s, r_streams s) /\
    exists pss, Forall2 (fun b ps => b = flat_map frames_of ps) (r_fed s) pss /\
                r_finished s = concat pss.
  Proof. intros R. destruct (rinv_reachable _ R) as [E I _ P F]. auto. Qed.
End RecvProofs.

(** Without the hypothesis the statement fails: a websocket deliverer hands over one frame per call;
    a payload of another transport delivered between a header and its attachment is swallowed as
    that attachment (deliverer 0 = websocket with packet (10,[11]); deliverer 1 = one polling payload
    with packet (20,[21])). *)
Definition recv_witness_streams : list (list (list (frame nat))) :=
  [ [[mkFrame false 10]; [mkFrame true 11]];
    [[mkFrame false 20; mkFrame true 21]] ].

Lemma recv_single_frame_calls_refuted :
  let decl := fun h : nat => if Nat.eqb h 10 then Some 1 else if Nat.eqb h 20 then Some 1 else Some 0 in
  let s := exec (rstep decl 0) [0; 1; 0] (rinit recv_witness_streams) in
  r_finished s <> [] /\ ~ In (mkSP 10 [11]) (r_finished s) /\ ~ In (mkSP 20 [21]) (r_finished s).
Proof.
  vm_compute. repeat split.
  - discriminate.
  - intros H. repeat (destruct H as [H|H]; [discriminate|]). exact H.
  - intros H. repeat (destruct H as [H|H]; [discriminate|]). exact H.
Qed.
