(** Wire order, frame contiguity and reassembly hold across the polling -> websocket hand-over,
    for all schedules (events emitted before, during and after the upgrade). *)
From Coq Require Import Permutation.
From SioV Require Import Base.Conc Sio.Pipeline Sio.PipelineProofs Sio.PipelineUpgrade.

Section UpgradeProofs.
  Context {data : Type}.
  Variable declared : data -> option nat.
  Variable max_atts : nat.
  Variable split : list (frame data) -> list (list (frame data)).
  Hypothesis split_concat : forall b, concat (split b) = b.
  Variable progs : list (list (spacket data)).

  Notation ustp := (ustep declared max_atts split).
  Notation ureach := (ureachable declared max_atts split progs).
  Notation UInv := (fun u => Inv declared max_atts (u_tr u) progs (u_base u)).

  Lemma msgs_filter_noop (l : list (epkt data)) : msgs (filter (@not_noop data) l) = msgs l.
  Proof.
    induction l as [|[f|ty] l IH]; simpl; auto.
    - now rewrite IH.
    - destruct (negb (N.eqb ty 6)); simpl; auto.
  Qed.

  Lemma uinv_reachable u : ureach u -> UInv u.
  Proof.
    revert u. apply (invariant_reachable (step := ustp) (P := UInv)). split.
    - intros u ->. apply inv_init.
    - intros u a u' I H. destruct a as [a|]; simpl in H.
      + destruct (step declared max_atts split (u_tr u) a (u_base u)) as [b|] eqn:E; try discriminate.
        inversion H; subst; simpl. eapply inv_step; eauto.
      + destruct (u_tr u) eqn:Et; try discriminate. inversion H; subst; clear H. simpl.
        destruct I as [I0 I1 I2 I3 I4]. constructor; simpl; auto.
        unfold st_wire in *. simpl. rewrite <- I2.
        rewrite !msgs_app, msgs_filter_noop. simpl. rewrite <- !app_assoc. reflexivity.
  Qed.

  Theorem upgrade_wire_order u : ureach u ->
    exists order ps rest,
      pops progs order = Some (ps, st_em (u_base u)) /\
      msgs (st_wire (u_base u)) ++ rest = flat_map frames_of ps.
  Proof.
    intros R. destruct (uinv_reachable _ R) as [_ I1 I2 _ _].
    exists (map fst (st_log (u_base u))), (map snd (st_log (u_base u))),
           (msgs (st_pollq (u_base u)) ++ concat (st_dr (u_base u)) ++ st_q (u_base u)).
    split; assumption.
  Qed.

  Hypothesis progs_wf : Forall (Forall (wf_packet declared max_atts)) progs.

  Lemma uno_rerr u : ureach u -> st_rerr (u_base u) = false.
  Proof.
    revert u. apply (invariant_reachable_under (step := ustp) (Q := UInv)
                       (P := fun u => st_rerr (u_base u) = false)).
    - apply uinv_reachable.
    - split.
      + intros u ->. reflexivity.
      + intros u a u' I Hr H. destruct a as [a|]; simpl in H.
        * destruct (step declared max_atts split (u_tr u) a (u_base u)) as [b|] eqn:E; try discriminate.
          inversion H; subst; simpl. cbv beta in I. eapply invF_step_no_err; [| | exact Hr | exact E].
          -- eapply invF_of_inv. exact I.
          -- eapply log_wf; [exact progs_wf | exact I].
        * destruct (u_tr u); try discriminate. inversion H; subst; exact Hr.
  Qed.

  Theorem upgrade_reassembly u : ureach u ->
    st_rerr (u_base u) = false /\
    exists k, st_finished (u_base u) = firstn k (map snd (st_log (u_base u))).
  Proof.
    intros R. pose proof (uno_rerr _ R) as Hr. split; [exact Hr|].
    pose proof (uinv_reachable _ R) as I. cbv beta in I.
    eapply invF_finished_prefix.
    - eapply invF_of_inv. exact I.
    - eapply log_wf; [exact progs_wf | exact I].
    - exact Hr.
  Qed.
End UpgradeProofs.
