(** Proofs about Sio/Pipeline.v: for ALL schedules, any number of emitters, any burst lengths and
    attachment counts.  Invariants by induction over [Conc.reachable]. *)
From Coq Require Import Permutation.
From SioV Require Import Base.Conc Sio.Pipeline.

(** ** Lists *)

Lemma nth_error_set_nth_same {A} (l : list A) i x y :
  nth_error l i = Some y -> nth_error (set_nth l i x) i = Some x.
Proof.
  revert i; induction l as [|h t IH]; intros [|i]; simpl; intros H; try discriminate; auto.
Qed.

Lemma nth_error_set_nth_other {A} (l : list A) i j x :
  i <> j -> nth_error (set_nth l i x) j = nth_error l j.
Proof.
  revert i j; induction l as [|h t IH]; intros [|i] [|j] H; simpl; auto; try congruence.
Qed.

Lemma in_set_nth {A} (l : list A) i x y : In y (set_nth l i x) -> y = x \/ In y l.
Proof.
  revert i; induction l as [|h t IH]; intros [|i]; simpl; intros H; auto.
  - destruct H; auto.
  - destruct H as [H|H]; auto. apply IH in H. tauto.
Qed.

Lemma remove_nth_perm {A} (l : list A) k p :
  nth_error l k = Some p -> Permutation (p :: remove_nth l k) l.
Proof.
  revert k; induction l as [|h t IH]; intros [|k]; simpl; intros H; try discriminate.
  - inversion H; subst. apply Permutation_refl.
  - apply IH in H. eapply perm_trans; [apply perm_swap|]. now constructor.
Qed.

Lemma pops_snoc {A} (ls : list (list A)) o r ls' i x xs :
  pops ls o = Some (r, ls') -> nth_error ls' i = Some (x :: xs) ->
  pops ls (o ++ [i]) = Some (r ++ [x], set_nth ls' i xs).
Proof.
  revert ls r; induction o as [|j o IH]; intros ls r H Hn; simpl in *.
  - inversion H; subst. rewrite Hn. reflexivity.
  - destruct (nth_error ls j) as [[|y ys]|]; try discriminate.
    destruct (pops (set_nth ls j ys) o) as [[r' l']|] eqn:E; try discriminate.
    inversion H; subst. rewrite (IH _ _ E Hn). reflexivity.
Qed.

Lemma pops_length {A} (ls : list (list A)) o ps rem :
  pops ls o = Some (ps, rem) -> length ps = length o.
Proof.
  revert ls ps; induction o as [|j o IH]; intros ls ps H; simpl in *.
  - now inversion H.
  - destruct (nth_error ls j) as [[|y ys]|]; try discriminate.
    destruct (pops (set_nth ls j ys) o) as [[r' l']|] eqn:E; try discriminate.
    inversion H; subst. simpl. f_equal. eapply IH; eauto.
Qed.

(** Second characterisation of an interleaving: sequence [i] is exactly the elements taken from
    it (in the order they appear in [ps]) followed by what is left of it. *)
Lemma pops_proj {A} (ls : list (list A)) o ps rem i l :
  pops ls o = Some (ps, rem) -> nth_error ls i = Some l ->
  exists r, nth_error rem i = Some r /\ l = proj_of i o ps ++ r.
Proof.
  revert ls ps l; induction o as [|j o IH]; intros ls ps l H Hn; simpl in *.
  - inversion H; subst. exists l. split; [exact Hn | reflexivity].
  - destruct (nth_error ls j) as [[|y ys]|] eqn:Ej; try discriminate.
    destruct (pops (set_nth ls j ys) o) as [[r' l']|] eqn:E; try discriminate.
    inversion H; subst. destruct (Nat.eqb j i) eqn:Eji.
    + apply PeanoNat.Nat.eqb_eq in Eji; subst j. rewrite Ej in Hn. inversion Hn; subst.
      destruct (IH _ _ ys E) as (r & Hr & Hl).
      { eapply nth_error_set_nth_same; eauto. }
      exists r. split; [exact Hr|]. simpl. now rewrite Hl.
    + apply PeanoNat.Nat.eqb_neq in Eji.
      destruct (IH _ _ l E) as (r & Hr & Hl).
      { rewrite nth_error_set_nth_other; auto. }
      exists r. split; auto.
Qed.

(** Everything in an interleaving comes from one of the sequences. *)
Lemma pops_in {A} (ls : list (list A)) o ps rem p :
  pops ls o = Some (ps, rem) -> In p ps -> exists l, In l ls /\ In p l.
Proof.
  revert ls ps; induction o as [|j o IH]; intros ls ps H Hin; simpl in *.
  - inversion H; subst. destruct Hin.
  - destruct (nth_error ls j) as [[|y ys]|] eqn:Ej; try discriminate.
    destruct (pops (set_nth ls j ys) o) as [[r' l']|] eqn:E; try discriminate.
    inversion H; subst. apply nth_error_In in Ej. destruct Hin as [->|Hin].
    + exists (p :: ys). split; [exact Ej | now left].
    + destruct (IH _ _ E Hin) as (l & Hl & Hp). apply in_set_nth in Hl. destruct Hl as [->|Hl].
      * exists (y :: ys). split; [exact Ej | now right].
      * exists l. split; assumption.
Qed.

Lemma pops_forall {A} (P : A -> Prop) (ls : list (list A)) o ps rem :
  Forall (Forall P) ls -> pops ls o = Some (ps, rem) -> Forall P ps.
Proof.
  intros HF H. apply Forall_forall. intros p Hp.
  destruct (pops_in _ _ _ _ _ H Hp) as (l & Hl & Hpl).
  rewrite Forall_forall in HF. specialize (HF _ Hl). rewrite Forall_forall in HF. auto.
Qed.

Lemma all_nil_pops_rem {A} (ls : list (list A)) o ps rem i l :
  pops ls o = Some (ps, rem) -> all_nil rem = true -> nth_error ls i = Some l ->
  l = proj_of i o ps.
Proof.
  intros H Hn Hi. destruct (pops_proj _ _ _ _ _ _ H Hi) as (r & Hr & ->).
  unfold all_nil in Hn. rewrite forallb_forall in Hn. apply nth_error_In in Hr.
  specialize (Hn _ Hr). destruct r; [now rewrite app_nil_r | discriminate].
Qed.

Lemma pops_firstn {A} (ls : list (list A)) o ps rem k :
  pops ls o = Some (ps, rem) ->
  exists rem', pops ls (firstn k o) = Some (firstn k ps, rem').
Proof.
  revert ls ps k; induction o as [|j o IH]; intros ls ps k H; simpl in H.
  - inversion H; subst. exists rem. destruct k; reflexivity.
  - destruct (nth_error ls j) as [[|y ys]|] eqn:Ej; try discriminate.
    destruct (pops (set_nth ls j ys) o) as [[r' l']|] eqn:E; try discriminate.
    inversion H; subst. destruct k as [|k].
    + exists ls. reflexivity.
    + destruct (IH _ _ k E) as (rem' & Hr). exists rem'. simpl. now rewrite Ej, Hr.
Qed.

Lemma firstn_length_app {A} (a b : list A) : firstn (length a) (a ++ b) = a.
Proof. induction a; simpl; congruence. Qed.

Section Proofs.
  Context {data : Type}.
  Variable declared : data -> option nat.
  Variable max_atts : nat.
  Variable split : list (frame data) -> list (list (frame data)).
  Hypothesis split_concat : forall b, concat (split b) = b.

  Notation wf := (wf_packet declared max_atts).
  Notation padd := (parser_add declared max_atts).
  Notation pfrom := (parse_from declared max_atts).
  Notation stp := (step declared max_atts split).
  Notation fdata := (map (@f_data data)).

  (** ** Parser *)

  Lemma msgs_app (a b : list (epkt data)) : msgs (a ++ b) = msgs a ++ msgs b.
  Proof. unfold msgs. apply flat_map_app. Qed.

  Lemma msgs_map_Msg (c : list (frame data)) : msgs (map (@Msg data) c) = c.
  Proof. induction c; simpl; congruence. Qed.

  Lemma concat_singletons {A} (b : list A) : concat (map (fun f => [f]) b) = b.
  Proof. induction b; simpl; congruence. Qed.

  Lemma chunks_concat tr b : concat (chunks split tr b) = b.
  Proof.
    destruct tr; simpl.
    - apply concat_singletons.
    - apply app_nil_r.
    - apply split_concat.
  Qed.

  Lemma pfrom_app st a b :
    pfrom st (a ++ b) =
    match pfrom st a with
    | Ok (st', fs) => match pfrom st' b with
                      | Ok (st'', fs') => Ok (st'', fs ++ fs')
                      | Err => Err | Panic => Panic end
    | Err => Err | Panic => Panic
    end.
  Proof.
    revert st; induction a as [|d a IH]; intros st; simpl.
    - destruct (pfrom st b) as [[? ?]| |]; reflexivity.
    - destruct (padd st d) as [[st1 fin]| |]; try reflexivity.
      rewrite IH. destruct (pfrom st1 a) as [[st2 fs]| |]; try reflexivity.
      destruct (pfrom st2 b) as [[st3 fs']| |]; try reflexivity.
      now rewrite app_assoc.
  Qed.

  (** Collecting attachments: a strict prefix of the announced attachments finishes nothing. *)
  Lemma pfrom_collect_partial h (a2 r a1 : list data) :
    r <> [] ->
    pfrom (Some (mkRecon h (length (a2 ++ r)) a1)) a2 =
    Ok (Some (mkRecon h (length r) (a1 ++ a2)), []).
  Proof.
    intros Hr. revert a1; induction a2 as [|d t IH]; intros a1; simpl.
    - now rewrite app_nil_r.
    - destruct (length (t ++ r)) eqn:El.
      + destruct t; destruct r; simpl in El; try discriminate. congruence.
      + rewrite IH. simpl. now rewrite <- app_assoc.
  Qed.

  (** ... and exactly the announced number of frames finishes the packet with those frames. *)
  Lemma pfrom_collect_full h (a2 a1 : list data) :
    a2 <> [] ->
    pfrom (Some (mkRecon h (length a2) a1)) a2 = Ok (None, [mkSP h (a1 ++ a2)]).
  Proof.
    intros Hne. destruct (exists_last Hne) as (a2' & d & ->).
    rewrite pfrom_app, pfrom_collect_partial by discriminate. simpl.
    now rewrite app_assoc.
  Qed.

  Lemma map_f_data_frames (l : list data) : fdata (map (mkFrame true) l) = l.
  Proof. induction l; simpl; congruence. Qed.

  Lemma wf_max_ok p : wf p ->
    ((0 <? max_atts)%nat && (max_atts <? length (sp_atts p))%nat) = false.
  Proof.
    intros [_ [H|H]].
    - rewrite H. reflexivity.
    - apply andb_false_iff. right. apply PeanoNat.Nat.ltb_ge. exact H.
  Qed.

  (** All frames of a well-formed packet, fed to an idle parser, finish exactly that packet. *)
  Lemma pfrom_frames_full p : wf p -> pfrom None (fdata (frames_of p)) = Ok (None, [p]).
  Proof.
    intros W. destruct p as [h atts]. unfold frames_of. simpl sp_hdr. simpl sp_atts.
    simpl map. rewrite map_f_data_frames. simpl pfrom.
    pose proof (wf_max_ok _ W) as Hm. destruct W as [Hd _]. simpl in Hd, Hm.
    rewrite Hd, Hm. destruct atts as [|a atts].
    - reflexivity.
    - change (length (a :: atts)) with (S (length atts)). cbv iota.
      change (S (length atts)) with (length (a :: atts)).
      rewrite pfrom_collect_full by discriminate. reflexivity.
  Qed.

  (** A strict prefix of the frames of a well-formed packet finishes nothing and does not fail. *)
  Lemma pfrom_frames_partial p l r :
    wf p -> l ++ r = frames_of p -> r <> [] -> exists st, pfrom None (fdata l) = Ok (st, []).
  Proof.
    intros W E Hr. destruct l as [|f l].
    - exists None. reflexivity.
    - destruct p as [h atts]. unfold frames_of in E. simpl in E. inversion E as [[Ef El]]. subst f.
      simpl. pose proof (wf_max_ok _ W) as Hm. destruct W as [Hd _]. simpl in Hd, Hm.
      rewrite Hd, Hm.
      assert (Ha : atts = fdata l ++ fdata r).
      { rewrite <- map_app, El. now rewrite map_f_data_frames. }
      destruct atts as [|a atts].
      + destruct l; destruct r; simpl in El; try discriminate. congruence.
      + change (length (a :: atts)) with (S (length atts)). cbv iota.
        change (S (length atts)) with (length (a :: atts)). rewrite Ha.
        rewrite pfrom_collect_partial.
        * eexists. reflexivity.
        * destruct r; [congruence | discriminate].
  Qed.

  (** Any prefix of the frames of a sequence of well-formed packets: the parser does not fail and
      finishes a prefix of the packets, in order, each with exactly its own attachments. *)
  Lemma pfrom_prefix ps : Forall wf ps ->
    forall l rest, l ++ rest = flat_map frames_of ps ->
    exists st k, pfrom None (fdata l) = Ok (st, firstn k ps).
  Proof.
    induction 1 as [|p ps W HF IH]; intros l rest E.
    - simpl in E. apply app_eq_nil in E as [-> _]. exists None, 0. reflexivity.
    - change (flat_map frames_of (p :: ps)) with (frames_of p ++ flat_map frames_of ps) in E.
      apply app_eq_app in E as [m [[El Er]|[El Er]]].
      + (* l = frames_of p ++ m *)
        destruct (IH m rest) as (st & k & Hk); [now symmetry|].
        exists st, (S k). rewrite El, map_app, pfrom_app, (pfrom_frames_full _ W), Hk.
        reflexivity.
      + (* frames_of p = l ++ m *)
        destruct m as [|f m].
        * rewrite app_nil_r in El. destruct (IH [] rest) as (st & k & Hk); [now symmetry|].
          exists None, 1. rewrite <- El. rewrite (pfrom_frames_full _ W). reflexivity.
        * destruct (pfrom_frames_partial p l (f :: m) W) as [st Hst]; [now symmetry | discriminate|].
          exists st, 0. exact Hst.
  Qed.

  Lemma pfrom_all ps : Forall wf ps -> pfrom None (fdata (flat_map frames_of ps)) = Ok (None, ps).
  Proof.
    induction 1 as [|p ps W HF IH]; [reflexivity|].
    change (flat_map frames_of (p :: ps)) with (frames_of p ++ flat_map frames_of ps).
    rewrite map_app, pfrom_app, (pfrom_frames_full _ W), IH. reflexivity.
  Qed.

  Lemma pfrom_snoc st l d st' fs :
    pfrom st l = Ok (st', fs) ->
    pfrom st (l ++ [d]) =
    match padd st' d with
    | Ok (st'', fin) => Ok (st'', fs ++ opt_list fin)
    | Err => Err | Panic => Panic
    end.
  Proof.
    intros H. rewrite pfrom_app, H. simpl. destruct (padd st' d) as [[st'' fin]| |]; try reflexivity.
    now rewrite app_nil_r.
  Qed.

  (** ** Invariants of the transition system *)

  Variable tr : transport.
  Variable progs : list (list (spacket data)).

  Notation reach := (reachable_from declared max_atts split tr progs).

  Record Inv (s : state data) : Prop := {
    inv_pollq : tr <> PollServer -> st_pollq s = [];
    inv_log : pops progs (map fst (st_log s)) = Some (map snd (st_log s), st_em s);
    inv_frames : msgs (st_wire s) ++ msgs (st_pollq s) ++ concat (st_dr s) ++ st_q s
                 = flat_map frames_of (map snd (st_log s));
    inv_parse : st_rerr s = false ->
                pfrom None (fdata (msgs (st_done s))) = Ok (st_parser s, st_finished s);
    inv_disp : Permutation (st_entered s ++ st_pending s) (st_finished s)
  }.

  Lemma inv_init : Inv (init progs).
  Proof. constructor; simpl; auto. Qed.

  Ltac norm_frames :=
    unfold st_wire in *; simpl in *;
    repeat rewrite msgs_app in *; repeat rewrite msgs_map_Msg in *; simpl in *;
    repeat rewrite app_nil_r in *; repeat rewrite <- app_assoc in *.

  Lemma inv_step s a s' : Inv s -> stp tr a s = Some s' -> Inv s'.
  Proof.
    intros [I0 I1 I2 I3 I4] H.
    destruct a as [i| | |ty| | |k]; simpl in H.
    - (* Emit *)
      destruct (nth_error (st_em s) i) as [[|p rest]|] eqn:E; try discriminate.
      inversion H; subst; clear H. constructor; simpl; auto.
      + rewrite !map_app. simpl. eapply pops_snoc; eauto.
      + rewrite map_app, flat_map_app. simpl flat_map. rewrite app_nil_r, <- I2.
        norm_frames. reflexivity.
    - (* DrGet *)
      destruct (st_dr s) eqn:Ed; try discriminate. destruct (st_q s) eqn:Eq; try discriminate.
      inversion H; subst; clear H. constructor; simpl; auto.
      rewrite <- I2. unfold st_wire; simpl. rewrite chunks_concat, app_nil_r. reflexivity.
    - (* DrSend *)
      destruct (st_dr s) as [|c rest] eqn:Ed; try discriminate.
      inversion H; subst; clear H.
      destruct tr eqn:Et; constructor; simpl; auto;
        try (intros Hne; rewrite Et in Hne; first [congruence | apply I0; discriminate]).
      + rewrite I0 in * by discriminate. rewrite <- I2. norm_frames. reflexivity.
      + rewrite <- I2. norm_frames. reflexivity.
      + rewrite I0 in * by discriminate. rewrite <- I2. norm_frames. reflexivity.
    - (* Control *)
      inversion H; subst; clear H.
      destruct tr eqn:Et; constructor; simpl; auto;
        try (intros Hne; rewrite Et in Hne; first [congruence | apply I0; discriminate]).
      + rewrite <- I2. norm_frames. reflexivity.
      + rewrite <- I2. norm_frames. reflexivity.
      + rewrite <- I2. norm_frames. reflexivity.
    - (* Poll *)
      destruct tr eqn:Et; try discriminate. destruct (st_pollq s) eqn:Ep; try discriminate.
      inversion H; subst; clear H. constructor; simpl; auto.
      rewrite <- I2. norm_frames. reflexivity.
    - (* Recv *)
      destruct (st_rerr s) eqn:Er; try discriminate.
      destruct (st_inbox s) as [|[f|ty] rest] eqn:Ei; try discriminate.
      + specialize (I3 eq_refl).
        destruct (padd (st_parser s) (f_data f)) as [[p' fin]| |] eqn:Ea;
          inversion H; subst; clear H; constructor; simpl; auto; try discriminate;
          try (rewrite <- I2; norm_frames; rewrite Ei; reflexivity).
        * intros _. rewrite msgs_app, map_app. simpl. erewrite pfrom_snoc; eauto. now rewrite Ea.
        * rewrite app_assoc. now apply Permutation_app_tail.
      + inversion H; subst; clear H; constructor; simpl; auto.
        * rewrite <- I2; norm_frames; rewrite Ei; reflexivity.
        * intros _. rewrite msgs_app. simpl. rewrite app_nil_r. auto.
    - (* Dispatch *)
      destruct (nth_error (st_pending s) k) as [p|] eqn:E; try discriminate.
      inversion H; subst; clear H. constructor; simpl; auto.
      eapply perm_trans; [|exact I4]. rewrite <- app_assoc. apply Permutation_app_head. simpl.
      now apply remove_nth_perm.
  Qed.

  Lemma inv_reachable s : reach s -> Inv s.
  Proof.
    revert s. apply (invariant_reachable (step := stp tr) (P := Inv)). split.
    - intros s0 ->. apply inv_init.
    - intros s0 a s1. apply inv_step.
  Qed.

  (** *** Wire order: the MESSAGE frames delivered to the peer are a prefix of the frames of an
      interleaving, at packet granularity, of prefixes of the per-emitter sequences. *)
  Theorem wire_order s : reach s ->
    exists order ps rest,
      pops progs order = Some (ps, st_em s) /\
      msgs (st_wire s) ++ rest = flat_map frames_of ps.
  Proof.
    intros R. destruct (inv_reachable _ R) as [_ I1 I2 _ _].
    exists (map fst (st_log s)), (map snd (st_log s)),
           (msgs (st_pollq s) ++ concat (st_dr s) ++ st_q s).
    split; assumption.
  Qed.

  (** ... and once everything has been drained, they are exactly the frames of an interleaving of the
      complete per-emitter sequences. *)
  Theorem wire_complete s : reach s -> quiescent_state s ->
    exists order ps,
      pops progs order = Some (ps, st_em s) /\ all_nil (st_em s) = true /\
      msgs (st_wire s) = flat_map frames_of ps.
  Proof.
    intros R (Hn & Hq & Hd & Hp & _). destruct (inv_reachable _ R) as [_ I1 I2 _ _].
    exists (map fst (st_log s)), (map snd (st_log s)). repeat split; auto.
    rewrite Hq, Hd, Hp in I2. simpl in I2. now rewrite app_nil_r in I2.
  Qed.

  (** *** Reassembly *)
  Hypothesis progs_wf : Forall (Forall wf) progs.

  Lemma log_wf s : Inv s -> Forall wf (map snd (st_log s)).
  Proof. intros I. eapply pops_forall; [exact progs_wf | apply (inv_log _ I)]. Qed.

  Lemma no_rerr s : reach s -> st_rerr s = false.
  Proof.
    revert s. apply (invariant_reachable_under (step := stp tr) (Q := Inv)
                       (P := fun s => st_rerr s = false)).
    - apply inv_reachable.
    - split.
      + intros s0 ->. reflexivity.
      + intros s0 a s1 I Hr H.
        destruct a as [i| | |ty| | |k]; simpl in H.
        * destruct (nth_error (st_em s0) i) as [[|p rest]|]; try discriminate.
          inversion H; subst; exact Hr.
        * destruct (st_dr s0); try discriminate. destruct (st_q s0); try discriminate.
          inversion H; subst; exact Hr.
        * destruct (st_dr s0); try discriminate. inversion H; subst. destruct tr; exact Hr.
        * inversion H; subst. destruct tr; exact Hr.
        * destruct tr; try discriminate. destruct (st_pollq s0); try discriminate.
          inversion H; subst; exact Hr.
        * rewrite Hr in H. destruct (st_inbox s0) as [|[f|ty] rest] eqn:Ei; try discriminate.
          -- pose proof (inv_parse _ I Hr) as P. pose proof (inv_frames _ I) as F.
             unfold st_wire in F. rewrite Ei in F. rewrite msgs_app in F. simpl in F.
             destruct (pfrom_prefix _ (log_wf _ I) (msgs (st_done s0) ++ [f])
                         (msgs rest ++ msgs (st_pollq s0) ++ concat (st_dr s0) ++ st_q s0))
               as (st & k & Hk).
             { rewrite <- F. rewrite <- !app_assoc. reflexivity. }
             rewrite map_app in Hk. simpl in Hk. erewrite pfrom_snoc in Hk by eauto.
             destruct (padd (st_parser s0) (f_data f)) as [[p' fin]| |]; try discriminate.
             inversion H; subst; reflexivity.
          -- inversion H; subst; reflexivity.
        * destruct (nth_error (st_pending s0) k); try discriminate. inversion H; subst; exact Hr.
  Qed.

  (** The peer's parser never fails and finishes packets in wire order, each one equal to the
      packet that was emitted (its header with exactly its own attachments). *)
  Theorem reassembly s : reach s ->
    st_rerr s = false /\
    exists k, st_finished s = firstn k (map snd (st_log s)).
  Proof.
    intros R. pose proof (no_rerr _ R) as Hr. split; [exact Hr|].
    pose proof (inv_reachable _ R) as I. pose proof (inv_parse _ I Hr) as P.
    pose proof (inv_frames _ I) as F. unfold st_wire in F. rewrite msgs_app in F.
    destruct (pfrom_prefix _ (log_wf _ I) (msgs (st_done s))
                (msgs (st_inbox s) ++ msgs (st_pollq s) ++ concat (st_dr s) ++ st_q s))
      as (st & k & Hk).
    { rewrite <- F. rewrite <- !app_assoc. reflexivity. }
    rewrite P in Hk. inversion Hk as [[Hk1 Hk2]]. exists k. exact Hk2.
  Qed.

  Theorem reassembly_complete s : reach s -> quiescent_state s ->
    st_finished s = map snd (st_log s) /\ st_parser s = None /\
    Permutation (st_entered s) (map snd (st_log s)).
  Proof.
    intros R (Hn & Hq & Hd & Hp & Hi & Hpe). pose proof (no_rerr _ R) as Hr.
    pose proof (inv_reachable _ R) as I. pose proof (inv_parse _ I Hr) as P.
    pose proof (inv_frames _ I) as F. unfold st_wire in F.
    rewrite Hq, Hd, Hp, Hi in F. simpl in F. rewrite !app_nil_r in F.
    rewrite F, (pfrom_all _ (log_wf _ I)) in P. inversion P as [[P1 P2]].
    pose proof (inv_disp _ I) as D. rewrite Hpe, app_nil_r in D.
    repeat split; auto. now rewrite P2.
  Qed.

  (** *** Dispatch *)

  (** Every finished packet gets exactly one dispatch goroutine: handler entries and pending
      goroutines together are a permutation of the finished packets (no loss, no duplicate). *)
  Theorem dispatch_exactly_once s : reach s ->
    Permutation (st_entered s ++ st_pending s) (st_finished s).
  Proof. intros R. apply (inv_disp _ (inv_reachable _ R)). Qed.

  (** If the goroutines reach their handlers in spawn order, handler entry order is the order in
      which the parser finished the packets (hence, by [reassembly], wire order). *)
  Lemma fifo_step s a s' :
    fifo_dispatch [a] = true -> st_entered s ++ st_pending s = st_finished s ->
    stp tr a s = Some s' -> st_entered s' ++ st_pending s' = st_finished s'.
  Proof.
    intros Hf E H. destruct a as [i| | |ty| | |k]; simpl in H.
    - destruct (nth_error (st_em s) i) as [[|p rest]|]; try discriminate. inversion H; subst; exact E.
    - destruct (st_dr s); try discriminate. destruct (st_q s); try discriminate.
      inversion H; subst; exact E.
    - destruct (st_dr s); try discriminate. inversion H; subst. destruct tr; exact E.
    - inversion H; subst. destruct tr; exact E.
    - destruct tr; try discriminate. destruct (st_pollq s); try discriminate.
      inversion H; subst; exact E.
    - destruct (st_rerr s); try discriminate.
      destruct (st_inbox s) as [|[f|ty] rest]; try discriminate.
      + destruct (padd (st_parser s) (f_data f)) as [[p' fin]| |]; inversion H; subst; simpl; auto.
        rewrite app_assoc. now rewrite E.
      + inversion H; subst; exact E.
    - simpl in Hf. rewrite andb_true_r in Hf. apply PeanoNat.Nat.eqb_eq in Hf. subst k.
      destruct (st_pending s) as [|p t] eqn:Ep; try discriminate. simpl in H.
      inversion H; subst; simpl. rewrite <- app_assoc. exact E.
  Qed.

  Lemma fifo_exec sched : forall s0,
    st_entered s0 ++ st_pending s0 = st_finished s0 -> fifo_dispatch sched = true ->
    let s := exec (stp tr) sched s0 in st_entered s ++ st_pending s = st_finished s.
  Proof.
    induction sched as [|a sched IH]; intros s0 E Hf; simpl; [exact E|].
    simpl in Hf. apply andb_true_iff in Hf as [Ha Hs].
    apply IH; [|exact Hs]. unfold step_skip. destruct (stp tr a s0) eqn:Est; [|exact E].
    eapply fifo_step; eauto. simpl. now rewrite Ha.
  Qed.

  Theorem fifo_dispatch_order sched :
    fifo_dispatch sched = true ->
    let s := run declared max_atts split tr sched progs in
    st_entered s ++ st_pending s = st_finished s.
  Proof. intros Hf. unfold run. apply fifo_exec; [reflexivity | exact Hf]. Qed.

  (** *** The part of the invariant that does not depend on who put the packets into the queue
      (used by Sio/PipelineConnProofs.v, where a second producer path exists). *)
  Record InvF (s : state data) : Prop := {
    invf_pollq : tr <> PollServer -> st_pollq s = [];
    invf_frames : msgs (st_wire s) ++ msgs (st_pollq s) ++ concat (st_dr s) ++ st_q s
                  = flat_map frames_of (map snd (st_log s));
    invf_parse : st_rerr s = false ->
                 pfrom None (fdata (msgs (st_done s))) = Ok (st_parser s, st_finished s);
    invf_disp : Permutation (st_entered s ++ st_pending s) (st_finished s)
  }.

  Lemma invF_of_inv s : Inv s -> InvF s.
  Proof. intros [I0 I1 I2 I3 I4]. constructor; assumption. Qed.

  Lemma invF_step s a s' : InvF s -> stp tr a s = Some s' -> InvF s'.
  Proof.
    intros [I0 I2 I3 I4] H.
    destruct a as [i| | |ty| | |k]; simpl in H.
    - destruct (nth_error (st_em s) i) as [[|p rest]|] eqn:E; try discriminate.
      inversion H; subst; clear H. constructor; simpl; auto.
      rewrite map_app, flat_map_app. simpl flat_map. rewrite app_nil_r, <- I2.
      norm_frames. reflexivity.
    - destruct (st_dr s) eqn:Ed; try discriminate. destruct (st_q s) eqn:Eq; try discriminate.
      inversion H; subst; clear H. constructor; simpl; auto.
      rewrite <- I2. unfold st_wire; simpl. rewrite chunks_concat, app_nil_r. reflexivity.
    - destruct (st_dr s) as [|c rest] eqn:Ed; try discriminate.
      inversion H; subst; clear H.
      destruct tr eqn:Et; constructor; simpl; auto;
        try (intros Hne; rewrite Et in Hne; first [congruence | apply I0; discriminate]).
      + rewrite I0 in * by discriminate. rewrite <- I2. norm_frames. reflexivity.
      + rewrite <- I2. norm_frames. reflexivity.
      + rewrite I0 in * by discriminate. rewrite <- I2. norm_frames. reflexivity.
    - inversion H; subst; clear H.
      destruct tr eqn:Et; constructor; simpl; auto;
        try (intros Hne; rewrite Et in Hne; first [congruence | apply I0; discriminate]).
      + rewrite <- I2. norm_frames. reflexivity.
      + rewrite <- I2. norm_frames. reflexivity.
      + rewrite <- I2. norm_frames. reflexivity.
    - destruct tr eqn:Et; try discriminate. destruct (st_pollq s) eqn:Ep; try discriminate.
      inversion H; subst; clear H. constructor; simpl; auto.
      rewrite <- I2. norm_frames. reflexivity.
    - destruct (st_rerr s) eqn:Er; try discriminate.
      destruct (st_inbox s) as [|[f|ty] rest] eqn:Ei; try discriminate.
      + specialize (I3 eq_refl).
        destruct (padd (st_parser s) (f_data f)) as [[p' fin]| |] eqn:Ea;
          inversion H; subst; clear H; constructor; simpl; auto; try discriminate;
          try (rewrite <- I2; norm_frames; rewrite Ei; reflexivity).
        * intros _. rewrite msgs_app, map_app. simpl. erewrite pfrom_snoc; eauto. now rewrite Ea.
        * rewrite app_assoc. now apply Permutation_app_tail.
      + inversion H; subst; clear H; constructor; simpl; auto.
        * rewrite <- I2; norm_frames; rewrite Ei; reflexivity.
        * intros _. rewrite msgs_app. simpl. rewrite app_nil_r. auto.
    - destruct (nth_error (st_pending s) k) as [p|] eqn:E; try discriminate.
      inversion H; subst; clear H. constructor; simpl; auto.
      eapply perm_trans; [|exact I4]. rewrite <- app_assoc. apply Permutation_app_head. simpl.
      now apply remove_nth_perm.
  Qed.

  (** With well-formed packets in the log the peer's parser cannot fail on the next frame ... *)
  Lemma invF_step_no_err s a s' :
    InvF s -> Forall wf (map snd (st_log s)) -> st_rerr s = false ->
    stp tr a s = Some s' -> st_rerr s' = false.
  Proof.
    intros I W Hr H. destruct a as [i| | |ty| | |k]; simpl in H.
    - destruct (nth_error (st_em s) i) as [[|p rest]|]; try discriminate.
      inversion H; subst; exact Hr.
    - destruct (st_dr s); try discriminate. destruct (st_q s); try discriminate.
      inversion H; subst; exact Hr.
    - destruct (st_dr s); try discriminate. inversion H; subst. destruct tr; exact Hr.
    - inversion H; subst. destruct tr; exact Hr.
    - destruct tr; try discriminate. destruct (st_pollq s); try discriminate.
      inversion H; subst; exact Hr.
    - rewrite Hr in H. destruct (st_inbox s) as [|[f|ty] rest] eqn:Ei; try discriminate.
      + pose proof (invf_parse _ I Hr) as P. pose proof (invf_frames _ I) as F.
        unfold st_wire in F. rewrite Ei in F. rewrite msgs_app in F. simpl in F.
        destruct (pfrom_prefix _ W (msgs (st_done s) ++ [f])
                    (msgs rest ++ msgs (st_pollq s) ++ concat (st_dr s) ++ st_q s))
          as (st & k & Hk).
        { rewrite <- F. rewrite <- !app_assoc. reflexivity. }
        rewrite map_app in Hk. simpl in Hk. erewrite pfrom_snoc in Hk by eauto.
        destruct (padd (st_parser s) (f_data f)) as [[p' fin]| |]; try discriminate.
        inversion H; subst; reflexivity.
      + inversion H; subst; reflexivity.
    - destruct (nth_error (st_pending s) k); try discriminate. inversion H; subst; exact Hr.
  Qed.

  (** ... and what it has finished is a prefix of the log: wire order, own attachments. *)
  Lemma invF_finished_prefix s :
    InvF s -> Forall wf (map snd (st_log s)) -> st_rerr s = false ->
    exists k, st_finished s = firstn k (map snd (st_log s)).
  Proof.
    intros I W Hr. pose proof (invf_parse _ I Hr) as P.
    pose proof (invf_frames _ I) as F. unfold st_wire in F. rewrite msgs_app in F.
    destruct (pfrom_prefix _ W (msgs (st_done s))
                (msgs (st_inbox s) ++ msgs (st_pollq s) ++ concat (st_dr s) ++ st_q s))
      as (st & k & Hk).
    { rewrite <- F. rewrite <- !app_assoc. reflexivity. }
    rewrite P in Hk. inversion Hk as [[Hk1 Hk2]]. exists k. exact Hk2.
  Qed.

  Lemma reach_run sched : reach (run declared max_atts split tr sched progs).
  Proof. unfold run. apply reachable_exec. now apply reach_init. Qed.

  (** Partial form of the handler-entry order: under FIFO scheduling of the dispatch goroutines the
      handler-entry sequence is an interleaving of prefixes of the per-emitter sequences. *)
  Theorem entry_order_fifo sched :
    fifo_dispatch sched = true ->
    exists rem, interleaving progs (st_entered (run declared max_atts split tr sched progs)) rem.
  Proof.
    intros Hf. pose proof (fifo_dispatch_order sched Hf) as E. cbv zeta in E.
    pose proof (reach_run sched) as R. set (s := run declared max_atts split tr sched progs) in *.
    destruct (reassembly s R) as [_ [k Hk]]. pose proof (inv_log _ (inv_reachable _ R)) as L.
    rewrite Hk in E.
    assert (En : st_entered s = firstn (length (st_entered s)) (firstn k (map snd (st_log s)))).
    { rewrite <- E. now rewrite firstn_length_app. }
    destruct (pops_firstn _ _ _ _ k L) as (r1 & H1).
    destruct (pops_firstn _ _ _ _ (length (st_entered s)) H1) as (r2 & H2).
    exists r2. eexists. rewrite En. exact H2.
  Qed.

End Proofs.
