(** Proofs about the offline buffers of the client socket. *)
From SioV Require Import Base.GoSem Sio.OfflineBuffer.

Lemma efr_app : forall a b, efr (a ++ b) = efr a ++ efr b.
Proof.
  induction a as [|o a IH]; intros b; simpl; [reflexivity|].
  destruct (frame_id o); simpl; now rewrite IH.
Qed.

Lemma calls_app : forall a b, calls (a ++ b) = calls a ++ calls b.
Proof.
  induction a as [|o a IH]; intros b; simpl; [reflexivity|].
  destruct o; simpl; now rewrite IH.
Qed.

Lemma efr_frames : forall l ack att, efr (frames l ack att) = emit_ids l att.
Proof.
  intros l ack att. unfold frames, emit_ids.
  generalize (seq 0 (S att)). induction l0 as [|i l0 IH]; simpl; [reflexivity|now rewrite IH].
Qed.

Lemma calls_frames : forall l ack att, calls (frames l ack att) = [].
Proof.
  intros l ack att. unfold frames.
  generalize (seq 0 (S att)). induction l0 as [|i l0 IH]; simpl; auto.
Qed.

Lemma efr_noacks : forall l, efr (noacks l) = efr l.
Proof. induction l as [|o l IH]; simpl; [reflexivity|]. destruct o; simpl; now rewrite ?IH. Qed.
Lemma efr_acks_of : forall l, efr (acks_of l) = [].
Proof. induction l as [|o l IH]; simpl; [reflexivity|]. destruct o; simpl; now rewrite ?IH. Qed.
Lemma calls_noacks : forall l, calls (noacks l) = calls l.
Proof. induction l as [|o l IH]; simpl; [reflexivity|]. destruct o; simpl; now rewrite ?IH. Qed.
Lemma calls_acks_of : forall l, calls (acks_of l) = [].
Proof. induction l as [|o l IH]; simpl; [reflexivity|]. destruct o; simpl; now rewrite ?IH. Qed.

Lemma efr_replay : forall rb sent, efr (replay rb sent) = [].
Proof.
  induction rb as [|[[[l id] h] i] rb IH]; intros sent; simpl; [reflexivity|].
  destruct id as [a|]; [|apply IH].
  destruct h; rewrite ?efr_app, ?IH; destruct (memN a sent); simpl; auto.
Qed.

Lemma efr_call_now : forall l id hs i sent, efr (call_now l id hs i sent) = [].
Proof.
  intros l id hs; induction hs as [|h hs IH]; intros i sent; simpl; [reflexivity|].
  destruct id as [a|]; destruct h; simpl; rewrite ?efr_app, ?IH; auto;
    destruct sent; simpl; auto.
Qed.

(** Only frames are ever parked in sendBuffer. *)
Definition only_frames (l : list out) : Prop := Forall (fun o => frame_id o <> None) l.

Lemma only_frames_frames : forall l ack att, only_frames (frames l ack att).
Proof.
  intros. unfold only_frames, frames. apply Forall_forall. intros o Hin.
  apply in_map_iff in Hin as (i & <- & _). discriminate.
Qed.

Lemma calls_only_frames : forall l, only_frames l -> calls l = [].
Proof.
  induction 1 as [|o l Ho _ IH]; simpl; [reflexivity|].
  destruct o; simpl in *; try congruence; try assumption.
Qed.

Lemma step_only_frames : forall s o, only_frames (sendBuf s) -> only_frames (sendBuf (snd (step s o))).
Proof.
  intros s o H. destruct o; simpl.
  - destruct (is_conn (cs s) && nilb (sendBuf s)); simpl; [assumption|].
    destruct (negb volatile); simpl; [|assumption].
    apply Forall_app; split; [assumption|apply only_frames_frames].
  - destruct (is_pending (cs s)); simpl; assumption.
  - constructor.
  - assumption.
  - destruct (is_conn (cs s)); simpl; assumption.
  - unfold only_frames, purge in *. apply Forall_forall. intros x Hx.
    apply filter_In in Hx as [Hx _]. rewrite Forall_forall in H. now apply H.
Qed.

(** The connection state of the model is the one the last life-cycle operation decides. *)
Lemma step_cs : forall s o, cs (snd (step s o)) = lifecycle (cs s) o.
Proof.
  intros s o. destruct o; simpl.
  - destruct (is_conn (cs s) && nilb (sendBuf s)); simpl; [reflexivity|]. destruct (negb volatile); reflexivity.
  - destruct (cs s) eqn:E; simpl; rewrite ?E; reflexivity.
  - reflexivity.
  - reflexivity.
  - destruct (is_conn (cs s)); reflexivity.
  - reflexivity.
Qed.

Local Opaque frames emit_ids.

(** While connected nothing is parked (the CONNECT reply empties the buffer and connected emits
    bypass it), so parked frames can never be overtaken. *)
Definition wf (s : st) : Prop := is_conn (cs s) = true -> sendBuf s = [] /\ recvBuf s = [].

Lemma step_wf : forall s o, wf s -> wf (snd (step s o)).
Proof.
  intros s o H. unfold wf in *. destruct o; simpl.
  - destruct (is_conn (cs s)) eqn:C; simpl.
    + destruct (H eq_refl) as [E1 E2]. rewrite E1. simpl. rewrite C. auto.
    + destruct (negb volatile); simpl; rewrite C; discriminate.
  - destruct (is_pending (cs s)); simpl; [assumption|discriminate].
  - auto.
  - discriminate.
  - destruct (is_conn (cs s)) eqn:C; simpl; rewrite ?C; auto; discriminate.
  - intros C. destruct (H C) as [E1 E2]. rewrite E1. auto.
Qed.

(** The CONNECT reply hands over exactly the parked frames, in order (acks around them). *)
Lemma efr_reply_out : forall s, efr (fst (step s ConnectReply)) = efr (sendBuf s).
Proof.
  intros s. simpl. destruct (sendBuf s); simpl nilb; cbv iota.
  - now rewrite efr_replay.
  - now rewrite !efr_app, efr_noacks, efr_acks_of, efr_replay, app_nil_r.
Qed.

(** The parked frames that will still be there at the next CONNECT reply of [h]: those whose ack
    time-out does not expire before it. *)
Definition survives (h : list op) (o : out) : bool :=
  match o with OFrame _ _ (Some a) => negb (times_out_before_reply a h) | _ => true end.
Definition live (h : list op) (sb : list out) : list out := filter (survives h) sb.

Lemma live_same : forall o h sb,
  (forall a, times_out_before_reply a (o :: h) = times_out_before_reply a h) ->
  live (o :: h) sb = live h sb.
Proof.
  intros o h sb H. unfold live. apply filter_ext. intros x. unfold survives.
  destruct x as [| l i [a|] | |]; try reflexivity. now rewrite H.
Qed.

Lemma live_reply : forall h sb, live (ConnectReply :: h) sb = sb.
Proof.
  intros h sb. unfold live. induction sb as [|x sb IH]; simpl; [reflexivity|].
  replace (survives (ConnectReply :: h) x) with true; [now rewrite IH|].
  destruct x as [| l i [a|] | |]; reflexivity.
Qed.

Lemma live_purge : forall b h sb, live h (purge b sb) = live (Timeout b :: h) sb.
Proof.
  intros b h sb. unfold live, purge. induction sb as [|x sb IH]; simpl; [reflexivity|].
  destruct x as [| l i [a|] | |]; simpl; rewrite ?IH; try reflexivity.
  rewrite (N.eqb_sym b a). destruct (N.eqb a b); simpl; rewrite ?IH; reflexivity.
Qed.

Local Transparent frames emit_ids.
Lemma efr_live_frames : forall h l ack att,
  efr (live h (frames l ack att)) =
  if match ack with Some a => times_out_before_reply a h | None => false end then [] else emit_ids l att.
Proof.
  intros h l ack att. unfold live, frames, emit_ids. generalize (seq 0 (S att)).
  destruct ack as [a|]; simpl.
  - induction l0 as [|i l0 IH]; simpl.
    + now destruct (times_out_before_reply a h).
    + destruct (times_out_before_reply a h); simpl in *; now rewrite IH.
  - induction l0 as [|i l0 IH]; simpl; auto. now rewrite IH.
Qed.
Local Opaque frames emit_ids.

Lemma live_app : forall h a b, live h (a ++ b) = live h a ++ live h b.
Proof. intros. unfold live. apply filter_app. Qed.

(** Main invariant, send side: what has been handed to the manager so far, followed by what is
    still parked, is exactly: the frames parked at the start that do not time out before the next
    reply, followed by the entitled frames of the history, in emission order. *)
Lemma run_frames : forall h s, wf s ->
  efr (fst (run s h)) ++ efr (sendBuf (snd (run s h)))
  = efr (live h (sendBuf s)) ++ entitled (cs s) (ackctr s) h.
Proof.
  induction h as [|o h IH]; intros s Hwf.
  - simpl. unfold live. rewrite app_nil_r. f_equal. symmetry.
    induction (sendBuf s) as [|x sb IHsb]; simpl; [reflexivity|].
    replace (survives [] x) with true; [now rewrite IHsb|]. destruct x as [| l i [a|] | |]; reflexivity.
  - pose proof (step_cs s o) as Hcs. pose proof (step_wf s o Hwf) as Hwf1.
    specialize (IH (snd (step s o)) Hwf1).
    cbn [run]. destruct (step s o) as [o1 s1] eqn:Es. cbn [snd fst] in *.
    destruct (run s1 h) as [o2 s2]. cbn [snd fst] in *.
    rewrite efr_app, <- app_assoc, IH. clear IH.
    destruct o; cbn [step] in Es.
    + (* Emit *)
      destruct (is_conn (cs s)) eqn:C.
      * rewrite (proj1 (Hwf C)) in Es |- *. cbn in Es. inversion Es; subst. cbn [sendBuf cs ackctr entitled].
        rewrite C. unfold live at 1 2. cbn [filter efr]. rewrite efr_frames. reflexivity.
      * cbn [andb] in Es. cbn [entitled]. rewrite C.
        rewrite (live_same (Emit label volatile withAck att) h) by reflexivity.
        destruct volatile; cbn [negb andb] in Es |- *; inversion Es; subst; cbn [sendBuf cs ackctr efr app].
        -- reflexivity.
        -- rewrite live_app, efr_app, efr_live_frames, <- app_assoc. f_equal.
           destruct withAck; cbn [andb negb]; [destruct (times_out_before_reply (ackctr s) h)|]; reflexivity.
    + (* MgrOpen *)
      rewrite (live_same MgrOpen h) by reflexivity. cbn [entitled]. rewrite <- Hcs.
      destruct (is_pending (cs s)); inversion Es; subst; reflexivity.
    + (* ConnectReply *)
      rewrite live_reply. cbn [entitled lifecycle].
      assert (E1 : efr o1 = efr (sendBuf s)).
      { replace o1 with (fst (step s ConnectReply)) by (cbn [step]; rewrite Es; reflexivity). apply efr_reply_out. }
      rewrite E1. inversion Es; subst. cbn [sendBuf cs ackctr]. unfold live. cbn [filter efr app]. reflexivity.
    + (* Close *)
      rewrite (live_same Close h) by reflexivity. cbn [entitled lifecycle].
      inversion Es; subst. reflexivity.
    + (* Recv *)
      rewrite (live_same (Recv label id hs) h) by reflexivity. cbn [entitled lifecycle].
      destruct (is_conn (cs s)); inversion Es; subst; cbn [sendBuf cs ackctr];
        rewrite ?efr_call_now; reflexivity.
    + (* Timeout *)
      cbn [entitled lifecycle]. inversion Es; subst. cbn [sendBuf cs ackctr efr app].
      now rewrite live_purge.
Qed.

(** Right after a CONNECT reply nothing is parked any more. *)
Lemma reply_flushes : forall h s,
  sendBuf (snd (run s (h ++ [ConnectReply]))) = [] /\ recvBuf (snd (run s (h ++ [ConnectReply]))) = [].
Proof.
  induction h as [|o h IH]; intros s; simpl.
  - auto.
  - destruct (step s o) as [o1 s1]. specialize (IH s1).
    destruct (run s1 (h ++ [ConnectReply])) as [o2 s2]. exact IH.
Qed.

(** While the socket is not connected an emit hands nothing to the manager. *)
Lemma offline_emit_silent : forall s l vol ack att,
  is_conn (cs s) = false -> efr (fst (step s (Emit l vol ack att))) = [].
Proof. intros s l vol ack att H. simpl. rewrite H. simpl. destruct (negb vol); reflexivity. Qed.

(** The parked frames are exactly the non-volatile emits made since the last CONNECT reply while
    not connected, minus the packets whose time-out expired; the reply hands them over in that order. *)
Lemma run_pending : forall h s, wf s ->
  sendBuf (snd (run s h)) = offline_pending (cs s) (ackctr s) (sendBuf s) h.
Proof.
  induction h as [|o h IH]; intros s Hwf; [reflexivity|].
  pose proof (step_cs s o) as Hcs. specialize (IH (snd (step s o)) (step_wf s o Hwf)).
  cbn [run]. destruct (step s o) as [o1 s1] eqn:Es. cbn [snd fst] in *.
  destruct (run s1 h) as [o2 s2]. cbn [snd fst] in *. rewrite IH. clear IH.
  destruct o; cbn [step] in Es; cbn [offline_pending].
  - destruct (is_conn (cs s)) eqn:C.
    + rewrite (proj1 (Hwf C)) in Es |- *. cbn in Es. inversion Es; subst. cbn [sendBuf cs ackctr]. reflexivity.
    + cbn [andb negb] in Es |- *. destruct volatile; cbn [negb] in Es |- *; inversion Es; subst;
        cbn [sendBuf cs ackctr]; rewrite ?C; cbn [negb andb]; rewrite ?andb_false_r; reflexivity.
  - rewrite <- Hcs. destruct (is_pending (cs s)); inversion Es; subst; reflexivity.
  - inversion Es; subst. reflexivity.
  - inversion Es; subst. reflexivity.
  - cbn [lifecycle]. destruct (is_conn (cs s)); inversion Es; subst; reflexivity.
  - inversion Es; subst. reflexivity.
Qed.

Lemma reply_hands_over_pending : forall h,
  efr (fst (step (snd (run init h)) ConnectReply)) = efr (offline_pending Disconnected 0 [] h).
Proof.
  intros h. rewrite efr_reply_out. f_equal.
  apply (run_pending h init). unfold wf, init; simpl; discriminate.
Qed.

(** Receive side: handler invocations so far, followed by the parked ones, are the entitled ones. *)
Definition parked_calls (rb : list (N * option N * hkind * nat)) : list (N * nat) :=
  map (fun '(l, _, _, i) => (l, i)) rb.

Lemma calls_replay : forall rb sent, calls (replay rb sent) = parked_calls rb.
Proof.
  induction rb as [|[[[l id] h] i] rb IH]; intros sent; simpl; [reflexivity|].
  f_equal. destruct id as [a|]; [|apply IH].
  destruct h; rewrite ?calls_app, ?IH; destruct (memN a sent); simpl; auto.
Qed.

Lemma calls_call_now : forall l id hs i sent,
  calls (call_now l id hs i sent) = map (fun j => (l, j)) (seq i (length hs)).
Proof.
  intros l id hs; induction hs as [|h hs IH]; intros i sent; simpl; [reflexivity|].
  destruct id as [a|]; destruct h; simpl; rewrite ?calls_app, ?IH; auto;
    destruct sent; simpl; auto.
Qed.

Lemma parked_calls_new : forall l id hs,
  parked_calls (map (fun '(h, i) => (l, id, h, i)) (combine hs (seq 0 (length hs))))
  = map (fun i => (l, i)) (seq 0 (length hs)).
Proof.
  intros l id hs. generalize 0%nat. induction hs as [|h hs IH]; intros n; simpl; [reflexivity|].
  now rewrite IH.
Qed.

Lemma run_calls : forall h s,
  only_frames (sendBuf s) -> wf s ->
  calls (fst (run s h)) ++ parked_calls (recvBuf (snd (run s h)))
  = parked_calls (recvBuf s) ++ entitled_calls h.
Proof.
  induction h as [|o h IH]; intros s Hof Hwf; simpl.
  - now rewrite app_nil_r.
  - pose proof (step_only_frames s o Hof) as Hof1. pose proof (step_wf s o Hwf) as Hwf1.
    specialize (IH (snd (step s o)) Hof1 Hwf1).
    destruct (step s o) as [o1 s1] eqn:Es. simpl in *.
    destruct (run s1 h) as [o2 s2]. simpl in *.
    rewrite calls_app, <- app_assoc, IH. rewrite !app_assoc.
    destruct o; simpl in Es.
    + destruct (is_conn (cs s) && nilb (sendBuf s)).
      * inversion Es; subst; simpl. now rewrite calls_frames.
      * destruct (negb volatile); inversion Es; subst; reflexivity.
    + destruct (is_pending (cs s)); inversion Es; subst; reflexivity.
    + inversion Es; subst; simpl. rewrite app_nil_r.
      destruct (sendBuf s) eqn:SB; simpl nilb; cbv iota.
      * now rewrite calls_replay.
      * rewrite !calls_app, calls_noacks, calls_acks_of, calls_replay,
          (calls_only_frames _ Hof), !app_nil_r. reflexivity.
    + inversion Es; subst; reflexivity.
    + destruct (is_conn (cs s)) eqn:C; inversion Es; subst; simpl.
      * rewrite calls_call_now. rewrite (proj2 (Hwf C)). simpl. now rewrite app_nil_r.
      * unfold parked_calls at 1. rewrite map_app. fold (parked_calls (recvBuf s)).
        change (map (fun '(l, _, _, i) => (l, i)) ?x) with (parked_calls x).
        rewrite parked_calls_new. now rewrite <- app_assoc.
    + inversion Es; subst; reflexivity.
Qed.

(** Top-level forms (from the initial state). *)
Lemma init_wf : wf init.
Proof. unfold wf, init; simpl; discriminate. Qed.

Lemma offline_exactly_once_in_order : forall h,
  efr (fst (run init h)) ++ efr (sendBuf (snd (run init h))) = entitled Disconnected 0 h.
Proof. intros h. exact (run_frames h init init_wf). Qed.

Lemma delivered_after_reply : forall h,
  efr (fst (run init (h ++ [ConnectReply]))) = entitled Disconnected 0 (h ++ [ConnectReply]).
Proof.
  intros h. pose proof (offline_exactly_once_in_order (h ++ [ConnectReply])) as H.
  rewrite (proj1 (reply_flushes h init)) in H. simpl in H. now rewrite app_nil_r in H.
Qed.

Lemma events_called_once : forall h,
  calls (fst (run init h)) ++ parked_calls (recvBuf (snd (run init h))) = entitled_calls h.
Proof. intros h. exact (run_calls h init (Forall_nil _) init_wf). Qed.

(** Volatile emits made while not connected are never handed over. *)
Definition state_after (c : cstate) (h : list op) : cstate := fold_left lifecycle h c.

Fixpoint emit_labels (h : list op) : list N :=
  match h with
  | [] => []
  | Emit l _ _ _ :: h' => l :: emit_labels h'
  | _ :: h' => emit_labels h'
  end.

(** Labels of the emits that are made while connected or are not volatile. *)
Fixpoint ok_labels (c : cstate) (h : list op) : list N :=
  match h with
  | [] => []
  | Emit l vol _ _ :: h' => (if is_conn c || negb vol then [l] else []) ++ ok_labels c h'
  | o :: h' => ok_labels (lifecycle c o) h'
  end.

Lemma ok_labels_app : forall h1 h2 c,
  ok_labels c (h1 ++ h2) = ok_labels c h1 ++ ok_labels (state_after c h1) h2.
Proof.
  induction h1 as [|o h1 IH]; intros h2 c; [reflexivity|].
  destruct o; cbn [app ok_labels state_after fold_left lifecycle]; rewrite IH; try reflexivity.
  now rewrite app_assoc.
Qed.

Lemma ok_labels_emit : forall h c l, In l (ok_labels c h) -> In l (emit_labels h).
Proof.
  induction h as [|o h IH]; intros c l Hin; [contradiction|].
  destruct o; cbn [ok_labels emit_labels] in *; eauto.
  apply in_app_or in Hin as [Hin|Hin].
  - destruct (is_conn c || negb volatile); [|contradiction]. destruct Hin as [<-|[]]. now left.
  - right. eauto.
Qed.

Local Transparent emit_ids.
Lemma entitled_labels : forall h c k l i, In (l, i) (entitled c k h) -> In l (ok_labels c h).
Proof.
  induction h as [|o h IH]; intros c k l i Hin; [contradiction|].
  destruct o; cbn [entitled ok_labels] in *; eauto.
  apply in_app_or in Hin as [Hin|Hin]; apply in_or_app.
  - left. assert (Hl : In (l, i) (emit_ids label att) -> label = l).
    { unfold emit_ids. intros H. apply in_map_iff in H as (j & E & _). now inversion E. }
    destruct (is_conn c) eqn:C; simpl.
    + left. now apply Hl.
    + destruct volatile; simpl in *; [contradiction|].
      destruct (negb (withAck && times_out_before_reply k h)); [|contradiction]. left. now apply Hl.
  - right. eauto.
Qed.
Local Opaque emit_ids.

Lemma volatile_offline_never_sent : forall h1 h2 l ack att i,
  is_conn (state_after Disconnected h1) = false ->
  ~ In l (emit_labels h1) -> ~ In l (emit_labels h2) ->
  ~ In (l, i) (efr (fst (run init (h1 ++ Emit l true ack att :: h2)))).
Proof.
  intros h1 h2 l ack att i Hc H1 H2 Hin.
  pose proof (offline_exactly_once_in_order (h1 ++ Emit l true ack att :: h2)) as E.
  assert (Hin' : In (l, i) (entitled Disconnected 0 (h1 ++ Emit l true ack att :: h2))).
  { rewrite <- E. apply in_or_app. now left. }
  apply entitled_labels in Hin'. rewrite ok_labels_app in Hin'.
  apply in_app_or in Hin' as [Hin'|Hin'].
  - apply ok_labels_emit in Hin'. contradiction.
  - cbn [ok_labels] in Hin'. rewrite Hc in Hin'. simpl in Hin'.
    apply ok_labels_emit in Hin'. contradiction.
Qed.
