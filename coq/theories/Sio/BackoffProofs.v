(** Proofs about the back-off calculator model. *)
From SioV Require Import Base.GoSem Sio.Backoff.
Local Open Scope Z_scope.

Lemma wrap64_range : forall z, - two63 <= wrap64 z < two63.
Proof.
  intros z. unfold wrap64.
  pose proof (Z.mod_pos_bound (z + two63) two64 ltac:(reflexivity)) as H.
  unfold two63, two64 in *. lia.
Qed.

Lemma wrap64_id : forall z, - two63 <= z < two63 -> wrap64 z = z.
Proof.
  intros z H. unfold wrap64.
  rewrite Z.mod_small; unfold two63, two64 in *; lia.
Qed.

(** The delay is in (0, max] whatever the configuration, the attempt number, the platform's
    out-of-range conversion and the jitter deviation are. *)
Lemma delay_in_range : forall bmin bmax attempts conv jit,
  0 < bmax -> 0 < duration bmin bmax attempts conv jit <= bmax.
Proof.
  intros bmin bmax attempts conv jit Hmax. unfold duration.
  match goal with |- context [if (?a <=? 0) || (?a >? bmax) then _ else _] => set (ms := a) end.
  destruct (ms <=? 0) eqn:E1; simpl; [lia|].
  destruct (ms >? bmax) eqn:E2; simpl; [lia|].
  apply Z.leb_gt in E1. rewrite Z.gtb_ltb in E2. apply Z.ltb_ge in E2. lia.
Qed.

(** The delay is always one of: the configured maximum, or the (wrapped) computed value. *)
Lemma delay_max_or_positive : forall bmin bmax attempts conv jit,
  let d := duration bmin bmax attempts conv jit in
  d = bmax \/ (0 < d <= bmax).
Proof.
  intros. subst d. unfold duration.
  match goal with |- context [if (?a <=? 0) || (?a >? bmax) then _ else _] => set (ms := a) end.
  destruct (ms <=? 0) eqn:E1; simpl; [now left|].
  destruct (ms >? bmax) eqn:E2; simpl; [now left|].
  apply Z.leb_gt in E1. rewrite Z.gtb_ltb in E2. apply Z.ltb_ge in E2. right; lia.
Qed.

(** Without jitter and before the product leaves int64 the delay is min * 2^n capped by max. *)
Lemma delay_exponential : forall bmin bmax n conv,
  0 < bmin -> 0 <= n -> bmin * 2 ^ n < two63 ->
  duration bmin bmax n conv None = Z.min (bmin * 2 ^ n) bmax.
Proof.
  intros bmin bmax n conv Hmin Hn Hlt. unfold duration, pow2_i64.
  assert (Hn63 : n < 63).
  { destruct (Z_lt_ge_dec n 63) as [|Hge]; [assumption|exfalso].
    assert (2 ^ 63 <= 2 ^ n) by (apply Z.pow_le_mono_r; lia).
    change (2 ^ 63) with two63 in H. nia. }
  apply Z.ltb_lt in Hn63 as Hb. rewrite Hb.
  assert (0 < 2 ^ n) by (apply Z.pow_pos_nonneg; lia).
  rewrite wrap64_id by (unfold two63 in *; nia).
  destruct (bmin * 2 ^ n <=? 0) eqn:E1; [apply Z.leb_le in E1; nia|]. simpl.
  destruct (bmin * 2 ^ n >? bmax) eqn:E2.
  - rewrite Z.gtb_ltb in E2. apply Z.ltb_lt in E2. lia.
  - rewrite Z.gtb_ltb in E2. apply Z.ltb_ge in E2. lia.
Qed.

(** First delay after a reset, no jitter: the configured delay, capped by the maximum. *)
Lemma first_delay : forall bmin bmax conv,
  0 < bmin < two63 -> duration bmin bmax 0 conv None = Z.min bmin bmax.
Proof.
  intros bmin bmax conv H.
  rewrite delay_exponential; rewrite ?Z.pow_0_r, ?Z.mul_1_r; lia.
Qed.

(** First delay with jitter: a deviation of at most B moves the delay by at most B (before capping). *)
Lemma first_delay_jitter : forall bmin bmax conv plus dev B,
  0 < bmin -> 0 <= dev <= B -> B < bmin -> bmin + B < two63 ->
  Z.min (bmin - B) bmax <= duration bmin bmax 0 conv (Some (plus, dev)) <= Z.min (bmin + B) bmax
  \/ duration bmin bmax 0 conv (Some (plus, dev)) = bmax.
Proof.
  intros bmin bmax conv plus dev B Hmin Hdev HB Hlt. unfold duration, pow2_i64. simpl (0 <? 63).
  cbv iota. change (2 ^ 0) with 1. rewrite Z.mul_1_r.
  rewrite (wrap64_id bmin) by (unfold two63 in *; lia).
  rewrite (wrap64_id dev) by (unfold two63 in *; lia).
  destruct plus.
  - rewrite wrap64_id by (unfold two63 in *; lia).
    destruct (bmin + dev <=? 0) eqn:E1; [apply Z.leb_le in E1; lia|]. simpl.
    destruct (bmin + dev >? bmax) eqn:E2; [now right|].
    rewrite Z.gtb_ltb in E2. apply Z.ltb_ge in E2. left. lia.
  - rewrite wrap64_id by (unfold two63 in *; lia).
    destruct (bmin - dev <=? 0) eqn:E1; [apply Z.leb_le in E1; lia|]. simpl.
    destruct (bmin - dev >? bmax) eqn:E2; [now right|].
    rewrite Z.gtb_ltb in E2. apply Z.ltb_ge in E2. left. lia.
Qed.

(** Delays never decrease while the product stays inside int64 (no jitter). *)
Lemma delay_monotone : forall bmin bmax n conv,
  0 < bmin -> 0 <= n -> bmin * 2 ^ (n + 1) < two63 ->
  duration bmin bmax n conv None <= duration bmin bmax (n + 1) conv None.
Proof.
  intros bmin bmax n conv Hmin Hn Hlt.
  assert (0 < 2 ^ n) by (apply Z.pow_pos_nonneg; lia).
  assert (2 ^ (n + 1) = 2 * 2 ^ n) by (rewrite Z.pow_add_r by lia; lia).
  rewrite !delay_exponential by nia. nia.
Qed.

Lemma next_attempts_range : forall a, 0 <= next_attempts a < two32.
Proof. intros a. unfold next_attempts. apply Z.mod_pos_bound. reflexivity. Qed.

Lemma next_attempts_succ : forall a, 0 <= a < two32 - 1 -> next_attempts a = a + 1.
Proof. intros a H. unfold next_attempts. apply Z.mod_small. unfold two32 in *. lia. Qed.
