(** C01 - the client's receive buffer around the CONNECT reply (client_socket.go onEvent /
    onConnect / emitBuffered).

    onEvent: socket Connected -> the handler is called; otherwise the decoded event is parked in
    [receiveBuffer] (under receiveBufferMu).  onConnect (CONNECT reply): the code sets
    [state = Connected] FIRST and then runs [emitBuffered], which - holding receiveBufferMu all the
    way - takes the parked events, calls their handlers one after the other (user code: can take
    arbitrarily long) and finally sets [receiveBuffer = nil].  Events keep arriving meanwhile.

    Model: small steps.  [Arrive e] is onEvent (the state test and the append are one step here; in
    the code they are a few instructions apart - a window this model does not have); an event that
    finds the socket not connected while a replay holds the mutex waits for it ([blocked]) and is
    appended when the replay has cleared the buffer.  The order of the control steps is a
    parameter: [as_coded] = SetConn, replay ; [flush_first] = replay, SetConn (a class of change:
    "flush what was buffered, then mark connected"). *)
From Coq Require Import List Bool Arith Lia Permutation.
Import ListNotations.

Section Connect.
  Variable ev : Type.

  Record cstate := mkC {
    conn : bool;                 (* state == Connected *)
    buf : list ev;               (* receiveBuffer *)
    snap : option (list ev);     (* a replay is under way: what it still has to hand over *)
    blocked : list ev;           (* onEvent calls waiting for receiveBufferMu *)
    log : list ev                (* handler invocations, in order *)
  }.

  Inductive step := Arrive (e : ev) | SetConn | RStart | ROne | REnd.

  Definition do_step (s : cstate) (a : step) : cstate :=
    match a with
    | Arrive e =>
        if conn s then mkC (conn s) (buf s) (snap s) (blocked s) (log s ++ [e])
        else match snap s with
             | Some _ => mkC (conn s) (buf s) (snap s) (blocked s ++ [e]) (log s)
             | None => mkC (conn s) (buf s ++ [e]) (snap s) (blocked s) (log s)
             end
    | SetConn => mkC true (buf s) (snap s) (blocked s) (log s)
    | RStart => mkC (conn s) (buf s) (Some (buf s)) (blocked s) (log s)
    | ROne =>
        match snap s with
        | Some (x :: r) => mkC (conn s) (buf s) (Some r) (blocked s) (log s ++ [x])
        | _ => s
        end
    | REnd => mkC (conn s) (blocked s) None [] (log s)   (* receiveBuffer = nil; the waiters append *)
    end.

  Definition exec (s : cstate) (l : list step) : cstate := fold_left do_step l s.

  Definition init : cstate := mkC false [] None [] [].

  (** a replay during which events arrive: before each hand-over ([segs], one segment per parked
      event) and before the buffer is cleared ([tail]) *)
  Fixpoint replay (segs : list (list ev)) : list step :=
    match segs with
    | [] => []
    | seg :: r => map Arrive seg ++ ROne :: replay r
    end.

  (** the two orders of the control steps; [a0] arrive before the reply is processed, [a1] between
      the first control step and the start of the replay, [segs]/[tl] during it, [a3] after *)
  Definition as_coded (a0 a1 : list ev) (segs : list (list ev)) (tl a3 : list ev) : list step :=
    map Arrive a0 ++ SetConn :: map Arrive a1 ++ RStart :: replay segs ++ map Arrive tl ++ REnd
      :: map Arrive a3.
  Definition flush_first (a0 : list ev) (segs : list (list ev)) (tl a2 a3 : list ev) : list step :=
    map Arrive a0 ++ RStart :: replay segs ++ map Arrive tl ++ REnd :: map Arrive a2 ++ SetConn
      :: map Arrive a3.

  Lemma exec_app : forall l1 l2 s, exec s (l1 ++ l2) = exec (exec s l1) l2.
  Proof. intros. unfold exec. apply fold_left_app. Qed.

  Lemma arrive_parked : forall l b lg,
    exec (mkC false b None [] lg) (map Arrive l) = mkC false (b ++ l) None [] lg.
  Proof.
    induction l as [|e l IH]; intros b lg; simpl; [now rewrite app_nil_r|].
    unfold exec in *. simpl. rewrite IH. now rewrite <- app_assoc.
  Qed.

  Lemma arrive_conn : forall l b sn bl lg,
    exec (mkC true b sn bl lg) (map Arrive l) = mkC true b sn bl (lg ++ l).
  Proof.
    induction l as [|e l IH]; intros b sn bl lg; simpl; [now rewrite app_nil_r|].
    unfold exec in *. simpl. rewrite IH. now rewrite <- app_assoc.
  Qed.

  Lemma arrive_blocked : forall l b r bl lg,
    exec (mkC false b (Some r) bl lg) (map Arrive l) = mkC false b (Some r) (bl ++ l) lg.
  Proof.
    induction l as [|e l IH]; intros b r bl lg; simpl; [now rewrite app_nil_r|].
    unfold exec in *. simpl. rewrite IH. now rewrite <- app_assoc.
  Qed.

  (** hand-overs interleaved with arrivals that are delivered directly *)
  Fixpoint weave (segs : list (list ev)) (xs : list ev) : list ev :=
    match segs, xs with
    | seg :: r, x :: xs' => seg ++ x :: weave r xs'
    | _, _ => []
    end.

  Lemma weave_perm : forall segs xs, length segs = length xs ->
    Permutation (weave segs xs) (concat segs ++ xs).
  Proof.
    induction segs as [|seg r IH]; intros [|x xs] H; simpl in *; try discriminate; [constructor|].
    rewrite <- app_assoc. apply Permutation_app_head.
    apply Permutation_cons_app. apply IH. lia.
  Qed.

  Lemma replay_conn : forall segs xs b bl lg, length segs = length xs ->
    exec (mkC true b (Some xs) bl lg) (replay segs) = mkC true b (Some []) bl (lg ++ weave segs xs).
  Proof.
    induction segs as [|seg r IH]; intros [|x xs] b bl lg H; simpl in *; try discriminate.
    - now rewrite app_nil_r.
    - rewrite exec_app, arrive_conn. unfold exec at 1. simpl. fold (exec (mkC true b (Some xs) bl ((lg ++ seg) ++ [x])) (replay r)).
      rewrite IH by lia. f_equal. rewrite <- !app_assoc. reflexivity.
  Qed.

  Lemma replay_blocked : forall segs xs b bl lg, length segs = length xs ->
    exec (mkC false b (Some xs) bl lg) (replay segs)
    = mkC false b (Some []) (bl ++ concat segs) (lg ++ xs).
  Proof.
    induction segs as [|seg r IH]; intros [|x xs] b bl lg H; simpl in *; try discriminate.
    - now rewrite !app_nil_r.
    - rewrite exec_app, arrive_blocked. unfold exec at 1. simpl. fold (exec (mkC false b (Some xs) (bl ++ seg) (lg ++ [x])) (replay r)).
      rewrite IH by lia. f_equal; rewrite <- !app_assoc; reflexivity.
  Qed.

  (** The code as it is: whatever arrives before, between, during (at any point of) and after the
      processing of the CONNECT reply is handed over exactly once - the log is a permutation of
      everything that arrived, the parked events in their order - and nothing stays parked. *)
  Theorem connect_window_exactly_once : forall a0 a1 segs tl a3,
    length segs = length a0 ->
    let s := exec init (as_coded a0 a1 segs tl a3) in
    buf s = [] /\ blocked s = [] /\ snap s = None /\
    log s = a1 ++ weave segs a0 ++ tl ++ a3 /\
    Permutation (log s) (a0 ++ a1 ++ concat segs ++ tl ++ a3).
  Proof.
    intros a0 a1 segs tl a3 H. unfold as_coded, init.
    assert (E : exec (mkC false [] None [] []) (map Arrive a0 ++ SetConn :: map Arrive a1 ++ RStart
                  :: replay segs ++ map Arrive tl ++ REnd :: map Arrive a3)
                = mkC true [] None [] (a1 ++ weave segs a0 ++ tl ++ a3)).
    { rewrite exec_app, arrive_parked. simpl.
      change (exec (mkC false a0 None [] []) (SetConn :: map Arrive a1 ++ RStart :: replay segs ++ map Arrive tl ++ REnd :: map Arrive a3))
        with (exec (mkC true a0 None [] []) (map Arrive a1 ++ RStart :: replay segs ++ map Arrive tl ++ REnd :: map Arrive a3)).
      rewrite exec_app, arrive_conn. simpl.
      change (exec (mkC true a0 None [] a1) (RStart :: replay segs ++ map Arrive tl ++ REnd :: map Arrive a3))
        with (exec (mkC true a0 (Some a0) [] a1) (replay segs ++ map Arrive tl ++ REnd :: map Arrive a3)).
      rewrite exec_app, replay_conn by exact H. rewrite exec_app, arrive_conn.
      change (exec (mkC true a0 (Some []) [] ((a1 ++ weave segs a0) ++ tl)) (REnd :: map Arrive a3))
        with (exec (mkC true [] None [] ((a1 ++ weave segs a0) ++ tl)) (map Arrive a3)).
      rewrite arrive_conn. f_equal. now rewrite <- !app_assoc. }
    cbv zeta. rewrite E. simpl. repeat split.
    rewrite (weave_perm segs a0 H). rewrite <- !app_assoc.
    rewrite (app_assoc a1 (concat segs)). rewrite Permutation_app_swap_app.
    rewrite <- app_assoc. reflexivity.
  Qed.

  (** "flush first, then mark connected": everything that arrives while the parked events are
      handed over, and until the state changes, is parked after the replay has cleared the buffer
      and is never read again - lost, silently. *)
  Theorem connect_window_flush_first_strands : forall a0 segs tl a2 a3,
    length segs = length a0 ->
    let s := exec init (flush_first a0 segs tl a2 a3) in
    log s = a0 ++ a3 /\ buf s = concat segs ++ tl ++ a2.
  Proof.
    intros a0 segs tl a2 a3 H. unfold flush_first, init. cbv zeta.
    rewrite exec_app, arrive_parked. simpl.
    change (exec (mkC false a0 None [] []) (RStart :: replay segs ++ map Arrive tl ++ REnd :: map Arrive a2 ++ SetConn :: map Arrive a3))
      with (exec (mkC false a0 (Some a0) [] []) (replay segs ++ map Arrive tl ++ REnd :: map Arrive a2 ++ SetConn :: map Arrive a3)).
    rewrite exec_app, replay_blocked by exact H. rewrite exec_app, arrive_blocked. simpl.
    change (exec (mkC false a0 (Some []) ((concat segs) ++ tl) a0) (REnd :: map Arrive a2 ++ SetConn :: map Arrive a3))
      with (exec (mkC false (concat segs ++ tl) None [] a0) (map Arrive a2 ++ SetConn :: map Arrive a3)).
    rewrite exec_app, arrive_parked.
    change (exec (mkC false ((concat segs ++ tl) ++ a2) None [] a0) (SetConn :: map Arrive a3))
      with (exec (mkC true ((concat segs ++ tl) ++ a2) None [] a0) (map Arrive a3)).
    rewrite arrive_conn. simpl. split; [reflexivity | now rewrite <- app_assoc].
  Qed.
End Connect.

(** concrete witness of the loss (the demonstration's history): "early" parked, "late" arrives
    while early's handler runs *)
Lemma flush_first_refuted :
  exists (a0 : list nat) segs tl a2 a3,
    length segs = length a0 /\
    ~ Permutation (log nat (exec nat (init nat) (flush_first nat a0 segs tl a2 a3)))
                  (a0 ++ concat segs ++ tl ++ a2 ++ a3).
Proof.
  exists [1], [[2]], [], [], []. split; [reflexivity|]. vm_compute.
  intros H. apply Permutation_length in H. discriminate.
Qed.
