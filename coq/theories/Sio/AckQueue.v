(** Sio/AckQueue.v - executable model of the client retry queue (client_packet_queue.go), the layer
    that carries the ack callbacks of a socket with ClientSocketConfig.Retries > 0 (property C03).

    Ported from: addToQueue (the packet is appended under pq.mu, then drainQueue(false)),
    drainQueue(force) (under pq.mu: connected? head? head.pending && !force -> return; else
    pending = true, tryCount++, `go socket.emit(...)` = a new attempt with its own ack handler),
    replacementAck (error: read tryCount; tryCount > Retries -> blind shift `queuedPackets[1:]` and user
    callback; success: blind shift and user callback; then pending = false; drainQueue(false)),
    client_socket.go onConnect -> drainQueue(true).

    Layering: every attempt is one Emit with its own ackHandler (+ timer when AckTimeout > 0); that
    handler fires at most once - this is C03_at_most_once of Sio/Ack.v - so here an attempt is a
    token that can deliver ONE outcome ([LOutcome], reply or ErrAckTimeout).  Everything else is a
    goroutine: emitters (any number, concurrently), one replacementAck goroutine per outcome, the
    reconnect drain.  A section under one mutex is one step. *)
From Coq Require Import List Arith Bool Lia NArith.
From SioV Require Import Base.GoSem Sio.Ack.
Import ListNotations.

(** a replacementAck goroutine for packet [p] with the attempt's outcome [o] *)
Inductive rapc :=
| RA0 (p : nat) (o : outcome)      (* next: error? read tryCount under packet.mu; decide *)
| RAShift (p : nat) (o : outcome)  (* next: pq.mu: queuedPackets = queuedPackets[1:] *)
| RACall (p : nat) (o : outcome)   (* next: the user's callback *)
| RAClear (p : nat) (final : bool) (* next: packet.mu: pending = false (final: after shift + callback) *)
| RADrain                          (* next: drainQueue(false) *)
| RADone
| RAPanicked.                      (* [1:] on an empty queue: recovered by the caller, goroutine gone *)

Record qpacket := mkQP { q_pending : bool; q_try : nat }.

Record qstate := mkQ {
  qs_retries : nat;
  qs_conn : bool;
  qs_packets : list qpacket;              (* index = packet number (pq.seq) *)
  qs_queue : list nat;                    (* pq.queuedPackets *)
  qs_attempts : list (nat * nat * bool);  (* packet, try number, still able to deliver its outcome *)
  qs_threads : list rapc;
  qs_drains : nat;                        (* emitters that appended their packet and have yet to run drainQueue(false) *)
  qs_log : list (nat * outcome)           (* invocations of the users' callbacks: packet, outcome *)
}.

Definition q_init (retries : nat) (conn : bool) : qstate := mkQ retries conn [] [] [] [] 0 [].

Definition q_with_conn s v := mkQ (qs_retries s) v (qs_packets s) (qs_queue s) (qs_attempts s) (qs_threads s) (qs_drains s) (qs_log s).
Definition q_with_packets s v := mkQ (qs_retries s) (qs_conn s) v (qs_queue s) (qs_attempts s) (qs_threads s) (qs_drains s) (qs_log s).
Definition q_with_queue s v := mkQ (qs_retries s) (qs_conn s) (qs_packets s) v (qs_attempts s) (qs_threads s) (qs_drains s) (qs_log s).
Definition q_with_attempts s v := mkQ (qs_retries s) (qs_conn s) (qs_packets s) (qs_queue s) v (qs_threads s) (qs_drains s) (qs_log s).
Definition q_with_threads s v := mkQ (qs_retries s) (qs_conn s) (qs_packets s) (qs_queue s) (qs_attempts s) v (qs_drains s) (qs_log s).
Definition q_with_drains s v := mkQ (qs_retries s) (qs_conn s) (qs_packets s) (qs_queue s) (qs_attempts s) (qs_threads s) v (qs_log s).
Definition q_with_log s v := mkQ (qs_retries s) (qs_conn s) (qs_packets s) (qs_queue s) (qs_attempts s) (qs_threads s) (qs_drains s) v.

Definition q_pending_of (s : qstate) (p : nat) : bool :=
  match nth_error (qs_packets s) p with Some q => q_pending q | None => false end.

(** drainQueue(force), one step (pq.mu is held for the whole function) *)
Definition drain (force : bool) (s : qstate) : qstate :=
  if qs_conn s then
    match qs_queue s with
    | [] => s
    | h :: _ =>
      match nth_error (qs_packets s) h with
      | Some q =>
        if q_pending q && negb force then s
        else q_with_attempts
               (q_with_packets s (upd_nth h (mkQP true (S (q_try q))) (qs_packets s)))
               (qs_attempts s ++ [(h, S (q_try q), true)])
      | None => s
      end
    end
  else s.

Inductive qlabel :=
| QAdd                               (* an emitter: addToQueue appends a new packet (then owes a drainQueue(false)) *)
| QDrain                             (* one of those emitters runs its drainQueue(false) *)
| QForceDrain                        (* onConnect: drainQueue(true) *)
| QOutcome (a : nat) (o : outcome)   (* the ack handler of attempt [a] fires (at most once: C03 of Sio/Ack.v) *)
| QRA (k : nat)                      (* the k-th replacementAck goroutine goes on *)
| QConnect | QDisconnect.

Definition is_timeout_o (o : outcome) : bool := match o with OTimeout => true | OReply _ => false end.

Definition qstep (l : qlabel) (s : qstate) : option qstate :=
  match l with
  | QAdd =>
      let p := length (qs_packets s) in
      Some (q_with_drains (q_with_queue (q_with_packets s (qs_packets s ++ [mkQP false 0])) (qs_queue s ++ [p]))
                          (S (qs_drains s)))
  | QDrain =>
      match qs_drains s with
      | O => None
      | S n => Some (drain false (q_with_drains s n))
      end
  | QForceDrain => Some (drain true s)
  | QOutcome a o =>
      match nth_error (qs_attempts s) a with
      | Some (p, t, true) =>
          Some (q_with_threads (q_with_attempts s (upd_nth a (p, t, false) (qs_attempts s)))
                               (qs_threads s ++ [RA0 p o]))
      | _ => None
      end
  | QRA k =>
      match nth_error (qs_threads s) k with
      | Some (RA0 p o) =>
          let next :=
            if is_timeout_o o then
              match nth_error (qs_packets s) p with
              | Some q => if qs_retries s <? q_try q then RAShift p o else RAClear p false
              | None => RAClear p false
              end
            else RAShift p o in
          Some (q_with_threads s (upd_nth k next (qs_threads s)))
      | Some (RAShift p o) =>
          match qs_queue s with
          | [] => Some (q_with_threads s (upd_nth k RAPanicked (qs_threads s)))
          | _ :: rest => Some (q_with_threads (q_with_queue s rest) (upd_nth k (RACall p o) (qs_threads s)))
          end
      | Some (RACall p o) =>
          Some (q_with_threads (q_with_log s (qs_log s ++ [(p, o)])) (upd_nth k (RAClear p true) (qs_threads s)))
      | Some (RAClear p _) =>
          match nth_error (qs_packets s) p with
          | Some q =>
              Some (q_with_threads (q_with_packets s (upd_nth p (mkQP false (q_try q)) (qs_packets s)))
                                   (upd_nth k RADrain (qs_threads s)))
          | None => Some (q_with_threads s (upd_nth k RADrain (qs_threads s)))
          end
      | Some RADrain =>
          Some (drain false (q_with_threads s (upd_nth k RADone (qs_threads s))))
      | _ => None
      end
  | QConnect => if qs_conn s then None else Some (q_with_conn s true)
  | QDisconnect => if qs_conn s then Some (q_with_conn s false) else None
  end.

(** the head of the queue is waiting for an acknowledgement *)
Definition head_pending (s : qstate) : bool :=
  match qs_queue s with h :: _ => q_pending_of s h | [] => false end.

(** the same system without the finding class `retry-queue-forced-drain`: a reconnect drain that
    hits a head which is still waiting for its acknowledgement is excluded *)
Definition qstep_nf (l : qlabel) (s : qstate) : option qstate :=
  match l with
  | QForceDrain => if head_pending s then None else qstep l s
  | _ => qstep l s
  end.

Definition qrun (sched : list qlabel) (s : qstate) : qstate :=
  fold_left (fun s l => match qstep l s with Some s' => s' | None => s end) sched s.

(** invocations of the callback the user gave with packet [p] *)
Definition q_outcomes (s : qstate) (p : nat) : list outcome :=
  map snd (filter (fun x => Nat.eqb (fst x) p) (qs_log s)).

(** how often packet [p] was put on the wire *)
Definition q_sent (s : qstate) (p : nat) : nat :=
  length (filter (fun x => Nat.eqb (fst (fst x)) p) (qs_attempts s)).
