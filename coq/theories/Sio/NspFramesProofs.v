(** Frames of one packet stay together on a shared connection, whatever the interleaving of the
    emitters: no namespace ever receives a frame of another namespace's traffic. *)
From SioV Require Import Base.GoSem Sio.NspRouting Sio.NspFrames.
Local Open Scope N_scope.

Lemma receive_progress n t acc : forall l w k,
  length l = S k ->
  receive (Some (n, t, S k, acc)) (map FBin l ++ w) =
  (mkRP n t (acc ++ map FBin l) :: fst (receive None w), snd (receive None w)).
Proof.
  intros l. revert acc. induction l as [|x l IH]; intros acc w k H; [discriminate|].
  simpl in H. injection H as H. destruct l as [|y l].
  - simpl in H. subst k. simpl. destruct (receive None w). reflexivity.
  - destruct k as [|k]; [discriminate|].
    change (map FBin (x :: y :: l) ++ w) with (FBin x :: (map FBin (y :: l) ++ w)).
    cbn [receive feed]. rewrite (IH (acc ++ [FBin x]) w k H). cbn [fst snd app].
    rewrite <- app_assoc. reflexivity.
Qed.

Lemma receive_packet p w :
  receive None (frames_of p ++ w) = (delivered_as p :: fst (receive None w), snd (receive None w)).
Proof.
  destruct p as [n t atts]. unfold frames_of, delivered_as; simpl fp_nsp; simpl fp_tag; simpl fp_atts.
  destruct atts as [|a atts].
  - simpl. destruct (receive None w). reflexivity.
  - change ((FText n t (length (a :: atts)) :: map FBin (a :: atts)) ++ w)
      with (FText n t (S (length atts)) :: (map FBin (a :: atts) ++ w)).
    cbn [receive feed]. rewrite (receive_progress n t [] (a :: atts) w (length atts) eq_refl). reflexivity.
Qed.

Theorem receive_all ps : receive None (flat_map frames_of ps) = (map delivered_as ps, false).
Proof.
  induction ps as [|p ps IH]; [reflexivity|].
  cbn [flat_map]. rewrite receive_packet, IH. reflexivity.
Qed.

Lemma wire_atomic_sent sched : forall ems, wire_atomic sched ems = flat_map frames_of (sent_order sched ems).
Proof.
  induction sched as [|i s IH]; intros ems; [reflexivity|]. simpl.
  destruct (take_nth i ems) as [[p ems']|]; simpl; [now rewrite IH | apply IH].
Qed.

Lemma take_nth_in {A} i : forall (l : list (list A)) x r,
  take_nth i l = Some (x, r) ->
  (exists q, In q l /\ In x q) /\ (forall y q', In q' r -> In y q' -> exists q, In q l /\ In y q).
Proof.
  induction i as [|i IH]; intros l x r H.
  - destruct l as [|[|y q] l]; try discriminate. inversion H; subst. split.
    + exists (x :: q). split; [now left | now left].
    + intros z q' [<-|Hq] Hz; [exists (x :: q); split; [now left | now right] | exists q'; split; [now right | auto]].
  - destruct l as [|q l]; [discriminate|]. simpl in H.
    destruct (take_nth i l) as [[x' r']|] eqn:E; [|discriminate]. inversion H; subst.
    destruct (IH _ _ _ E) as [[q0 [Hq0 Hx]] Hr]. split.
    + exists q0. split; [now right | auto].
    + intros z q' [<-|Hq] Hz; [exists q; split; [now left | auto]|].
      destruct (Hr z q' Hq Hz) as [q1 [H1 H2]]. exists q1. split; [now right | auto].
Qed.

Lemma sent_order_in sched : forall ems p,
  In p (sent_order sched ems) -> exists q, In q ems /\ In p q.
Proof.
  induction sched as [|i s IH]; intros ems p H; [contradiction|]. simpl in H.
  destruct (take_nth i ems) as [[x ems']|] eqn:E; [|now apply IH].
  destruct (take_nth_in i ems x ems' E) as [Hx Hr].
  destruct H as [<-|H]; [exact Hx|].
  destruct (IH ems' p H) as [q' [Hq' Hp]]. exact (Hr p q' Hq' Hp).
Qed.

(** For every set of emitters and every schedule of their queue operations: the receiver
    dispatches exactly the packets that were queued, in queue order, each with its own namespace,
    tag and attachments (and nothing else), and never hits a parse error. *)
Theorem frames_isolated sched ems :
  receive None (wire_atomic sched ems) = (map delivered_as (sent_order sched ems), false) /\
  (forall r, In r (fst (receive None (wire_atomic sched ems))) ->
     exists q p, In q ems /\ In p q /\ r = delivered_as p).
Proof.
  rewrite wire_atomic_sent, receive_all. split; [reflexivity|].
  simpl. intros r Hr. apply in_map_iff in Hr as [p [<- Hp]].
  destruct (sent_order_in sched ems p Hp) as [q [Hq Hpq]]. exists q, p. auto.
Qed.

(** What the theorem excludes: if every frame is queued by its own call, a text frame of /b can
    land between the header and the attachments of /a's packet; /a's handler then receives /b's frame
    as an attachment and the left-over attachment is a parse error that closes the shared connection. *)
Lemma split_frames_leak :
  let a := [47; 97] in let b := [47; 98] in
  receive None (wire_split [0; 1; 0; 0]%nat [[mkFP a 1 [10; 11]]; [mkFP b 2 []]]) =
  ([mkRP a 1 [FText b 2 0; FBin 10]], true).
Proof. vm_compute. reflexivity. Qed.
