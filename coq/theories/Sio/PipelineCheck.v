(** Executable checkers used by the C02 correspondence check (kernel evaluation on histories the
    live rigs record), with their soundness proofs.

    wire level ([wcase]):   the packets each emitter sent (reference encoding), everything the raw
                            Engine.IO peer's OnPacket delivered (MESSAGE frames and control packets,
                            in order), and what the reference decoder finished (emitter, seq,
                            decoded attachments, in order).
      [oracle_wire]  the property on the observation alone: the MESSAGE frames are an interleaving at
                     packet granularity of the per-emitter sequences ([check_wire], proven sound) and
                     the decoder finished exactly those packets, in that order, each with its own
                     attachments.
      [agree_wire]   the observation is a behaviour of the model Sio/Pipeline.v: a schedule is
                     guessed from the observation ([explain_wire], not trusted), RUN on the model
                     ([run_opt], strict) and the model's wire, finished list and parser state are
                     compared with the observation.
    handler level ([hcase]): burst lengths and the (emitter, seq) pairs in handler-entry order.
      [oracle_entries] per-emitter order at handler entry + exactly once;
      [entry_class]    the finding class of a failure (mirrored in harness/cmd/vh/order.go);
      [agree_entries]  the entry order is a behaviour of the model (a Dispatch schedule is guessed,
                       run, compared). *)
From SioV Require Import Base.Conc Sio.Pipeline.

(** ** parseHeader's attachment count on real bytes (parser/json/decode.go:parseHeader, the part
    the reassembly depends on): type byte '0'..'6'; for the binary types '5','6' the decimal
    number before the first '-'. *)
Fixpoint parse_dec (acc : N) (seen : bool) (l : bytes) : option (N * bytes) :=
  match l with
  | [] => None                                  (* no '-' *)
  | c :: l' =>
      if (c =? 45)%N then (if seen then Some (acc, l') else None)   (* ParseUint("") fails *)
      else if ((48 <=? c) && (c <=? 57))%N then parse_dec (acc * 10 + (c - 48))%N true l'
      else None
  end.

Definition declared_bytes (d : bytes) : option nat :=
  match d with
  | [] => None
  | t :: rest =>
      if ((t =? 53) || (t =? 54))%N then
        match parse_dec 0 false rest with
        | Some (n, _) => Some (N.to_nat n)
        | None => None
        end
      else if ((48 <=? t) && (t <=? 52))%N then Some 0
      else None
  end.

Definition bytes_eqb : bytes -> bytes -> bool := list_eqb N.eqb.

Lemma bytes_eqb_eq a b : bytes_eqb a b = true <-> a = b.
Proof. apply list_eqb_eq. intros x y. apply N.eqb_eq. Qed.

Section Check.
  Context {data : Type}.
  Variable deqb : data -> data -> bool.
  Hypothesis deqb_eq : forall a b, deqb a b = true -> a = b.

  Definition frame_eqb (a b : frame data) : bool :=
    Bool.eqb (f_bin a) (f_bin b) && deqb (f_data a) (f_data b).

  Lemma frame_eqb_eq a b : frame_eqb a b = true -> a = b.
  Proof.
    destruct a as [ba da], b as [bb db]. unfold frame_eqb. simpl. intros H.
    apply andb_true_iff in H as [H1 H2]. apply Bool.eqb_prop in H1. apply deqb_eq in H2. now subst.
  Qed.

  Definition epkt_eqb (a b : epkt data) : bool :=
    match a, b with
    | Msg f, Msg g => frame_eqb f g
    | Ctl x, Ctl y => N.eqb x y
    | _, _ => false
    end.

  Definition spacket_eqb (a b : spacket data) : bool :=
    deqb (sp_hdr a) (sp_hdr b) && list_eqb deqb (sp_atts a) (sp_atts b).

  (** If [p] is a prefix of [w], what follows it. *)
  Fixpoint strip_prefix (p w : list (frame data)) : option (list (frame data)) :=
    match p, w with
    | [], _ => Some w
    | a :: p', b :: w' => if frame_eqb a b then strip_prefix p' w' else None
    | _ :: _, [] => None
    end.

  Lemma strip_prefix_sound p w w' : strip_prefix p w = Some w' -> w = p ++ w'.
  Proof.
    revert w; induction p as [|a p IH]; intros [|b w] H; simpl in *; try discriminate.
    - now inversion H.
    - now inversion H.
    - destruct (frame_eqb a b) eqn:E; try discriminate.
      apply frame_eqb_eq in E. subst. f_equal. now apply IH.
  Qed.

  (** The first emitter whose next packet's frames are the next frames on the wire. *)
  Fixpoint find_emitter (ls : list (list (spacket data))) (w : list (frame data))
    : option (nat * spacket data * list (spacket data) * list (frame data)) :=
    match ls with
    | [] => None
    | l :: ls' =>
        match (match l with
               | p :: rest => match strip_prefix (frames_of p) w with
                              | Some w' => Some (p, rest, w')
                              | None => None
                              end
               | [] => None
               end) with
        | Some (p, rest, w') => Some (O, p, rest, w')
        | None => match find_emitter ls' w with
                  | Some (i, p, rest, w') => Some (S i, p, rest, w')
                  | None => None
                  end
        end
    end.

  Lemma find_emitter_sound ls w i p rest w' :
    find_emitter ls w = Some (i, p, rest, w') ->
    nth_error ls i = Some (p :: rest) /\ w = frames_of p ++ w'.
  Proof.
    revert i; induction ls as [|l ls IH]; intros i H; [discriminate|].
    cbn [find_emitter] in H. destruct l as [|q qs].
    - destruct (find_emitter ls w) as [[[[j p'] r'] w'']|] eqn:E; try discriminate.
      inversion H; subst. destruct (IH j eq_refl) as [H1 H2]. split; assumption.
    - destruct (strip_prefix (frames_of q) w) as [w1|] eqn:Es.
      + inversion H; subst. split; [reflexivity|]. now apply strip_prefix_sound.
      + destruct (find_emitter ls w) as [[[[j p'] r'] w'']|] eqn:E; try discriminate.
        inversion H; subst. destruct (IH j eq_refl) as [H1 H2]. split; assumption.
  Qed.

  (** [check_wire fuel ls w]: decompose the frame sequence [w] into whole packets, each the next
      packet of some emitter.  Result: which emitter each packet came from, and what the emitters
      have left. *)
  Fixpoint check_wire (fuel : nat) (ls : list (list (spacket data))) (w : list (frame data))
    : option (list nat * list (list (spacket data))) :=
    match w with
    | [] => Some ([], ls)
    | _ :: _ =>
        match fuel with
        | O => None
        | S fuel' =>
            match find_emitter ls w with
            | Some (i, p, rest, w') =>
                match check_wire fuel' (set_nth ls i rest) w' with
                | Some (o, rem) => Some (i :: o, rem)
                | None => None
                end
            | None => None
            end
        end
    end.

  (** Soundness: an accepted frame sequence IS the frames of an interleaving at packet granularity
      of prefixes of the per-emitter sequences. *)
  Theorem check_wire_sound fuel ls w order rem :
    check_wire fuel ls w = Some (order, rem) ->
    exists ps, pops ls order = Some (ps, rem) /\ w = flat_map frames_of ps.
  Proof.
    revert ls w order rem; induction fuel as [|fuel IH]; intros ls w order rem H.
    - destruct w; simpl in H; try discriminate. inversion H; subst. exists []. split; reflexivity.
    - destruct w as [|f w]; simpl in H.
      + inversion H; subst. exists []. split; reflexivity.
      + destruct (find_emitter ls (f :: w)) as [[[[i p] rest] w']|] eqn:E; try discriminate.
        destruct (check_wire fuel (set_nth ls i rest) w') as [[o rem']|] eqn:Ec; try discriminate.
        inversion H; subst. apply find_emitter_sound in E as [E1 E2].
        destruct (IH _ _ _ _ Ec) as (ps & Hp & Hw).
        exists (p :: ps). split.
        * simpl. rewrite E1, Hp. reflexivity.
        * simpl. rewrite E2, Hw. reflexivity.
  Qed.

  (** The packets in wire order, given who sent each. *)
  Definition packets_of (ls : list (list (spacket data))) (order : list nat) : list (spacket data) :=
    match pops ls order with Some (ps, _) => ps | None => [] end.

End Check.

(** ** Wire-level cases *)

Definition no_split {data} (b : list (frame data)) : list (list (frame data)) := [b].

Section WireCase.
  Context {data : Type}.
  Variable deqb : data -> data -> bool.
  Variable declared : data -> option nat.

  (** (transport, expect-complete, per-emitter packets, observed wire, observed finished) *)
  Definition gcase :=
    (transport * bool * list (list (spacket data)) * list (epkt data) * list (nat * nat * list data))%type.

  Definition wire_decompose (progs : list (list (spacket data))) (w : list (epkt data)) :=
    let fr := msgs w in check_wire deqb (length fr) progs fr.

  (** What the decoder must have finished for the interleaving [order]: the emitter, the position
      in its burst, and the packet's own attachments. *)
  Fixpoint expected_finished (ls : list (list (spacket data))) (pos : list nat) (order : list nat)
    : list (nat * nat * list data) :=
    match order with
    | [] => []
    | i :: o =>
        match nth_error ls i with
        | Some (p :: rest) =>
            (i, nth i pos 0, sp_atts p)
              :: expected_finished (set_nth ls i rest) (set_nth pos i (S (nth i pos 0))) o
        | _ => []
        end
    end.

  Definition fin_eqb (a b : nat * nat * list data) : bool :=
    let '(ai, aj, aa) := a in let '(bi, bj, ba) := b in
    Nat.eqb ai bi && Nat.eqb aj bj && list_eqb deqb aa ba.

  Definition oracle_wire_g (c : gcase) : bool :=
    let '(tr, complete, progs, w, fin) := c in
    match wire_decompose progs w with
    | Some (order, rem) =>
        (if complete then all_nil rem else true)
        && list_eqb fin_eqb fin (expected_finished progs (map (fun _ => 0) progs) order)
    | None => false
    end.

  (** The emitter whose next packet starts with the frame [f]. *)
  Fixpoint pick_header (f : frame data) (i : nat) (l : list (list (spacket data)))
    : option (nat * spacket data * list (spacket data)) :=
    match l with
    | [] => None
    | (p :: rest) :: l' =>
        if frame_eqb deqb (mkFrame false (sp_hdr p)) f then Some (i, p, rest)
        else pick_header f (S i) l'
    | [] :: l' => pick_header f (S i) l'
    end.

  (** Guess a schedule of the model that reproduces the observation (emit one packet, drain it,
      send its chunks; control packets where they were seen; then the peer processes everything). *)
  Fixpoint explain_walk (tr : transport) (ls : list (list (spacket data)))
           (cur : list (frame data)) (w : list (epkt data)) : option (list action) :=
    match w with
    | [] => Some []
    | Ctl ty :: w' =>
        match explain_walk tr ls cur w' with
        | Some s => Some (Control ty :: (match tr with PollServer => [Poll] | _ => [] end) ++ s)
        | None => None
        end
    | Msg f :: w' =>
        match cur with
        | g :: cur' =>
            (* inside a packet: websocket sends frame by frame, polling sent it whole *)
            match explain_walk tr ls cur' w' with
            | Some s => Some ((match tr with WS => [DrSend] | _ => [] end) ++ s)
            | None => None
            end
        | [] =>
            match pick_header f 0 ls with
            | Some (i, p, rest) =>
                match explain_walk tr (set_nth ls i rest) (tl (frames_of p)) w' with
                | Some s =>
                    Some (Emit i :: DrGet :: DrSend
                            :: (match tr with PollServer => [Poll] | _ => [] end) ++ s)
                | None => None
                end
            | None => None
            end
        end
    end.

  Definition explain_wire (tr : transport) (progs : list (list (spacket data))) (w : list (epkt data))
    : option (list action) :=
    match explain_walk tr progs [] w with
    | Some s => Some (s ++ repeat Recv (length w))
    | None => None
    end.

  (** The observed finished list (emitter, seq, decoded attachments) against the model's. *)
  Fixpoint fin_matches (progs : list (list (spacket data))) (fin : list (nat * nat * list data))
           (finished : list (spacket data)) : bool :=
    match fin, finished with
    | [], [] => true
    | (i, j, atts) :: fin', p :: finished' =>
        match nth_error (nth i progs []) j with
        | Some q => deqb (sp_hdr q) (sp_hdr p) && list_eqb deqb atts (sp_atts p)
                    && fin_matches progs fin' finished'
        | None => false
        end
    | _, _ => false
    end.

  Definition agree_wire_g (c : gcase) : bool :=
    let '(tr, complete, progs, w, fin) := c in
    match explain_wire tr progs w with
    | Some sched =>
        match run_opt declared 0 no_split tr sched progs with
        | Some s =>
            list_eqb (epkt_eqb deqb) (st_wire s) w
            && negb (st_rerr s)
            && fin_matches progs fin (st_finished s)
            && (if complete
                then all_nil (st_em s) && match st_parser s with None => true | _ => false end
                else true)
        | None => false
        end
    | None => false
    end.
End WireCase.

(** *** on real bytes (parseHeader's count read from the header bytes) *)
Definition wcase := @gcase bytes.
Definition oracle_wire (c : wcase) : bool := oracle_wire_g bytes_eqb c.
Definition agree_wire (c : wcase) : bool := agree_wire_g bytes_eqb declared_bytes c.
Definition ok_wire (c : wcase) : bool := oracle_wire c && agree_wire c.

(** *** on interned frames: a frame is the index of its byte string in the scenario's table of
    distinct byte strings (equal ids iff equal bytes); the header of a packet announces the
    attachments the reference encoder produced for it. *)
Definition icase := @gcase N.

Fixpoint declared_tbl (progs : list (spacket N)) (h : N) : option nat :=
  match progs with
  | [] => None
  | p :: l => if N.eqb (sp_hdr p) h then Some (length (sp_atts p)) else declared_tbl l h
  end.

Definition oracle_wire_i (c : icase) : bool := oracle_wire_g N.eqb c.
Definition agree_wire_i (c : icase) : bool :=
  let '(_, _, progs, _, _) := c in agree_wire_g N.eqb (declared_tbl (concat progs)) c.
Definition ok_wire_i (c : icase) : bool := oracle_wire_i c && agree_wire_i c.

(** ** Handler-level cases: packets are identified by (emitter, seq). *)

Definition hcase := (list nat * list (nat * nat))%type.   (* burst lengths, entries in order *)

Definition entries_of (e : nat) (entries : list (nat * nat)) : list nat :=
  map snd (filter (fun x => Nat.eqb (fst x) e) entries).

Fixpoint increasing_from (k : nat) (l : list nat) : bool :=
  match l with
  | [] => true
  | x :: l' => Nat.eqb x k && increasing_from (S k) l'
  end.

Fixpoint count_nat (x : nat) (l : list nat) : nat :=
  match l with [] => 0 | y :: l' => (if Nat.eqb x y then 1 else 0) + count_nat x l' end.

(** every (e, s) with s < burst e entered exactly once, nothing else *)
Definition entries_exactly_once (c : hcase) : bool :=
  let '(bursts, entries) := c in
  Nat.eqb (length entries) (fold_right Nat.add 0 bursts)
  && forallb (fun x => Nat.ltb (fst x) (length bursts)) entries
  && forallb (fun e =>
       let l := entries_of e entries in
       forallb (fun s => Nat.eqb (count_nat s l) 1) (seq 0 (nth e bursts 0)))
     (seq 0 (length bursts)).

(** per emitter, the sequence numbers enter in the order 0,1,2,... *)
Definition entries_ordered (c : hcase) : bool :=
  let '(bursts, entries) := c in
  forallb (fun e => increasing_from 0 (entries_of e entries)) (seq 0 (length bursts)).

Definition oracle_entries (c : hcase) : bool :=
  entries_exactly_once c && entries_ordered c.

(** 0 = property holds; 1 = finding class handler-entry-order:dispatch-goroutines (every event
    entered exactly once, only the per-emitter order is broken); 2 = anything else. *)
Definition entry_class (c : hcase) : N :=
  if entries_exactly_once c then (if entries_ordered c then 0%N else 1%N) else 2%N.

(** The model on identifiers: a packet is (emitter, seq), no attachments. *)
Definition id_progs (bursts : list nat) : list (list (spacket (nat * nat))) :=
  map (fun '(e, b) => map (fun s => mkSP (e, s) []) (seq 0 b)) (combine (seq 0 (length bursts)) bursts).

Definition id_eqb (a b : nat * nat) : bool := Nat.eqb (fst a) (fst b) && Nat.eqb (snd a) (snd b).

Fixpoint index_of (x : nat * nat) (l : list (spacket (nat * nat))) : option nat :=
  match l with
  | [] => None
  | p :: l' => if id_eqb (sp_hdr p) x then Some 0
               else match index_of x l' with Some k => Some (S k) | None => None end
  end.

(** Dispatch schedule that makes the pending goroutines enter in the observed order. *)
Fixpoint dispatch_sched (pending : list (spacket (nat * nat))) (entries : list (nat * nat))
  : option (list action) :=
  match entries with
  | [] => Some []
  | x :: es =>
      match index_of x pending with
      | Some k => match dispatch_sched (remove_nth pending k) es with
                  | Some s => Some (Dispatch k :: s)
                  | None => None
                  end
      | None => None
      end
  end.

Definition agree_entries (c : hcase) : bool :=
  let '(bursts, entries) := c in
  let progs := id_progs bursts in
  let total := fold_right Nat.add 0 bursts in
  (* emitter after emitter, one drain, frame by frame over a websocket, all received *)
  let emits := concat (map (fun '(e, b) => repeat (Emit e) b) (combine (seq 0 (length bursts)) bursts)) in
  let pre := emits ++ [DrGet] ++ repeat DrSend total ++ repeat Recv total in
  match run_opt (fun _ : nat * nat => Some 0) 0 (fun b => [b]) WS pre progs with
  | Some s0 =>
      match dispatch_sched (st_pending s0) entries with
      | Some ds =>
          match exec_opt (step (fun _ : nat * nat => Some 0) 0 (fun b => [b]) WS) ds s0 with
          | Some s => list_eqb id_eqb (map (@sp_hdr _) (st_entered s)) entries
          | None => false
          end
      | None => false
      end
  | None => false
  end.

(** class, and whether the entry order is a behaviour of the model (not asked when events were lost) *)
Definition entry_verdict (c : hcase) : N * bool :=
  let k := entry_class c in (k, if (k =? 2)%N then true else agree_entries c).
