(** Proofs about Sio/PipelineConn.v (two producer paths into the packet queue), for all schedules. *)
From Coq Require Import Permutation.
From SioV Require Import Base.Conc Sio.Pipeline Sio.PipelineProofs Sio.PipelineConn.

Section ConnProofs.
  Context {data : Type}.
  Variable declared : data -> option nat.
  Variable max_atts : nat.
  Variable split : list (frame data) -> list (list (frame data)).
  Hypothesis split_concat : forall b, concat (split b) = b.
  Variable tr : transport.
  Variable progs : list (list (spacket data)).

  Notation wf := (wf_packet declared max_atts).
  Notation cstp := (cstep declared max_atts split tr).
  Notation stp := (step declared max_atts split tr).
  Notation creach := (creachable declared max_atts split tr progs).
  Notation IF := (InvF declared max_atts tr).

  (** base steps other than Emit leave the log and the emitters' programs alone *)
  Lemma step_keeps_log_em a b b' :
    (forall i, a <> Emit i) -> stp a b = Some b' -> st_log b' = st_log b /\ st_em b' = st_em b.
  Proof.
    intros Hne H. destruct a as [i| | |ty| | |k]; simpl in H.
    - exfalso. now apply (Hne i).
    - destruct (st_dr b); try discriminate. destruct (st_q b); try discriminate.
      inversion H; subst; simpl; auto.
    - destruct (st_dr b); try discriminate. inversion H; subst. destruct tr; simpl; auto.
    - inversion H; subst. destruct tr; simpl; auto.
    - destruct tr; try discriminate. destruct (st_pollq b); try discriminate.
      inversion H; subst; simpl; auto.
    - destruct (st_rerr b); try discriminate.
      destruct (st_inbox b) as [|[f|ty] rest]; try discriminate.
      + destruct (parser_add declared max_atts (st_parser b) (f_data f)) as [[p' fin]| |];
          inversion H; subst; simpl; auto.
      + inversion H; subst; simpl; auto.
    - destruct (nth_error (st_pending b) k); try discriminate. inversion H; subst; simpl; auto.
  Qed.

  Lemma invF_enqueue l b : IF b -> IF (enqueue l b).
  Proof.
    intros [I0 I2 I3 I4]. constructor; simpl; auto.
    unfold st_wire in *. simpl. rewrite map_app, flat_map_app, <- I2.
    rewrite <- !app_assoc. reflexivity.
  Qed.

  Lemma invF_set_em em b : IF b -> IF (set_em em b).
  Proof. intros [I0 I2 I3 I4]. constructor; simpl; auto. Qed.

  Record CInv (c : cstate data) : Prop := {
    ci_base : IF (c_base c);
    ci_sendbuf : c_sendbuf c = flat_map frames_of (map snd (c_parked c));
    ci_hist : pops progs (map fst (c_hist c)) = Some (map snd (c_hist c), st_em (c_base c));
    ci_perm : Permutation (c_all c) (c_hist c)
  }.

  Lemma cinv_init : CInv (cinit progs).
  Proof.
    constructor; simpl; auto.
    apply invF_of_inv with (progs := progs). apply inv_init.
  Qed.

  Lemma cinv_step c a c' : CInv c -> cstp a c = Some c' -> CInv c'.
  Proof.
    intros [IB IS IH IP] H. unfold c_all in *.
    destruct a as [i|i| | |a]; simpl in H.
    - destruct (nth_error (st_em (c_base c)) i) as [[|p rest]|] eqn:E; try discriminate.
      destruct (c_connected c); inversion H; subst; clear H; constructor; simpl; auto.
      + apply invF_enqueue, invF_set_em, IB.
      + rewrite !map_app. simpl. eapply pops_snoc; eauto.
      + unfold c_all. simpl. rewrite <- app_assoc.
        eapply perm_trans; [apply Permutation_app_head, Permutation_app_comm|].
        rewrite app_assoc. now apply Permutation_app_tail.
      + apply invF_set_em, IB.
      + rewrite map_app, flat_map_app, IS. simpl. now rewrite app_nil_r.
      + rewrite !map_app. simpl. eapply pops_snoc; eauto.
      + unfold c_all. simpl. rewrite app_assoc. now apply Permutation_app_tail.
    - destruct (c_connected c); try discriminate.
      destruct (nth_error (st_em (c_base c)) i) as [[|p rest]|] eqn:E; try discriminate.
      inversion H; subst; clear H; constructor; simpl; auto.
      + apply invF_set_em, IB.
      + rewrite map_app, flat_map_app, IS. simpl. now rewrite app_nil_r.
      + rewrite !map_app. simpl. eapply pops_snoc; eauto.
      + unfold c_all. simpl. rewrite app_assoc. now apply Permutation_app_tail.
    - destruct (c_connected c); try discriminate. inversion H; subst; clear H.
      constructor; simpl; auto.
    - destruct (c_connected c); try discriminate.
      destruct (c_parked c) as [|x l] eqn:Ep; try discriminate.
      inversion H; subst; clear H. constructor; simpl; auto.
      + apply invF_enqueue, IB.
      + unfold c_all. simpl. rewrite app_nil_r. exact IP.
    - destruct a as [i| | |ty| | |k]; cbn [cstep] in H; try discriminate;
        (match type of H with
         | match ?st with _ => _ end = _ => destruct st as [b|] eqn:Eb; [|discriminate]
         end;
         inversion H; subst; clear H;
         pose proof (invF_step declared max_atts split split_concat tr _ _ _ IB Eb) as IB';
         match type of Eb with
         | step _ _ _ _ ?act _ = _ =>
             assert (Hne : forall i, act <> Emit i) by (intros i0 Hx; discriminate Hx)
         end;
         destruct (step_keeps_log_em _ _ _ Hne Eb) as [Hl He];
         constructor; simpl; auto; [now rewrite He | unfold c_all; simpl; now rewrite Hl]).
  Qed.

  Lemma cinv_reachable c : creach c -> CInv c.
  Proof.
    revert c. apply (invariant_reachable (step := cstp) (P := CInv)). split.
    - intros c ->. apply cinv_init.
    - intros c a c'. apply cinv_step.
  Qed.

  (** *** Frame contiguity over BOTH producer paths: whatever the schedule, the MESSAGE frames handed
      to the peer are a prefix of the frames of whole packets - the packets that entered the queue, in
      the order they entered it - and the parked frames are the frames of whole packets too. *)
  Theorem conn_contiguity c : creach c ->
    (exists rest, msgs (st_wire (c_base c)) ++ rest = flat_map frames_of (map snd (st_log (c_base c)))) /\
    c_sendbuf c = flat_map frames_of (map snd (c_parked c)).
  Proof.
    intros R. destruct (cinv_reachable _ R) as [IB IS _ _]. split; [|exact IS].
    eexists. apply (invf_frames _ _ _ _ IB).
  Qed.

  (** Nothing is lost or duplicated between the emit calls and queue + sendBuffer, and the emit
      calls are an interleaving of prefixes of the per-emitter sequences. *)
  Theorem conn_exactly_once c : creach c ->
    Permutation (c_all c) (c_hist c) /\
    pops progs (map fst (c_hist c)) = Some (map snd (c_hist c), st_em (c_base c)).
  Proof. intros R. destruct (cinv_reachable _ R) as [_ _ IH IP]. split; assumption. Qed.

  (** *** Reassembly *)
  Hypothesis progs_wf : Forall (Forall wf) progs.

  Lemma clog_wf c : CInv c -> Forall wf (map snd (st_log (c_base c))).
  Proof.
    intros [_ _ IH IP]. pose proof (pops_forall wf _ _ _ _ progs_wf IH) as W.
    rewrite Forall_forall in *. intros p Hp. apply in_map_iff in Hp as ((i & q) & <- & Hq).
    apply W. apply in_map_iff. exists (i, q). split; [reflexivity|].
    eapply Permutation_in; [exact IP|]. unfold c_all. apply in_or_app. now left.
  Qed.

  Lemma cno_rerr c : creach c -> st_rerr (c_base c) = false.
  Proof.
    revert c. apply (invariant_reachable_under (step := cstp) (Q := CInv)
                       (P := fun c => st_rerr (c_base c) = false)).
    - apply cinv_reachable.
    - split.
      + intros c ->. reflexivity.
      + intros c a c' I Hr H. destruct a as [i|i| | |a]; simpl in H.
        * destruct (nth_error (st_em (c_base c)) i) as [[|p rest]|]; try discriminate.
          destruct (c_connected c); inversion H; subst; exact Hr.
        * destruct (c_connected c); try discriminate.
          destruct (nth_error (st_em (c_base c)) i) as [[|p rest]|]; try discriminate.
          inversion H; subst; exact Hr.
        * destruct (c_connected c); try discriminate. inversion H; subst; exact Hr.
        * destruct (c_connected c); try discriminate. destruct (c_parked c); try discriminate.
          inversion H; subst; exact Hr.
        * destruct a as [i| | |ty| | |k]; cbn [cstep] in H; try discriminate;
            (match type of H with
             | match ?st with _ => _ end = _ => destruct st as [b|] eqn:Eb; [|discriminate]
             end;
             inversion H; subst; simpl;
             eapply invF_step_no_err; eauto;
             [apply (ci_base _ I) | apply (clog_wf _ I)]).
  Qed.

  (** The peer's parser never fails and finishes packets in the order they entered the queue, each
      equal to an emitted packet (its header with exactly its own attachments). *)
  Theorem conn_reassembly c : creach c ->
    st_rerr (c_base c) = false /\
    exists k, st_finished (c_base c) = firstn k (map snd (st_log (c_base c))).
  Proof.
    intros R. pose proof (cno_rerr _ R) as Hr. split; [exact Hr|].
    pose proof (cinv_reachable _ R) as I.
    eapply invF_finished_prefix; eauto.
    - apply (ci_base _ I).
    - apply (clog_wf _ I).
  Qed.

  (** *** Per-emitter order across the connect instant: only under [window_free]. *)
  Definition phase_inv (ph : nat) (c : cstate data) : Prop :=
    match ph with
    | 0 => c_connected c = false /\ st_log (c_base c) = [] /\
           pops progs (map fst (c_parked c)) = Some (map snd (c_parked c), st_em (c_base c))
    | 1 => c_connected c = true /\ st_log (c_base c) = [] /\
           pops progs (map fst (c_parked c)) = Some (map snd (c_parked c), st_em (c_base c))
    | _ => c_connected c = true /\ c_parked c = [] /\
           pops progs (map fst (st_log (c_base c))) = Some (map snd (st_log (c_base c)), st_em (c_base c))
    end.

  Lemma phase_inv_order ph c : phase_inv ph c ->
    pops progs (map fst (c_all c)) = Some (map snd (c_all c), st_em (c_base c)).
  Proof.
    unfold c_all. destruct ph as [|[|ph]]; simpl; intros (H1 & H2 & H3).
    - now rewrite H2.
    - now rewrite H2.
    - now rewrite H2, app_nil_r.
  Qed.

  Lemma window_free_exec sched : forall ph c,
    phase_inv ph c -> window_free ph sched = true ->
    exists ph', phase_inv ph' (exec cstp sched c).
  Proof.
    induction sched as [|a sched IH]; intros ph c P W; simpl.
    - exists ph. exact P.
    - unfold step_skip. destruct (cstp a c) as [c'|] eqn:E.
      2:{ (* disabled action: the state is unchanged; the phase may only advance on CFlush/CConnected *)
          destruct a as [i|i| | |a]; simpl in W.
          - destruct ph as [|[|ph]]; try discriminate; eapply IH; eauto.
          - discriminate.
          - destruct ph as [|[|ph]]; try (eapply IH; eauto; fail).
            (* CConnected disabled in phase 0 is impossible *)
            simpl in E. destruct P as (Hc & _). rewrite Hc in E. discriminate.
          - destruct ph as [|[|ph]]; try (eapply IH; eauto; fail).
            (* CFlush disabled in phase 1: nothing was parked *)
            simpl in E. destruct P as (Hc & Hl & Hp). rewrite Hc in E.
            destruct (c_parked c) eqn:Ep; try discriminate.
            eapply (IH 2); eauto. simpl. repeat split; auto. rewrite Hl. simpl. exact Hp.
          - destruct ph as [|[|ph]]; eapply IH; eauto. }
      destruct a as [i|i| | |a]; simpl in W.
      + (* CEmit *)
        simpl in E. destruct (nth_error (st_em (c_base c)) i) as [[|p rest]|] eqn:En; try discriminate.
        destruct ph as [|[|ph]]; try discriminate.
        * destruct P as (Hc & Hl & Hp). rewrite Hc in E. inversion E; subst; clear E.
          eapply (IH 0); eauto. simpl. repeat split; auto.
          rewrite !map_app. simpl. eapply pops_snoc; eauto.
        * destruct P as (Hc & Hk & Hp). rewrite Hc in E. inversion E; subst; clear E.
          eapply (IH (S (S ph))); eauto. simpl. repeat split; auto.
          rewrite !map_app. simpl. eapply pops_snoc; eauto.
      + discriminate.
      + (* CConnected *)
        simpl in E. destruct (c_connected c) eqn:Hc; try discriminate. inversion E; subst; clear E.
        destruct ph as [|[|ph]].
        * destruct P as (_ & Hl & Hp). eapply (IH 1); eauto. simpl. auto.
        * destruct P as (Hc' & _). congruence.
        * destruct P as (Hc' & _). congruence.
      + (* CFlush *)
        simpl in E. destruct (c_connected c) eqn:Hc; try discriminate.
        destruct (c_parked c) as [|x l] eqn:Ep; try discriminate. inversion E; subst; clear E.
        destruct ph as [|[|ph]].
        * destruct P as (Hc' & _). congruence.
        * destruct P as (_ & Hl & Hp). eapply (IH 2); eauto. simpl. repeat split; auto.
          rewrite Hl. rewrite <- Ep. simpl app. exact Hp.
        * destruct P as (_ & Hk & _). congruence.
      + (* base step *)
        assert (G : phase_inv ph c').
        { destruct a as [i| | |ty| | |k]; cbn [cstep] in E; try discriminate;
            (match type of E with
             | match ?st with _ => _ end = _ => destruct st as [b|] eqn:Eb; [|discriminate]
             end;
             inversion E; subst; clear E;
             match type of Eb with
             | step _ _ _ _ ?act _ = _ =>
                 assert (Hne : forall i, act <> Emit i) by (intros i0 Hx; discriminate Hx)
             end;
             destruct (step_keeps_log_em _ _ _ Hne Eb) as [Hl He];
             destruct ph as [|[|ph]]; simpl in *; rewrite ?Hl, ?He; exact P). }
        destruct ph as [|[|ph]]; eapply IH; eauto.
  Qed.

  Theorem conn_order_window_free sched :
    window_free 0 sched = true ->
    let c := crun declared max_atts split tr sched progs in
    pops progs (map fst (c_all c)) = Some (map snd (c_all c), st_em (c_base c)).
  Proof.
    intros W. unfold crun.
    destruct (window_free_exec sched 0 (cinit progs)) as (ph & P); auto.
    - simpl. auto.
    - eapply phase_inv_order; eauto.
  Qed.
  (** *** The repaired system: every step of it is a step of the old one, so contiguity, exactly-once
      and reassembly carry over; and per-emitter order now holds for ALL schedules. *)
  Notation cstpf := (cstep_fix declared max_atts split tr).
  Notation creachf := (creachable_fix declared max_atts split tr progs).

  Lemma cstep_fix_simulated a c c' : cstpf a c = Some c' -> exists a', cstp a' c = Some c'.
  Proof.
    intros H. destruct a as [i|i| | |a].
    - cbn [cstep_fix] in H.
      destruct (nth_error (st_em (c_base c)) i) as [[|p rest]|] eqn:En; try discriminate.
      destruct (c_connected c) eqn:Hc; simpl in H.
      + destruct (c_sendbuf c) eqn:Hs.
        * exists (CEmit i). cbn [cstep]. rewrite En, Hc, ?Hs. exact H.
        * exists (CParkStale i). cbn [cstep]. rewrite Hc, En, Hs. exact H.
      + exists (CEmit i). cbn [cstep]. rewrite En, Hc. exact H.
    - cbn [cstep_fix] in H. discriminate.
    - exists CConnected. exact H.
    - exists CFlush. exact H.
    - exists (CBase a). exact H.
  Qed.

  Lemma creachable_fix_old c : creachf c -> creach c.
  Proof.
    induction 1 as [c I | c a c' R IH St].
    - now apply reach_init.
    - destruct (cstep_fix_simulated _ _ _ St) as (a' & St'). eapply reach_step; eauto.
  Qed.

  Lemma sendbuf_nil_parked_nil c : CInv c -> c_sendbuf c = [] -> c_parked c = [].
  Proof.
    intros I H. rewrite (ci_sendbuf _ I) in H. destruct (c_parked c) as [|[i p] l]; [reflexivity|].
    simpl in H. discriminate.
  Qed.

  Theorem conn_order_fixed c : creachf c ->
    pops progs (map fst (c_all c)) = Some (map snd (c_all c), st_em (c_base c)).
  Proof.
    revert c. apply (invariant_reachable_under (step := cstpf) (Q := CInv)
      (P := fun c => pops progs (map fst (c_all c)) = Some (map snd (c_all c), st_em (c_base c)))).
    - intros c R. apply cinv_reachable. now apply creachable_fix_old.
    - split.
      + intros c ->. reflexivity.
      + intros c a c' I P H. unfold c_all in *. destruct a as [i|i| | |a].
        * cbn [cstep_fix] in H.
          destruct (nth_error (st_em (c_base c)) i) as [[|p rest]|] eqn:En; try discriminate.
          destruct (c_connected c && match c_sendbuf c with [] => true | _ => false end) eqn:Hd.
          -- apply andb_true_iff in Hd as [_ Hs]. destruct (c_sendbuf c) eqn:Es; try discriminate.
             rewrite (sendbuf_nil_parked_nil _ I Es) in *. inversion H; subst; clear H. simpl.
             rewrite !app_nil_r in *.
             rewrite !map_app. simpl. eapply pops_snoc; eauto.
          -- inversion H; subst; clear H. simpl. rewrite app_assoc, !map_app. simpl.
             rewrite <- !map_app. eapply pops_snoc; eauto.
        * cbn [cstep_fix] in H. discriminate.
        * cbn [cstep_fix cstep] in H. destruct (c_connected c); try discriminate.
          inversion H; subst; exact P.
        * cbn [cstep_fix cstep] in H. destruct (c_connected c); try discriminate.
          destruct (c_parked c) as [|x l] eqn:Ep; try discriminate.
          inversion H; subst; clear H. simpl. rewrite app_nil_r. exact P.
        * cbn [cstep_fix] in H.
          destruct a as [i| | |ty| | |k]; cbn [cstep] in H; try discriminate;
            (match type of H with
             | match ?st with _ => _ end = _ => destruct st as [b|] eqn:Eb; [|discriminate]
             end;
             inversion H; subst; clear H;
             match type of Eb with
             | step _ _ _ _ ?act _ = _ =>
                 assert (Hne : forall i, act <> Emit i) by (intros i0 Hx; discriminate Hx)
             end;
             destruct (step_keeps_log_em _ _ _ Hne Eb) as [Hl He]; simpl; rewrite Hl, He; exact P).
  Qed.

End ConnProofs.
