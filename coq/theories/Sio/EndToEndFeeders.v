(** C01 - several transports feeding ONE parser (the polling -> websocket upgrade window: the old
    polling transport still delivers its in-flight poll response while the websocket reader
    already delivers new messages; Manager.onEIOPacket / serverConn.onEIOPacket take [parserMu]
    for one whole delivery = the packets one transport hands over in one OnPacket call).

    The single-link theorems of Sio/EndToEnd.v assume one feeder.  Here the assumption is explicit:
    the parser consumes the deliveries of all feeders in the order they win the mutex, each
    delivery ATOMICALLY, and the conclusion needs every delivery to consist of WHOLE packets.
    - polling: a delivery is a poll response; the server's poll queue is filled with whole
      packets (all frames of a packet are enqueued atomically, C02) and taken atomically: whole.
    - websocket: a delivery is ONE frame; whole only for packets without attachments.
    Both ways of breaking the assumption are refuted below on C02's model of Parser.Add
    (Sio/Pipeline.v [parser_add], which - like the code - takes whatever comes next as the
    attachment it is waiting for): per-frame locking (a mutant class), and websocket traffic with
    attachments concurrent with a late poll response (a defect of the code before fix 63b366a, finding
    upgrade-window:late-poll-vs-websocket-attachments; since the fix the feeders are sequential:
    [feeders_sequential_exactly_once]). *)
From Coq Require Import List Bool Arith Lia Permutation.
Import ListNotations.
From SioV Require Import Base.GoSem Sio.Pipeline.
From SioV Require Import Sio.EndToEnd.

Lemma perm_concat : forall {X} (a b : list (list X)), Permutation a b -> Permutation (concat a) (concat b).
Proof.
  intros X a b H. induction H; simpl.
  - constructor.
  - now apply Permutation_app_head.
  - rewrite !app_assoc. apply Permutation_app_tail, Permutation_app_comm.
  - etransitivity; eassumption.
Qed.

Section Feeders.
  Variables (name arg frame dstate : Type).
  Variable enc : event name arg -> list frame.
  Variable d0 : dstate.
  Variable dec_step : dstate -> frame -> dstate * option (event name arg).
  Hypothesis codec_roundtrip :
    forall e, feed name arg frame dstate dec_step d0 (enc e) = (d0, [e]).

  (** one delivery = the frames one transport hands to onEIOPacket in one call; the parser sees
      the deliveries in the order they took the mutex, each one uninterrupted *)
  Definition parse_deliveries (ds : list (list frame)) : list (event name arg) :=
    snd (feed name arg frame dstate dec_step d0 (concat ds)).

  (** a delivery made of whole packets, given by the events it carries *)
  Definition delivery_of (evs : list (event name arg)) : list frame := flat_map enc evs.

  Lemma concat_deliveries : forall (l : list (list (event name arg))),
    concat (map delivery_of l) = flat_map enc (concat l).
  Proof.
    induction l as [|d l IH]; [reflexivity|]. simpl. rewrite IH. unfold delivery_of.
    now rewrite flat_map_app.
  Qed.

  (** Any number of feeders, each with its own sequence of whole-packet deliveries, merged in ANY
      order at delivery granularity ([Interleave]): the parser finishes exactly the events of the
      deliveries in merge order - nothing lost, duplicated or altered - every feeder's deliveries
      in its own order, and as a multiset exactly what the feeders carried. *)
  Theorem feeders_exactly_once :
    forall (feeders : list (list (list (event name arg)))) (tr : list (nat * list (event name arg))),
      Interleave feeders tr ->
      parse_deliveries (map (fun p => delivery_of (snd p)) tr) = concat (map snd tr)
      /\ (forall i, proj i tr = nth i feeders [])
      /\ Permutation (parse_deliveries (map (fun p => delivery_of (snd p)) tr))
                     (concat (concat feeders)).
  Proof.
    intros feeders tr Hil.
    assert (H : parse_deliveries (map (fun p => delivery_of (snd p)) tr) = concat (map snd tr)).
    { unfold parse_deliveries. rewrite <- (map_map snd delivery_of), concat_deliveries.
      now rewrite (feed_packets name arg frame enc dstate d0 dec_step codec_roundtrip). }
    split; [exact H|]. split; [intros i; now apply interleave_proj|].
    rewrite H. apply perm_concat. now apply interleave_perm.
  Qed.
  (** The repaired client (fix 63b366a: polling is paused before the probe and the swap happens
      only once no poll is in flight and its packets were delivered; C07_no_poll_delivery_after_swap
      in Props/C07.v: after the swap no poll request is in flight and no response is on its way,
      for every schedule): the feeders are SEQUENTIAL - every delivery of the old transport
      precedes every delivery of the new one.  Then nothing is required of the shape of the
      deliveries: the old transport's deliveries carry whole packets [evs_old] (poll responses),
      the new one's frames may be cut into deliveries in ANY way (one frame per websocket message),
      and the parser still finishes exactly [evs_old ++ evs_new]. *)
  Theorem feeders_sequential_exactly_once :
    forall (evs_old evs_new : list (event name arg)) (old_ds new_ds : list (list frame)),
      concat old_ds = flat_map enc evs_old ->
      concat new_ds = flat_map enc evs_new ->
      parse_deliveries (old_ds ++ new_ds) = evs_old ++ evs_new.
  Proof.
    intros evs_old evs_new old_ds new_ds Ho Hn. unfold parse_deliveries.
    rewrite concat_app, Ho, Hn, <- flat_map_app.
    now rewrite (feed_packets name arg frame enc dstate d0 dec_step codec_roundtrip).
  Qed.
End Feeders.

(** * The two ways out of the assumption, on C02's model of Parser.Add *)

(** frame data are numbers; a header [d >= 10] announces [d mod 10] attachments, numbers below 10
    are attachment contents and are not valid headers *)
Definition wdeclared (d : nat) : option nat := if d <? 10 then None else Some (Nat.modulo d 10).

(** (1) The mutex taken per frame instead of per delivery: poll response [header 11; attachment 7]
    and the websocket message [header 20] (no attachments) merged frame by frame as 11, 20, 7 -
    the second header is consumed as the attachment of the first packet (altered event, the other
    event lost), the orphan attachment is then not a header: parse error, connection closed. *)
Theorem feeders_frame_granularity_refuted :
  exists (poll ws : list nat),
    @parse_from nat wdeclared 0 None (poll ++ ws) = Ok (None, [mkSP 11 [7]; mkSP 20 []]) /\
    @parse_from nat wdeclared 0 None (ws ++ poll) = Ok (None, [mkSP 20 []; mkSP 11 [7]]) /\
    @parse_from nat wdeclared 0 None [11; 20] = Ok (None, [mkSP 11 [20]]) /\
    @parse_from nat wdeclared 0 None [11; 20; 7] = Err.
Proof. exists [11; 7], [20]. repeat split; vm_compute; reflexivity. Qed.

(** (2) The code BEFORE fix 63b366a: every delivery atomic, but a websocket delivery is ONE frame.  Websocket
    carries [header 31; attachment 8] as two deliveries, the late poll response [11; 7] wins the
    mutex between them: 31, 11, 7, 8 - header 11 is taken as the attachment of packet 31, then 7
    is not a header. *)
Theorem feeders_websocket_attachments_refuted :
  exists (ws1 ws2 poll : list nat),
    length ws1 = 1 /\ length ws2 = 1 /\
    @parse_from nat wdeclared 0 None (poll ++ ws1 ++ ws2) = Ok (None, [mkSP 11 [7]; mkSP 31 [8]]) /\
    @parse_from nat wdeclared 0 None (ws1 ++ ws2 ++ poll) = Ok (None, [mkSP 31 [8]; mkSP 11 [7]]) /\
    @parse_from nat wdeclared 0 None (ws1 ++ [11]) = Ok (None, [mkSP 31 [11]]) /\
    @parse_from nat wdeclared 0 None (ws1 ++ poll ++ ws2) = Err.
Proof. exists [31], [8], [11; 7]. repeat split; vm_compute; reflexivity. Qed.
