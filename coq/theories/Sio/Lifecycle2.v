(** Sio/Lifecycle2.v - TWO namespace sockets on one connection (C06).

    Sio/Lifecycle.v follows one socket through every cause and goroutine of the code; the other
    sockets of its connection appear there only as delays of the connection's close loop.  This
    file makes the second socket explicit for the part of the code where sockets of one connection
    meet: serverConn.onClose (closed flag, getAndRemoveAll, the loop `for each socket:
    socket.onClose(reason)` in an arbitrary (map) order, each call WAITING for that socket's close -
    which waits for the user's disconnecting handlers, i.e. arbitrarily long), the admission of a
    socket (CONNECT -> middlewares -> n.sockets.set -> conn.sockets.set -> onConnect -> re-check of
    the closed flag) racing that loop over the other socket, the Engine.IO close around it, c.close(),
    and the namespace-level ends of either socket (DISCONNECT packet, Disconnect(false)).
    Both sockets are symmetric: each has its own admission goroutine and its own once.
    Reasons are data (see Lifecycle.v), so ONE connection-level end stands for transport close /
    error, ping timeout, forced close.  The two sockets are either of two namespaces or - two
    CONNECT packets for one namespace whose goroutines both passed getByNsp before either registered -
    of ONE namespace ([same_nsp]): then conn.sockets holds both by id and only the later one by
    namespace, and removeByID of either deletes the namespace's entry.  Variants that are NOT the code:
    [flag_first = false] (closed flag after the loop), [displace] (set drops the displaced by-id entry). *)
From SioV Require Import Base.GoSem Sio.Lifecycle.
Local Open Scope N_scope.

Record sk := mkSk {
  o : N   (* serverSocket.closeOnce *);
  pc : N   (* pc of its body *);
  conn : bool   (* connected *);
  innsp : bool   (* in Namespace.sockets *);
  room : bool   (* own-id room in the adapter *);
  incs : bool   (* in conn.sockets *);
  apc : N   (* admission goroutine *);
  nd : N   (* ghost: disconnect fan-outs *);
  ndg : N   (* ghost: disconnecting fan-outs *);
  ever : bool   (* ghost: onConnect ran *)
}.
Definition sk0 : sk := mkSk Fresh 0 false false false false 0 0 0 false.
Definition sk_o (v : N) (s : sk) : sk := mkSk v (pc s) (conn s) (innsp s) (room s) (incs s) (apc s) (nd s) (ndg s) (ever s).
Definition sk_pc (v : N) (s : sk) : sk := mkSk (o s) v (conn s) (innsp s) (room s) (incs s) (apc s) (nd s) (ndg s) (ever s).
Definition sk_conn (v : bool) (s : sk) : sk := mkSk (o s) (pc s) v (innsp s) (room s) (incs s) (apc s) (nd s) (ndg s) (ever s).
Definition sk_innsp (v : bool) (s : sk) : sk := mkSk (o s) (pc s) (conn s) v (room s) (incs s) (apc s) (nd s) (ndg s) (ever s).
Definition sk_room (v : bool) (s : sk) : sk := mkSk (o s) (pc s) (conn s) (innsp s) v (incs s) (apc s) (nd s) (ndg s) (ever s).
Definition sk_incs (v : bool) (s : sk) : sk := mkSk (o s) (pc s) (conn s) (innsp s) (room s) v (apc s) (nd s) (ndg s) (ever s).
Definition sk_apc (v : N) (s : sk) : sk := mkSk (o s) (pc s) (conn s) (innsp s) (room s) (incs s) v (nd s) (ndg s) (ever s).
Definition sk_nd (v : N) (s : sk) : sk := mkSk (o s) (pc s) (conn s) (innsp s) (room s) (incs s) (apc s) v (ndg s) (ever s).
Definition sk_ndg (v : N) (s : sk) : sk := mkSk (o s) (pc s) (conn s) (innsp s) (room s) (incs s) (apc s) (nd s) v (ever s).
Definition sk_ever (v : bool) (s : sk) : sk := mkSk (o s) (pc s) (conn s) (innsp s) (room s) (incs s) (apc s) (nd s) (ndg s) v.

Record ctl2 := mkCtl2 {
  e_once2 : N;
  e_pc2 : N;
  store2 : bool;
  c_once2 : N;
  c_pc2 : N;
  closed2 : bool;
  snapA : bool;
  snapB : bool;
  cur : N;
  cc2 : bool;
  bynsp : N   (* same namespace: which socket conn.sockets holds for the namespace (0 none, 1 A, 2 B) *);
  skA : sk;
  skB : sk
}.
Definition cinit2 : ctl2 := mkCtl2 Fresh 0 true Fresh 0 false false false 0 false 0 sk0 sk0.
Definition set2_e_once2 (v : N) (s : ctl2) : ctl2 := mkCtl2 v (e_pc2 s) (store2 s) (c_once2 s) (c_pc2 s) (closed2 s) (snapA s) (snapB s) (cur s) (cc2 s) (bynsp s) (skA s) (skB s).
Definition set2_e_pc2 (v : N) (s : ctl2) : ctl2 := mkCtl2 (e_once2 s) v (store2 s) (c_once2 s) (c_pc2 s) (closed2 s) (snapA s) (snapB s) (cur s) (cc2 s) (bynsp s) (skA s) (skB s).
Definition set2_store2 (v : bool) (s : ctl2) : ctl2 := mkCtl2 (e_once2 s) (e_pc2 s) v (c_once2 s) (c_pc2 s) (closed2 s) (snapA s) (snapB s) (cur s) (cc2 s) (bynsp s) (skA s) (skB s).
Definition set2_c_once2 (v : N) (s : ctl2) : ctl2 := mkCtl2 (e_once2 s) (e_pc2 s) (store2 s) v (c_pc2 s) (closed2 s) (snapA s) (snapB s) (cur s) (cc2 s) (bynsp s) (skA s) (skB s).
Definition set2_c_pc2 (v : N) (s : ctl2) : ctl2 := mkCtl2 (e_once2 s) (e_pc2 s) (store2 s) (c_once2 s) v (closed2 s) (snapA s) (snapB s) (cur s) (cc2 s) (bynsp s) (skA s) (skB s).
Definition set2_closed2 (v : bool) (s : ctl2) : ctl2 := mkCtl2 (e_once2 s) (e_pc2 s) (store2 s) (c_once2 s) (c_pc2 s) v (snapA s) (snapB s) (cur s) (cc2 s) (bynsp s) (skA s) (skB s).
Definition set2_snapA (v : bool) (s : ctl2) : ctl2 := mkCtl2 (e_once2 s) (e_pc2 s) (store2 s) (c_once2 s) (c_pc2 s) (closed2 s) v (snapB s) (cur s) (cc2 s) (bynsp s) (skA s) (skB s).
Definition set2_snapB (v : bool) (s : ctl2) : ctl2 := mkCtl2 (e_once2 s) (e_pc2 s) (store2 s) (c_once2 s) (c_pc2 s) (closed2 s) (snapA s) v (cur s) (cc2 s) (bynsp s) (skA s) (skB s).
Definition set2_cur (v : N) (s : ctl2) : ctl2 := mkCtl2 (e_once2 s) (e_pc2 s) (store2 s) (c_once2 s) (c_pc2 s) (closed2 s) (snapA s) (snapB s) v (cc2 s) (bynsp s) (skA s) (skB s).
Definition set2_cc2 (v : bool) (s : ctl2) : ctl2 := mkCtl2 (e_once2 s) (e_pc2 s) (store2 s) (c_once2 s) (c_pc2 s) (closed2 s) (snapA s) (snapB s) (cur s) v (bynsp s) (skA s) (skB s).
Definition set2_bynsp (v : N) (s : ctl2) : ctl2 := mkCtl2 (e_once2 s) (e_pc2 s) (store2 s) (c_once2 s) (c_pc2 s) (closed2 s) (snapA s) (snapB s) (cur s) (cc2 s) v (skA s) (skB s).
Definition set2_skA (v : sk) (s : ctl2) : ctl2 := mkCtl2 (e_once2 s) (e_pc2 s) (store2 s) (c_once2 s) (c_pc2 s) (closed2 s) (snapA s) (snapB s) (cur s) (cc2 s) (bynsp s) v (skB s).
Definition set2_skB (v : sk) (s : ctl2) : ctl2 := mkCtl2 (e_once2 s) (e_pc2 s) (store2 s) (c_once2 s) (c_pc2 s) (closed2 s) (snapA s) (snapB s) (cur s) (cc2 s) (bynsp s) (skA s) v.

(** code variants *)
Record cfg2 := mkCfg2 {
  flag_first : bool;   (* serverConn.onClose sets `closed` before getAndRemoveAll (the code) *)
  same_nsp : bool;     (* the two sockets belong to ONE namespace (two overlapping CONNECT packets for it):
                          they share the by-namespace index of conn.sockets; false: two namespaces *)
  displace : bool      (* serverSocketStore.set drops the by-id entry of the socket it displaces (NOT the code) *)
}.
Definition code2 (same : bool) : cfg2 := mkCfg2 true same false.

(** socket selector: false = A, true = B *)
Definition gsk (w : bool) (s : ctl2) : sk := if w then skB s else skA s.
Definition usk (w : bool) (f : sk -> sk) (s : ctl2) : ctl2 :=
  if w then set2_skB (f (skB s)) s else set2_skA (f (skA s)) s.
Definition gsnap (w : bool) (s : ctl2) : bool := if w then snapB s else snapA s.
Definition ssnap (w : bool) (v : bool) (s : ctl2) : ctl2 := if w then set2_snapB v s else set2_snapA v s.
Definition wid (w : bool) : N := if w then 2 else 1.

Definition call_E2 (s : ctl2) : ctl2 :=
  if e_once2 s =? Fresh then set2_e_once2 Running (set2_e_pc2 0 s) else s.
Definition call_C2 (s : ctl2) : ctl2 :=
  if c_once2 s =? Fresh then set2_c_once2 Running (set2_c_pc2 0 s) else s.
(** serverSocket.onClose: `if !connected return` before the once *)
Definition call_S2 (w : bool) (s : ctl2) : ctl2 :=
  if negb (conn (gsk w s)) then s
  else if o (gsk w s) =? Fresh then usk w (fun k => sk_o Running (sk_pc 0 k)) s else s.
Definition ret_S2 (w : bool) (s : ctl2) : bool := (o (gsk w s) =? Done) || negb (conn (gsk w s)).
Definition cclose2 (s : ctl2) : ctl2 := set2_cc2 true (call_E2 s).

Inductive act2 :=
| A2Ebody | A2Cbody | A2Cpick (w : bool) | A2Sbody (w : bool) | A2Admit (w : bool) | A2CClose
| A2ConnEnd            (* transport close / error, ping timeout, eio.Close(): engine.io close(reason) *)
| A2Invalid            (* c.close(): invalid-state packet, Disconnect(true)'s last step, connect timeout *)
| A2ClientDisc (w : bool)   (* DISCONNECT packet for the socket's namespace *)
| A2ServerDisc (w : bool).  (* socket.Disconnect(false) *)

Definition cstep2 (k2 : cfg2) (a : act2) (s : ctl2) : option ctl2 :=
  match a with
  | A2Ebody =>
      if negb (e_once2 s =? Running) then None else
      if e_pc2 s =? 0 then Some (set2_e_pc2 1 (call_C2 s))
      else if c_once2 s =? Done then Some (set2_e_once2 Done (set2_store2 false s)) else None
  | A2Cbody =>
      if negb (c_once2 s =? Running) then None else
      if c_pc2 s =? 0 then (* code: closed = true; closeReason = reason *)
        Some (set2_c_pc2 1 (if flag_first k2 then set2_closed2 true s else s))
      else if c_pc2 s =? 1 then (* sockets.getAndRemoveAll() *)
        Some (set2_c_pc2 2 (set2_snapA (incs (skA s)) (set2_snapB (incs (skB s))
               (set2_bynsp 0 (usk false (sk_incs false) (usk true (sk_incs false) s))))))
      else if c_pc2 s =? 2 then (* the loop is over when every socket of the snapshot was closed *)
        if (cur s =? 0) && negb (snapA s) && negb (snapB s)
        then (if flag_first k2 then Some (set2_c_once2 Done s) else Some (set2_c_pc2 3 (set2_closed2 true s)))
        else None
      else Some (set2_c_once2 Done s)
  | A2Cpick w => (* next socket of the snapshot, in any order: socket.onClose(reason), waited for *)
      if negb ((c_once2 s =? Running) && (c_pc2 s =? 2)) then None else
      if cur s =? 0 then
        if gsnap w s then Some (set2_cur (wid w) (ssnap w false (call_S2 w s))) else None
      else if (cur s =? wid w) && ret_S2 w s then Some (set2_cur 0 s) else None
  | A2Sbody w =>
      let k := gsk w s in
      if negb (o k =? Running) then None else
      if pc k =? 0 then (* `if !connected return` inside the once: cannot fail after the outer test *)
        if conn k then Some (usk w (sk_pc 1) s) else Some (usk w (sk_o Done) s)
      else if pc k =? 1 then (* disconnecting handlers, WAITED FOR (as long as the user's handlers take) *)
        Some (usk w (fun k => sk_pc 2 (sk_ndg (sat2 (ndg k)) k)) s)
      else if pc k =? 2 then Some (usk w (fun k => sk_pc 3 (sk_room false k)) s)       (* leaveAll *)
      else if pc k =? 3 then Some (usk w (fun k => sk_pc 4 (sk_innsp false k)) s)      (* nsp.remove *)
      else if pc k =? 4 then (* conn.remove: removeByID deletes the by-id entry AND the namespace's by-nsp entry *)
        Some (usk w (sk_pc 5) (if incs k then usk w (sk_incs false) (if same_nsp k2 then set2_bynsp 0 s else s) else s))
      else if pc k =? 5 then Some (usk w (fun k => sk_pc 6 (sk_conn false k)) s)       (* connected = false *)
      else Some (usk w (fun k => sk_o Done (sk_nd (sat2 (nd k)) k)) s)                 (* disconnect handlers *)
  | A2Admit w =>
      let k := gsk w s in
      if apc k =? 0 then (* CONNECT packet: getByNsp; found -> "invalid state" -> c.close(); else middlewares *)
        if same_nsp k2 then (if bynsp s =? 0 then Some (usk w (sk_apc 1) s) else Some (usk w (sk_apc 7) (cclose2 s)))
        else (if incs k then None else Some (usk w (sk_apc 1) s))
      else if apc k =? 1 then Some (usk w (fun k => sk_apc 2 (sk_innsp true k)) s)
      else if apc k =? 2 then (* conn.sockets.set: by-id and by-nsp entries *)
        let s1 := if same_nsp k2 && displace k2 && negb (bynsp s =? 0) && negb (bynsp s =? wid w)
                  then usk (negb w) (sk_incs false) s else s in
        Some (usk w (fun k => sk_apc 3 (sk_incs true k)) (if same_nsp k2 then set2_bynsp (wid w) s1 else s1))
      else if apc k =? 3 then Some (usk w (fun k => sk_apc 4 (sk_conn true (sk_ever true (sk_room true k)))) s)
      else if apc k =? 4 then (* if c.closed { socket.onClose(c.closeReason) } *)
        if closed2 s then Some (usk w (sk_apc 5) (call_S2 w s)) else Some (usk w (sk_apc 6) s)
      else if apc k =? 5 then (if ret_S2 w s then Some (usk w (sk_apc 6) s) else None)
      else None
  | A2CClose => if cc2 s && (e_once2 s =? Done) then Some (set2_cc2 false (call_C2 s)) else None
  | A2ConnEnd => Some (call_E2 s)
  | A2Invalid => Some (cclose2 s)
  | A2ClientDisc w => (* DISCONNECT packet: getByNsp *)
      if same_nsp k2 then
        (if bynsp s =? wid w then Some (call_S2 w s) else if bynsp s =? 0 then Some (cclose2 s) else None)
      else if incs (gsk w s) then Some (call_S2 w s) else Some (cclose2 s)
  | A2ServerDisc w => if conn (gsk w s) then Some (call_S2 w s) else Some s
  end.

Definition all_acts2 : list act2 :=
  [A2Ebody; A2Cbody; A2Cpick false; A2Cpick true; A2Sbody false; A2Sbody true; A2Admit false; A2Admit true;
   A2CClose; A2ConnEnd; A2Invalid; A2ClientDisc false; A2ClientDisc true; A2ServerDisc false; A2ServerDisc true].
Lemma all_acts2_complete : forall a, In a all_acts2.
Proof. intros [| |[]|[]|[]| | | |[]|[]]; simpl; tauto. Qed.

Definition pending2 (a : act2) (s : ctl2) : bool :=
  match a with
  | A2ConnEnd | A2Invalid | A2ClientDisc _ | A2ServerDisc _ => false
  | A2Admit w => negb (apc (gsk w s) =? 0)
  | _ => true
  end.
Definition quiescent2 (k2 : cfg2) (s : ctl2) : bool :=
  forallb (fun a => negb (pending2 a s) || match cstep2 k2 a s with None => true | Some _ => false end) all_acts2.

Definition sk_clean (k : sk) : bool := negb (innsp k) && negb (room k) && negb (conn k).
