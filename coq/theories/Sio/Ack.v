(** Sio/Ack.v - executable model of the acknowledgement machinery of one socket (property C03).

    Ported from (as of the tree this file is checked against):
      handler.go           ackHandler{called,timedOut,mu}, ackHandler.call, newAckHandlerWithTimeout
      client_socket.go     registerAckHandler (+ the timeout function: delete entry, purge sendBuffer),
                           nextAckID, emit, _sendBuffers (send now / buffer with ack tag), onAck,
                           onPacket (sendAck guard), emitBuffered (flush of sendBuffer)
      server_socket.go     registerAckHandler (timeout function: delete entry only), onAck, onPacket
      namespace.go         nextAckID (per-namespace counter: ids can be consumed by other sockets)
      client_manager.go    onParserFinish: every packet is dispatched on its own goroutine

    One [state] is one emitting socket plus the part of its peer that answers (the `sent` guard of
    each received event and the ACK packets in flight).  Every goroutine is a schedulable action;
    a critical section under one mutex is one step (Base/Conc.v).  The user, the peer and the
    network are actions too, so "for all schedules" quantifies over all emits, all reply streams
    (also duplicated / unsolicited ACK packets: [LPacketIn]), all timer/reply races and all
    connect/disconnect points.

    Identity conventions: an ack id is [nat] (position in [st_emits]; ids taken by other sockets of
    the namespace are dead entries made by [LSkipId]).  The ack table `acks` is the field
    [e_intable] of each entry (the map restricted to the keys it can ever hold).  A frame is
    (tag, (packet number, index)): index 0 is the text frame, 1.. are its binary attachments. *)
From Coq Require Import List Arith Bool Lia NArith.
From SioV Require Import Base.GoSem.
Import ListNotations.

Definition args := list N.

Inductive outcome := OReply (a : args) | OTimeout.

(** goroutine that runs Emit for one ack id *)
Inductive epc :=
| EReg     (* newAckHandlerWithTimeout returned (timer goroutine started), `acks[id] = h` not yet done *)
| ESend    (* handler registered; next: Encode + sendBuffers *)
| EDone.

(** the timer goroutine of newAckHandlerWithTimeout *)
Inductive tpc :=
| TNone      (* emit without timeout: no goroutine *)
| TSleep     (* time.Sleep(timeout) (+ the verif yield point) *)
| TDelete    (* set timedOut under h.mu; next: timeoutFunc: delete(acks, id) under acksMu *)
| TLockBuf   (* client: next: sendBufferMu.Lock() *)
| TPurge     (* holds sendBufferMu; next: the purge loop *)
| TUnlock    (* next: sendBufferMu.Unlock() (deferred in the repaired code) *)
| TInvoke    (* next: call the callback with ErrAckTimeout *)
| TRunning   (* the user callback (ErrAckTimeout) is executing: it may take arbitrarily long *)
| TSkipped   (* saw called = true: returned without calling *)
| TFired     (* the callback invoked with ErrAckTimeout has returned *)
| TPanicked. (* pre-fix purge only: panic recovered by the goroutine, sendBufferMu still locked *)

(** a goroutine running onPacket for one received ACK packet *)
Inductive rpc :=
| RLookup (id : nat) (a : args)   (* next: acksMu.Lock; look up + delete; Unlock; decode *)
| RCall (id : nat) (a : args)     (* holds the handler; next: h.call: lock, timedOut?, called = true *)
| RInvoke (id : nat) (a : args)   (* next: invoke the callback with the reply *)
| RRunning (id : nat) (a : args)  (* the user callback (reply) is executing: it may take arbitrarily long *)
| RDone.

Definition frame := (option nat * (nat * nat))%type.

Definition tag_is (id : nat) (f : frame) : bool :=
  match fst f with Some t => Nat.eqb t id | None => false end.

Definition frames_of (tag : option nat) (pk natt : nat) : list frame :=
  map (fun j => (tag, (pk, j))) (seq 0 (S natt)).

Record emit := mkEmit {
  e_pc : epc;
  e_pk : nat;            (* packet number of the event *)
  e_natt : nat;          (* number of binary attachments *)
  e_intable : bool;      (* acks[id] present *)
  e_called : bool;       (* ackHandler.called *)
  e_timedOut : bool;     (* ackHandler.timedOut *)
  e_timer : tpc;
  e_psent : bool         (* peer: the `sent` flag of the received event that carries this id *)
}.

Record config := mkConfig {
  c_client : bool;       (* client socket (offline send buffer, purge on timeout) or server socket *)
  c_oldpurge : bool      (* the purge loop as it was before the fix (kept to state what was wrong) *)
}.

Record state := mkState {
  st_cfg : config;
  st_emits : list emit;
  st_npk : nat;
  st_conn : bool;
  st_buf : list frame;            (* clientSocket.sendBuffer *)
  st_bufmu : option nat;          (* sendBufferMu: held by the timer goroutine of that id *)
  st_wire : list frame;           (* frames handed to manager.packet / conn.sendBuffers, in order *)
  st_replies : list rpc;
  st_inflight : list (nat * args);(* ACK packets sent by the peer, not yet received *)
  st_log : list (nat * outcome);  (* invocations of user ack callbacks, in order of their START; a
                                     callback that is still executing is a goroutine at RRunning / TRunning *)
  st_plog : list (nat * args);    (* peer: calls of the ack function of the event carrying id *)
  st_psent : list (nat * args)    (* peer: ACK packets it put on the wire *)
}.

Definition init_state (cfg : config) (conn : bool) : state :=
  mkState cfg [] 0 conn [] None [] [] [] [] [] [].

(** ** the purge of buffered frames *)

(** repaired code: filter into a fresh slice *)
Definition purge_new (id : nat) (buf : list frame) : list frame :=
  filter (fun f => negb (tag_is id f)) buf.

(** pre-fix code:  for i, p := range buf { if tag == id { buf = append(buf[:i], buf[i+1:]...) } }
    Go semantics: the range expression is evaluated once (n0 iterations, elements read from the
    live backing array [arr]); [len] is the current length of s.sendBuffer. *)
Definition remove_at (i len : nat) (arr : list frame) : list frame :=
  firstn i arr ++ firstn (len - (i + 1)) (skipn (i + 1) arr) ++ skipn (len - 1) arr.

Fixpoint purge_old_go (id : nat) (n i len : nat) (arr : list frame) : res (list frame) :=
  match n with
  | O => Ok (firstn len arr)
  | S n' =>
    match nth_error arr i with
    | None => Panic
    | Some f =>
      if tag_is id f then
        if len <? i + 1 then Panic     (* buf[i+1:] with i+1 > len(buf) *)
        else purge_old_go id n' (S i) (len - 1) (remove_at i len arr)
      else purge_old_go id n' (S i) len arr
    end
  end.

Definition purge_old (id : nat) (buf : list frame) : res (list frame) :=
  purge_old_go id (length buf) 0 (length buf) buf.

(** ** small list helpers *)
Fixpoint upd_nth {A} (k : nat) (x : A) (l : list A) : list A :=
  match l, k with
  | [], _ => []
  | _ :: l', O => x :: l'
  | y :: l', S k' => y :: upd_nth k' x l'
  end.

Fixpoint del_nth {A} (k : nat) (l : list A) : list A :=
  match l, k with
  | [], _ => []
  | _ :: l', O => l'
  | y :: l', S k' => y :: del_nth k' l'
  end.

(** ** record updates *)
Definition with_emits s v := mkState (st_cfg s) v (st_npk s) (st_conn s) (st_buf s) (st_bufmu s) (st_wire s) (st_replies s) (st_inflight s) (st_log s) (st_plog s) (st_psent s).
Definition with_npk s v := mkState (st_cfg s) (st_emits s) v (st_conn s) (st_buf s) (st_bufmu s) (st_wire s) (st_replies s) (st_inflight s) (st_log s) (st_plog s) (st_psent s).
Definition with_conn s v := mkState (st_cfg s) (st_emits s) (st_npk s) v (st_buf s) (st_bufmu s) (st_wire s) (st_replies s) (st_inflight s) (st_log s) (st_plog s) (st_psent s).
Definition with_buf s v := mkState (st_cfg s) (st_emits s) (st_npk s) (st_conn s) v (st_bufmu s) (st_wire s) (st_replies s) (st_inflight s) (st_log s) (st_plog s) (st_psent s).
Definition with_bufmu s v := mkState (st_cfg s) (st_emits s) (st_npk s) (st_conn s) (st_buf s) v (st_wire s) (st_replies s) (st_inflight s) (st_log s) (st_plog s) (st_psent s).
Definition with_wire s v := mkState (st_cfg s) (st_emits s) (st_npk s) (st_conn s) (st_buf s) (st_bufmu s) v (st_replies s) (st_inflight s) (st_log s) (st_plog s) (st_psent s).
Definition with_replies s v := mkState (st_cfg s) (st_emits s) (st_npk s) (st_conn s) (st_buf s) (st_bufmu s) (st_wire s) v (st_inflight s) (st_log s) (st_plog s) (st_psent s).
Definition with_inflight s v := mkState (st_cfg s) (st_emits s) (st_npk s) (st_conn s) (st_buf s) (st_bufmu s) (st_wire s) (st_replies s) v (st_log s) (st_plog s) (st_psent s).
Definition with_log s v := mkState (st_cfg s) (st_emits s) (st_npk s) (st_conn s) (st_buf s) (st_bufmu s) (st_wire s) (st_replies s) (st_inflight s) v (st_plog s) (st_psent s).
Definition with_plog s v := mkState (st_cfg s) (st_emits s) (st_npk s) (st_conn s) (st_buf s) (st_bufmu s) (st_wire s) (st_replies s) (st_inflight s) (st_log s) v (st_psent s).
Definition with_psent s v := mkState (st_cfg s) (st_emits s) (st_npk s) (st_conn s) (st_buf s) (st_bufmu s) (st_wire s) (st_replies s) (st_inflight s) (st_log s) (st_plog s) v.

Definition set_pc e v := mkEmit v (e_pk e) (e_natt e) (e_intable e) (e_called e) (e_timedOut e) (e_timer e) (e_psent e).
Definition set_intable e v := mkEmit (e_pc e) (e_pk e) (e_natt e) v (e_called e) (e_timedOut e) (e_timer e) (e_psent e).
Definition set_called e v := mkEmit (e_pc e) (e_pk e) (e_natt e) (e_intable e) v (e_timedOut e) (e_timer e) (e_psent e).
Definition set_timedOut e v := mkEmit (e_pc e) (e_pk e) (e_natt e) (e_intable e) (e_called e) v (e_timer e) (e_psent e).
Definition set_timer e v := mkEmit (e_pc e) (e_pk e) (e_natt e) (e_intable e) (e_called e) (e_timedOut e) v (e_psent e).
Definition set_psent e v := mkEmit (e_pc e) (e_pk e) (e_natt e) (e_intable e) (e_called e) (e_timedOut e) (e_timer e) v.

Definition get_emit (s : state) (id : nat) : option emit := nth_error (st_emits s) id.
Definition put_emit (s : state) (id : nat) (e : emit) : state := with_emits s (upd_nth id e (st_emits s)).
Definition put_reply (s : state) (k : nat) (r : rpc) : state := with_replies s (upd_nth k r (st_replies s)).

(** the event carrying ack id [id] has been handed to the transport *)
Definition onwire (s : state) (id : nat) : bool := existsb (tag_is id) (st_wire s).

(** _sendBuffers: connected (or a server socket) -> transport; else append to sendBuffer under
    sendBufferMu (blocks while somebody holds it) *)
Definition send_frames (s : state) (fs : list frame) : option state :=
  if st_conn s || negb (c_client (st_cfg s)) then Some (with_wire s (st_wire s ++ fs))
  else match st_bufmu s with
       | None => Some (with_buf s (st_buf s ++ fs))
       | Some _ => None
       end.

(** ** schedulable actions *)
Inductive label :=
| LEmit (timeout : bool) (natt : nat)  (* user: Emit(ev, ..., ackFunc), with or without Timeout(d) *)
| LEmitNoAck (natt : nat)              (* user: Emit without ack function *)
| LSkipId                              (* another socket of the namespace takes the next ack id *)
| LEmitStep (id : nat)                 (* the emitting goroutine of [id] goes on *)
| LTimer (id : nat)                    (* the timer goroutine of [id] goes on *)
| LPeerAck (id : nat) (a : args)       (* peer: a handler calls the ack function of the event [id] *)
| LDeliver (k : nat)                   (* network: the k-th ACK packet in flight arrives *)
| LPacketIn (id : nat) (a : args)      (* an ACK packet from an arbitrary (non-compliant) peer arrives *)
| LReply (k : nat) (dec_ok : bool)     (* the k-th onAck goroutine goes on; dec_ok: decode succeeds *)
| LConnect                             (* onConnect: state = connected; emitBuffered flushes sendBuffer *)
| LDisconnect.

Definition step (l : label) (s : state) : option state :=
  match l with
  | LEmit tmo natt =>
      (* nextAckID; without timeout the handler is stored at once, with a timeout the timer
         goroutine is started first and the handler stored afterwards *)
      let e := if tmo then mkEmit EReg (st_npk s) natt false false false TSleep false
               else mkEmit ESend (st_npk s) natt true false false TNone false in
      Some (with_npk (with_emits s (st_emits s ++ [e])) (S (st_npk s)))
  | LEmitNoAck natt =>
      match send_frames s (frames_of None (st_npk s) natt) with
      | Some s' => Some (with_npk s' (S (st_npk s)))
      | None => None
      end
  | LSkipId =>
      Some (with_emits s (st_emits s ++ [mkEmit EDone 0 0 false false false TNone false]))
  | LEmitStep id =>
      match get_emit s id with
      | Some e =>
        match e_pc e with
        | EReg => Some (put_emit s id (set_pc (set_intable e true) ESend))
        | ESend =>
          match send_frames s (frames_of (Some id) (e_pk e) (e_natt e)) with
          | Some s' => Some (put_emit s' id (set_pc e EDone))
          | None => None
          end
        | EDone => None
        end
      | None => None
      end
  | LTimer id =>
      match get_emit s id with
      | Some e =>
        match e_timer e with
        | TSleep =>
            if e_called e then Some (put_emit s id (set_timer e TSkipped))
            else Some (put_emit s id (set_timer (set_timedOut e true) TDelete))
        | TDelete =>
            Some (put_emit s id (set_timer (set_intable e false)
                                   (if c_client (st_cfg s) then TLockBuf else TInvoke)))
        | TLockBuf =>
            match st_bufmu s with
            | None => Some (put_emit (with_bufmu s (Some id)) id (set_timer e TPurge))
            | Some _ => None
            end
        | TPurge =>
            if c_oldpurge (st_cfg s) then
              match purge_old id (st_buf s) with
              | Ok b => Some (put_emit (with_buf s b) id (set_timer e TUnlock))
              | _ => Some (put_emit s id (set_timer e TPanicked))
              end
            else Some (put_emit (with_buf s (purge_new id (st_buf s))) id (set_timer e TUnlock))
        | TUnlock => Some (put_emit (with_bufmu s None) id (set_timer e TInvoke))
        | TInvoke => Some (put_emit (with_log s (st_log s ++ [(id, OTimeout)])) id (set_timer e TRunning))
        | TRunning => Some (put_emit s id (set_timer e TFired))   (* the callback returns *)
        | _ => None
        end
      | None => None
      end
  | LPeerAck id a =>
      match get_emit s id with
      | Some e =>
        if onwire s id then
          let s1 := with_plog s (st_plog s ++ [(id, a)]) in
          if e_psent e then Some s1
          else Some (put_emit (with_psent (with_inflight s1 (st_inflight s ++ [(id, a)]))
                                          (st_psent s ++ [(id, a)])) id (set_psent e true))
        else None
      | None => None
      end
  | LDeliver k =>
      match nth_error (st_inflight s) k with
      | Some (id, a) =>
          Some (with_replies (with_inflight s (del_nth k (st_inflight s))) (st_replies s ++ [RLookup id a]))
      | None => None
      end
  | LPacketIn id a => Some (with_replies s (st_replies s ++ [RLookup id a]))
  | LReply k dec_ok =>
      match nth_error (st_replies s) k with
      | Some (RLookup id a) =>
          match get_emit s id with
          | Some e =>
              if e_intable e then
                Some (put_reply (put_emit s id (set_intable e false)) k (if dec_ok then RCall id a else RDone))
              else Some (put_reply s k RDone)
          | None => Some (put_reply s k RDone)
          end
      | Some (RCall id a) =>
          match get_emit s id with
          | Some e =>
              if e_timedOut e then Some (put_reply s k RDone)
              else Some (put_reply (put_emit s id (set_called e true)) k (RInvoke id a))
          | None => Some (put_reply s k RDone)
          end
      | Some (RInvoke id a) =>
          Some (put_reply (with_log s (st_log s ++ [(id, OReply a)])) k (RRunning id a))
      | Some (RRunning id a) => Some (put_reply s k RDone)          (* the callback returns *)
      | _ => None
      end
  | LConnect =>
      if st_conn s then None
      else match st_bufmu s with
           | None => Some (with_buf (with_wire (with_conn s true) (st_wire s ++ st_buf s)) [])
           | Some _ => None
           end
  | LDisconnect => if st_conn s then Some (with_conn s false) else None
  end.

(** ** observables *)
Definition outcome_eqb (a b : outcome) : bool :=
  match a, b with
  | OTimeout, OTimeout => true
  | OReply x, OReply y => list_eqb N.eqb x y
  | _, _ => false
  end.

(** the invocations of the callback registered for [id], in order *)
Definition outcomes (s : state) (id : nat) : list outcome :=
  map snd (filter (fun x => Nat.eqb (fst x) id) (st_log s)).

(** first call of the ack function of the event carrying [id] on the peer *)
Fixpoint first_call (pl : list (nat * args)) (id : nat) : option args :=
  match pl with
  | [] => None
  | (i, a) :: pl' => if Nat.eqb i id then Some a else first_call pl' id
  end.

(** internal actions that can still happen (user and rogue-peer inputs are not internal) *)
Definition internal_labels (s : state) : list label :=
  map LEmitStep (seq 0 (length (st_emits s)))
  ++ map LTimer (seq 0 (length (st_emits s)))
  ++ map (fun k => LReply k true) (seq 0 (length (st_replies s)))
  ++ map LDeliver (seq 0 (length (st_inflight s))).

Definition enabledb (l : label) (s : state) : bool :=
  match step l s with Some _ => true | None => false end.

(** every goroutine has finished or is blocked for good, nothing is in flight *)
Definition terminalb (s : state) : bool := forallb (fun l => negb (enabledb l s)) (internal_labels s).

Definition run (sched : list label) (s : state) : state :=
  fold_left (fun s l => match step l s with Some s' => s' | None => s end) sched s.
