(** Sio/Pipeline.v - the emit -> queue -> drainer -> transport -> receiver-parser -> dispatch
    pipeline of one Socket.IO connection, one direction, as a concurrent transition system.

    Ported from (pinned tree):
      - emit:      server_socket.go:emit / client_socket.go:emit  (parser.Encode is thread-local;
                   the result is [buffers] = header :: attachments)
                   server_conn.go:sendBuffers / client_socket.go:_sendBuffers (buffers[0] -> text
                   eio MESSAGE packet, buffers[1:] -> binary eio MESSAGE packets) followed by ONE
                   call packetQueue.add(packets...) : lock; append all; unlock  => action [Emit i]
      - drainer:   packet_queue.go:pollAndSend, the only goroutine that calls eio Socket.Send with
                   MESSAGE packets: get() = lock; take all; unlock  => [DrGet];
                   socket.Send(batch) under transportMu.RLock, which is
                     websocket (both sides): for each packet { conn.Writer; Encode; Close }  - one
                        websocket message per packet, NOT atomic across the batch      (chunks = singletons)
                     polling server: pollQueue.add(batch...) under its mutex            (one chunk)
                     polling client: writeWritablePackets splits the batch into consecutive
                        sub-batches, one POST each, each POST answered before the next  (chunks = split)
                   one chunk handed to the transport => [DrSend]
      - control:   the Engine.IO layer itself sends PING / PONG / NOOP through the same Socket.Send
                   from other goroutines (engine.io/server_socket.go:pingPong, client handlePacket)
                   concurrently with the drainer (RLock is shared)  => [Control ty]
      - poll:      polling server: the peer's GET takes the whole poll queue (pollQueue.get) and
                   receives it as one payload => [Poll]
      - receive:   the peer's single reader (websocket read loop / poll loop / sequential POSTs)
                   calls OnPacket -> serverConn.onEIOPacket / Manager.onEIOPacket: under parserMu,
                   non-MESSAGE packets are skipped, MESSAGE data goes to parser.Add => [Recv]
                   (a payload of several packets is processed packet by packet; the model takes one
                   packet per step, which only adds interleavings)
      - parser:    parser/json/decode.go:Add - no reconstructor: parseHeader(data); binary type with
                   n > 0 attachments -> keep {header, remaining = n, buffers}; else finish at once;
                   reconstructor present: ANY data (the frame kind is not looked at) is appended as the
                   next attachment; remaining-- ; finish when 0
      - dispatch:  onParserFinish: `go func(){ ... socket.onPacket ... }()` (server_conn.go) /
                   `go socket.onPacket(...)` (client_manager.go): ONE GOROUTINE PER FINISHED PACKET
                   => the packet joins [st_pending]; [Dispatch k] lets the k-th pending goroutine reach
                   the handler (handler entry is appended to [st_entered]).

    Generic in the payload type [data] (instances: [bytes], or packet identifiers) and in
    [declared], the number of attachments parseHeader reads from a header ([None] = parse error).
    The record and action names are used by Props/C02.v and Props/C01.v: keep them stable. *)
From SioV Require Export Base.GoSem.
From SioV Require Import Base.Conc.

(** ** List helpers *)

Fixpoint set_nth {A} (l : list A) (i : nat) (x : A) : list A :=
  match l, i with
  | [], _ => []
  | _ :: t, O => x :: t
  | h :: t, S j => h :: set_nth t j x
  end.

Fixpoint remove_nth {A} (l : list A) (i : nat) : list A :=
  match l, i with
  | [], _ => []
  | _ :: t, O => t
  | h :: t, S j => h :: remove_nth t j
  end.

(** [pops ls order]: repeatedly take the head of the sequence number [order_j]; the taken elements
    in order and what is left of every sequence.  [None] if some sequence was already empty.
    "[ps] is an interleaving of prefixes of the sequences [ls], leaving [rem]" is
    [exists order, pops ls order = Some (ps, rem)]. *)
Fixpoint pops {A} (ls : list (list A)) (order : list nat) : option (list A * list (list A)) :=
  match order with
  | [] => Some ([], ls)
  | i :: o =>
      match nth_error ls i with
      | Some (x :: xs) =>
          match pops (set_nth ls i xs) o with
          | Some (r, ls') => Some (x :: r, ls')
          | None => None
          end
      | _ => None
      end
  end.

Definition interleaving {A} (ls : list (list A)) (ps : list A) (rem : list (list A)) : Prop :=
  exists order, pops ls order = Some (ps, rem).

(** The elements that came from sequence [i], in the order they appear in [ps]. *)
Fixpoint proj_of {A} (i : nat) (order : list nat) (ps : list A) : list A :=
  match order, ps with
  | j :: o, p :: ps' => if Nat.eqb j i then p :: proj_of i o ps' else proj_of i o ps'
  | _, _ => []
  end.

Definition all_nil {A} (ls : list (list A)) : bool :=
  forallb (fun l => match l with [] => true | _ => false end) ls.

Section Pipeline.
  Context {data : Type}.

  (** parseHeader: the attachment count a header frame announces (0 for the non-binary types);
      [None] = the frame is not a valid header. *)
  Variable declared : data -> option nat.
  (** Parser.maxAttachments (0 = no limit). *)
  Variable max_atts : nat.

  (** An Engine.IO MESSAGE packet carrying one Socket.IO frame. *)
  Record frame := mkFrame { f_bin : bool; f_data : data }.

  (** What travels on the Engine.IO link: MESSAGE packets and control packets (type number). *)
  Inductive epkt := Msg (f : frame) | Ctl (ty : N).

  (** A Socket.IO packet after Encode: buffers[0] and buffers[1:]. *)
  Record spacket := mkSP { sp_hdr : data; sp_atts : list data }.

  (** sendBuffers / _sendBuffers *)
  Definition frames_of (p : spacket) : list frame :=
    mkFrame false (sp_hdr p) :: map (mkFrame true) (sp_atts p).

  (** What Encode guarantees (C09): the header announces exactly the attachments that follow. *)
  Definition wf_packet (p : spacket) : Prop :=
    declared (sp_hdr p) = Some (length (sp_atts p)) /\
    (max_atts = 0 \/ length (sp_atts p) <= max_atts).

  Definition msgs (w : list epkt) : list frame :=
    flat_map (fun e => match e with Msg f => [f] | Ctl _ => [] end) w.

  (** *** Transports *)
  Inductive transport := WS | PollServer | PollClient.

  (** engine.io/client_socket.go:writeWritablePackets as a function batch -> sub-batches
      (Eio/Batcher.v's [write_writable]; C13 proves [concat (split b) = b]). *)
  Variable split : list frame -> list (list frame).

  Definition chunks (tr : transport) (b : list frame) : list (list frame) :=
    match tr with
    | WS => map (fun f => [f]) b
    | PollServer => [b]
    | PollClient => split b
    end.

  (** *** Receiver: parser/json Add *)
  Record recon := mkRecon { rc_hdr : data; rc_remaining : nat; rc_bufs : list data }.

  Definition parser_add (st : option recon) (d : data) : res (option recon * option spacket) :=
    match st with
    | None =>
        match declared d with
        | None => Err
        | Some n =>
            if (0 <? max_atts)%nat && (max_atts <? n)%nat then Err
            else match n with
                 | O => Ok (None, Some (mkSP d []))
                 | S _ => Ok (Some (mkRecon d n []), None)
                 end
        end
    | Some r =>
        let bufs := rc_bufs r ++ [d] in
        let rem := pred (rc_remaining r) in
        match rem with
        | O => Ok (None, Some (mkSP (rc_hdr r) bufs))
        | S _ => Ok (Some (mkRecon (rc_hdr r) rem bufs), None)
        end
    end.

  Definition opt_list {A} (o : option A) : list A := match o with Some a => [a] | None => [] end.

  (** Feeding a sequence of frame payloads to the parser: final parser state and the packets
      finished, in order. *)
  Fixpoint parse_from (st : option recon) (l : list data) : res (option recon * list spacket) :=
    match l with
    | [] => Ok (st, [])
    | d :: l' =>
        match parser_add st d with
        | Ok (st', fin) =>
            match parse_from st' l' with
            | Ok (st'', fs) => Ok (st'', opt_list fin ++ fs)
            | Err => Err | Panic => Panic
            end
        | Err => Err | Panic => Panic
        end
    end.

  (** *** State *)
  Record state := mkState {
    st_em       : list (list spacket);   (* per emitter: packets it has still to emit *)
    st_log      : list (nat * spacket);  (* ghost: the calls of packetQueue.add, in order *)
    st_q        : list frame;            (* packetQueue.packets *)
    st_dr       : list (list frame);     (* drainer: chunks of the batch it took, not yet sent *)
    st_pollq    : list epkt;             (* polling server transport: pollQueue.packets *)
    st_done     : list epkt;             (* ghost: delivered to the peer and processed by it *)
    st_inbox    : list epkt;             (* delivered to the peer, not yet processed *)
    st_parser   : option recon;          (* the peer's parser: p.r *)
    st_rerr     : bool;                  (* the peer's parser returned an error (fatal) *)
    st_finished : list spacket;          (* ghost: onParserFinish calls, in order *)
    st_pending  : list spacket;          (* dispatch goroutines spawned, not yet in the handler *)
    st_entered  : list spacket           (* handler entries, in order *)
  }.

  (** Everything the peer's Engine.IO socket has handed to OnPacket so far, in order: the wire. *)
  Definition st_wire (s : state) : list epkt := st_done s ++ st_inbox s.

  Definition init (progs : list (list spacket)) : state :=
    mkState progs [] [] [] [] [] [] None false [] [] [].

  Inductive action :=
  | Emit (i : nat)
  | DrGet
  | DrSend
  | Control (ty : N)
  | Poll
  | Recv
  | Dispatch (k : nat).

  Definition deliver (tr : transport) (es : list epkt) (s : state) : state :=
    match tr with
    | PollServer =>
        mkState (st_em s) (st_log s) (st_q s) (st_dr s) (st_pollq s ++ es) (st_done s) (st_inbox s)
                (st_parser s) (st_rerr s) (st_finished s) (st_pending s) (st_entered s)
    | _ =>
        mkState (st_em s) (st_log s) (st_q s) (st_dr s) (st_pollq s) (st_done s) (st_inbox s ++ es)
                (st_parser s) (st_rerr s) (st_finished s) (st_pending s) (st_entered s)
    end.

  Definition step (tr : transport) (a : action) (s : state) : option state :=
    match a with
    | Emit i =>
        match nth_error (st_em s) i with
        | Some (p :: rest) =>
            Some (mkState (set_nth (st_em s) i rest) (st_log s ++ [(i, p)]) (st_q s ++ frames_of p)
                          (st_dr s) (st_pollq s) (st_done s) (st_inbox s) (st_parser s) (st_rerr s)
                          (st_finished s) (st_pending s) (st_entered s))
        | _ => None
        end
    | DrGet =>
        match st_dr s, st_q s with
        | [], _ :: _ =>
            Some (mkState (st_em s) (st_log s) [] (chunks tr (st_q s)) (st_pollq s) (st_done s)
                          (st_inbox s) (st_parser s) (st_rerr s) (st_finished s) (st_pending s)
                          (st_entered s))
        | _, _ => None
        end
    | DrSend =>
        match st_dr s with
        | c :: rest =>
            Some (deliver tr (map Msg c)
                    (mkState (st_em s) (st_log s) (st_q s) rest (st_pollq s) (st_done s) (st_inbox s)
                             (st_parser s) (st_rerr s) (st_finished s) (st_pending s) (st_entered s)))
        | [] => None
        end
    | Control ty => Some (deliver tr [Ctl ty] s)
    | Poll =>
        match tr, st_pollq s with
        | PollServer, _ :: _ =>
            Some (mkState (st_em s) (st_log s) (st_q s) (st_dr s) [] (st_done s)
                          (st_inbox s ++ st_pollq s) (st_parser s) (st_rerr s) (st_finished s)
                          (st_pending s) (st_entered s))
        | _, _ => None
        end
    | Recv =>
        if st_rerr s then None else
        match st_inbox s with
        | [] => None
        | Ctl ty :: rest =>
            Some (mkState (st_em s) (st_log s) (st_q s) (st_dr s) (st_pollq s) (st_done s ++ [Ctl ty])
                          rest (st_parser s) false (st_finished s) (st_pending s) (st_entered s))
        | Msg f :: rest =>
            match parser_add (st_parser s) (f_data f) with
            | Ok (p', fin) =>
                Some (mkState (st_em s) (st_log s) (st_q s) (st_dr s) (st_pollq s)
                              (st_done s ++ [Msg f]) rest p' false
                              (st_finished s ++ opt_list fin) (st_pending s ++ opt_list fin)
                              (st_entered s))
            | _ =>
                Some (mkState (st_em s) (st_log s) (st_q s) (st_dr s) (st_pollq s)
                              (st_done s ++ [Msg f]) rest (st_parser s) true
                              (st_finished s) (st_pending s) (st_entered s))
            end
        end
    | Dispatch k =>
        match nth_error (st_pending s) k with
        | Some p =>
            Some (mkState (st_em s) (st_log s) (st_q s) (st_dr s) (st_pollq s) (st_done s)
                          (st_inbox s) (st_parser s) (st_rerr s) (st_finished s)
                          (remove_nth (st_pending s) k) (st_entered s ++ [p]))
        | None => None
        end
    end.

  (** Runs: [Conc.exec] (disabled actions skipped) / [Conc.exec_opt] (strict). *)
  Definition run (tr : transport) (sched : list action) (progs : list (list spacket)) : state :=
    exec (step tr) sched (init progs).

  Definition run_opt (tr : transport) (sched : list action) (progs : list (list spacket))
    : option state :=
    exec_opt (step tr) sched (init progs).

  Definition reachable_from (tr : transport) (progs : list (list spacket)) : state -> Prop :=
    reachable (step tr) (fun s => s = init progs).

  (** Nothing left to emit, to drain, to poll, to receive or to dispatch. *)
  Definition quiescent_state (s : state) : Prop :=
    all_nil (st_em s) = true /\ st_q s = [] /\ st_dr s = [] /\ st_pollq s = [] /\
    st_inbox s = [] /\ st_pending s = [].

  (** Dispatch goroutines reach their handler in the order they were spawned. *)
  Definition fifo_dispatch (sched : list action) : bool :=
    forallb (fun a => match a with Dispatch k => Nat.eqb k 0 | _ => true end) sched.

End Pipeline.

Arguments frame : clear implicits.
Arguments epkt : clear implicits.
Arguments spacket : clear implicits.
Arguments recon : clear implicits.
Arguments state : clear implicits.
Arguments Ctl {data} ty.
