(** Sio/LifecycleReach.v - a small verified reachability checker for finite-state systems.

    [bfs] computes a set of states (a binary search tree ordered by a comparison function);
    nothing about [bfs] or the tree's shape is trusted or proved.  What is proved: if a tree [t]
    contains the initial state and is CLOSED under every action ([closedb t = true], a boolean
    that is evaluated by vm_compute), then every state reachable by ANY schedule is an element of
    [t]; hence a boolean property that holds for all elements of [t] holds after every schedule.
    Only the soundness direction of the tree search is needed: [tmem x t = true -> In x (telems t)],
    which only needs [cmp x y = Eq -> x = y]. *)
From Coq Require Import List NArith Bool.
From SioV Require Import Base.Conc.
Import ListNotations.
Set Implicit Arguments.

Section Reach.
  Variables (S A K : Type).
  Variable step : A -> S -> option S.
  Variable acts : list A.
  Variable key : S -> K.
  Variable kcmp : K -> K -> comparison.
  Hypothesis kcmp_eq : forall x y, kcmp x y = Eq -> x = y.
  Hypothesis key_inj : forall x y, key x = key y -> x = y.
  Hypothesis acts_complete : forall a, In a acts.

  (** nodes carry the key of their state, so a search computes one key only *)
  Inductive tree := Leaf | Node (l : tree) (k : K) (x : S) (r : tree).

  Fixpoint tmemk (k : K) (t : tree) : bool :=
    match t with
    | Leaf => false
    | Node l k' _ r => match kcmp k k' with Eq => true | Lt => tmemk k l | Gt => tmemk k r end
    end.
  Definition tmem (x : S) (t : tree) : bool := tmemk (key x) t.

  Fixpoint tinsk (k : K) (x : S) (t : tree) : tree :=
    match t with
    | Leaf => Node Leaf k x Leaf
    | Node l k' y r => match kcmp k k' with
                       | Eq => t | Lt => Node (tinsk k x l) k' y r | Gt => Node l k' y (tinsk k x r) end
    end.
  Definition tins (x : S) (t : tree) : tree := tinsk (key x) x t.

  Fixpoint telems_acc (t : tree) (acc : list S) : list S :=
    match t with
    | Leaf => acc
    | Node l _ x r => telems_acc l (x :: telems_acc r acc)
    end.
  Definition telems (t : tree) : list S := telems_acc t [].

  (** every node's stored key is the key of its state (checked, not assumed) *)
  Fixpoint keys_okb (keqb : K -> K -> bool) (t : tree) : bool :=
    match t with
    | Leaf => true
    | Node l k x r => keqb k (key x) && keys_okb keqb l && keys_okb keqb r
    end.

  Fixpoint tsize (t : tree) : N :=
    match t with Leaf => 0%N | Node l _ _ r => (tsize l + 1 + tsize r)%N end.

  Lemma telems_acc_In t : forall acc x, In x (telems_acc t acc) <-> (In x (telems_acc t []) \/ In x acc).
  Proof.
    induction t as [|l IHl k y r IHr]; intros acc x; simpl.
    - tauto.
    - rewrite IHl. rewrite (IHl (y :: telems_acc r [])). simpl.
      rewrite IHr. tauto.
  Qed.

  Lemma tmemk_In (keqb : K -> K -> bool) (keqb_eq : forall a b, keqb a b = true -> a = b) k t :
    keys_okb keqb t = true -> tmemk k t = true -> exists y, In y (telems t) /\ key y = k.
  Proof.
    unfold telems. induction t as [|l IHl k' y r IHr]; simpl; [discriminate|].
    intros HK. apply andb_true_iff in HK as [HK Hr]. apply andb_true_iff in HK as [Hk Hl].
    apply keqb_eq in Hk.
    destruct (kcmp k k') eqn:E; intros H.
    - apply kcmp_eq in E. subst k. exists y. split; [|now rewrite Hk].
      apply telems_acc_In. right. now left.
    - destruct (IHl Hl H) as (z & Hz & Ez). exists z. split; [|exact Ez].
      apply telems_acc_In. now left.
    - destruct (IHr Hr H) as (z & Hz & Ez). exists z. split; [|exact Ez].
      apply telems_acc_In. right. right. exact Hz.
  Qed.

  Section Closed.
  Variable keqb : K -> K -> bool.
  Hypothesis keqb_eq : forall a b, keqb a b = true -> a = b.

  Lemma tmem_In x t : keys_okb keqb t = true -> tmem x t = true -> In x (telems t).
  Proof.
    intros HK H. destruct (@tmemk_In keqb keqb_eq _ _ HK H) as (y & Hy & E).
    apply key_inj in E. now subst.
  Qed.

  (** closed under every action *)
  Definition closedb (t : tree) : bool :=
    keys_okb keqb t &&
    forallb (fun s => forallb (fun a => match step a s with Some s' => tmem s' t | None => true end) acts)
            (telems t).

  Theorem closed_exec (t : tree) (s0 : S) :
    closedb t = true -> tmem s0 t = true ->
    forall sched, In (exec step sched s0) (telems t).
  Proof.
    intros HC H0 sched. apply andb_true_iff in HC as [HK HC].
    apply (@invariant_exec S A step (fun s => s = s0) (fun s => In s (telems t))); [|reflexivity].
    split.
    - intros s ->. now apply tmem_In.
    - intros s a s' HI HS. rewrite forallb_forall in HC.
      specialize (HC s HI). rewrite forallb_forall in HC. specialize (HC a (acts_complete a)).
      rewrite HS in HC. now apply tmem_In.
  Qed.

  Corollary all_exec (t : tree) (s0 : S) (P : S -> bool) :
    closedb t = true -> tmem s0 t = true -> forallb P (telems t) = true ->
    forall sched, P (exec step sched s0) = true.
  Proof.
    intros HC H0 HP sched. rewrite forallb_forall in HP. apply HP. now apply closed_exec.
  Qed.
  End Closed.

  (** untrusted search *)
  Definition expand1 (s : S) (st : list S * tree) : list S * tree :=
    fold_left (fun '(acc, t) a =>
                 match step a s with
                 | Some s' => let k := key s' in
                              if tmemk k t then (acc, t) else (s' :: acc, tinsk k s' t)
                 | None => (acc, t)
                 end) acts st.

  Fixpoint bfs (fuel : nat) (front : list S) (t : tree) : tree :=
    match fuel with
    | O => t
    | Datatypes.S f =>
        match front with
        | [] => t
        | _ => let '(front', t') := fold_left (fun st s => expand1 s st) front ([], t) in bfs f front' t'
        end
    end.
End Reach.

Arguments Leaf {S K}.
