(** C01 over ALL SCHEDULES of C02's concurrent model of the connection (Sio/Pipeline.v):
    any number of emitter goroutines, the packet queue, the drainer, the transport (websocket,
    polling server side, polling client side with any sequence-keeping splitter such as the real
    batcher), Engine.IO control packets in between, the peer's parser (C10's reassembly as modelled
    there) and ONE DISPATCH GOROUTINE PER FINISHED PACKET entering the handlers in any order.

    The packets the emitters push are the encodings of the (stamped) events; the codec is used at
    packet level only: [decode_sp (encode_sp e) = Some e] and well-formedness (C09).  For every
    reachable quiescent state - i.e. whatever the interleaving of all those goroutines was - every
    registered handler has been handed, as a multiset, exactly the argument lists emitted under
    its name: nothing lost, duplicated, altered or given to a handler of another name. *)
From Coq Require Import List Bool Arith Lia Permutation.
Import ListNotations.
From SioV Require Import Base.GoSem Base.Conc Sio.Pipeline Sio.PipelineProofs.
From SioV Require Import Sio.EndToEnd.

(** ** [pops] (C02's interleaving) keeps the multiset *)
Lemma concat_set_nth_perm : forall {A} (ls : list (list A)) i x xs,
  nth_error ls i = Some (x :: xs) ->
  Permutation (concat ls) (x :: concat (set_nth ls i xs)).
Proof.
  induction ls as [|l ls IH]; intros i x xs H.
  - destruct i; discriminate.
  - destruct i as [|i]; simpl in *.
    + inversion H; subst. reflexivity.
    + specialize (IH i x xs H).
      rewrite IH. change (x :: l ++ concat (set_nth ls i xs)) with ((x :: l) ++ concat (set_nth ls i xs)).
      rewrite (Permutation_app_comm l (x :: concat (set_nth ls i xs))). simpl.
      constructor. apply Permutation_app_comm.
Qed.

Lemma pops_perm : forall {A} (order : list nat) (ls : list (list A)) ps rem,
  pops ls order = Some (ps, rem) -> Permutation (concat ls) (ps ++ concat rem).
Proof.
  induction order as [|i o IH]; intros ls ps rem H; simpl in H.
  - inversion H; subst. reflexivity.
  - destruct (nth_error ls i) as [[|x xs]|] eqn:E; try discriminate.
    destruct (pops (set_nth ls i xs) o) as [[r ls']|] eqn:P; try discriminate.
    inversion H; subst. rewrite (concat_set_nth_perm ls i x xs E). simpl.
    constructor. now apply IH.
Qed.

Lemma all_nil_concat' : forall {A} (ls : list (list A)), all_nil ls = true -> concat ls = [].
Proof.
  induction ls as [|l ls IH]; simpl; intros H; [reflexivity|].
  apply andb_true_iff in H as [H1 H2]. destruct l; [|discriminate]. now apply IH.
Qed.

Lemma set_nth_map : forall {A B} (g : A -> B) (ls : list A) i x,
  set_nth (map g ls) i (g x) = map g (set_nth ls i x).
Proof.
  induction ls as [|l ls IH]; intros i x; [now destruct i|].
  destruct i as [|i]; simpl; [reflexivity|]. now rewrite IH.
Qed.

(** an interleaving (C02's [pops]) of mapped sequences is the map of an interleaving *)
Lemma pops_map_inv : forall {A B} (f : A -> B) order (ls : list (list A)) ps' rem',
  pops (map (map f) ls) order = Some (ps', rem') ->
  exists ps rem, pops ls order = Some (ps, rem) /\ ps' = map f ps /\ rem' = map (map f) rem.
Proof.
  induction order as [|i o IH]; intros ls ps' rem' H; simpl in H.
  - inversion H; subst. exists [], ls. auto.
  - rewrite nth_error_map in H. simpl. destruct (nth_error ls i) as [[|x xs]|]; simpl in H; try discriminate.
    change (map f xs) with ((map f) xs) in H. rewrite (set_nth_map (map f)) in H.
    destruct (pops (map (map f) (set_nth ls i xs)) o) as [[r ls']|] eqn:P; try discriminate.
    inversion H; subst. destruct (IH _ _ _ P) as (ps & rem & Hp & -> & ->).
    exists (x :: ps), rem. rewrite Hp. auto.
Qed.

Lemma all_nil_map : forall {A B} (f : A -> B) (ls : list (list A)),
  all_nil (map (map f) ls) = all_nil ls.
Proof.
  induction ls as [|l ls IH]; [reflexivity|]. unfold all_nil in *. simpl. rewrite IH. now destruct l.
Qed.

Section AllSchedules.
  (** Socket.IO layer *)
  Variables (name arg offset : Type).
  Variable name_eqb : name -> name -> bool.
  Hypothesis name_eqb_eq : forall a b, name_eqb a b = true <-> a = b.
  Variable off_arg : offset -> arg.
  Variable hs : list (handler name).
  Variable get_all : name -> list (handler name).
  Hypothesis get_all_spec : forall n, get_all n = filter (fun h => name_eqb (hname name h) n) hs.
  Hypothesis hids_distinct : NoDup (map (hid name) hs).

  (** C02's model parameters *)
  Variable data : Type.
  Variable declared : data -> option nat.
  Variable max_atts : nat.
  Variable split : list (frame data) -> list (list (frame data)).
  Hypothesis split_keeps : forall b, concat (split b) = b.     (* C13: write_concat *)

  (** C09 at packet level: Encode gives a header + attachments packet that announces its own
      attachment count, and decoding that packet gives the event back *)
  Variable encode_sp : event name arg -> spacket data.
  Variable decode_sp : spacket data -> option (event name arg).
  Hypothesis codec_packet_roundtrip : forall e, decode_sp (encode_sp e) = Some e.
  Hypothesis encode_wf : forall e, wf_packet declared max_atts (encode_sp e).

  Definition decoded (ps : list (spacket data)) : list (event name arg) :=
    flat_map (fun p => match decode_sp p with Some e => [e] | None => [] end) ps.

  (** per-emitter programs: the encodings of the stamped events *)
  Definition programs (c : cfg) (ems : list (list (event name arg * offset))) :=
    map (map (fun x => encode_sp (stamp name arg offset off_arg c x))) ems.

  (** what the handlers were handed once the dispatch goroutines of state [s] have run *)
  Definition sched_deliveries (c : cfg) (s : state data) : list (nat * list arg) :=
    flat_map (deliver name arg get_all c) (decoded (st_entered s)).

  Lemma decoded_encoded : forall l, decoded (map encode_sp l) = l.
  Proof.
    induction l as [|e l IH]; [reflexivity|]. unfold decoded in *. simpl.
    now rewrite codec_packet_roundtrip, IH.
  Qed.

  Lemma decoded_perm : forall a b, Permutation a b -> Permutation (decoded a) (decoded b).
  Proof. intros a b H. unfold decoded. now apply Permutation_flat_map. Qed.

  Lemma handed_perm : forall k (a b : list (nat * list arg)),
    Permutation a b -> Permutation (handed arg k a) (handed arg k b).
  Proof.
    intros k a b H. unfold handed. apply Permutation_map.
    induction H; simpl.
    - constructor.
    - destruct (fst x =? k); [now constructor | assumption].
    - destruct (fst x =? k), (fst y =? k); try reflexivity. apply perm_swap.
    - etransitivity; eassumption.
  Qed.

  Lemma concat_programs : forall c ems,
    concat (programs c ems) =
    map encode_sp (map (stamp name arg offset off_arg c) (concat ems)).
  Proof.
    intros c ems. unfold programs. rewrite map_map.
    induction ems as [|l ems IH]; [reflexivity|].
    simpl. rewrite IH, map_app. reflexivity.
  Qed.

  Theorem all_schedules_exactly_once :
    forall (tr : transport) (c : cfg) (ems : list (list (event name arg * offset))) (s : state data),
      client_strips_offset c = false ->
      sig_matches name arg hs (map fst (concat ems)) ->
      reachable_from declared max_atts split tr (programs c ems) s ->
      quiescent_state s ->
      (* the peer's parser did not fail, is idle, and finished exactly the emitted (stamped)
         events in an order that is an interleaving of the per-emitter sequences (C02's [pops];
         per-emitter order: C02_per_emitter_order) *)
      st_rerr s = false /\ st_parser s = None /\
      (exists order evs rem,
          pops ems order = Some (evs, rem) /\ all_nil rem = true /\
          decoded (st_finished s) = map (stamp name arg offset off_arg c) evs) /\
      (* every handler: the multiset it was handed = the multiset emitted under its name *)
      forall h, In h hs ->
        Permutation (handed arg (hid name h) (sched_deliveries c s))
                    (args_named name name_eqb arg (hname name h) (map fst (concat ems))).
  Proof.
    intros tr c ems s Hs Hsig R Q.
    assert (Hwf : Forall (Forall (wf_packet declared max_atts)) (programs c ems)).
    { unfold programs. apply Forall_forall. intros l Hl. apply in_map_iff in Hl as [l0 [<- _]].
      apply Forall_forall. intros p Hp. apply in_map_iff in Hp as [x [<- _]]. apply encode_wf. }
    pose proof (reassembly_complete declared max_atts split split_keeps tr (programs c ems) Hwf s R Q)
      as [Hfin [Hpar Hent]].
    pose proof (no_rerr declared max_atts split split_keeps tr (programs c ems) Hwf s R) as Hr.
    pose proof (inv_reachable declared max_atts split split_keeps tr (programs c ems) s R) as Hinv.
    destruct Hinv as [_ Hlog _ _ _].
    destruct Q as [Hnil _].
    assert (Horder : exists order evs rem,
               pops ems order = Some (evs, rem) /\ all_nil rem = true /\
               decoded (st_finished s) = map (stamp name arg offset off_arg c) evs).
    { unfold programs in Hlog. destruct (pops_map_inv _ _ _ _ _ Hlog) as (evs & rem & Hp & Hps & Hrem).
      exists (map fst (st_log s)), evs, rem. split; [exact Hp|]. split.
      - rewrite Hrem, all_nil_map in Hnil. exact Hnil.
      - rewrite Hfin, Hps. rewrite <- (map_map (stamp name arg offset off_arg c) encode_sp).
        apply decoded_encoded. }
    apply pops_perm in Hlog. rewrite (all_nil_concat' _ Hnil), app_nil_r in Hlog.
    assert (Hall : Permutation (st_entered s)
                     (map encode_sp (map (stamp name arg offset off_arg c) (concat ems)))).
    { rewrite <- concat_programs. etransitivity; [exact Hent | symmetry; exact Hlog]. }
    split; [exact Hr | split; [exact Hpar | split; [exact Horder |]]].
    intros h Hh. unfold sched_deliveries.
    apply decoded_perm in Hall. rewrite decoded_encoded in Hall.
    etransitivity.
    - apply handed_perm. apply Permutation_flat_map. exact Hall.
    - rewrite (handed_stream name name_eqb name_eqb_eq arg offset off_arg hs get_all get_all_spec
                 hids_distinct c h (concat ems) Hh).
      + reflexivity.
      + unfold handler_runs. now rewrite Hs.
      + intros x Hx Hn. apply (Hsig h (fst x)); auto. now apply in_map.
  Qed.
End AllSchedules.
