(** Sio/LifecycleCheck.v - executable comparison and oracle for the C06 live rig (kernel evaluation).

    A case is what the rig (harness/cmd/vh/lifecycle.go) recorded for ONE server socket of one
    scenario: the phase the session had reached, the causes that were fired (mapped to model
    causes by checks/C06.py), the handler invocations with their reason strings, what the server
    still held afterwards, and the HTTP probe with the old Engine.IO sid.

    [oracle]   : the property itself on the observation (exactly once, reason names a fired cause,
                 nothing left, sid unknown);
    [oracle_m] : the same, but for the handlers registered in the connection handler only
                 "at most once" (they can be registered after the socket was closed: known finding);
    [agree]    : the observation is one of the model's outcomes: the model is explored exhaustively
                 from the phase's start state with exactly the fired causes, and the observed
                 (connected, reports, reason, leftovers, sid known) must be the projection of one of
                 its quiescent states. *)
From SioV Require Import Base.GoSem Base.Conc Sio.Lifecycle Sio.LifecycleReach Sio.LifecycleInv.
Local Open Scope N_scope.

(** socket observation *)
Record sobs := mkSobs {
  o_connected : bool;             (* the connection handler ran for it *)
  o_discing_m : list (list N);    (* reasons seen by the disconnecting handler registered in the middleware *)
  o_disc_m : list (list N);       (* ... by the disconnect handler registered in the middleware *)
  o_discing_h : list (list N);    (* ... registered in the connection handler *)
  o_disc_h : list (list N);
  o_order_ok : bool;              (* disconnecting before disconnect *)
  o_in_nsp : bool;                (* still in Namespace.Sockets() / FetchSockets() *)
  o_rooms : bool;                 (* still in the adapter (Sockets / SocketRooms non-empty) *)
  o_conn_flag : bool;             (* Connected() still true *)
  o_sid_known : bool              (* the old Engine.IO sid is still served *)
}.

(** case: phase (0 preconnect, 1 middleware, 2 admitted, 3 unknown), fired causes, observation *)
Definition lcase := (N * list cause * sobs)%type.

Definition bytes_eqb := list_eqb N.eqb.

Definition all_reasons : list N := [0;1;2;3;4;5;6;7;8].
Definition reason_of_string (b : list N) : N :=
  match filter (fun r => bytes_eqb (reason_string r) b) all_reasons with
  | r :: _ => r
  | [] => RNone
  end.

Definition allowed_reasons (cs : list cause) : list N := flat_map cause_reasons cs.

Definition len {A} (l : list A) : N := N.of_nat (length l).

(** ** The property on the observation *)
Definition oracle_common (c : lcase) : bool :=
  let '(_, cs, o) := c in
  negb (o_in_nsp o) && negb (o_rooms o) && negb (o_conn_flag o) && negb (o_sid_known o)
  && (if o_connected o then
        (len (o_disc_m o) =? 1) && (len (o_discing_m o) =? 1) && o_order_ok o
        && list_eqb bytes_eqb (o_disc_m o) (o_discing_m o)
        && forallb (fun b => existsb (N.eqb (reason_of_string b)) (allowed_reasons cs)) (o_disc_m o)
        && (len (o_disc_h o) <=? 1) && (len (o_discing_h o) <=? 1)
        && forallb (fun b => existsb (bytes_eqb b) (o_disc_m o)) (o_disc_h o ++ o_discing_h o)
      else
        (len (o_disc_m o) =? 0) && (len (o_discing_m o) =? 0) && (len (o_disc_h o) =? 0) && (len (o_discing_h o) =? 0)).

Definition oracle_m (c : lcase) : bool := oracle_common c.

Definition oracle (c : lcase) : bool :=
  let '(_, _, o) := c in
  oracle_common c && (if o_connected o then (len (o_disc_h o) =? 1) && (len (o_discing_h o) =? 1) else true).

(** ** Model outcomes *)
Definition skey (s : st) : list N :=
  hkey (ctl_of s) ++ [e_reason s; c_reason s; s_reason s; rep_reason s].

Definition acts_for (phase : N) (cs : list cause) : list act :=
  [AEbody; ACbody; ASbody; AHandler; ACClose] ++ (if phase =? 0 then [] else [AAdmit]) ++ map ACause cs.

Definition start_of (phase : N) : st :=
  if phase =? 1 then exec (step code_cfg) [AAdmit] init
  else if phase =? 2 then exec (step code_cfg) [AAdmit; AAdmit; AAdmit; AAdmit; AAdmit; AHandler] init
  else init.

Definition explore (phase : N) (cs : list cause) : list st :=
  let s0 := start_of phase in
  telems (bfs (step code_cfg) (acts_for phase cs) skey lcmp 400 [s0] (tins skey lcmp s0 Leaf)).

(** quiescent w.r.t. the explored actions; a session in which a CONNECT was sent must have finished
    its admission *)
Definition quiescent_for (phase : N) (cs : list cause) (s : st) : bool :=
  quiescentb code_cfg (ctl_of s)
  && (if phase =? 0 then true else negb (a_pc (ctl_of s) =? 0) || (phase =? 3)).

(** projection compared with the observation:
    (connected, #disconnect, #disconnecting, reason, #disconnect(H), in_nsp, rooms, conn flag, sid known) *)
Definition proj_model (s : st) : list N :=
  let c := ctl_of s in
  [b2n (ever_conn c); n_disc c; n_discing c; (if n_disc c =? 0 then RNone else rep_reason s); nh_disc c;
   b2n (in_nsp c); b2n (own_room c); b2n (connected c); b2n (in_store c)].

Definition proj_obs (o : sobs) : list N :=
  [b2n (o_connected o); len (o_disc_m o); len (o_discing_m o);
   match o_disc_m o with b :: _ => reason_of_string b | [] => RNone end;
   len (o_disc_h o);
   b2n (o_in_nsp o); b2n (o_rooms o); b2n (o_conn_flag o); b2n (o_sid_known o)].

Definition agree (c : lcase) : bool :=
  let '(phase, cs, o) := c in
  existsb (fun s => quiescent_for phase cs s && list_eqb N.eqb (proj_model s) (proj_obs o)) (explore phase cs).

(** number of distinct outcomes the model allows (reported in the evidence) *)
Definition n_outcomes (phase : N) (cs : list cause) : N :=
  len (nodup (list_eq_dec N.eq_dec) (map proj_model (filter (quiescent_for phase cs) (explore phase cs)))).

(** all three verdicts of a case in one number: oracle + 2 * oracle_m + 4 * agree *)
Definition code (c : lcase) : N := b2n (oracle c) + 2 * b2n (oracle_m c) + 4 * b2n (agree c).

(** the same for all observations made under one (phase, causes): the model is explored once *)
Definition codes_group (g : N * list cause * list sobs) : list N :=
  let '(phase, cs, obss) := g in
  let outcomes := map proj_model (filter (quiescent_for phase cs) (explore phase cs)) in
  map (fun o => b2n (oracle (phase, cs, o)) + 2 * b2n (oracle_m (phase, cs, o))
                + 4 * b2n (existsb (fun p => list_eqb N.eqb p (proj_obs o)) outcomes)) obss.
