(** Proofs about Sio/Binary.v. *)
From SioV Require Import Base.GoSem Sio.Json Sio.Binary.
Local Open Scope N_scope.

(** Induction principle for [gv] with the nested lists. *)
Section GvInd.
  Variable P : gv -> Prop.
  Hypothesis Hnil : P VNil.
  Hypothesis Hbool : forall b, P (VBool b).
  Hypothesis Hint : forall z, P (VInt z).
  Hypothesis Hstr : forall s, P (VStr s).
  Hypothesis Hbin : forall b, P (VBin b).
  Hypothesis Hany : forall v, P v -> P (VAny v).
  Hypothesis Hptr : forall v, P v -> P (VPtr v).
  Hypothesis Hslice : forall l, Forall P l -> P (VSlice l).
  Hypothesis Hstruct : forall fs, Forall (fun kv => P (snd kv)) fs -> P (VStruct fs).
  Hypothesis Hmap : forall kvs, Forall (fun kv => P (snd kv)) kvs -> P (VMap kvs).
  Hypothesis Hsubst : forall a b, P a -> P b -> P (VSubst a b).

  Fixpoint gv_ind' (v : gv) : P v :=
    match v with
    | VNil => Hnil
    | VBool b => Hbool b
    | VInt z => Hint z
    | VStr s => Hstr s
    | VBin b => Hbin b
    | VAny x => Hany x (gv_ind' x)
    | VPtr x => Hptr x (gv_ind' x)
    | VSlice l =>
      Hslice l ((fix go (l : list gv) : Forall P l :=
                   match l with
                   | [] => Forall_nil _
                   | x :: l' => Forall_cons _ (gv_ind' x) (go l')
                   end) l)
    | VStruct fs =>
      Hstruct fs ((fix go (l : list (bytes * gv)) : Forall (fun kv => P (snd kv)) l :=
                     match l with
                     | [] => Forall_nil _
                     | kv :: l' => Forall_cons _ (gv_ind' (snd kv)) (go l')
                     end) fs)
    | VMap kvs =>
      Hmap kvs ((fix go (l : list (bytes * gv)) : Forall (fun kv => P (snd kv)) l :=
                   match l with
                   | [] => Forall_nil _
                   | kv :: l' => Forall_cons _ (gv_ind' (snd kv)) (go l')
                   end) kvs)
    | VSubst a b => Hsubst a b (gv_ind' a) (gv_ind' b)
    end.
End GvInd.

Section WithJson.
  Variable marshal : jv -> bytes.

  (** A value that contains no overwritten cell (what callers hand to Encode). *)
  Fixpoint cleanb (v : gv) : bool :=
    match v with
    | VSubst _ _ => false
    | VAny x | VPtr x => cleanb x
    | VSlice l => forallb cleanb l
    | VStruct fs | VMap fs => forallb (fun kv => cleanb (snd kv)) fs
    | _ => true
    end.

  Lemma clean_undo : forall v, cleanb v = true -> undo v = v.
  Proof.
    induction v using gv_ind'; simpl; intros C; try reflexivity; try discriminate.
    - now rewrite IHv.
    - now rewrite IHv.
    - f_equal. induction H as [|x l Hx Hl IH]; simpl in *; [reflexivity|].
      apply andb_true_iff in C as [C1 C2]. now rewrite Hx, IH.
    - f_equal. induction H as [|[k x] l Hx Hl IH]; simpl in *; [reflexivity|].
      apply andb_true_iff in C as [C1 C2]. now rewrite Hx, IH.
    - f_equal. induction H as [|[k x] l Hx Hl IH]; simpl in *; [reflexivity|].
      apply andb_true_iff in C as [C1 C2]. now rewrite Hx, IH.
  Qed.

  Definition undo_out (v : gv) (o : dout) : Prop :=
    match o with InPlace v' => undo v' = v | Repl _ => True end.

  Lemma fin_undo v r v' bs n :
    (forall o bs n, r = Ok (o, bs, n) -> undo_out v o) ->
    fin v r = Ok (v', bs, n) -> undo v' = v.
  Proof.
    intros H. destruct r as [[[o b] m]| |]; simpl; try discriminate.
    specialize (H o b m eq_refl). destruct o; simpl in *; intros E; inversion E; subst; auto.
  Qed.

  Definition Q (v : gv) : Prop :=
    cleanb v = true -> forall u ok ost st n o bs n',
    dvw marshal u ok ost st v n = Ok (o, bs, n') -> undo_out v o.
  Definition Qsub (v : gv) : Prop := match v with VAny x | VPtr x => Q x | _ => True end.

  Ltac dres r E1 := destruct r as [[[? ?] ?]| |] eqn:E1; try discriminate.

  Lemma fin_Q x st1 st2 n x' bs n' :
    Q x -> cleanb x = true -> fin x (dvw marshal 2 OSelf st1 st2 x n) = Ok (x', bs, n') -> undo x' = x.
  Proof. intros HQ C E. eapply fin_undo; [|exact E]. intros; eapply HQ; eauto. Qed.

  (** The undo log gives back exactly what was there: whatever deconstruct did. *)
  Lemma dvw_undo_all : forall v, Q v /\ Qsub v.
  Proof.
    induction v using gv_ind'; (split; [|first [exact I | apply IHv]]);
      intros C u ok ost st n o bs n' E; simpl in E, C;
      try (inversion E; subst; reflexivity); try discriminate.
    - (* VBin *)
      destruct ok; try discriminate;
        (destruct st; [inversion E; subst; reflexivity|destruct ost; inversion E; subst; exact I]).
    - (* VAny *)
      destruct IHv as [IH _].
      destruct u as [|u']; [inversion E; subst; simpl; now rewrite clean_undo|].
      match type of E with inplace _ ?r = _ => dres r E1 end; simpl in E.
      apply IH in E1; auto. destruct d; inversion E; subst; simpl in *; [now rewrite E1 | exact I].
    - (* VPtr *)
      destruct IHv as [IH _].
      destruct u as [|u']; [inversion E; subst; simpl; now rewrite clean_undo|].
      match type of E with inplace _ ?r = _ => dres r E1 end; simpl in E.
      apply IH in E1; auto. destruct d; inversion E; subst; simpl in *; [now rewrite E1 | exact I].
    - (* VSlice *)
      match type of E with match ?r with _ => _ end = _ => dres r E1 end.
      inversion E; subst; clear E. simpl. f_equal.
      revert n l0 bs n' E1. induction H as [|x l Hx Hl IH]; intros n l' bs n' E1.
      + inversion E1; reflexivity.
      + simpl in C. apply andb_true_iff in C as [C1 C2].
        dres (fin x (dvw marshal 2 OSelf true true x n)) Ex.
        match type of E1 with match ?r with _ => _ end = _ => dres r Et end.
        inversion E1; subst; clear E1. simpl. f_equal.
        * eapply fin_Q; eauto. apply Hx.
        * eapply IH; eauto.
    - (* VStruct *)
      match type of E with match ?r with _ => _ end = _ => dres r E1 end.
      match type of E with (if ?c then _ else _) = _ => destruct c end; inversion E; subst; clear E; [exact I|].
      simpl. f_equal.
      match type of E1 with context [fin _ (dvw _ _ _ ?a ?b _ _)] => generalize dependent a end.
      intros a. revert n l bs n'. induction H as [|[k x] l Hx Hl IH]; intros n l' bs n' E1.
      + inversion E1; reflexivity.
      + simpl in Hx, C. apply andb_true_iff in C as [C1 C2]. destruct Hx as [Hq Hs].
        match type of E1 with match ?r with _ => _ end = _ => dres r Ex end.
        match type of E1 with match ?r with _ => _ end = _ => dres r Et end.
        inversion E1; subst; clear E1. simpl. f_equal; [f_equal|].
        * destruct x; try (eapply fin_Q; eauto; fail).
          -- dres (fin x (dvw marshal 2 OSelf false false x n)) Ey; simpl in Ex.
             inversion Ex; subst. simpl. f_equal. eapply fin_Q; eauto.
          -- dres (fin x (dvw marshal 2 OSelf true true x n)) Ey; simpl in Ex.
             inversion Ex; subst. simpl. f_equal. eapply fin_Q; eauto.
        * eapply IH; eauto.
    - (* VMap *)
      match type of E with match ?r with _ => _ end = _ => dres r E1 end.
      inversion E; subst; clear E. simpl. f_equal.
      revert n l bs n' E1. induction H as [|[k x] l Hx Hl IH]; intros n l' bs n' E1.
      + inversion E1; reflexivity.
      + simpl in Hx, C. apply andb_true_iff in C as [C1 C2]. destruct Hx as [Hq Hs].
        match type of E1 with match ?r with _ => _ end = _ => dres r Ex end.
        match type of E1 with match ?r with _ => _ end = _ => dres r Et end.
        inversion E1; subst; clear E1. simpl. f_equal; [f_equal|].
        * destruct x; try (eapply fin_Q; eauto; fail); try (inversion Ex; subst; reflexivity).
          -- destruct x; try (inversion Ex; subst; reflexivity);
               (match type of Ex with wrap _ (fin ?y ?r) = _ => dres (fin y r) Ey end; simpl in Ex;
                inversion Ex; subst; simpl; f_equal; eapply fin_Q; eauto).
          -- destruct x; try (inversion Ex; subst; reflexivity);
               (match type of Ex with wrap _ (fin ?y ?r) = _ => dres (fin y r) Ey end; simpl in Ex;
                inversion Ex; subst; simpl; f_equal; eapply fin_Q; eauto).
        * eapply IH; eauto.
  Qed.

  Theorem dv_undo st v n m bs n' :
    cleanb v = true -> dv marshal st v n = Ok (m, bs, n') -> undo m = v.
  Proof.
    unfold dv. intros C E. eapply fin_Q; eauto. apply dvw_undo_all.
  Qed.
End WithJson.
