(** C18 - handler registries of /repo/store.go ([handlerStore[T]], [eventHandlerStore]) and the
    public On/Once/Off layer of the *_events.go files, as executable Gallina.

    The model mirrors the code as it is now (after the `fix:` commits that made [off] /
    [offSubEvent] filter into a new slice and made [off(name)] with an empty handler list remove
    all).  Every method body runs between [mu.Lock()] and [mu.Unlock()], so one method call is one
    atomic step; a concurrent execution is an interleaving (merge) of the callers' op lists.

    A registry slot holds a value of type [A]; [same h a] is the identity test the code applies
    between a handler [h] named in an Off call and a stored slot [a]:
      - [handlerStore[T]]      : Go [==] on the comparable [T] (pointers in all real uses);
      - [eventHandlerStore]    : [rv.Pointer() == h.Pointer()], the *code pointer* of the function.
    Nothing is assumed about [same] (it need not be an equivalence). *)
From SioV Require Import Base.GoSem.

Section Store.
  Variable A : Type.
  Variable same : A -> A -> bool.

  (** ** handlerStore[T] *)
  Record store := mkStore { subs : list A; funcs : list A; once : list A }.
  Definition empty : store := mkStore [] [] [].

  Inductive op :=
  | On (a : A)            (* on(handler) *)
  | Once (a : A)          (* once(handler) *)
  | OnSub (a : A)         (* onSubEvent(handler) *)
  | OffSub (h : A)        (* offSubEvent(handler) *)
  | OffSubs               (* offSubEvents() *)
  | Off (hs : list A)     (* off(handler...) ; [] = no handler given *)
  | OffAll                (* offAll() *)
  | Fire.                 (* getAll(): one occurrence *)

  (** [named hs a]: the inner loop `for _, _h := range handler { if h == _h {...} }`. *)
  Definition named (hs : list A) (a : A) : bool := existsb (fun h => same h a) hs.

  (** The `remove` closure of [off]: a new slice with, in order, the elements no candidate names. *)
  Fixpoint remove (hs : list A) (l : list A) : list A :=
    match l with
    | [] => []
    | a :: l' => if named hs a then remove hs l' else a :: remove hs l'
    end.

  (** One method call under the mutex: new state and, for [getAll], the returned handlers. *)
  Definition step (s : store) (o : op) : store * option (list A) :=
    match o with
    | On a => (mkStore (subs s) (funcs s ++ [a]) (once s), None)
    | Once a => (mkStore (subs s) (funcs s) (once s ++ [a]), None)
    | OnSub a => (mkStore (subs s ++ [a]) (funcs s) (once s), None)
    | OffSub h => (mkStore (remove [h] (subs s)) (funcs s) (once s), None)
    | OffSubs => (mkStore [] (funcs s) (once s), None)
    | Off hs =>
        match hs with
        | [] => (mkStore (subs s) [] [], None)                      (* len(handler) == 0 *)
        | _ => (mkStore (subs s) (remove hs (funcs s)) (remove hs (once s)), None)
        end
    | OffAll => (mkStore (subs s) [] [], None)
    | Fire => (mkStore (subs s) (funcs s) [], Some (subs s ++ funcs s ++ once s))
    end.

  (** Run an op list; collect what each occurrence returned, in order. *)
  Fixpoint run (s : store) (ops : list op) : store * list (list A) :=
    match ops with
    | [] => (s, [])
    | o :: ops' =>
        let '(s1, out) := step s o in
        let '(s2, outs) := run s1 ops' in
        (s2, match out with Some l => l :: outs | None => outs end)
    end.

  Definition outs (ops : list op) : list (list A) := snd (run empty ops).

  (** ** Specification, by history (no state): which registrations are alive at an occurrence.
      A registration made by op [o] is alive after the later ops [later] iff none of them removes
      it.  What removes what is the text of the property:
        - Off naming the handler (or naming nothing), and OffAll, remove On and Once handlers;
        - an occurrence uses up a Once handler;
        - offSubEvent(h) / offSubEvents() remove sub-event handlers and nothing else. *)
  Inductive kind := KSub | KOn | KOnce.

  Definition registers (k : kind) (o : op) : option A :=
    match k, o with
    | KSub, OnSub a => Some a
    | KOn, On a => Some a
    | KOnce, Once a => Some a
    | _, _ => None
    end.

  Definition kills (k : kind) (a : A) (o : op) : bool :=
    match o with
    | OffSub h => match k with KSub => same h a | _ => false end
    | OffSubs => match k with KSub => true | _ => false end
    | Off hs => match k with
                | KSub => false
                | _ => match hs with [] => true | _ => named hs a end
                end
    | OffAll => match k with KSub => false | _ => true end
    | Fire => match k with KOnce => true | _ => false end
    | _ => false
    end.

  Definition survives (k : kind) (a : A) (later : list op) : bool :=
    forallb (fun o => negb (kills k a o)) later.

  (** Registrations of kind [k] in [past] (oldest first) that are still alive at its end. *)
  Fixpoint live (k : kind) (past : list op) : list A :=
    match past with
    | [] => []
    | o :: later =>
        match registers k o with
        | Some a => if survives k a later then a :: live k later else live k later
        | None => live k later
        end
    end.

  (** What an occurrence must run, given everything that happened before it. *)
  Definition spec_fire (past : list op) : list A :=
    live KSub past ++ live KOn past ++ live KOnce past.

  Fixpoint spec_outs_from (past : list op) (ops : list op) : list (list A) :=
    match ops with
    | [] => []
    | Fire :: ops' => spec_fire past :: spec_outs_from (past ++ [Fire]) ops'
    | o :: ops' => spec_outs_from (past ++ [o]) ops'
    end.

  Definition spec_outs (ops : list op) : list (list A) := spec_outs_from [] ops.

  (** ** eventHandlerStore: two Go maps event-name -> slice.  A map is an association list with at
      most one entry per key ([eset] drops the old entry); the code never stores an empty slice. *)
  Definition emap := list (N * list A).

  Fixpoint efind (e : N) (m : emap) : option (list A) :=
    match m with
    | [] => None
    | (k, v) :: m' => if N.eqb k e then Some v else efind e m'
    end.
  Definition eget (e : N) (m : emap) : list A :=
    match efind e m with Some v => v | None => [] end.       (* m[e] of a missing key is nil *)
  Definition edel (e : N) (m : emap) : emap := filter (fun kv => negb (N.eqb (fst kv) e)) m.
  Definition eset (e : N) (v : list A) (m : emap) : emap := (e, v) :: edel e m.

  Record estore := mkEStore { events : emap; eventsOnce : emap }.
  Definition eempty : estore := mkEStore [] [].

  (** [EOff e hs]: [hs] are the valid handler values among the arguments; the code first drops
      zero reflect.Values (a literal nil argument names nothing), so `off(e, nil)` is [EOff e []]. *)
  Inductive eop :=
  | EOn (e : N) (a : A)
  | EOnce (e : N) (a : A)
  | EOff (e : N) (hs : list A)
  | EOffAll
  | EFire (e : N).

  (** `events, ok := m[e]; if ok { events = remove(events); if len(events)==0 {delete} else {m[e]=events} }` *)
  Definition eoff_in (e : N) (hs : list A) (m : emap) : emap :=
    match efind e m with
    | Some l => match remove hs l with
                | [] => edel e m
                | l' => eset e l' m
                end
    | None => m
    end.

  (** One call; an occurrence returns (event, handlers to run). *)
  Definition estep (s : estore) (o : eop) : estore * option (N * list A) :=
    match o with
    | EOn e a => (mkEStore (eset e (eget e (events s) ++ [a]) (events s)) (eventsOnce s), None)
    | EOnce e a => (mkEStore (events s) (eset e (eget e (eventsOnce s) ++ [a]) (eventsOnce s)), None)
    | EOff e hs =>
        match hs with
        | [] => (mkEStore (edel e (events s)) (edel e (eventsOnce s)), None)   (* len(handler) == 0 *)
        | _ => (mkEStore (eoff_in e hs (events s)) (eoff_in e hs (eventsOnce s)), None)
        end
    | EOffAll => (mkEStore [] [], None)
    | EFire e => (mkEStore (events s) (edel e (eventsOnce s)),
                  Some (e, eget e (events s) ++ eget e (eventsOnce s)))
    end.

  Fixpoint erun (s : estore) (ops : list eop) : estore * list (N * list A) :=
    match ops with
    | [] => (s, [])
    | o :: ops' =>
        let '(s1, out) := estep s o in
        let '(s2, outs) := erun s1 ops' in
        (s2, match out with Some l => l :: outs | None => outs end)
    end.

  Definition eouts (ops : list eop) : list (N * list A) := snd (erun eempty ops).

  (** What the occurrences of event [e] returned, in order. *)
  Definition only (e : N) (l : list (N * list A)) : list (list A) :=
    map snd (filter (fun x => N.eqb (fst x) e) l).
  Definition eouts_e (e : N) (ops : list eop) : list (list A) := only e (eouts ops).

  (** The part of an event-registry history that concerns event [e], as a [handlerStore] history:
      calls about other events are invisible to [e]. *)
  Definition tr (e : N) (o : eop) : option op :=
    match o with
    | EOn e' a => if N.eqb e' e then Some (On a) else None
    | EOnce e' a => if N.eqb e' e then Some (Once a) else None
    | EOff e' hs => if N.eqb e' e then Some (Off hs) else None
    | EOffAll => Some OffAll
    | EFire e' => if N.eqb e' e then Some Fire else None
    end.

  Fixpoint omap {X Y} (f : X -> option Y) (l : list X) : list Y :=
    match l with
    | [] => []
    | x :: l' => match f x with Some y => y :: omap f l' | None => omap f l' end
    end.

  (** Specification of the event registry, by history: an occurrence of [e] runs what the
      handlerStore specification says for the part of the history that concerns [e]. *)
  Fixpoint espec_outs_from (past : list eop) (ops : list eop) : list (N * list A) :=
    match ops with
    | [] => []
    | EFire e :: ops' => (e, spec_fire (omap (tr e) past)) :: espec_outs_from (past ++ [EFire e]) ops'
    | o :: ops' => espec_outs_from (past ++ [o]) ops'
    end.
  Definition espec_outs (ops : list eop) : list (N * list A) := espec_outs_from [] ops.

  (** ** Concurrency: every method is one atomic step (store mutex), so an execution of several
      goroutines is a merge of their op lists that keeps each goroutine's own order. *)
  Inductive interleaving {X} : list (list X) -> list X -> Prop :=
  | il_done : forall progs, Forall (fun p => p = []) progs -> interleaving progs []
  | il_step : forall pre x p post merged,
      interleaving (pre ++ p :: post) merged ->
      interleaving (pre ++ (x :: p) :: post) (x :: merged).

  Definition is_once_of (P : A -> bool) (o : op) : bool :=
    match o with Once a => P a | _ => false end.
  Definition is_on_or_sub_of (P : A -> bool) (o : op) : bool :=
    match o with On a | OnSub a => P a | _ => false end.
End Store.

Arguments mkStore {A}. Arguments subs {A}. Arguments funcs {A}. Arguments once {A}.
Arguments empty {A}.
Arguments On {A}. Arguments Once {A}. Arguments OnSub {A}. Arguments OffSub {A}.
Arguments OffSubs {A}. Arguments Off {A}. Arguments OffAll {A}. Arguments Fire {A}.
Arguments EOn {A}. Arguments EOnce {A}. Arguments EOff {A}. Arguments EOffAll {A}.
Arguments EFire {A}.
Arguments mkEStore {A}. Arguments events {A}. Arguments eventsOnce {A}. Arguments eempty {A}.
Arguments is_once_of {A}. Arguments is_on_or_sub_of {A}.
Arguments omap {X Y}.

(** ** Public lifecycle layer (`OnX(f)` / `OnceX(f)` / `OffX(fs...)`, *_events.go).
    `OnX(f)` stores `&f`, the address of the parameter copy: a pointer no caller ever holds.
    `OffX(fs...)` passes `&_f[i]`, addresses inside its own variadic slice: fresh as well.  The
    registry compares pointers.  A slot is (pointer, function value); pointers are allocation
    numbers. *)
Definition pslot := (N * N)%type.
Definition psame (h a : pslot) : bool := N.eqb (fst h) (fst a).

Record api := mkApi { ast : store pslot; anext : N }.
Definition api_empty : api := mkApi empty 0%N.

Inductive aop :=
| AOn (f : N) | AOnce (f : N) | AOff (fs : list N) | AOffAll | AFire.

Fixpoint fresh_slots (next : N) (fs : list N) : list pslot :=
  match fs with
  | [] => []
  | f :: fs' => (next, f) :: fresh_slots (N.succ next) fs'
  end.

Definition astep (s : api) (o : aop) : api * option (list N) :=
  match o with
  | AOn f => (mkApi (fst (step pslot psame (ast s) (On (anext s, f)))) (N.succ (anext s)), None)
  | AOnce f => (mkApi (fst (step pslot psame (ast s) (Once (anext s, f)))) (N.succ (anext s)), None)
  | AOff fs =>
      (mkApi (fst (step pslot psame (ast s) (Off (fresh_slots (anext s) fs))))
             (anext s + N.of_nat (length fs))%N, None)
  | AOffAll => (mkApi (fst (step pslot psame (ast s) OffAll)) (anext s), None)
  | AFire =>
      let '(s', out) := step pslot psame (ast s) Fire in
      (mkApi s' (anext s), match out with Some l => Some (map snd l) | None => None end)
  end.

Fixpoint arun (s : api) (ops : list aop) : api * list (list N) :=
  match ops with
  | [] => (s, [])
  | o :: ops' =>
      let '(s1, out) := astep s o in
      let '(s2, outs) := arun s1 ops' in
      (s2, match out with Some l => l :: outs | None => outs end)
  end.
Definition aouts (ops : list aop) : list (list N) := snd (arun api_empty ops).

(** What the property asks of the same calls: handlers are function values, Off names them. *)
Definition aop_spec (o : aop) : op N :=
  match o with
  | AOn f => On f | AOnce f => Once f | AOff fs => Off fs | AOffAll => OffAll | AFire => Fire
  end.
(** The finding class: an Off call that names at least one handler. *)
Definition names_handler (o : aop) : bool :=
  match o with AOff (_ :: _) => true | _ => false end.

(** ** Event handlers through `OnEvent(name, f)`: a function value is (code pointer, closure
    instance); the registry compares code pointers, the property speaks of function values. *)
Definition fval := (N * N)%type.
Definition same_code (h a : fval) : bool := N.eqb (fst h) (fst a).
Definition same_fval (h a : fval) : bool := N.eqb (fst h) (fst a) && N.eqb (snd h) (snd a).

(** The history the lifecycle layer actually implements: an Off that names handlers is dropped. *)
Definition weaken (o : aop) : option (op N) :=
  if names_handler o then None else Some (aop_spec o).

(** Decidable side condition for event handlers: within the handlers of a history the code pointer
    determines the function value (no two closures of one function literal). *)
Definition eop_handlers (o : eop fval) : list fval :=
  match o with
  | EOn _ a | EOnce _ a => [a]
  | EOff _ hs => hs
  | _ => []
  end.
Definition ehandlers_of (ops : list (eop fval)) : list fval := flat_map eop_handlers ops.
Definition code_identifies (l : list fval) : bool :=
  forallb (fun h => forallb (fun a => negb (N.eqb (fst h) (fst a)) || N.eqb (snd h) (snd a)) l) l.
