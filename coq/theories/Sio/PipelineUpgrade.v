(** Sio/PipelineUpgrade.v - the sender's transport changes while traffic flows (server side,
    polling -> websocket).  Ported from engine.io/server_socket.go:

      upgradeTo: transportMu.Lock(); defer Unlock(); old := transport; transport = t; old.Discard();
                 for p in old.QueuedPackets() { if p.Type != NOOP { t.Send(p) } }
      Send:      transportMu.RLock(); defer RUnlock(); transport.Send(packets...)

    The write lock is held for the swap AND the hand-over of the packets parked in the polling
    transport, and every Send holds the read lock for its whole transport.Send: the hand-over is ONE
    step [UUpgrade] with respect to the drainer's and the control packets' sends. *)
From SioV Require Import Base.Conc Sio.Pipeline.

Section Upgrade.
  Context {data : Type}.
  Variable declared : data -> option nat.
  Variable max_atts : nat.
  Variable split : list (frame data) -> list (list (frame data)).

  Record ustate := mkU { u_tr : transport; u_base : state data }.

  Inductive uaction := UBase (a : action) | UUpgrade.

  Definition not_noop (e : epkt data) : bool :=
    match e with Ctl ty => negb (N.eqb ty 6) | Msg _ => true end.

  Definition handover (s : state data) : state data :=
    mkState (st_em s) (st_log s) (st_q s) (st_dr s) [] (st_done s)
            (st_inbox s ++ filter not_noop (st_pollq s)) (st_parser s) (st_rerr s)
            (st_finished s) (st_pending s) (st_entered s).

  Definition ustep (a : uaction) (u : ustate) : option ustate :=
    match a with
    | UBase a =>
        match step declared max_atts split (u_tr u) a (u_base u) with
        | Some b => Some (mkU (u_tr u) b)
        | None => None
        end
    | UUpgrade =>
        match u_tr u with
        | PollServer => Some (mkU WS (handover (u_base u)))
        | _ => None
        end
    end.

  Definition uinit (progs : list (list (spacket data))) : ustate := mkU PollServer (init progs).

  Definition ureachable (progs : list (list (spacket data))) : ustate -> Prop :=
    reachable ustep (fun u => u = uinit progs).
End Upgrade.

Arguments ustate : clear implicits.
